// Command sa is the static analyser deciding the semaphore-mtb properties (see /verif/DESIGN.md).
package main

import (
	"encoding/json"
	"flag"
	"fmt"
	"os"
	"os/exec"
	"path/filepath"
	"runtime/debug"
	"sort"
	"strings"
	"sync"

	"verif/sa/internal/checks"
	"verif/sa/internal/core"
	"verif/sa/internal/tf"
)

func usage() {
	fmt.Fprintln(os.Stderr, "usage: sa check <id> [--tier quick|thorough] | sa explain <replay.json> | sa list")
	os.Exit(2)
}

func main() {
	if len(os.Args) < 2 {
		usage()
	}
	switch os.Args[1] {
	case "list":
		ids := make([]string, 0)
		for id := range checks.Registry {
			ids = append(ids, id)
		}
		sort.Strings(ids)
		for _, id := range ids {
			fmt.Println(id)
		}
	case "check":
		if len(os.Args) < 3 {
			usage()
		}
		id := os.Args[2]
		fs := flag.NewFlagSet("check", flag.ExitOnError)
		tier := fs.String("tier", envOr("VERIF_TIER", "quick"), "quick|thorough")
		_ = fs.Parse(os.Args[3:])
		os.Exit(run(id, *tier))
	case "check-all":
		// runs every registered check against one load of the tree (used by the mutant matrix; not registered in MANIFEST)
		fs := flag.NewFlagSet("check-all", flag.ExitOnError)
		tier := fs.String("tier", "quick", "quick|thorough")
		_ = fs.Parse(os.Args[2:])
		prog, err := core.Load(core.LoadOpts{})
		if err != nil {
			fmt.Fprintf(os.Stderr, "LOAD-ERROR (no verdict): %v\n", err)
			os.Exit(2)
		}
		ids := make([]string, 0)
		for id := range checks.Registry {
			ids = append(ids, id)
		}
		sort.Strings(ids)
		worst := 0
		for _, id := range ids {
			code := func() (code int) {
				defer func() {
					if e := recover(); e != nil {
						fmt.Fprintf(os.Stderr, "INTERNAL-ERROR property=%s: %v\n%s\n", id, e, debug.Stack())
						code = 2
					}
				}()
				rep := core.NewReport(id, *tier)
				rep.Prog = prog
				checks.PrepareSeams(prog)
				checks.Registry[id].Run(prog, rep)
				return rep.Finish()
			}()
			fmt.Printf("RESULT %s %d\n", id, code)
			if code > worst {
				worst = code
			}
		}
		os.Exit(worst)
	case "term":
		// debugging aid: sa term <rel-pkg> <Type.Method|Func>
		if len(os.Args) < 4 {
			usage()
		}
		os.Exit(dumpTerms(os.Args[2], os.Args[3]))
	case "explain":
		if len(os.Args) < 3 {
			usage()
		}
		b, err := os.ReadFile(os.Args[2])
		if err != nil {
			fmt.Fprintln(os.Stderr, err)
			os.Exit(2)
		}
		var v struct {
			Property string `json:"property_id"`
			Tier     string `json:"tier"`
		}
		if err := json.Unmarshal(b, &v); err != nil || v.Property == "" {
			fmt.Fprintln(os.Stderr, "not a replay file")
			os.Exit(2)
		}
		fmt.Printf("re-running property %s (tier %s) on the current tree; recorded violations were:\n%s\n", v.Property, v.Tier, b)
		os.Exit(run(v.Property, "quick"))
	default:
		usage()
	}
}

func envOr(k, d string) string {
	if v := os.Getenv(k); v != "" {
		return v
	}
	return d
}

func run(id, tier string) (code int) {
	if tier != "quick" && tier != "thorough" {
		tier = "quick"
	}
	chk, ok := checks.Registry[id]
	if !ok {
		fmt.Fprintf(os.Stderr, "no check for property %s\n", id)
		return 2
	}
	defer func() {
		if e := recover(); e != nil {
			fmt.Fprintf(os.Stderr, "INTERNAL-ERROR (no verdict) property=%s: %v\n%s\n", id, e, debug.Stack())
			code = 2
		}
	}()
	prog, err := core.Load(core.LoadOpts{AllSSA: chk.NeedAllSSA && tier == "thorough"})
	if err != nil {
		fmt.Fprintf(os.Stderr, "LOAD-ERROR (no verdict) property=%s: %v\n", id, err)
		return 2
	}
	fmt.Printf("loaded %s: %d repository packages, %d functions, %d SSA instructions in %.1fs\n", prog.Dir, len(prog.Pkgs), prog.NFuncs, prog.NInstrs, prog.LoadSecs)
	rep := core.NewReport(id, tier)
	rep.Prog = prog
	checks.PrepareSeams(prog)
	chk.Run(prog, rep)
	if tier == "thorough" && os.Getenv("SA_NO_THOROUGH_EXTRAS") == "" {
		if !buildMatrix(id, chk, rep) {
			return 2
		}
		if !selfValidate(id, rep) {
			return 2
		}
	}
	return rep.Finish()
}

// buildMatrix re-runs the property's obligations on the other release targets, so that a build-constrained sibling file
// cannot hide from the analysis. A configuration whose dependencies do not type-check offline is recorded, not judged.
func buildMatrix(id string, chk checks.Check, rep *core.Report) bool {
	type cfg struct{ goos, goarch string }
	var done, skipped []string
	for _, c := range []cfg{{"linux", "arm64"}, {"darwin", "arm64"}, {"darwin", "amd64"}, {"windows", "amd64"}} {
		name := c.goos + "/" + c.goarch
		prog, err := core.Load(core.LoadOpts{GOOS: c.goos, GOARCH: c.goarch})
		if err != nil {
			skipped = append(skipped, name+": "+firstLine(err.Error()))
			continue
		}
		sub := core.NewReport(id, "quick")
		sub.Prog = prog
		ok := func() (ok bool) {
			defer func() {
				if e := recover(); e != nil {
					fmt.Fprintf(os.Stderr, "INTERNAL-ERROR (no verdict) property=%s config=%s: %v\n", id, name, e)
					ok = false
				}
			}()
			checks.PrepareSeams(prog)
			chk.Run(prog, sub)
			return true
		}()
		if !ok {
			return false
		}
		nBad := 0
		for _, ob := range sub.Obs {
			if ob.Status == core.Violation || ob.Status == core.Undecided {
				nBad++
				dup := false
				for _, o := range rep.Obs {
					if o.Rule == ob.Rule && o.Construct == ob.Construct && o.Status == ob.Status {
						dup = true // already reported under the default configuration
						break
					}
				}
				if !dup {
					ob.Detail = "[only with GOOS=" + c.goos + " GOARCH=" + c.goarch + "] " + ob.Detail
					rep.Obs = append(rep.Obs, ob)
				}
			}
		}
		for role, fl := range sub.Floors {
			if sub.Counts[role] < fl {
				nBad++
				rep.Violation("FLOOR", "["+name+"] "+role, "-", "rule matched too few sites under this build configuration (%d < %d)", sub.Counts[role], fl)
			}
		}
		if nBad == 0 {
			rep.OK("MATRIX", "build configuration "+name, "-", "%d obligations hold with GOOS=%s GOARCH=%s (%d functions)", len(sub.Obs), c.goos, c.goarch, prog.NFuncs)
		}
		done = append(done, name)
	}
	rep.Extra["build_configurations_analysed"] = append([]string{"linux/amd64 (default)"}, done...)
	rep.Extra["build_configurations_not_analysable"] = skipped
	return true
}

func firstLine(s string) string {
	if i := strings.Index(s, "\n"); i >= 0 {
		return s[:i]
	}
	return s
}

// selfValidate checks the checker (DESIGN.md section 7): every variant under selftest/<id>/ that still applies to the
// current working tree must make this property's check fail, and every negative control must leave it silent.
func selfValidate(id string, rep *core.Report) bool {
	vd := core.VerifDir()
	self, _ := os.Executable()
	type job struct {
		path    string
		wantBad bool
	}
	var jobs []job
	vs, _ := filepath.Glob(filepath.Join(vd, "selftest", id, "*.diff"))
	seeded, _ := filepath.Glob(filepath.Join(vd, "seeded", id, "*", "patch.diff"))
	vs = append(vs, seeded...)
	sort.Strings(vs)
	for _, v := range vs {
		jobs = append(jobs, job{v, true})
	}
	ns, _ := filepath.Glob(filepath.Join(vd, "selftest", "neg", "*.diff"))
	sort.Strings(ns)
	for _, n := range ns {
		base := filepath.Base(n)
		// a control named x.<ids>only.diff is a control for those properties only
		if i := strings.Index(base, "only.diff"); i >= 0 {
			scope := base[strings.LastIndex(base[:i], ".")+1 : i]
			if !strings.Contains(scope, id) {
				continue
			}
		}
		jobs = append(jobs, job{n, false})
	}
	// behaviour-preserving refactors written by independent sub-agents: run those that touch the property's anchor files
	anchors := anchorFiles(vd, id)
	as, _ := filepath.Glob(filepath.Join(vd, "selftest", "neg_agents", "*.diff"))
	sort.Strings(as)
	for _, a := range as {
		if touchesAny(a, anchors) {
			jobs = append(jobs, job{a, false})
		}
	}
	type res struct {
		j      job
		state  string // fired, silent, not-applicable, error
		detail string
	}
	results := make([]res, len(jobs))
	sem := make(chan struct{}, 6)
	var wg sync.WaitGroup
	for i, j := range jobs {
		wg.Add(1)
		go func(i int, j job) {
			defer wg.Done()
			sem <- struct{}{}
			defer func() { <-sem }()
			tmp, err := os.MkdirTemp("", "sa-variant-")
			if err != nil {
				results[i] = res{j, "error", err.Error()}
				return
			}
			defer os.RemoveAll(tmp)
			cp := exec.Command("rsync", "-a", "--exclude", ".git", core.RepoDir()+"/", tmp+"/")
			if out, err := cp.CombinedOutput(); err != nil {
				results[i] = res{j, "error", "copy failed: " + string(out)}
				return
			}
			ap := exec.Command("git", "apply", "--unsafe-paths", "--directory="+tmp, j.path)
			ap.Dir = tmp
			if out, err := ap.CombinedOutput(); err != nil {
				results[i] = res{j, "not-applicable", firstLine(string(out))}
				return
			}
			c := exec.Command(self, "check", id, "--tier", "quick")
			c.Env = append(os.Environ(), "VERIF_REPO="+tmp, "VERIF_EVIDENCE_DIR="+filepath.Join(tmp, ".evidence"), "VERIF_DIR="+vd)
			out, err := c.CombinedOutput()
			code := 0
			if ee, ok := err.(*exec.ExitError); ok {
				code = ee.ExitCode()
			} else if err != nil {
				results[i] = res{j, "error", err.Error()}
				return
			}
			switch code {
			case 0:
				results[i] = res{j, "silent", ""}
			case 1:
				d := ""
				for _, l := range strings.Split(string(out), "\n") {
					if strings.HasPrefix(l, "VIOLATION") && !strings.HasPrefix(l, "VIOLATION property=") && !strings.Contains(l, "FLOOR") {
						d = l
						break
					}
				}
				results[i] = res{j, "fired", d}
			default:
				results[i] = res{j, "not-applicable", "variant does not type-check on this tree"}
			}
		}(i, j)
	}
	wg.Wait()
	nVar, nFired, nNA, nNeg, nSilent, nNAVar := 0, 0, 0, 0, 0, 0
	var samples []string
	ok := true
	for _, r0 := range results {
		name := strings.TrimPrefix(r0.j.path, vd+"/")
		if r0.state == "error" {
			fmt.Fprintf(os.Stderr, "SELFTEST-ERROR %s: %s\n", name, r0.detail)
			ok = false
			continue
		}
		if r0.j.wantBad {
			nVar++
			switch r0.state {
			case "fired":
				nFired++
				if len(samples) < 6 {
					samples = append(samples, name+" → "+truncate(r0.detail, 220))
				}
			case "not-applicable":
				nNA++
				nNAVar++
			case "silent":
				fmt.Fprintf(os.Stderr, "SELFTEST-FAIL property=%s: variant %s applies to the current tree but the check stays silent (the checker is not to be believed)\n", id, name)
				ok = false
			}
		} else {
			nNeg++
			switch r0.state {
			case "silent":
				nSilent++
			case "not-applicable":
				nNA++
				nNeg--
			case "fired":
				fmt.Fprintf(os.Stderr, "SELFTEST-FAIL property=%s: behaviour-preserving control %s makes the check fire: %s\n", id, name, r0.detail)
				ok = false
			}
		}
	}
	rep.Extra["variants_total"] = nVar
	rep.Extra["variants_fired"] = nFired
	rep.Extra["variants_not_applicable_to_this_tree"] = nNA
	rep.Extra["negative_controls_total"] = nNeg
	rep.Extra["negative_controls_silent"] = nSilent
	rep.Extra["variant_samples"] = samples
	if ok {
		rep.OK("SELFTEST", "checker validation", "-", "%d/%d applicable seeded variants fire, %d/%d behaviour-preserving controls stay silent (%d not applicable to this tree)", nFired, nVar-nNAVar, nSilent, nNeg, nNA)
	}
	return ok
}

// anchorFiles reads the files (and their directories) a property is anchored in from properties.jsonl.
func anchorFiles(vd, id string) []string {
	b, err := os.ReadFile(filepath.Join(vd, "properties.jsonl"))
	if err != nil {
		return nil
	}
	for _, line := range strings.Split(string(b), "\n") {
		var pr struct {
			ID      string `json:"id"`
			Anchors struct {
				Files []string `json:"files"`
			} `json:"anchors"`
		}
		if json.Unmarshal([]byte(line), &pr) == nil && pr.ID == id {
			return pr.Anchors.Files
		}
	}
	return nil
}

// touchesAny: the patch changes a file that is an anchor file, lies in an anchor file's directory, or (no anchors) anything.
func touchesAny(patch string, anchors []string) bool {
	if len(anchors) == 0 {
		return true
	}
	b, err := os.ReadFile(patch)
	if err != nil {
		return false
	}
	for _, line := range strings.Split(string(b), "\n") {
		if !strings.HasPrefix(line, "+++ b/") && !strings.HasPrefix(line, "--- a/") {
			continue
		}
		f := strings.TrimSpace(line[6:])
		for _, a := range anchors {
			if f == a || filepath.Dir(f) == filepath.Dir(a) {
				return true
			}
		}
	}
	return false
}

func truncate(s string, n int) string {
	if len(s) > n {
		return s[:n] + "…"
	}
	return s
}

func dumpTerms(rel, name string) int {
	prog, err := core.Load(core.LoadOpts{})
	if err != nil {
		fmt.Fprintln(os.Stderr, err)
		return 2
	}
	if rel == "." {
		rel = ""
	}
	var fn = prog.Func(rel, name)
	if i := strings.Index(name, "."); i >= 0 {
		fn = prog.Method(rel, name[:i], name[i+1:])
	}
	if fn == nil {
		fmt.Fprintln(os.Stderr, "function not found")
		return 2
	}
	eng := tf.NewEngine(core.InRepo, 4)
	ev := eng.NewEval(fn)
	fmt.Println("RETURN:", ev.Resolve(ev.Return()))
	for _, e := range ev.Events() {
		on, inLoop := e.OnEveryPathToReturn()
		fmt.Printf("EVENT %s every-path=%v in-loop=%v: %s\n", prog.Pos(e.Instr.Pos()), on, inLoop, ev.Resolve(e.Term))
	}
	for _, l := range ev.Loops() {
		if l.IV != nil {
			fmt.Printf("LOOP %s: init=%s step=%d cond=(iv%+d %s %s) exitsOK=%v\n", l.ID(), l.Init, l.Step, l.TestOff, l.CondOp, l.Bound, l.ExitsOK)
		} else {
			fmt.Printf("LOOP %s: no induction variable\n", l.ID())
		}
	}
	return 0
}

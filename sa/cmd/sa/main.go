// Command sa is the static analyser deciding the semaphore-mtb properties (see /verif/DESIGN.md).
package main

import (
	"encoding/json"
	"flag"
	"fmt"
	"os"
	"runtime/debug"
	"sort"
	"strings"

	"verif/sa/internal/checks"
	"verif/sa/internal/core"
	"verif/sa/internal/tf"
)

func usage() {
	fmt.Fprintln(os.Stderr, "usage: sa check <id> [--tier quick|thorough] | sa explain <replay.json> | sa list")
	os.Exit(2)
}

func main() {
	if len(os.Args) < 2 {
		usage()
	}
	switch os.Args[1] {
	case "list":
		ids := make([]string, 0)
		for id := range checks.Registry {
			ids = append(ids, id)
		}
		sort.Strings(ids)
		for _, id := range ids {
			fmt.Println(id)
		}
	case "check":
		if len(os.Args) < 3 {
			usage()
		}
		id := os.Args[2]
		fs := flag.NewFlagSet("check", flag.ExitOnError)
		tier := fs.String("tier", envOr("VERIF_TIER", "quick"), "quick|thorough")
		_ = fs.Parse(os.Args[3:])
		os.Exit(run(id, *tier))
	case "check-all":
		// runs every registered check against one load of the tree (used by the mutant matrix; not registered in MANIFEST)
		fs := flag.NewFlagSet("check-all", flag.ExitOnError)
		tier := fs.String("tier", "quick", "quick|thorough")
		_ = fs.Parse(os.Args[2:])
		prog, err := core.Load(core.LoadOpts{})
		if err != nil {
			fmt.Fprintf(os.Stderr, "LOAD-ERROR (no verdict): %v\n", err)
			os.Exit(2)
		}
		ids := make([]string, 0)
		for id := range checks.Registry {
			ids = append(ids, id)
		}
		sort.Strings(ids)
		worst := 0
		for _, id := range ids {
			code := func() (code int) {
				defer func() {
					if e := recover(); e != nil {
						fmt.Fprintf(os.Stderr, "INTERNAL-ERROR property=%s: %v\n%s\n", id, e, debug.Stack())
						code = 2
					}
				}()
				rep := core.NewReport(id, *tier)
				rep.Prog = prog
				checks.Registry[id].Run(prog, rep)
				return rep.Finish()
			}()
			fmt.Printf("RESULT %s %d\n", id, code)
			if code > worst {
				worst = code
			}
		}
		os.Exit(worst)
	case "term":
		// debugging aid: sa term <rel-pkg> <Type.Method|Func>
		if len(os.Args) < 4 {
			usage()
		}
		os.Exit(dumpTerms(os.Args[2], os.Args[3]))
	case "explain":
		if len(os.Args) < 3 {
			usage()
		}
		b, err := os.ReadFile(os.Args[2])
		if err != nil {
			fmt.Fprintln(os.Stderr, err)
			os.Exit(2)
		}
		var v struct {
			Property string `json:"property_id"`
			Tier     string `json:"tier"`
		}
		if err := json.Unmarshal(b, &v); err != nil || v.Property == "" {
			fmt.Fprintln(os.Stderr, "not a replay file")
			os.Exit(2)
		}
		fmt.Printf("re-running property %s (tier %s) on the current tree; recorded violations were:\n%s\n", v.Property, v.Tier, b)
		os.Exit(run(v.Property, v.Tier))
	default:
		usage()
	}
}

func envOr(k, d string) string {
	if v := os.Getenv(k); v != "" {
		return v
	}
	return d
}

func run(id, tier string) (code int) {
	if tier != "quick" && tier != "thorough" {
		tier = "quick"
	}
	chk, ok := checks.Registry[id]
	if !ok {
		fmt.Fprintf(os.Stderr, "no check for property %s\n", id)
		return 2
	}
	defer func() {
		if e := recover(); e != nil {
			fmt.Fprintf(os.Stderr, "INTERNAL-ERROR (no verdict) property=%s: %v\n%s\n", id, e, debug.Stack())
			code = 2
		}
	}()
	prog, err := core.Load(core.LoadOpts{AllSSA: chk.NeedAllSSA && tier == "thorough"})
	if err != nil {
		fmt.Fprintf(os.Stderr, "LOAD-ERROR (no verdict) property=%s: %v\n", id, err)
		return 2
	}
	fmt.Printf("loaded %s: %d repository packages, %d functions, %d SSA instructions in %.1fs\n", prog.Dir, len(prog.Pkgs), prog.NFuncs, prog.NInstrs, prog.LoadSecs)
	rep := core.NewReport(id, tier)
	rep.Prog = prog
	chk.Run(prog, rep)
	return rep.Finish()
}

func dumpTerms(rel, name string) int {
	prog, err := core.Load(core.LoadOpts{})
	if err != nil {
		fmt.Fprintln(os.Stderr, err)
		return 2
	}
	if rel == "." {
		rel = ""
	}
	var fn = prog.Func(rel, name)
	if i := strings.Index(name, "."); i >= 0 {
		fn = prog.Method(rel, name[:i], name[i+1:])
	}
	if fn == nil {
		fmt.Fprintln(os.Stderr, "function not found")
		return 2
	}
	eng := tf.NewEngine(core.InRepo, 4)
	ev := eng.NewEval(fn)
	fmt.Println("RETURN:", ev.Resolve(ev.Return()))
	for _, e := range ev.Events() {
		on, inLoop := e.OnEveryPathToReturn()
		fmt.Printf("EVENT %s every-path=%v in-loop=%v: %s\n", prog.Pos(e.Instr.Pos()), on, inLoop, ev.Resolve(e.Term))
	}
	for _, l := range ev.Loops() {
		if l.IV != nil {
			fmt.Printf("LOOP %s: init=%s step=%d cond=(iv%+d %s %s) exitsOK=%v\n", l.ID(), l.Init, l.Step, l.TestOff, l.CondOp, l.Bound, l.ExitsOK)
		} else {
			fmt.Printf("LOOP %s: no induction variable\n", l.ID())
		}
	}
	return 0
}

package checks

import (
	"fmt"
	"go/token"
	"strings"

	"golang.org/x/tools/go/ssa"

	"verif/sa/internal/core"
)

// wholeInput classifies where the byte slice handed to a document decoder comes from: "whole" when it is the result of
// reading a stream to its end (io.ReadAll, (*bytes.Buffer).ReadFrom/io.Copy into a buffer, os.ReadFile), "partial" when it is
// one line / one token / one Read of the stream, "other" when it does not come from a stream at all (a literal, a parameter),
// and "unknown" otherwise. A document parsed from a partial read is rejected (or worse, accepted truncated) exactly when it
// contains a newline or exceeds the reader's token limit — inputs the statement does not exclude.
// paramArgs resolves a helper's parameter to the arguments its visited callers pass (set by checkWholeDocument).
var paramArgs func(*ssa.Parameter) []ssa.Value

func wholeInput(v ssa.Value, depth int) (kind, why string) {
	if depth > 8 {
		return "unknown", "value chain too long"
	}
	switch x := v.(type) {
	case *ssa.Extract:
		if c, ok := x.Tuple.(*ssa.Call); ok {
			return classifyReadCall(c, depth)
		}
	case *ssa.Call:
		return classifyReadCall(x, depth)
	case *ssa.Slice:
		// buf[:n] after a single Read
		k, w := wholeInput(x.X, depth+1)
		if k == "other" {
			if al := allocOf(x.X); al != nil {
				for _, ref := range *al.Referrers() {
					if c := callUsing(ref); c != nil {
						if callee := c.Common().StaticCallee(); callee != nil && callee.Name() == "Read" {
							return "partial", "a single Read call fills the buffer (" + callee.String() + ")"
						}
						if c.Common().IsInvoke() && c.Common().Method.Name() == "Read" {
							return "partial", "a single Read call fills the buffer"
						}
					}
				}
			}
		}
		return k, w
	case *ssa.Phi:
		kind = ""
		for _, e := range x.Edges {
			k, w := wholeInput(e, depth+1)
			if k == "partial" || k == "unknown" {
				return k, w
			}
			if kind == "" || k == "whole" {
				kind, why = k, w
			}
		}
		return kind, why
	case *ssa.Parameter:
		// a helper's parameter: what the (visited) callers pass
		if paramArgs != nil {
			kind = ""
			for _, a := range paramArgs(x) {
				k, w := wholeInput(a, depth+1)
				if k == "partial" || k == "unknown" {
					return k, w
				}
				if kind == "" || k == "whole" {
					kind, why = k, w
				}
			}
			if kind != "" {
				return kind, why
			}
		}
		return "other", "not read from a stream here"
	case *ssa.Const, *ssa.Global, *ssa.FreeVar, *ssa.MakeSlice, *ssa.Alloc:
		return "other", "not read from a stream here"
	case *ssa.UnOp:
		if x.Op == token.MUL {
			// a local spilled to memory: look at what is stored
			if al, ok := x.X.(*ssa.Alloc); ok {
				kind = ""
				for _, ref := range *al.Referrers() {
					if st, ok := ref.(*ssa.Store); ok && st.Addr == al {
						k, w := wholeInput(st.Val, depth+1)
						if k == "partial" || k == "unknown" {
							return k, w
						}
						if kind == "" || k == "whole" {
							kind, why = k, w
						}
					}
				}
				if kind != "" {
					return kind, why
				}
			}
			return "other", "loaded from memory not filled from a stream here"
		}
	case *ssa.Convert:
		return wholeInput(x.X, depth+1)
	case *ssa.ChangeType:
		return wholeInput(x.X, depth+1)
	}
	return "unknown", fmt.Sprintf("unrecognised source %s (%T)", v.Name(), v)
}

func allocOf(v ssa.Value) *ssa.Alloc {
	switch x := v.(type) {
	case *ssa.Alloc:
		return x
	case *ssa.UnOp:
		return allocOf(x.X)
	case *ssa.Slice:
		return allocOf(x.X)
	}
	return nil
}

func callUsing(in ssa.Instruction) ssa.CallInstruction {
	switch x := in.(type) {
	case ssa.CallInstruction:
		return x
	case *ssa.Slice:
		for _, r := range *x.Referrers() {
			if c, ok := r.(ssa.CallInstruction); ok {
				return c
			}
		}
	}
	return nil
}

func classifyReadCall(c *ssa.Call, depth int) (string, string) {
	com := c.Common()
	callee := com.StaticCallee()
	name := ""
	if callee != nil {
		name = callee.String()
	} else if com.IsInvoke() {
		name = "(" + com.Value.Type().String() + ")." + com.Method.Name()
	}
	switch name {
	case "io.ReadAll", "io/ioutil.ReadAll":
		if len(com.Args) == 1 {
			if k, w := readerKind(com.Args[0], depth+1); k == "partial" {
				return k, w
			}
		}
		return "whole", name
	case "os.ReadFile", "io/ioutil.ReadFile":
		return "whole", name
	case "(*bytes.Buffer).Bytes", "(*bytes.Buffer).String":
		return "whole", "bytes.Buffer contents" // filled by ReadFrom / io.Copy / writes: all complete by construction
	case "(*bufio.Scanner).Bytes", "(*bufio.Scanner).Text":
		return "partial", "one bufio.Scanner token (a single line by default, at most 64 KiB)"
	case "(*bufio.Reader).ReadLine", "(*bufio.Reader).ReadBytes", "(*bufio.Reader).ReadString", "(*bufio.Reader).ReadSlice", "(*bufio.Reader).Peek":
		return "partial", "one delimited chunk of the stream (" + name + ")"
	}
	if callee != nil && callee.Pkg != nil && core.InRepo(callee.Pkg.Pkg.Path()) && callee.Blocks != nil {
		// an in-repo reader helper: classify what it returns
		kind, why := "", ""
		for _, b := range callee.Blocks {
			if ret, ok := b.Instrs[len(b.Instrs)-1].(*ssa.Return); ok && len(ret.Results) > 0 {
				k, w := wholeInput(ret.Results[0], depth+1)
				if k == "partial" || k == "unknown" {
					return k, w + " (in " + callee.Name() + ")"
				}
				if kind == "" || k == "whole" {
					kind, why = k, w
				}
			}
		}
		if kind != "" {
			return kind, why
		}
	}
	return "unknown", "result of " + name
}

// readerKind: a reader wrapped in io.LimitReader truncates silently.
func readerKind(v ssa.Value, depth int) (string, string) {
	if depth > 8 {
		return "unknown", ""
	}
	switch x := v.(type) {
	case *ssa.MakeInterface:
		return readerKind(x.X, depth+1)
	case *ssa.ChangeInterface:
		return readerKind(x.X, depth+1)
	case *ssa.Call:
		if callee := x.Common().StaticCallee(); callee != nil {
			switch callee.String() {
			case "io.LimitReader":
				return "partial", "io.LimitReader silently truncates the stream"
			case "net/http.MaxBytesReader":
				// a fixed cap refuses every document longer than it — and the encoded size of a valid batch grows with the
				// batch size and the tree depth without bound; a configurable limit (zero = none) is the deployer's choice
				if len(x.Common().Args) == 3 {
					if k, isConst := x.Common().Args[2].(*ssa.Const); isConst && k.Value != nil {
						return "partial", "http.MaxBytesReader with the constant limit " + k.Value.String() + ": a well-formed document longer than that is refused"
					}
				}
				return readerKind(x.Common().Args[1], depth+1)
			case "bufio.NewReader", "bufio.NewReaderSize", "io.TeeReader", "io.NopCloser":
				if len(x.Common().Args) > 0 {
					for _, a := range x.Common().Args {
						if strings.Contains(a.Type().String(), "Reader") || strings.Contains(a.Type().String(), "ReadCloser") {
							return readerKind(a, depth+1)
						}
					}
				}
			}
		}
	}
	return "whole", ""
}

// checkWholeDocument: every json.Unmarshal in fn whose bytes come from a stream must be given the whole stream.
func checkWholeDocument(p *core.Program, r *core.Report, rule, owner string, fn *ssa.Function) int {
	n := 0
	var visit func(f *ssa.Function)
	seen := map[*ssa.Function]bool{}
	sites := map[*ssa.Function][]*ssa.Call{}
	type decodeSite struct {
		c *ssa.Call
		f *ssa.Function
	}
	var decodes []decodeSite
	paramArgs = func(prm *ssa.Parameter) []ssa.Value {
		var out []ssa.Value
		for i, q := range prm.Parent().Params {
			if q == prm {
				for _, c := range sites[prm.Parent()] {
					if i < len(c.Common().Args) {
						out = append(out, c.Common().Args[i])
					}
				}
			}
		}
		return out
	}
	defer func() { paramArgs = nil }()
	visit = func(f *ssa.Function) {
		if f == nil || seen[f] || f.Blocks == nil {
			return
		}
		seen[f] = true
		for _, b := range f.Blocks {
			for _, in := range b.Instrs {
				c, ok := in.(*ssa.Call)
				if !ok {
					continue
				}
				callee := c.Common().StaticCallee()
				if callee == nil {
					continue
				}
				cpkg := callee.Pkg
				if cpkg == nil && callee.Origin() != nil {
					cpkg = callee.Origin().Pkg
				}
				fpkg := f.Pkg
				if fpkg == nil && f.Origin() != nil {
					fpkg = f.Origin().Pkg
				}
				if cpkg != nil && core.InRepo(cpkg.Pkg.Path()) && cpkg == fpkg {
					// a plain in-repo helper of the action/handler (decode helpers); methods of library-like types are not followed
					if true {
						sites[callee] = append(sites[callee], c)
						visit(callee)
					}
				}
				if callee.String() != "encoding/json.Unmarshal" || len(c.Common().Args) != 2 {
					continue
				}
				decodes = append(decodes, decodeSite{c, f})
			}
		}
		for _, a := range f.AnonFuncs {
			visit(a)
		}
	}
	visit(fn)
	for _, d := range decodes {
		c, f := d.c, d.f
		{
			{
				kind, why := wholeInput(c.Common().Args[0], 0)
				cn := fmt.Sprintf("%s: document bytes of json.Unmarshal in %s", owner, f.Name())
				switch kind {
				case "whole":
					n++
					r.OK(rule, cn, p.Pos(c.Pos()), "the decoded bytes are the whole input stream (%s)", why)
				case "partial":
					n++
					r.Violation(rule, cn, p.Pos(c.Pos()), "the decoded bytes are only part of the input stream: %s — a document that is spread over several lines, or longer than the reader's limit, is cut and rejected (or decoded truncated) although it is valid", why)
				case "unknown":
					n++
					r.Undecided(rule, cn, p.Pos(c.Pos()), "cannot tell whether the decoded bytes are the whole input stream: %s", why)
				}
			}
		}
	}
	return n
}

package checks

import (
	"fmt"
	"go/token"
	"go/types"
	"sort"
	"strings"

	"golang.org/x/tools/go/ssa"

	"verif/sa/internal/core"
)

// O9.8: "no request makes the handler crash". A request controls, besides its body, a handful of integers: the declared
// Content-Length (−1 for a chunked body, up to 2^63−1 otherwise) and whatever is parsed out of headers, the URL or form
// values. Handing such an integer to an operation that panics outside a range — make, Buffer.Grow, a slice bound, an
// index — crashes the handler for some request unless both a lower and an upper bound test dominate the operation.
// Decided here as a taint rule over the functions reachable from the handler; sources, propagation and sinks are listed
// below. Integers decoded from the JSON body are not sources (their uses are governed by the shape rules O9.4/O7.*).

type reqTaint struct {
	p       *core.Program
	reqVals map[ssa.Value]bool // derived from *http.Request (pointer, fields, method results)
	ints    map[ssa.Value]bool // request-controlled integers
	why     map[ssa.Value]string
	funcs   []*ssa.Function
}

func isHTTPRequest(t types.Type) bool { return isNamed(t, "net/http", "Request") }

func checkRequestSizedOps(p *core.Program, r *core.Report, entries []*ssa.Function) {
	rt := &reqTaint{p: p, reqVals: map[ssa.Value]bool{}, ints: map[ssa.Value]bool{}, why: map[ssa.Value]string{}}
	// functions reachable from the handler through static in-repo calls and closures
	seen := map[*ssa.Function]bool{}
	var add func(f *ssa.Function)
	add = func(f *ssa.Function) {
		if f == nil || seen[f] || len(f.Blocks) == 0 || !core.InRepo(pkgPathOf(f)) {
			return
		}
		seen[f] = true
		rt.funcs = append(rt.funcs, f)
		for _, b := range f.Blocks {
			for _, in := range b.Instrs {
				switch x := in.(type) {
				case ssa.CallInstruction:
					add(x.Common().StaticCallee())
					for _, a := range x.Common().Args {
						if mc, ok := a.(*ssa.MakeClosure); ok {
							add(mc.Fn.(*ssa.Function))
						}
						if fn, ok := a.(*ssa.Function); ok {
							add(fn)
						}
					}
				case *ssa.MakeClosure:
					add(x.Fn.(*ssa.Function))
				}
			}
		}
	}
	for _, e := range entries {
		add(e)
	}
	// fixpoint
	for changed := true; changed; {
		changed = false
		mark := func(m map[ssa.Value]bool, v ssa.Value, why string) {
			if !m[v] {
				m[v] = true
				changed = true
				if why != "" && rt.why[v] == "" {
					rt.why[v] = why
				}
			}
		}
		for _, f := range rt.funcs {
			for _, prm := range f.Params {
				if isHTTPRequest(prm.Type()) {
					mark(rt.reqVals, prm, "")
				}
			}
			for _, b := range f.Blocks {
				for _, in := range b.Instrs {
					v, isVal := in.(ssa.Value)
					switch x := in.(type) {
					case *ssa.FieldAddr:
						if rt.reqVals[x.X] {
							mark(rt.reqVals, x, "")
						}
					case *ssa.Field:
						if rt.reqVals[x.X] {
							mark(rt.reqVals, x, "")
						}
					case *ssa.UnOp:
						if x.Op == token.MUL && rt.reqVals[x.X] {
							mark(rt.reqVals, x, "")
							if isIntegerType(x.Type()) {
								name := "a field of the request"
								if fa, ok := x.X.(*ssa.FieldAddr); ok {
									name = "Request." + fieldNameOf(fa)
								}
								mark(rt.ints, x, name)
							}
						}
						if x.Op == token.SUB && rt.ints[x.X] {
							mark(rt.ints, x, rt.why[x.X])
						}
					case *ssa.Convert:
						if rt.ints[x.X] && isIntegerType(x.Type()) {
							mark(rt.ints, x, rt.why[x.X])
						}
						if rt.reqVals[x.X] {
							mark(rt.reqVals, x, "")
						}
					case *ssa.ChangeType:
						if rt.ints[x.X] {
							mark(rt.ints, x, rt.why[x.X])
						}
						if rt.reqVals[x.X] {
							mark(rt.reqVals, x, "")
						}
					case *ssa.BinOp:
						switch x.Op {
						case token.ADD, token.SUB, token.MUL, token.QUO, token.SHL, token.SHR, token.REM:
							if rt.ints[x.X] {
								mark(rt.ints, x, rt.why[x.X])
							} else if rt.ints[x.Y] {
								mark(rt.ints, x, rt.why[x.Y])
							}
						}
					case *ssa.Phi:
						for _, e := range x.Edges {
							if rt.ints[e] {
								mark(rt.ints, x, rt.why[e])
							}
							if rt.reqVals[e] {
								mark(rt.reqVals, x, "")
							}
						}
					case *ssa.Extract:
						if rt.ints[x.Tuple] && x.Index == 0 && isIntegerType(x.Type()) {
							mark(rt.ints, x, rt.why[x.Tuple])
						}
						if rt.reqVals[x.Tuple] {
							mark(rt.reqVals, x, "")
						}
					case *ssa.Lookup:
						if rt.reqVals[x.X] {
							mark(rt.reqVals, x, "")
						}
					case *ssa.Index:
						if rt.reqVals[x.X] {
							mark(rt.reqVals, x, "")
						}
					case *ssa.IndexAddr:
						if rt.reqVals[x.X] {
							mark(rt.reqVals, x, "")
						}
					case *ssa.Call:
						com := x.Common()
						callee := com.StaticCallee()
						anyReq := false
						for _, a := range com.Args {
							if rt.reqVals[a] {
								anyReq = true
							}
						}
						if com.IsInvoke() && rt.reqVals[com.Value] {
							anyReq = true
						}
						if callee != nil && callee.Pkg != nil {
							pp := callee.Pkg.Pkg.Path()
							// accessors of the request and its parts: header, URL, query and form values
							if anyReq && (pp == "net/http" || pp == "net/url" || pp == "net/textproto" || pp == "strings" || pp == "mime") && isVal {
								mark(rt.reqVals, v, "")
							}
							if pp == "strconv" && anyReq && (callee.Name() == "Atoi" || strings.HasPrefix(callee.Name(), "Parse")) {
								mark(rt.ints, v, "a number parsed from the request's headers or URL")
							}
						}
						// into in-repo callees
						if callee != nil && len(callee.Blocks) > 0 && core.InRepo(pkgPathOf(callee)) {
							for k, a := range com.Args {
								if k < len(callee.Params) {
									if rt.ints[a] {
										mark(rt.ints, callee.Params[k], rt.why[a])
									}
									if rt.reqVals[a] {
										mark(rt.reqVals, callee.Params[k], "")
									}
								}
							}
						}
					case *ssa.MakeClosure:
						fn := x.Fn.(*ssa.Function)
						for k, bnd := range x.Bindings {
							if k < len(fn.FreeVars) {
								if rt.reqVals[bnd] {
									mark(rt.reqVals, fn.FreeVars[k], "")
								}
							}
						}
					}
				}
			}
		}
	}
	// sinks
	type finding struct{ pos, text string }
	var bad []finding
	nSinks, nSources := 0, 0
	for v := range rt.ints {
		if _, ok := v.(*ssa.UnOp); ok {
			nSources++
		}
	}
	for _, f := range rt.funcs {
		for _, b := range f.Blocks {
			for _, in := range b.Instrs {
				var operands []ssa.Value
				what := ""
				needLower, needUpper := true, true
				switch x := in.(type) {
				case *ssa.MakeSlice:
					operands, what = []ssa.Value{x.Len, x.Cap}, "make"
				case *ssa.MakeChan:
					operands, what = []ssa.Value{x.Size}, "make(chan)"
				case *ssa.MakeMap:
					if x.Reserve != nil {
						operands, what = []ssa.Value{x.Reserve}, "make(map)"
						needLower = false // a negative hint is ignored
					}
				case *ssa.Slice:
					operands, what = []ssa.Value{x.Low, x.High, x.Max}, "slice bound"
				case *ssa.IndexAddr:
					operands, what = []ssa.Value{x.Index}, "index"
				case *ssa.Index:
					operands, what = []ssa.Value{x.Index}, "index"
				case *ssa.Call:
					if c := x.Common().StaticCallee(); c != nil && c.Name() == "Grow" && c.Pkg != nil {
						switch c.Pkg.Pkg.Path() {
						case "bytes", "strings", "slices", "bufio":
							operands, what = x.Common().Args[len(x.Common().Args)-1:], "("+c.Pkg.Pkg.Path()+") Grow"
						}
					}
					if c := x.Common().StaticCallee(); c != nil && c.Pkg != nil && c.Pkg.Pkg.Path() == "strings" && c.Name() == "Repeat" {
						operands, what = x.Common().Args[1:], "strings.Repeat"
					}
				}
				for _, o := range operands {
					if o == nil || !rt.ints[o] {
						continue
					}
					nSinks++
					lo, hi := rt.bounded(o, in.Block())
					var miss []string
					if needLower && !lo {
						miss = append(miss, "no lower-bound test")
					}
					if needUpper && !hi {
						miss = append(miss, "no upper-bound test")
					}
					if len(miss) > 0 {
						bad = append(bad, finding{p.Pos(in.Pos()), fmt.Sprintf("%s in %s is sized by %s with %s dominating it: a request choosing that value (−1 for a chunked body, or an enormous declared length) makes the handler panic", what, core.FuncName(f), rt.why[o], strings.Join(miss, " and "))})
					}
				}
			}
		}
	}
	sort.Slice(bad, func(i, j int) bool { return bad[i].pos < bad[j].pos })
	if len(bad) == 0 {
		r.OK("O9.8", "/prove handler: operations sized by request-controlled integers", "-", "%d function(s) reachable from the handler; %d request-controlled integer source(s); %d sized operation(s), all bounded on both sides", len(rt.funcs), nSources, nSinks)
	}
	for i, b := range bad {
		r.Violation("O9.8", fmt.Sprintf("/prove handler: request-sized operation #%d", i+1), b.pos, "%s", b.text)
	}
}

func isIntegerType(t types.Type) bool {
	b, ok := t.Underlying().(*types.Basic)
	return ok && b.Info()&types.IsInteger != 0
}

func fieldNameOf(fa *ssa.FieldAddr) string {
	if pt, ok := fa.X.Type().Underlying().(*types.Pointer); ok {
		if st, ok := pt.Elem().Underlying().(*types.Struct); ok && fa.Field < st.NumFields() {
			return st.Field(fa.Field).Name()
		}
	}
	return "?"
}

// bounded: on the dominator chain of b there are branch conditions, on the side leading to b, that bound v (or the value
// it was converted from) from below and from above by something not request-controlled.
func (rt *reqTaint) bounded(v ssa.Value, b *ssa.BasicBlock) (lower, upper bool) {
	// the value with conversions stripped; two loads of the same field of the same object denote the same quantity
	root := func(x ssa.Value) string {
		for {
			switch y := x.(type) {
			case *ssa.Convert:
				x = y.X
				continue
			case *ssa.ChangeType:
				x = y.X
				continue
			case *ssa.UnOp:
				if fa, ok := y.X.(*ssa.FieldAddr); ok && y.Op == token.MUL {
					return fmt.Sprintf("field %p.%d", fa.X, fa.Field)
				}
			}
			return fmt.Sprintf("val %p", x)
		}
	}
	rv := root(v)
	same := func(x ssa.Value) bool { return root(x) == rv }
	for d := b.Idom(); d != nil; d = d.Idom() {
		iff, ok := d.Instrs[len(d.Instrs)-1].(*ssa.If)
		if !ok {
			continue
		}
		onT := (d.Succs[0] == b || d.Succs[0].Dominates(b)) && len(d.Succs[0].Preds) == 1
		onF := (d.Succs[1] == b || d.Succs[1].Dominates(b)) && len(d.Succs[1].Preds) == 1
		if onT == onF {
			continue
		}
		bo, ok := iff.Cond.(*ssa.BinOp)
		if !ok {
			continue
		}
		op := bo.Op
		x, y := bo.X, bo.Y
		if same(y) && !same(x) {
			x, y = y, x
			op = flipCmpTok(op)
		}
		if !same(x) || rt.ints[y] {
			continue
		}
		if onF {
			op = negCmpTok(op)
		}
		switch op {
		case token.GTR, token.GEQ:
			lower = true
		case token.LSS, token.LEQ:
			upper = true
		case token.EQL:
			lower, upper = true, true
		}
	}
	return
}

package checks

import (
	"fmt"
	"go/ast"
	"go/constant"
	"go/types"
	"golang.org/x/tools/go/packages"
	"sort"
	"strings"

	"golang.org/x/tools/go/ssa"

	"verif/sa/internal/core"
	"verif/sa/internal/flow"
)

func init() { Registry["C19"] = Check{Run: checkC19} }

// stdoutVar reports whether e denotes the variable os.Stdout.
func isOsVar(info *types.Info, e ast.Expr, name string) bool {
	// a seam variable initialised with the os variable (var stdout io.Writer = os.Stdout)
	if id, ok := ast.Unparen(e).(*ast.Ident); ok {
		if v, ok := info.Uses[id].(*types.Var); ok {
			if t, ok := flow.SeamTarget(v).(*types.Var); ok {
				return t.Pkg() != nil && t.Pkg().Path() == "os" && t.Name() == name
			}
		}
		return false
	}
	sel, ok := ast.Unparen(e).(*ast.SelectorExpr)
	if !ok {
		return false
	}
	v, ok := info.Uses[sel.Sel].(*types.Var)
	return ok && v.Pkg() != nil && v.Pkg().Path() == "os" && v.Name() == name
}

// stdoutWrites lists the calls in a body that write to (or construct a writer over) standard output.
func stdoutWrites(u flow.FuncUnit, lits bool) []*ast.CallExpr {
	var out []*ast.CallExpr
	var body ast.Node
	switch n := u.Node.(type) {
	case *ast.FuncDecl:
		body = n.Body
	case *ast.FuncLit:
		body = n.Body
	}
	if body == nil {
		return nil
	}
	info := u.Pkg.TypesInfo
	ast.Inspect(body, func(n ast.Node) bool {
		if _, ok := n.(*ast.FuncLit); ok && !lits {
			return false
		}
		call, ok := n.(*ast.CallExpr)
		if !ok {
			return true
		}
		if fn, ok := flow.Callee(info, call).(*types.Func); ok && fn.Pkg() != nil && fn.Pkg().Path() == "fmt" {
			switch fn.Name() {
			case "Print", "Printf", "Println":
				out = append(out, call)
				return true
			}
		}
		if id, ok := ast.Unparen(call.Fun).(*ast.Ident); ok {
			if b, ok := info.Uses[id].(*types.Builtin); ok && (b.Name() == "print" || b.Name() == "println") {
				return true // builtin print writes to stderr
			}
		}
		uses := false
		for _, a := range call.Args {
			if isOsVar(info, a, "Stdout") {
				uses = true
			}
		}
		if sel, ok := ast.Unparen(call.Fun).(*ast.SelectorExpr); ok && isOsVar(info, sel.X, "Stdout") {
			uses = true
		}
		if uses {
			out = append(out, call)
		}
		return true
	})
	return out
}

func exitCodeNonZero(info *types.Info, call *ast.CallExpr) bool {
	if fn, ok := flow.Callee(info, call).(*types.Func); ok && fn.Pkg() != nil && fn.Pkg().Path() == "os" && fn.Name() == "Exit" {
		if len(call.Args) == 1 {
			if tv, ok := info.Types[call.Args[0]]; ok && tv.Value != nil {
				if v, ok := constant.Int64Val(tv.Value); ok {
					return v != 0
				}
			}
		}
		return false // non-constant status: cannot be shown non-zero
	}
	return true
}

// modeVar finds the local variable assigned from context.String("mode") in a command action.
func modeVar(u flow.FuncUnit) (*types.Var, ast.Node) {
	info := u.Pkg.TypesInfo
	var v *types.Var
	var at ast.Node
	ast.Inspect(u.Node, func(n ast.Node) bool {
		as, ok := n.(*ast.AssignStmt)
		if !ok || len(as.Lhs) != 1 || len(as.Rhs) != 1 {
			return true
		}
		call, ok := ast.Unparen(as.Rhs[0]).(*ast.CallExpr)
		if !ok || len(call.Args) != 1 {
			return true
		}
		fn, ok := flow.Callee(info, call).(*types.Func)
		if !ok || fn.Name() != "String" || fn.Pkg() == nil || fn.Pkg().Path() != "github.com/urfave/cli/v2" {
			return true
		}
		if s, ok := constString(info, call.Args[0]); ok && s == "mode" {
			if id, ok := as.Lhs[0].(*ast.Ident); ok && v == nil {
				v, _ = info.ObjectOf(id).(*types.Var)
				at = as
			}
		}
		return true
	})
	return v, at
}

// commandFlagLits lists the flag literals of a command: those written in the command literal and those built by in-package
// constructor functions called from it (modeFlag(), …).
func commandFlagLits(c cliCommand) []*ast.CompositeLit {
	info := c.Pkg.TypesInfo
	var out []*ast.CompositeLit
	isFlagLit := func(cl *ast.CompositeLit) bool {
		tv, ok := info.Types[cl]
		if !ok {
			return false
		}
		nm := namedOf(tv.Type)
		return nm != nil && strings.HasSuffix(nm.Obj().Name(), "Flag")
	}
	seenFn := map[*types.Func]bool{}
	var scan func(root ast.Node, depth int)
	scan = func(root ast.Node, depth int) {
		ast.Inspect(root, func(n ast.Node) bool {
			switch x := n.(type) {
			case *ast.FuncLit:
				return false
			case *ast.CompositeLit:
				if x != c.Lit && isFlagLit(x) {
					out = append(out, x)
				}
			case *ast.CallExpr:
				if fn, _ := flow.Callee(info, x).(*types.Func); fn != nil && inRepoObj(fn) && !seenFn[fn] && depth < 3 {
					seenFn[fn] = true
					for _, f := range c.Pkg.Syntax {
						for _, d := range f.Decls {
							if fd, ok := d.(*ast.FuncDecl); ok && fd.Body != nil && info.Defs[fd.Name] == types.Object(fn) {
								scan(fd.Body, depth+1)
							}
						}
					}
				}
			}
			return true
		})
	}
	scan(c.Lit, 0)
	return out
}

func flagLitField(info *types.Info, cl *ast.CompositeLit, field string) (string, bool) {
	for _, el := range cl.Elts {
		if kv, ok := el.(*ast.KeyValueExpr); ok {
			if k, _ := kv.Key.(*ast.Ident); k != nil && k.Name == field {
				return constString(info, kv.Value)
			}
		}
	}
	return "", false
}

func commandHasFlag(c cliCommand, name string) bool {
	for _, cl := range commandFlagLits(c) {
		if s, ok := flagLitField(c.Pkg.TypesInfo, cl, "Name"); ok && s == name {
			return true
		}
	}
	return false
}

// flagDefault returns the constant string Value of the named string flag of a command, if it has one.
func flagDefault(c cliCommand, name string) (string, bool) {
	for _, cl := range commandFlagLits(c) {
		if s, ok := flagLitField(c.Pkg.TypesInfo, cl, "Name"); ok && s == name {
			if v, ok := flagLitField(c.Pkg.TypesInfo, cl, "Value"); ok {
				return v, true
			}
		}
	}
	return "", false
}

func isInsideFlag(c cliCommand, kv *ast.KeyValueExpr) bool {
	inside := false
	ast.Inspect(c.Lit, func(n ast.Node) bool {
		cl, ok := n.(*ast.CompositeLit)
		if !ok || cl == c.Lit {
			return true
		}
		tv, ok := c.Pkg.TypesInfo.Types[cl]
		if ok {
			if nm := namedOf(tv.Type); nm != nil && strings.HasSuffix(nm.Obj().Name(), "Flag") {
				if cl.Pos() <= kv.Pos() && kv.End() <= cl.End() {
					inside = true
				}
			}
		}
		return true
	})
	return inside
}

// modeConstants are the two accepted --mode values (anchors: server.InsertionMode / server.DeletionMode).
func modeConstants(p *core.Program) map[string]bool {
	m := map[string]bool{}
	if pk := p.Pkg("server"); pk != nil {
		for _, n := range []string{"InsertionMode", "DeletionMode"} {
			if c, ok := pk.Types.Scope().Lookup(n).(*types.Const); ok && c.Val().Kind() == constant.String {
				m[constant.StringVal(c.Val())] = true
			}
		}
	}
	return m
}

func checkC19(p *core.Program, r *core.Report) {
	r.Explanation = "Structural necessary conditions of 'the CLI pipeline composes and its exit status tells the truth': (O19.1) main turns a non-nil error of app.Run into a failing exit; " +
		"(O19.2) in every command action every truth-bearing fallible call (all error-returning calls and the ok of big.Int.SetString, minus an enumerated exception table) reaches the action's return on every CFG path where it failed; " +
		"(O19.3) in each mode-taking command, under the abstract fact 'mode is neither accepted constant' every reachable return carries a certainly non-nil error; " +
		"(O19.5) prove has exactly one stdout write site reachable through in-repo code, it prints json.Marshal of the prover's result, dominates every success return and precedes no error return; " +
		"(O19.6) the repository logger is constructed over os.Stderr, its only re-pointing function is unreachable from prove/verify/gen-test-params, and main installs it as gnark's logger before app.Run. " +
		"Decided on go/cfg + go/types for every input and failure cause that surfaces as an error value. Not decided: process exit codes of the runtime, third-party writes to stdout."
	r.Rule("O19.1", "main: the error of app.Run leads to a failing exit (zerolog Fatal / os.Exit(non-zero) / panic) on its non-nil edge")
	r.Rule("O19.2", "command actions: every truth-bearing fallible call reaches the action's return on every path where it failed")
	r.Rule("O19.3", "mode-taking commands: no success (or possibly-nil) return is reachable when mode is neither accepted value")
	r.Rule("O19.9", "verify: the checked hash is --input-hash parsed with (*big.Int).SetString(·, 0)")
	r.Rule("O19.4", "verify: the verifier's error is the action's result (instance of O19.2 on Verify* sites)")
	r.Rule("O19.5", "prove: exactly one stdout write site, printing the marshalled proof, on every success path exactly once and on no error path")
	r.Rule("O19.8", "prove and verify decode the whole of stdin (read to end of stream), not one line / token / Read of it")
	r.Rule("O19.7", "the codecs the pipeline is composed of hold their own obligations (imported verdicts of C07, C08, C10, C11, C15, C16)")
	r.Rule("O19.6", "log sinks: repository logger over stderr; re-pointing function unreachable from prove/verify/gen-test-params; gnark logger redirected before app.Run")
	r.Trusted = append(r.Trusted, "urfave/cli returns an action's error from App.Run", "zerolog Fatal exits with status 1", "encoding/json.Marshal of *prover.Proof cannot fail (writes to an in-memory buffer)")
	r.NotDecided = append(r.NotDecided, "exit codes produced by the Go runtime (panics, signals)", "writes to stdout from inside third-party libraries")

	ix := indexFuncs(p)
	cmds := cliCommands(p)
	r.Count("cli commands", len(cmds))
	r.Floor("cli commands", 8)
	mainPk := p.Pkg("")
	if mainPk == nil {
		r.Violation("O19.1", "package main", "-", "root package not found")
		return
	}
	ps := provingSystemType(p)

	// ---- O19.1
	var mainUnit flow.FuncUnit
	for _, u := range ix.all {
		if u.Pkg == mainPk && u.Node.(*ast.FuncDecl).Name.Name == "main" && u.Node.(*ast.FuncDecl).Recv == nil {
			mainUnit = u
		}
	}
	if mainUnit.Node == nil {
		r.Violation("O19.1", "main.main", "-", "function main not found")
	} else {
		info := mainPk.TypesInfo
		r.AnalysedFn("main.main")
		sites := flow.Analyse(mainUnit, flow.Config{
			Select: func(call *ast.CallExpr, callee types.Object) bool {
				fn, ok := callee.(*types.Func)
				return ok && (fn.Name() == "Run" || fn.Name() == "RunContext") && fn.Pkg() != nil && fn.Pkg().Path() == "github.com/urfave/cli/v2"
			},
			Sink: func(call *ast.CallExpr, callee types.Object) bool {
				return flow.NeverReturns(info, call) && exitCodeNonZero(info, call)
			},
			SinkNoMention: true,
			NoReturnOK:    func(call *ast.CallExpr) bool { return exitCodeNonZero(info, call) },
			NoResultFunc:  true,
		})
		for _, s := range sites {
			r.Count("app.Run sites", 1)
			if len(s.Findings) == 0 {
				r.OK("O19.1", "main.main: (*cli.App).Run error", p.Pos(s.Pos), "non-nil error leads to a failing exit on every path")
			} else {
				r.Violation("O19.1", "main.main: (*cli.App).Run error", p.Pos(s.Pos), "%s", findingsText(p, s))
			}
		}
		r.Floor("app.Run sites", 1)
	}

	// ---- O19.2 / O19.4
	type exception struct{ cmd, callee, reason string }
	exceptions := []exception{
		{"prove", "encoding/json.Marshal", "marshals *prover.Proof into an in-memory buffer; it can only fail if bytes.Buffer.Write fails, so no failing input exists"},
		{"*", "ComputeInputHashInsertion", "can only fail if binary.Write to an in-memory bytes.Buffer fails; no failing input exists"},
		{"*", "ComputeInputHashDeletion", "can only fail if binary.Write to an in-memory bytes.Buffer fails; no failing input exists"},
		{"*", "Close", "writes are unbuffered and surface their errors at Write; Close of a file adds no truth"},
		{"*", "fmt.Print*", "printing to the terminal: the (n, err) result of fmt.Print*/Fprint* is not part of the command's verdict"},
		{"*", "os.Stdout.Write*/os.Stderr.Write*", "same: a direct write to a terminal stream"},
	}
	var exNotes []string
	for _, e := range exceptions {
		exNotes = append(exNotes, fmt.Sprintf("%s/%s: %s", e.cmd, e.callee, e.reason))
	}
	r.Extra["o19_2_exceptions"] = exNotes
	ord := map[string]int{}
	// decorators of actions hand the action's verdict on: every return of the function they produce is the wrapped
	// action's result or a freshly made error
	doneDeco := map[ast.Node]bool{}
	for _, c := range cmds {
		for _, d := range c.Decorators {
			if doneDeco[d.Node] {
				continue
			}
			doneDeco[d.Node] = true
			obj, _ := d.Pkg.TypesInfo.Defs[d.Node.(*ast.FuncDecl).Name].(*types.Func)
			df := p.SSA.FuncValue(obj)
			why := ""
			if df == nil {
				why = "no SSA for the decorator"
			} else {
				why = decoratorKeepsVerdict(df)
			}
			r.Check(why == "", "O19.2", d.Name+": action decorator hands the action's error on", p.Pos(d.Node.Pos()), "every return of the produced action is the wrapped action's result or a new error", why)
		}
	}
	for _, c := range cmds {
		if c.Action.Node == nil {
			r.Violation("O19.2", "main.cmd:"+c.Name, p.Pos(c.Lit.Pos()), "command has no analysable Action function")
			continue
		}
		r.AnalysedFn(c.Action.Name)
		info := c.Pkg.TypesInfo
		cname := c.Name
		sel := func(call *ast.CallExpr, callee types.Object) bool {
			fn, _ := callee.(*types.Func)
			if fn != nil {
				full := fn.FullName()
				if full == "(*math/big.Int).SetString" {
					return true
				}
				if fn.Pkg() != nil && fn.Pkg().Path() == "fmt" && (strings.HasPrefix(fn.Name(), "Print") || strings.HasPrefix(fn.Name(), "Fprint")) {
					return false
				}
				if fn.Name() == "Close" || full == "fmt.Errorf" || full == "errors.New" {
					return false
				}
				// direct writes to the terminal streams: same exception as fmt.Print*
				if se, ok := ast.Unparen(call.Fun).(*ast.SelectorExpr); ok && (isOsVar(info, se.X, "Stdout") || isOsVar(info, se.X, "Stderr")) {
					return false
				}
				if full == "io.WriteString" && len(call.Args) > 0 && (isOsVar(info, call.Args[0], "Stdout") || isOsVar(info, call.Args[0], "Stderr")) {
					return false
				}
				if fn.Name() == "ComputeInputHashInsertion" || fn.Name() == "ComputeInputHashDeletion" {
					return false
				}
				if cname == "prove" && full == "encoding/json.Marshal" {
					return false
				}
			}
			return hasErrorResult(info, call)
		}
		sites := flow.Analyse(c.Action, flow.Config{Select: sel})
		for _, s := range sites {
			if s.Form == "noerror" || s.Form == "defer" {
				continue
			}
			rule := "O19.2"
			if fn, ok := s.Callee.(*types.Func); ok && c.Name == "verify" && ps != nil {
				if sig := fn.Type().(*types.Signature); sig.Recv() != nil && namedOf(sig.Recv().Type()) == ps && sig.Results().Len() == 1 {
					rule = "O19.4"
					r.Count("verify: verifier call sites", 1)
				}
			}
			cn := siteConstruct(c.Action, s, ord)
			r.Count("truth-bearing call sites", 1)
			if len(s.Findings) == 0 {
				r.OK(rule, cn, p.Pos(s.Pos), "failure reaches the action's return on every path (form %s)", s.Form)
			} else {
				r.Violation(rule, cn, p.Pos(s.Pos), "%s", findingsText(p, s))
			}
		}
	}
	r.Floor("truth-bearing call sites", 20)
	r.Floor("verify: verifier call sites", 2)

	// ---- O19.3
	accepted := modeConstants(p)
	if len(accepted) != 2 {
		r.Violation("O19.3", "server mode constants", "-", "cannot resolve the two accepted mode constants server.InsertionMode/server.DeletionMode")
	}
	for _, c := range cmds {
		if c.Action.Node == nil || !commandHasFlag(c, "mode") {
			continue
		}
		r.Count("mode-taking commands", 1)
		// a missing --mode must stay distinguishable from a valid one: the flag may not default to an accepted value
		if def, has := flagDefault(c, "mode"); has && accepted[def] {
			r.Violation("O19.3", "main.cmd:"+c.Name+": --mode has no valid default", p.Pos(c.Lit.Pos()), "the mode flag defaults to %q: a missing mode silently selects a circuit instead of ending in a non-zero exit", def)
		} else {
			r.OK("O19.3", "main.cmd:"+c.Name+": --mode has no valid default", p.Pos(c.Lit.Pos()), "no default value among the accepted modes")
		}
		cn := "main.cmd:" + c.Name + ": invalid-mode paths"
		act := actionSSA(p, c)
		if act == nil {
			r.Undecided("O19.3", cn, p.Pos(c.Lit.Pos()), "cannot find the SSA function of the command's action")
			continue
		}
		mw := runModeFlow(p, act, accepted)
		if mw.overflow {
			r.Undecided("O19.3", cn, p.Pos(act.Pos()), "path enumeration of the action exceeded its budget")
			continue
		}
		ends := mw.Ends()
		if len(ends) == 0 {
			r.Undecided("O19.3", cn, p.Pos(c.Lit.Pos()), "command declares a --mode flag but no path of its action reads context.String(\"mode\"): idiom not recognised")
			continue
		}
		bad := []string{}
		nfail := 0
		for _, e := range ends {
			if e.Class == "fail" {
				nfail++
			} else {
				bad = append(bad, fmt.Sprintf("%s return at %s", e.Class, p.Pos(e.Pos)))
			}
		}
		sort.Strings(bad)
		if len(bad) == 0 {
			r.OK("O19.3", cn, p.Pos(act.Pos()), "all %d ends reachable with an unknown mode carry a certainly non-nil error (paths followed into %d helper(s))", nfail, len(mw.inlined))
		} else {
			r.Violation("O19.3", cn, p.Pos(act.Pos()), "with mode outside {insertion, deletion} the action can end without a failing status: %s", strings.Join(bad, "; "))
		}
	}
	r.Floor("mode-taking commands", 4)

	// ---- O19.9: the hash verify checks against is --input-hash parsed with SetString(·, 0): that grammar accepts every
	// spelling the tool itself emits ("0x"+Text(16) drops leading zero digits; decimal) — a stricter parser (hex.Decode
	// wants an even number of digits) makes verify exit non-zero on a valid proof for the hashes it cannot read
	for _, c := range cmds {
		if c.Name != "verify" || c.Action.Node == nil {
			continue
		}
		act := actionSSA(p, c)
		if act == nil {
			continue
		}
		psT := provingSystemType(p)
		var fns []*ssa.Function
		var coll func(f *ssa.Function)
		coll = func(f *ssa.Function) {
			fns = append(fns, f)
			for _, a := range f.AnonFuncs {
				coll(a)
			}
		}
		coll(act)
		nSites := 0
		for _, f := range fns {
			for _, b := range f.Blocks {
				for _, in := range b.Instrs {
					vc, ok := in.(*ssa.Call)
					if !ok || vc.Common().StaticCallee() == nil {
						continue
					}
					callee := vc.Common().StaticCallee()
					if callee.Signature.Recv() == nil || psT == nil || namedOf(callee.Signature.Recv().Type()) != psT || callee.Signature.Results().Len() != 1 {
						continue
					}
					var hashArg ssa.Value
					for _, a := range vc.Common().Args[1:] {
						if isBigIntType(a.Type()) {
							hashArg = a
						}
					}
					if hashArg == nil {
						continue
					}
					nSites++
					cn := "main.cmd:verify: --input-hash reaches " + callee.Name() + " through SetString(·, 0)"
					ld, isLoad := hashArg.(*ssa.UnOp)
					var obj *ssa.Alloc
					scanFns := fns
					if isLoad {
						obj, _ = ld.X.(*ssa.Alloc)
						if obj == nil {
							// a *big.Int produced by an in-repo helper (parseHash(s) (*big.Int, error)): the object it allocates
							if a := allocBehind(ld.X, 0, 0); a != nil {
								obj = a
								scanFns = append(append([]*ssa.Function{}, fns...), a.Parent())
							} else if a, ok := bigObject(ld.X, 0).(*ssa.Alloc); ok {
								// h, ok := new(big.Int).SetString(…): the receiver-returning method's object
								obj = a
							}
						}
					}
					if obj == nil {
						r.Undecided("O19.9", cn, p.Pos(vc.Pos()), "the hash handed to the verifier is not a big.Int this command allocates")
						continue
					}
					var probs []string
					nSet := 0
					for _, g := range scanFns {
						for _, gb := range g.Blocks {
							for _, gi := range gb.Instrs {
								mc, ok := gi.(*ssa.Call)
								if !ok || mc.Common().StaticCallee() == nil || len(mc.Common().Args) == 0 || bigObject(mc.Common().Args[0], 0) != ssa.Value(obj) {
									continue
								}
								m := mc.Common().StaticCallee()
								if m.Signature.Recv() == nil || !isBigIntType(m.Signature.Recv().Type()) || bigIntReadOnly[m.Name()] {
									continue
								}
								if m.Name() != "SetString" || len(mc.Common().Args) != 3 {
									probs = append(probs, "the hash is set with "+m.Name()+" at "+p.Pos(mc.Pos())+", not parsed with SetString")
									continue
								}
								nSet++
								if k, ok := mc.Common().Args[2].(*ssa.Const); !ok || k.Value == nil || constantInt(k.Value) != 0 {
									probs = append(probs, "SetString at "+p.Pos(mc.Pos())+" does not use base 0 (the tool prints 0x-prefixed hexadecimal; decimal must stay accepted)")
								}
								src, _ := mc.Common().Args[1].(*ssa.Call)
								if src == nil {
									for _, o := range ssaOriginsIP(p, mc.Common().Args[1], func(*ssa.Function) bool { return true }) {
										if c2, ok := o.V.(*ssa.Call); ok {
											src = c2
										}
									}
								}
								okSrc := false
								if src != nil && src.Common().StaticCallee() != nil && src.Common().StaticCallee().Name() == "String" && len(src.Common().Args) == 2 && isCLIContext(src.Common().Args[0].Type()) {
									if k, ok := src.Common().Args[1].(*ssa.Const); ok && k.Value != nil && k.Value.Kind() == constant.String && constant.StringVal(k.Value) == "input-hash" {
										okSrc = true
									}
								}
								if !okSrc {
									probs = append(probs, "SetString at "+p.Pos(mc.Pos())+" does not parse context.String(\"input-hash\") itself")
								}
							}
						}
					}
					if nSet == 0 && len(probs) == 0 {
						probs = append(probs, "the hash is never parsed from --input-hash")
					}
					r.Check(len(probs) == 0, "O19.9", cn, p.Pos(vc.Pos()), "the verified hash is inputHash.SetString(context.String(\"input-hash\"), 0)", strings.Join(probs, "; "))
				}
			}
		}
		r.Count("verify hash sites", nSites)
		r.Floor("verify hash sites", 1)
	}
	// ---- O19.5
	var prove, verify, gen *cliCommand
	for i := range cmds {
		switch cmds[i].Name {
		case "prove":
			prove = &cmds[i]
		case "verify":
			verify = &cmds[i]
		case "gen-test-params":
			gen = &cmds[i]
		}
	}
	if prove == nil || prove.Action.Node == nil {
		r.Violation("O19.5", "main.cmd:prove", "-", "command prove not found")
	} else {
		checkProveStdout(p, r, ix, *prove, ps)
	}

	// ---- O19.6
	checkLogSinks(p, r, ix, mainUnit, []*cliCommand{prove, verify, gen})
	// ---- O19.8: the commands that read a document from stdin read all of it
	nDocs := 0
	for _, c := range []*cliCommand{prove, verify} {
		if c == nil || c.Action.Node == nil {
			continue
		}
		if fn := actionSSA(p, *c); fn != nil {
			nDocs += checkWholeDocument(p, r, "O19.8", "main.cmd:"+c.Name, fn)
		}
	}
	r.Count("stdin documents decoded", nDocs)
	r.Floor("stdin documents decoded", 3)
	// ---- O19.7: the pipeline composes through files and pipes only if the codecs it is made of do
	importVerdicts(p, r, "O19.7", "setup | gen-test-params | prove | verify exchange keys files, parameter JSON, helper hashes and proof JSON, and verify's exit status is the verifier wrapper's verdict", "C07", "C08", "C10", "C11", "C15", "C16")
}

func checkProveStdout(p *core.Program, r *core.Report, ix *funcIndex, prove cliCommand, ps *types.Named) {
	act := actionSSA(p, prove)
	if act == nil {
		r.Violation("O19.5", "main.cmd:prove: stdout write sites", p.Pos(prove.Lit.Pos()), "cannot locate the action of prove in the SSA program")
		return
	}
	// every path of the action (and of the in-repo functions with stdout writes it calls), with the error's nil-ness at
	// its end and the stdout writes executed on the way: two sites on exclusive branches of a printing helper are one
	// write per path; one site in a loop, or a second site on the same path, is two
	cfg := &stdoutCfg{isWrite: isStdoutWriteSSA, has: stdoutFunctions(p)}
	mw := runStdoutFlow(p, act, cfg)
	// the code the command can reach: the action, its closures, and the followed functions
	within := map[*ssa.Function]bool{}
	var addFn func(f *ssa.Function)
	addFn = func(f *ssa.Function) {
		if f == nil || within[f] {
			return
		}
		within[f] = true
		for _, a := range f.AnonFuncs {
			addFn(a)
		}
		for _, b := range f.Blocks {
			for _, in := range b.Instrs {
				if c, ok := in.(ssa.CallInstruction); ok {
					if sc := c.Common().StaticCallee(); sc != nil && len(sc.Blocks) > 0 && core.InRepo(pkgPathOf(sc)) {
						addFn(sc)
					}
				}
			}
		}
	}
	addFn(act)
	var siteCalls []*ssa.Call
	for f := range within {
		for _, b := range f.Blocks {
			for _, in := range b.Instrs {
				if c, ok := in.(*ssa.Call); ok && isStdoutWriteSSA(c) {
					siteCalls = append(siteCalls, c)
				}
			}
		}
	}
	sort.Slice(siteCalls, func(i, j int) bool { return siteCalls[i].Pos() < siteCalls[j].Pos() })
	r.Count("prove stdout sites", len(siteCalls))
	r.Floor("prove stdout sites", 1)
	if len(siteCalls) == 0 {
		r.Violation("O19.5", "main.cmd:prove: stdout write sites", p.Pos(prove.Lit.Pos()), "no stdout write is reachable from prove through in-repo code: the proof is never printed")
		return
	}
	firstPos := p.Pos(siteCalls[0].Pos())
	if mw.overflow {
		r.Undecided("O19.5", "main.cmd:prove: stdout write on paths", firstPos, "too many paths through the action to enumerate")
		return
	}
	var bad, und []string
	seenBad := map[string]bool{}
	nSucc := 0
	for _, e := range cfg.ends {
		var msg string
		switch e.Class {
		case "success":
			nSucc++
			if len(e.Writes) == 0 {
				msg = "success return at " + p.Pos(e.Pos) + " is reachable without writing the proof"
			} else if len(e.Writes) > 1 {
				msg = fmt.Sprintf("success return at %s is reachable after %d stdout writes (%s …): stdout no longer holds exactly the proof", p.Pos(e.Pos), len(e.Writes), p.Pos(e.Writes[0]))
			}
		case "fail":
			if len(e.Writes) > 0 {
				msg = "error return at " + p.Pos(e.Pos) + " is reachable after the proof was written to stdout at " + p.Pos(e.Writes[0])
			}
		default:
			u := fmt.Sprintf("the action's result at %s is neither certainly nil nor certainly an error (%d stdout write(s) before it)", p.Pos(e.Pos), len(e.Writes))
			if !seenBad[u] {
				seenBad[u] = true
				und = append(und, u)
			}
		}
		if msg != "" && !seenBad[msg] {
			seenBad[msg] = true
			bad = append(bad, msg)
		}
	}
	if nSucc == 0 {
		bad = append(bad, "no success return found")
	}
	sort.Strings(bad)
	switch {
	case len(bad) > 0:
		r.Violation("O19.5", "main.cmd:prove: stdout write on paths", firstPos, "%s", strings.Join(bad, "; "))
	case len(und) > 0:
		r.Undecided("O19.5", "main.cmd:prove: stdout write on paths", firstPos, "%s", strings.Join(und, "; "))
	default:
		r.OK("O19.5", "main.cmd:prove: stdout write on paths", firstPos, "%d path end(s) enumerated over %d stdout write site(s): every success path writes exactly once, no error path writes", len(cfg.ends), len(siteCalls))
	}
	// printed value, on SSA: at every site, every origin of what is printed is the byte result of json.Marshal, and every
	// origin of what that call marshals is the result of a proving-system method (through helpers, generic or not)
	isPSMethod := func(f *ssa.Function) bool {
		if o := f.Origin(); o != nil {
			f = o
		}
		return ps != nil && f.Signature.Recv() != nil && namedOf(f.Signature.Recv().Type()) == ps
	}
	for _, wcall := range siteCalls {
		okChain := false
		detail := "printed value does not derive from json.Marshal of the prover's result"
		var marshals []*ssa.Call
		okPrinted := true
		for _, a := range wcall.Common().Args {
			if isStdoutValue(a) {
				continue
			}
			for _, o := range ssaOriginsIPWithin(p, a, nil, within) {
				c, isCall := o.V.(*ssa.Call)
				if isCall && c.Common().StaticCallee() != nil && c.Common().StaticCallee().String() == "encoding/json.Marshal" && o.Index == 0 {
					marshals = append(marshals, c)
					continue
				}
				if k, isConst := o.V.(*ssa.Const); isConst && k.Value != nil {
					// a line terminator / indentation after the document is part of "one JSON proof on stdout"
					if k.Value.Kind() == constant.String && strings.TrimSpace(constant.StringVal(k.Value)) == "" {
						continue
					}
					if k.Value.Kind() == constant.Int {
						if n, exact := constant.Int64Val(k.Value); exact && (n == 10 || n == 13 || n == 32 || n == 9) {
							continue
						}
					}
					okPrinted = false
					detail = "a constant is printed along with the proof: " + k.Value.String()
					continue
				}
				okPrinted = false
				detail = fmt.Sprintf("printed value has an origin other than json.Marshal: %s", o.V.String())
			}
		}
		if okPrinted && len(marshals) > 0 {
			okChain = true
			for _, m := range marshals {
				arg := m.Common().Args[0]
				n := 0
				for _, o := range ssaOriginsIPWithin(p, arg, isPSMethod, within) {
					c, isCall := o.V.(*ssa.Call)
					if isCall && c.Common().StaticCallee() != nil && isPSMethod(c.Common().StaticCallee()) && o.Index <= 0 {
						n++
						continue
					}
					okChain = false
					detail = fmt.Sprintf("what json.Marshal encodes at %s has an origin other than a proving-system call: %s", p.Pos(m.Pos()), o.V.String())
				}
				if okChain && n == 0 {
					okChain = false
					detail = fmt.Sprintf("what json.Marshal encodes at %s does not come from a proving-system call", p.Pos(m.Pos()))
				}
				if okChain {
					detail = fmt.Sprintf("prints json.Marshal of a value whose %d origin(s) are proving-system calls", n)
					t := arg.Type()
					if mi, isMI := arg.(*ssa.MakeInterface); isMI {
						t = mi.X.Type()
					}
					if !hasMethod(t, "MarshalJSON") {
						okChain = false
						detail = fmt.Sprintf("json.Marshal argument of type %s does not have MarshalJSON in its method set: the default struct encoding would be printed", t)
					}
				}
			}
		}
		cn := "main.cmd:prove: printed value"
		if len(siteCalls) > 1 {
			cn = fmt.Sprintf("main.cmd:prove: printed value (%s)", core.FuncName(wcall.Parent()))
		}
		r.Check(okChain, "O19.5", cn, p.Pos(wcall.Pos()), detail, detail)
	}
}

// hasMethod reports whether encoding/json would find method `name` for a value of static type t passed in an interface:
// it looks at t and, for pointers, at every dereference level (json follows pointers), but never takes an address.
func hasMethod(t types.Type, name string) bool {
	for {
		ms := types.NewMethodSet(t)
		for i := 0; i < ms.Len(); i++ {
			if ms.At(i).Obj().Name() == name {
				return true
			}
		}
		pt, ok := types.Unalias(t).(*types.Pointer)
		if !ok {
			return false
		}
		t = pt.Elem()
	}
}

func withinNode(outer ast.Node, inner ast.Node) bool {
	return outer.Pos() <= inner.Pos() && inner.End() <= outer.End()
}

func returnIsNilError(info *types.Info, ret *ast.ReturnStmt) bool {
	if len(ret.Results) == 0 {
		return false
	}
	for _, x := range ret.Results {
		if !isNilIdentExpr(info, x) {
			tv, ok := info.Types[x]
			if ok && (types.Identical(tv.Type, types.Universe.Lookup("error").Type()) || implementsError(tv.Type)) {
				return false
			}
		}
	}
	return true
}

func implementsError(t types.Type) bool {
	return types.Implements(t, types.Universe.Lookup("error").Type().Underlying().(*types.Interface))
}

func isNilIdentExpr(info *types.Info, e ast.Expr) bool {
	id, ok := ast.Unparen(e).(*ast.Ident)
	if !ok {
		return false
	}
	_, isNil := info.ObjectOf(id).(*types.Nil)
	return isNil
}

func checkLogSinks(p *core.Program, r *core.Report, ix *funcIndex, mainUnit flow.FuncUnit, quiet []*cliCommand) {
	lp := p.Pkg("logging")
	if lp == nil {
		r.Violation("O19.6", "package logging", "-", "package logging not found (anchor logging.Logger)")
		return
	}
	loggerFn, _ := lp.Types.Scope().Lookup("Logger").(*types.Func)
	if loggerFn == nil {
		r.Violation("O19.6", "logging.Logger", "-", "anchor function logging.Logger not found")
		return
	}
	// the package-level variable whose address Logger returns
	var logVar *types.Var
	if u, ok := ix.decls[loggerFn]; ok {
		r.AnalysedFn(u.Name)
		ast.Inspect(u.Node, func(n ast.Node) bool {
			if ret, ok := n.(*ast.ReturnStmt); ok {
				for _, x := range ret.Results {
					ast.Inspect(x, func(m ast.Node) bool {
						if id, ok := m.(*ast.Ident); ok {
							if v, ok := lp.TypesInfo.Uses[id].(*types.Var); ok && v.Parent() == lp.Types.Scope() {
								logVar = v
							}
						}
						return true
					})
				}
			}
			return true
		})
	}
	if logVar == nil {
		r.Undecided("O19.6", "logging.Logger: logger variable", "-", "Logger does not return (the address of) a package-level variable: idiom not recognised")
		return
	}
	// initialiser
	var initExpr ast.Expr
	for _, f := range lp.Syntax {
		for _, d := range f.Decls {
			gd, ok := d.(*ast.GenDecl)
			if !ok {
				continue
			}
			for _, sp := range gd.Specs {
				vs, ok := sp.(*ast.ValueSpec)
				if !ok {
					continue
				}
				for i, nm := range vs.Names {
					if lp.TypesInfo.Defs[nm] == logVar && i < len(vs.Values) {
						initExpr = vs.Values[i]
					}
				}
			}
		}
	}
	if initExpr == nil {
		r.Violation("O19.6", "logging."+logVar.Name()+": initialiser", p.Pos(logVar.Pos()), "logger variable has no initialiser: its sink cannot be decided")
	} else {
		usesOut, usesErr := false, false
		// the initialiser expression and the in-repo constructor functions it calls (newLogger(consoleOutput()), …)
		seenFn := map[*types.Func]bool{}
		var scan func(root ast.Node, info *types.Info, depth int)
		scan = func(root ast.Node, info *types.Info, depth int) {
			ast.Inspect(root, func(n ast.Node) bool {
				if e, ok := n.(ast.Expr); ok {
					if isOsVar(info, e, "Stdout") {
						usesOut = true
					}
					if isOsVar(info, e, "Stderr") {
						usesErr = true
					}
				}
				if call, ok := n.(*ast.CallExpr); ok && depth < 4 {
					if fn, _ := flow.Callee(info, call).(*types.Func); fn != nil && inRepoObj(fn) && !seenFn[fn.Origin()] {
						seenFn[fn.Origin()] = true
						if u, ok := ix.decls[fn.Origin()]; ok {
							scan(u.Node, u.Pkg.TypesInfo, depth+1)
						}
					}
				}
				return true
			})
		}
		scan(initExpr, lp.TypesInfo, 0)
		r.Check(usesErr && !usesOut, "O19.6", "logging."+logVar.Name()+": initialiser", p.Pos(initExpr.Pos()),
			"logger is constructed over os.Stderr", fmt.Sprintf("logger initialiser references os.Stdout=%v os.Stderr=%v: log lines would mix into prove's stdout", usesOut, usesErr))
		r.Count("logger initialiser", 1)
	}
	r.Floor("logger initialiser", 1)
	// writers of the logger variable
	var writers []flow.FuncUnit
	for _, u := range ix.all {
		if u.Pkg != lp {
			continue
		}
		w := false
		ast.Inspect(u.Node, func(n ast.Node) bool {
			if as, ok := n.(*ast.AssignStmt); ok {
				for _, l := range as.Lhs {
					if id, ok := ast.Unparen(l).(*ast.Ident); ok && lp.TypesInfo.ObjectOf(id) == logVar {
						w = true
					}
				}
			}
			return true
		})
		if w {
			writers = append(writers, u)
		}
	}
	r.Count("logger writers inventoried", len(writers))
	isWriter := map[ast.Node]string{}
	for _, w := range writers {
		isWriter[w.Node] = w.Name
	}
	for _, c := range quiet {
		if c == nil || c.Action.Node == nil {
			continue
		}
		var hit []string
		// what runs when the command is invoked: its action, its own Before/After hooks, and the application-level hooks
		// (a global option handled in cli.App.Before runs for every command)
		roots := []flow.FuncUnit{c.Action}
		roots = append(roots, hookUnits(c.Pkg, c.Lit)...)
		roots = append(roots, c.Decorators...)
		roots = append(roots, appHookUnits(p)...)
		for _, u := range ix.closure(roots) {
			if n, ok := isWriter[u.Node]; ok {
				hit = append(hit, n)
			}
		}
		r.Check(len(hit) == 0, "O19.6", "main.cmd:"+c.Name+": logger re-pointing unreachable", p.Pos(c.Lit.Pos()),
			fmt.Sprintf("none of the %d function(s) that re-point the logger is reachable", len(writers)),
			fmt.Sprintf("reaches %s, which re-points the repository logger (to stdout)", strings.Join(hit, ", ")))
	}
	// main installs the repository logger as gnark's logger before app.Run
	if mainUnit.Node != nil {
		info := mainUnit.Pkg.TypesInfo
		g := flow.NewGraph(mainUnit)
		var setCall, runCall *ast.CallExpr
		ast.Inspect(mainUnit.Node, func(n ast.Node) bool {
			if _, ok := n.(*ast.FuncLit); ok {
				return false
			}
			if call, ok := n.(*ast.CallExpr); ok {
				if fn, ok := flow.Callee(info, call).(*types.Func); ok && fn.Pkg() != nil {
					if fn.Pkg().Path() == "github.com/consensys/gnark/logger" && fn.Name() == "Set" {
						setCall = call
					}
					if fn.Pkg().Path() == "github.com/urfave/cli/v2" && (fn.Name() == "Run" || fn.Name() == "RunContext") {
						runCall = call
					}
				}
			}
			return true
		})
		cn := "main.main: gnark logger redirected before app.Run"
		switch {
		case runCall == nil:
			r.Violation("O19.6", cn, "-", "app.Run call not found")
		case setCall == nil:
			r.Violation("O19.6", cn, p.Pos(runCall.Pos()), "gnark's logger is never set: its default writes to stdout and logs during Prove, polluting prove's output")
		default:
			ls, ok1 := g.Locate(setCall)
			lr, ok2 := g.Locate(runCall)
			usesRepoLogger := false
			ast.Inspect(setCall, func(n ast.Node) bool {
				if c, ok := n.(*ast.CallExpr); ok {
					if fn, ok := flow.Callee(info, c).(*types.Func); ok && fn == loggerFn {
						usesRepoLogger = true
					}
				}
				return true
			})
			if !ok1 || !ok2 {
				r.Undecided("O19.6", cn, p.Pos(setCall.Pos()), "calls not located in the CFG")
			} else {
				r.Check(usesRepoLogger && g.LocDominates(ls, lr), "O19.6", cn, p.Pos(setCall.Pos()),
					"logger.Set(logging.Logger()) dominates app.Run",
					fmt.Sprintf("logger.Set uses repository logger=%v, dominates app.Run=%v", usesRepoLogger, g.LocDominates(ls, lr)))
			}
		}
	}
}

// hookUnits returns the Before / After (and similar) hook functions of a cli.App or cli.Command literal.
func hookUnits(pk *packages.Package, lit *ast.CompositeLit) []flow.FuncUnit {
	var out []flow.FuncUnit
	if lit == nil {
		return nil
	}
	for _, el := range lit.Elts {
		kv, ok := el.(*ast.KeyValueExpr)
		if !ok {
			continue
		}
		k, _ := kv.Key.(*ast.Ident)
		if k == nil {
			continue
		}
		switch k.Name {
		case "Before", "After", "OnUsageError", "CommandNotFound", "ExitErrHandler":
		default:
			continue
		}
		if fl, ok := ast.Unparen(kv.Value).(*ast.FuncLit); ok {
			out = append(out, flow.FuncUnit{Pkg: pk, Node: fl, Name: "main.hook:" + k.Name})
		} else if id, ok := ast.Unparen(kv.Value).(*ast.Ident); ok {
			if fn, ok := pk.TypesInfo.Uses[id].(*types.Func); ok {
				for _, ff := range pk.Syntax {
					for _, d := range ff.Decls {
						if fd, ok := d.(*ast.FuncDecl); ok && pk.TypesInfo.Defs[fd.Name] == types.Object(fn) {
							out = append(out, flow.FuncUnit{Pkg: pk, Node: fd, Name: "main.hook:" + k.Name})
						}
					}
				}
			}
		}
	}
	return out
}

// appHookUnits: the hooks of every cli.App literal of package main.
func appHookUnits(p *core.Program) []flow.FuncUnit {
	pk := p.Pkg("")
	if pk == nil {
		return nil
	}
	var out []flow.FuncUnit
	for _, f := range pk.Syntax {
		ast.Inspect(f, func(n ast.Node) bool {
			if cl, ok := n.(*ast.CompositeLit); ok {
				if tv, ok := pk.TypesInfo.Types[cl]; ok && isNamed(tv.Type, "github.com/urfave/cli/v2", "App") {
					out = append(out, hookUnits(pk, cl)...)
				}
			}
			return true
		})
	}
	return out
}

// isOsVarSSA: v is (a load of) os.Stdout.
func isOsVarSSA(v ssa.Value) bool {
	if mi, ok := v.(*ssa.MakeInterface); ok {
		v = mi.X
	}
	if ld, ok := v.(*ssa.UnOp); ok {
		if g, ok := ld.X.(*ssa.Global); ok && g.Pkg != nil && g.Pkg.Pkg.Path() == "os" {
			return true
		}
		if g, ok := ld.X.(*ssa.Global); ok {
			if v, ok := g.Object().(*types.Var); ok {
				if t, ok := flow.SeamTarget(v).(*types.Var); ok && t.Pkg() != nil && t.Pkg().Path() == "os" {
					return true
				}
			}
		}
	}
	return false
}

// decoratorKeepsVerdict: deco(action) returns a closure; each of the closure's returns yields the result of calling the
// captured action, or a certainly non-nil error.
func decoratorKeepsVerdict(deco *ssa.Function) string {
	var actionParam *ssa.Parameter
	for _, prm := range deco.Params {
		if _, ok := prm.Type().Underlying().(*types.Signature); ok {
			actionParam = prm
		}
	}
	if actionParam == nil {
		return "the decorator takes no action"
	}
	n := 0
	for _, b := range deco.Blocks {
		ret, ok := b.Instrs[len(b.Instrs)-1].(*ssa.Return)
		if !ok || len(ret.Results) != 1 {
			continue
		}
		v := ret.Results[0]
		for {
			if ct, ok := v.(*ssa.ChangeType); ok {
				v = ct.X
				continue
			}
			break
		}
		if v == ssa.Value(actionParam) {
			n++
			continue // returns the action unchanged
		}
		mc, ok := v.(*ssa.MakeClosure)
		if !ok {
			return "the decorator returns something other than a closure over the action"
		}
		cl := mc.Fn.(*ssa.Function)
		for _, cb := range cl.Blocks {
			cr, ok := cb.Instrs[len(cb.Instrs)-1].(*ssa.Return)
			if !ok || len(cr.Results) != 1 {
				continue
			}
			n++
			if k, isConst := cr.Results[0].(*ssa.Const); isConst && k.Value == nil {
				return "the produced action can return nil without returning the wrapped action's result"
			}
			for _, o := range ssaOrigins(cr.Results[0], nil) {
				c, isCall := o.V.(*ssa.Call)
				if !isCall {
					return "the produced action returns " + o.V.String() + ", not the wrapped action's result"
				}
				if sc := c.Common().StaticCallee(); sc != nil {
					if full := sc.String(); full == "fmt.Errorf" || full == "errors.New" {
						continue
					}
					return "the produced action returns the result of " + sc.String() + ", not of the wrapped action"
				}
				// dynamic call: through the captured action
				okAction := false
				val := c.Common().Value
				if ld, isLoad := val.(*ssa.UnOp); isLoad {
					val = ld.X
				}
				for k, fv := range cl.FreeVars {
					if ssa.Value(fv) == val && k < len(mc.Bindings) {
						bv := mc.Bindings[k]
						if bv == ssa.Value(actionParam) {
							okAction = true
						}
						if al, isAl := bv.(*ssa.Alloc); isAl {
							for _, ref := range *al.Referrers() {
								if st, isSt := ref.(*ssa.Store); isSt && st.Addr == ssa.Value(al) && st.Val == ssa.Value(actionParam) {
									okAction = true
								}
							}
						}
					}
				}
				if !okAction {
					return "the produced action returns the result of a call that is not the wrapped action"
				}
			}
		}
	}
	if n == 0 {
		return "no return found in the decorator"
	}
	return ""
}

// allocBehind: the allocation a pointer value denotes, through tuple extraction and the returns of in-repo helpers.
func allocBehind(v ssa.Value, idx, depth int) *ssa.Alloc {
	if depth > 6 {
		return nil
	}
	switch x := v.(type) {
	case *ssa.Alloc:
		return x
	case *ssa.Extract:
		return allocBehind(x.Tuple, x.Index, depth+1)
	case *ssa.Phi:
		for _, e := range x.Edges {
			if a := allocBehind(e, idx, depth+1); a != nil {
				return a
			}
		}
	case *ssa.Call:
		f := x.Common().StaticCallee()
		if f == nil || len(f.Blocks) == 0 || !core.InRepo(pkgPathOf(f)) {
			return nil
		}
		for _, b := range f.Blocks {
			if ret, ok := b.Instrs[len(b.Instrs)-1].(*ssa.Return); ok && idx < len(ret.Results) {
				if a := allocBehind(ret.Results[idx], 0, depth+1); a != nil {
					return a
				}
			}
		}
	}
	return nil
}

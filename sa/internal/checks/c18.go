package checks

import (
	"fmt"
	"go/constant"
	"go/token"
	"go/types"
	"os"
	"sort"
	"strings"

	"golang.org/x/tools/go/ssa"

	"verif/sa/internal/core"
	"verif/sa/internal/tf"
)

func init() { Registry["C18"] = Check{Run: checkC18} }

// treeModel is what the analyser discovers about the off-chain tree package.
type treeModel struct {
	p         *core.Program
	pkg       *ssa.Package
	Node      *types.Named // node interface
	Full      *types.Named // node with cached value and two children
	Empty     *types.Named // node representing an all-empty subtree
	ValField  string
	DepFieldF string
	DepFieldE string
	Children  []string // the two child fields of Full (declaration order)
	Table     string   // Empty's table field
	Pred      *ssa.Function
	Hash      *ssa.Function
	upd       map[string]*ssa.Function // "full"/"empty" -> update method
	prf       map[string]*ssa.Function
	val       map[string]*ssa.Function
	dep       map[string]*ssa.Function
}

func isBigInt(t types.Type) bool {
	n, ok := types.Unalias(t).(*types.Named)
	return ok && n.Obj().Name() == "Int" && n.Obj().Pkg() != nil && n.Obj().Pkg().Path() == "math/big"
}

func discoverTree(p *core.Program) (*treeModel, string) {
	sp := p.SSAPkg("poseidon_tree")
	if sp == nil {
		return nil, "package poseidon_tree not found"
	}
	tm := &treeModel{p: p, pkg: sp, upd: map[string]*ssa.Function{}, prf: map[string]*ssa.Function{}, val: map[string]*ssa.Function{}, dep: map[string]*ssa.Function{}}
	// anchor: NewTree returns a struct whose only field is the root node interface
	nt := sp.Func("NewTree")
	if nt == nil {
		return nil, "anchor poseidon_tree.NewTree not found"
	}
	treeT := namedOf(nt.Signature.Results().At(0).Type())
	if treeT == nil {
		return nil, "NewTree does not return a named tree type"
	}
	if st, ok := treeT.Underlying().(*types.Struct); ok {
		for i := 0; i < st.NumFields(); i++ {
			if n := namedOf(st.Field(i).Type()); n != nil {
				if _, isI := n.Underlying().(*types.Interface); isI {
					tm.Node = n
				}
			}
		}
	}
	if tm.Node == nil {
		return nil, "the tree type has no node-interface field"
	}
	iface := tm.Node.Underlying().(*types.Interface)
	for _, m := range sp.Members {
		t, ok := m.(*ssa.Type)
		if !ok {
			continue
		}
		n, _ := t.Type().(*types.Named)
		st, isS := t.Type().Underlying().(*types.Struct)
		if n == nil || !isS || !types.Implements(types.NewPointer(n), iface) {
			continue
		}
		var kids []string
		valF, depF, table := "", "", ""
		for i := 0; i < st.NumFields(); i++ {
			ft := st.Field(i).Type()
			switch {
			case namedOf(ft) == tm.Node:
				kids = append(kids, st.Field(i).Name())
			case isBigInt(ft):
				valF = st.Field(i).Name()
			case isIntType(ft):
				depF = st.Field(i).Name()
			default:
				if sl, ok := ft.Underlying().(*types.Slice); ok && isBigInt(sl.Elem()) {
					table = st.Field(i).Name()
				}
			}
		}
		if os.Getenv("SA_DEBUG") != "" {
			fmt.Fprintf(os.Stderr, "type %s kids=%v val=%q dep=%q table=%q\n", n, kids, valF, depF, table)
		}
		if len(kids) == 2 && valF != "" {
			tm.Full, tm.Children, tm.ValField, tm.DepFieldF = n, kids, valF, depF
		} else if table != "" && len(kids) == 0 {
			tm.Empty, tm.Table, tm.DepFieldE = n, table, depF
		}
	}
	if tm.Full == nil || tm.Empty == nil {
		return nil, "cannot identify the full-node and empty-node implementations of the node interface"
	}
	for kind, n := range map[string]*types.Named{"full": tm.Full, "empty": tm.Empty} {
		ms := p.SSA.MethodSets.MethodSet(types.NewPointer(n))
		for i := 0; i < ms.Len(); i++ {
			fn := p.SSA.MethodValue(ms.At(i))
			if fn == nil || fn.Blocks == nil {
				continue
			}
			sig := fn.Signature
			switch {
			case sig.Params().Len() == 2 && sig.Results().Len() == 1 && namedOf(sig.Results().At(0).Type()) == tm.Node:
				tm.upd[kind] = fn
			case sig.Params().Len() == 2 && sig.Results().Len() == 0:
				tm.prf[kind] = fn
			case sig.Params().Len() == 0 && sig.Results().Len() == 1 && isBigInt(sig.Results().At(0).Type()):
				tm.val[kind] = fn
			case sig.Params().Len() == 0 && sig.Results().Len() == 1 && isIntType(sig.Results().At(0).Type()):
				tm.dep[kind] = fn
			case sig.Params().Len() == 0 && sig.Results().Len() == 0 && kind == "full":
				tm.Hash = fn
			}
		}
	}
	for _, m := range sp.Members {
		if fn, ok := m.(*ssa.Function); ok && fn.Signature.Params().Len() == 2 && fn.Signature.Results().Len() == 1 {
			if b, ok := fn.Signature.Results().At(0).Type().Underlying().(*types.Basic); ok && b.Kind() == types.Bool {
				tm.Pred = fn
			}
		}
	}
	if tm.Pred == nil || tm.Hash == nil || len(tm.upd) != 2 || len(tm.prf) != 2 || len(tm.val) != 2 || len(tm.dep) != 2 {
		return nil, fmt.Sprintf("tree methods incomplete: predicate=%v hash=%v update=%d proof=%d value=%d depth=%d", tm.Pred != nil, tm.Hash != nil, len(tm.upd), len(tm.prf), len(tm.val), len(tm.dep))
	}
	return tm, ""
}

// fieldOfAddr: addr is &base.F (FieldAddr) → (base value, F).
func fieldOfAddr(v ssa.Value) (ssa.Value, string, bool) {
	fa, ok := v.(*ssa.FieldAddr)
	if !ok {
		return nil, "", false
	}
	return fa.X, structFieldName(fa.X.Type(), fa.Field), true
}

// reachesReturnAvoiding: from the start blocks, can a Return be reached without entering any barrier block?
func reachesReturnAvoiding(starts []*ssa.BasicBlock, barrier map[*ssa.BasicBlock]bool) *ssa.BasicBlock {
	seen := map[*ssa.BasicBlock]bool{}
	work := append([]*ssa.BasicBlock{}, starts...)
	for len(work) > 0 {
		b := work[len(work)-1]
		work = work[:len(work)-1]
		if seen[b] || barrier[b] {
			continue
		}
		seen[b] = true
		if len(b.Instrs) > 0 {
			if _, ok := b.Instrs[len(b.Instrs)-1].(*ssa.Return); ok {
				return b
			}
		}
		work = append(work, b.Succs...)
	}
	return nil
}

func reachesBlockAvoiding(starts []*ssa.BasicBlock, target *ssa.BasicBlock, barrier map[*ssa.BasicBlock]bool) bool {
	seen := map[*ssa.BasicBlock]bool{}
	work := append([]*ssa.BasicBlock{}, starts...)
	for len(work) > 0 {
		b := work[len(work)-1]
		work = work[:len(work)-1]
		if seen[b] || barrier[b] {
			continue
		}
		seen[b] = true
		if b == target {
			return true
		}
		work = append(work, b.Succs...)
	}
	return false
}

// isDepthZeroTest: cond is (depth of the receiver) == 0.
func (tm *treeModel) isDepthValue(v ssa.Value) bool {
	switch x := v.(type) {
	case *ssa.Call:
		if sc := x.Common().StaticCallee(); sc != nil && (sc == tm.dep["full"] || sc == tm.dep["empty"]) {
			return true
		}
		if x.Common().IsInvoke() && x.Common().Method.Name() == tm.dep["full"].Name() {
			return true
		}
	case *ssa.UnOp:
		if _, f, ok := fieldOfAddr(x.X); ok && (f == tm.DepFieldF || f == tm.DepFieldE) {
			return true
		}
	}
	return false
}

func (tm *treeModel) leafGuard(fn *ssa.Function) *ssa.If {
	for _, b := range fn.Blocks {
		if len(b.Instrs) == 0 {
			continue
		}
		ifi, ok := b.Instrs[len(b.Instrs)-1].(*ssa.If)
		if !ok {
			continue
		}
		cmp, ok := ifi.Cond.(*ssa.BinOp)
		if !ok || cmp.Op != token.EQL {
			continue
		}
		c, isC := cmp.Y.(*ssa.Const)
		if isC && c.Value != nil && c.Value.Kind() == constant.Int && constant.Sign(c.Value) == 0 && tm.isDepthValue(cmp.X) {
			return ifi
		}
	}
	return nil
}

func (tm *treeModel) predicateIf(fn *ssa.Function) (*ssa.If, *ssa.Call) {
	for _, b := range fn.Blocks {
		if len(b.Instrs) == 0 {
			continue
		}
		ifi, ok := b.Instrs[len(b.Instrs)-1].(*ssa.If)
		if !ok {
			continue
		}
		if c, ok := ifi.Cond.(*ssa.Call); ok && c.Common().StaticCallee() == tm.Pred {
			return ifi, c
		}
	}
	return nil, nil
}

// isUpdateResult: v is (an interface conversion of) the result of an update-method call.
func (tm *treeModel) isUpdateResult(v ssa.Value) (*ssa.Call, bool) {
	if mi, ok := v.(*ssa.MakeInterface); ok {
		v = mi.X
	}
	c, ok := v.(*ssa.Call)
	if !ok {
		return nil, false
	}
	if c.Common().IsInvoke() && c.Common().Method.Name() == tm.upd["full"].Name() {
		return c, true
	}
	if sc := c.Common().StaticCallee(); sc != nil && (sc == tm.upd["full"] || sc == tm.upd["empty"]) {
		return c, true
	}
	return nil, false
}

type updateShape struct {
	Result    *ssa.Alloc
	ChildTrue string // child field receiving the updated subtree when the predicate holds
	ChildElse string
	DescTrue  string // full node: the receiver's child the recursion descends into when the predicate holds
	DescElse  string
}

func (tm *treeModel) checkUpdate(r *core.Report, kind string) *updateShape {
	p := tm.p
	fn := tm.upd[kind]
	name := core.FuncName(fn)
	r.AnalysedFn(name)
	us := &updateShape{}
	// every return returns the same freshly allocated full node
	var rets []*ssa.Return
	for _, b := range fn.Blocks {
		if len(b.Instrs) == 0 {
			continue
		}
		if ret, ok := b.Instrs[len(b.Instrs)-1].(*ssa.Return); ok {
			rets = append(rets, ret)
		}
	}
	okFresh := len(rets) > 0
	var whyFresh []string
	for _, ret := range rets {
		v := ret.Results[0]
		if mi, ok := v.(*ssa.MakeInterface); ok {
			v = mi.X
		}
		al, ok := v.(*ssa.Alloc)
		if !ok || namedOf(al.Type().(*types.Pointer).Elem()) != tm.Full {
			okFresh = false
			whyFresh = append(whyFresh, fmt.Sprintf("the return at %s yields %s, not a freshly allocated full node: the update is skipped on that path (the leaf is not written and cached hashes above it stay stale)", p.Pos(ret.Pos()), v.Name()))
			continue
		}
		if us.Result != nil && us.Result != al {
			okFresh = false
			whyFresh = append(whyFresh, "different returns yield different nodes")
		}
		us.Result = al
	}
	r.Check(okFresh, "O18.1", name+": every path returns a freshly built node", p.Pos(fn.Pos()), fmt.Sprintf("%d return(s), all &result", len(rets)), strings.Join(whyFresh, "; "))
	if !okFresh {
		return nil
	}
	guard := tm.leafGuard(fn)
	pif, pcall := tm.predicateIf(fn)
	if guard == nil || pif == nil {
		r.Violation("O18.1", name+": leaf guard and direction test", p.Pos(fn.Pos()), "the update method lacks a depth()==0 test or a direction-predicate branch (guard=%v predicate=%v)", guard != nil, pif != nil)
		return nil
	}
	// predicate arguments: (index parameter, receiver depth)
	okArgs := len(pcall.Common().Args) == 2 && pcall.Common().Args[0] == ssa.Value(fn.Params[1]) && tm.isDepthValue(pcall.Common().Args[1])
	r.Check(okArgs, "O18.6", name+": direction test uses (index, depth of this node)", p.Pos(pcall.Pos()), tm.Pred.Name()+"(index, node.depth())", "the direction predicate is not applied to (index, this node's depth): the wrong bit of the index selects the child at this level")
	// leaf branch: store val parameter into result.val; reached only under depth == 0
	leafStoreBlock := (*ssa.BasicBlock)(nil)
	for _, b := range fn.Blocks {
		for _, in := range b.Instrs {
			if st, ok := in.(*ssa.Store); ok {
				if base, f, ok := fieldOfAddr(st.Addr); ok && base == ssa.Value(us.Result) && f == tm.ValField && st.Val == ssa.Value(fn.Params[2]) {
					leafStoreBlock = b
				}
			}
		}
	}
	okLeaf := leafStoreBlock != nil && guard.Block().Succs[0].Dominates(leafStoreBlock)
	r.Check(okLeaf, "O18.1", name+": at depth 0 the value is stored", p.Pos(guard.Cond.Pos()), "depth()==0 ⇒ result."+tm.ValField+" = val", "no store of the new value into the fresh node under depth()==0")
	// child stores per branch
	branchField := func(side int) (string, string, *ssa.BasicBlock) {
		for _, b := range fn.Blocks {
			if !pif.Block().Succs[side].Dominates(b) {
				continue
			}
			for _, in := range b.Instrs {
				st, ok := in.(*ssa.Store)
				if !ok {
					continue
				}
				base, f, ok := fieldOfAddr(st.Addr)
				if !ok || base != ssa.Value(us.Result) {
					continue
				}
				if call, isUpd := tm.isUpdateResult(st.Val); isUpd {
					desc := ""
					if call.Common().IsInvoke() {
						if ld, ok := call.Common().Value.(*ssa.UnOp); ok {
							if b2, f2, ok := fieldOfAddr(ld.X); ok && b2 == ssa.Value(fn.Params[0]) {
								desc = f2
							}
						}
					}
					return f, desc, b
				}
			}
		}
		return "", "", nil
	}
	var bT, bE *ssa.BasicBlock
	us.ChildTrue, us.DescTrue, bT = branchField(0)
	us.ChildElse, us.DescElse, bE = branchField(1)
	okKids := us.ChildTrue != "" && us.ChildElse != "" && us.ChildTrue != us.ChildElse
	if kind == "full" {
		okKids = okKids && us.DescTrue == us.ChildTrue && us.DescElse == us.ChildElse
	}
	r.Check(okKids, "O18.1", name+": the updated subtree replaces the child it was derived from", p.Pos(pif.Cond.Pos()),
		fmt.Sprintf("predicate ⇒ result.%s = update(%s); else result.%s = update(%s)", us.ChildTrue, orSelf(us.DescTrue, us.ChildTrue), us.ChildElse, orSelf(us.DescElse, us.ChildElse)),
		fmt.Sprintf("on the predicate's branches the fresh node receives update results in fields %q/%q derived from children %q/%q: one branch does not replace the child it recursed into", us.ChildTrue, us.ChildElse, us.DescTrue, us.DescElse))
	// hash after child store on every non-leaf path
	var hashCall *ssa.Call
	for _, b := range fn.Blocks {
		for _, in := range b.Instrs {
			if c, ok := in.(*ssa.Call); ok && c.Common().StaticCallee() == tm.Hash && len(c.Common().Args) == 1 && c.Common().Args[0] == ssa.Value(us.Result) {
				hashCall = c
			}
		}
	}
	if hashCall == nil {
		r.Violation("O18.1", name+": rehash after child update", p.Pos(fn.Pos()), "the fresh node's hash is never recomputed after a child was replaced: its cached value is stale")
		return us
	}
	var probs []string
	if rb := reachesReturnAvoiding(pif.Block().Succs, map[*ssa.BasicBlock]bool{hashCall.Block(): true}); rb != nil {
		probs = append(probs, "a return is reachable after the direction test without rehashing the fresh node (stale cached hash)")
	}
	if bT != nil && reachesBlockAvoiding([]*ssa.BasicBlock{pif.Block().Succs[0]}, hashCall.Block(), map[*ssa.BasicBlock]bool{bT: true}) && bT != hashCall.Block() {
		probs = append(probs, "on the predicate-true path the rehash can run before the child is replaced")
	}
	if bE != nil && reachesBlockAvoiding([]*ssa.BasicBlock{pif.Block().Succs[1]}, hashCall.Block(), map[*ssa.BasicBlock]bool{bE: true}) && bE != hashCall.Block() {
		probs = append(probs, "on the predicate-false path the rehash can run before the child is replaced")
	}
	// every path to a return passes the leaf store or the direction test
	bar := map[*ssa.BasicBlock]bool{pif.Block(): true}
	if leafStoreBlock != nil {
		bar[leafStoreBlock] = true
	}
	if rb := reachesReturnAvoiding([]*ssa.BasicBlock{fn.Blocks[0]}, bar); rb != nil {
		probs = append(probs, "a return is reachable without storing the value (depth 0) and without descending (depth > 0)")
	}
	r.Check(len(probs) == 0, "O18.1", name+": rehash after child update on every path", p.Pos(hashCall.Pos()), "child replaced ≺ "+tm.Hash.Name()+"(result) ≺ return on every non-leaf path", strings.Join(probs, "; "))
	// O18.5: no store outside the fresh node / locals
	eng := tf.NewEngine(core.InRepo, 0)
	ev := eng.NewEval(fn)
	var ext []string
	for _, s := range ev.ExtStores() {
		ext = append(ext, describe(s.Addr)+" at "+p.Pos(s.Instr.Pos()))
	}
	r.Check(len(ext) == 0, "O18.5", name+": persistence (writes only to the fresh node)", p.Pos(fn.Pos()), "no store through the receiver or parameters", "the update writes to existing memory: "+strings.Join(ext, "; ")+" — earlier versions of the tree (and nodes shared with them) change")
	return us
}

func orSelf(a, b string) string {
	if a == "" {
		return "new empty child"
	}
	return "node." + a
}

type proofShape struct{ DescTrue, SibTrue, DescElse, SibElse string }

func (tm *treeModel) checkFullProof(r *core.Report) *proofShape {
	p := tm.p
	fn := tm.prf["full"]
	name := core.FuncName(fn)
	r.AnalysedFn(name)
	guard := tm.leafGuard(fn)
	pif, pcall := tm.predicateIf(fn)
	if guard == nil || pif == nil {
		r.Violation("O18.2", name+": leaf guard and direction test", p.Pos(fn.Pos()), "the proof method lacks a depth()==0 test or a direction-predicate branch")
		return nil
	}
	okArgs := len(pcall.Common().Args) == 2 && pcall.Common().Args[0] == ssa.Value(fn.Params[1]) && tm.isDepthValue(pcall.Common().Args[1])
	r.Check(okArgs, "O18.6", name+": direction test uses (index, depth of this node)", p.Pos(pcall.Pos()), tm.Pred.Name()+"(index, node.depth())", "the direction predicate is not applied to (index, this node's depth)")
	eng := tf.NewEngine(core.InRepo, 2)
	ev := eng.NewEval(fn)
	recv, out := ev.Params[0], ev.Params[2]
	ps := &proofShape{}
	side := func(s int) (desc, sib string, idxOK bool) {
		for _, b := range fn.Blocks {
			if !pif.Block().Succs[s].Dominates(b) {
				continue
			}
			for _, in := range b.Instrs {
				switch x := in.(type) {
				case *ssa.Store:
					a := ev.Term(x.Addr)
					if a.K == tf.KIdx && tf.Eq(a.Args[0], out) {
						// stored value: value() of a child
						if c, ok := x.Val.(*ssa.Call); ok && c.Common().IsInvoke() && c.Common().Method.Name() == tm.val["full"].Name() {
							if f, ok := fieldOf(ev.Term(c.Common().Value), recv); ok {
								sib = f
							}
						}
						want := tf.AffAdd(tf.Field(recv, tm.DepFieldF), tf.ConstInt(1), -1)
						idxOK = tf.Eq(a.Args[1], want)
					}
				case *ssa.Call:
					if x.Common().IsInvoke() && x.Common().Method.Name() == fn.Name() {
						if f, ok := fieldOf(ev.Term(x.Common().Value), recv); ok {
							okPass := len(x.Common().Args) == 2 && x.Common().Args[0] == ssa.Value(fn.Params[1]) && x.Common().Args[1] == ssa.Value(fn.Params[2])
							if okPass {
								desc = f
							}
						}
					}
				}
			}
		}
		return
	}
	var i1, i2 bool
	ps.DescTrue, ps.SibTrue, i1 = side(0)
	ps.DescElse, ps.SibElse, i2 = side(1)
	okShape := ps.DescTrue != "" && ps.SibTrue != "" && ps.DescTrue != ps.SibTrue && ps.DescElse == ps.SibTrue && ps.SibElse == ps.DescTrue
	r.Check(okShape, "O18.2", name+": records the sibling of the child it descends into", p.Pos(pif.Cond.Pos()),
		fmt.Sprintf("predicate ⇒ out[d-1]=value(%s), descend %s; else out[d-1]=value(%s), descend %s", ps.SibTrue, ps.DescTrue, ps.SibElse, ps.DescElse),
		fmt.Sprintf("predicate-true: records %q descends %q; predicate-false: records %q descends %q — the recorded node must be the other child, with (index, out) passed on unchanged", ps.SibTrue, ps.DescTrue, ps.SibElse, ps.DescElse))
	r.Check(i1 && i2, "O18.6", name+": sibling of level d stored at out[d-1]", p.Pos(pif.Cond.Pos()), "out[node.depth()-1]", "the sibling is not stored at out[depth-1]: proofs are shifted by a level")
	return ps
}

func checkC18(p *core.Program, r *core.Report) {
	r.Explanation = "Off-chain tree — data-structure discipline (root equality over histories is numerical and not decided): (O18.1) in both update methods every path returns a freshly built node, stores the value at depth 0, and otherwise replaces exactly the child it recursed into and then recomputes the fresh node's hash before returning (a stale cached hash or a skipped write is exactly a path violating this); " +
		"(O18.2) convention agreement: update, proof and hash branch on the same predicate of (index, this node's depth); when it holds the updated/descended child is the one hashed first and the recorded sibling is the other; this also agrees with the circuit's 'bit 0 ⇒ running node first'; " +
		"(O18.3) Update replaces the root before taking the proof from it and allocates depth entries; (O18.4) the empty-subtree table is written only while NewTree builds it; NewTree hashes (t[i-1], t[i-1]); (O18.5) updates write only to the fresh node (persistence); " +
		"(O18.6) level numbering: the predicate tests bit depth-1; the sibling of level d is stored at out[d-1]; an empty node of depth d reports table[d], creates children of depth d-1 sharing the table, and its proof is table[0..d-1]; NewTree allocates depth+1 entries, fills 1..depth and roots the tree at depth. " +
		"Not decided: that these invariants suffice (numerical), int overflow of 1<<(depth-1) beyond 63, negative or out-of-range indices."
	for id, t := range map[string]string{
		"O18.1": "update: fresh node on every path; value at depth 0; else replace the recursed child, then rehash, on every path",
		"O18.2": "left/right convention agrees between update, proof, hash order and the circuit",
		"O18.3": "Update: root replaced before the proof is taken from it; proof has depth entries",
		"O18.4": "empty-subtree table written only during construction; built from Hash(t[i-1], t[i-1])",
		"O18.5": "updates write only to freshly allocated nodes",
		"O18.6": "level indices mutually consistent (bit depth-1, out[depth-1], table[depth], child depth-1, loops)",
		"O18.7": "every 1 << (depth+c) in the tree package is computed in a type that holds 2^(32+c): no wrap at the top of the depth range 1..32",
	} {
		r.Rule(id, t)
	}
	r.Trusted = append(r.Trusted, "iden3 poseidon.Hash equals the in-circuit Poseidon2 (C05)", "Go integer semantics for depth ≤ 63")
	r.NotDecided = append(r.NotDecided, "root = full recomputation for all histories (numerical)", "depth > 63, negative or out-of-range indices")
	tm, why := discoverTree(p)
	if tm == nil {
		r.Violation("O18.1", "package poseidon_tree", "-", "%s", why)
		return
	}
	nFns := 0
	for _, fn := range p.RepoFuncs() {
		if fn.Pkg == tm.pkg {
			nFns++
		}
	}
	r.Count("tree functions", nFns)
	eng := tf.NewEngine(core.InRepo, 2)
	// predicate shape
	pev := eng.NewEval(tm.Pred)
	r.AnalysedFn(core.FuncName(tm.Pred))
	pret := pev.Return()
	idx, dep := pev.Params[0], pev.Params[1]
	okPred := false
	if pret.K == tf.KBin && pret.Name == "==" && isConstInt(pret.Args[1], 0) {
		and := pret.Args[0]
		if and.K == tf.KBin && and.Name == "&" {
			x, m := and.Args[0], and.Args[1]
			if !tf.Eq(x, idx) {
				x, m = m, x
			}
			if tf.Eq(x, idx) && m.K == tf.KBin && m.Name == "<<" && isConstInt(m.Args[0], 1) && tf.Eq(m.Args[1], tf.AffAdd(dep, tf.ConstInt(1), -1)) {
				okPred = true
			}
		}
	}
	r.Check(okPred, "O18.6", core.FuncName(tm.Pred)+": tests bit depth-1 of the index", p.Pos(tm.Pred.Pos()), "index & (1 << (depth-1)) == 0", "the direction predicate is "+describe(pret)+", not 'bit (depth-1) of index is 0': the wrong level's bit selects the child")
	// updates
	uf := tm.checkUpdate(r, "full")
	ue := tm.checkUpdate(r, "empty")
	pf := tm.checkFullProof(r)
	// hash order
	hev := eng.NewEval(tm.Hash)
	r.AnalysedFn(core.FuncName(tm.Hash))
	var first, second string
	hashOK := false
	for _, e := range hev.Events() {
		if callNameHasSuffix(e.Term, "go-iden3-crypto/poseidon.Hash") && len(e.Term.Args) == 1 {
			parts := tf.Parts(hev.Resolve(e.Term.Args[0]))
			if len(parts) == 2 {
				get := func(t *tf.Term) string {
					if t.K == tf.KElem {
						t = t.Args[0]
					}
					t = hev.Deref(t)
					if t.K == tf.KCall && len(t.Args) == 1 {
						if f, ok := fieldOf(t.Args[0], hev.Params[0]); ok {
							return f
						}
					}
					return ""
				}
				first, second = get(parts[0]), get(parts[1])
			}
		}
	}
	// result stored into the cached value — and nothing else is: a value taken from anywhere but this invocation's hash call
	// (a memo table, a previous value) is not a recomputation from the current children
	var notHash []string
	for _, s := range hev.ExtStores() {
		if f, ok := fieldOf(s.Addr, hev.Params[0]); ok && f == tm.ValField {
			fromHash := tf.Contains(hev.Resolve(s.Val), func(x *tf.Term) bool {
				return callNameHasSuffix(x, "go-iden3-crypto/poseidon.Hash")
			}) || tf.Contains(hev.Deref(hev.Resolve(s.Val)), func(x *tf.Term) bool {
				return callNameHasSuffix(x, "go-iden3-crypto/poseidon.Hash")
			})
			if fromHash {
				hashOK = true
			} else {
				notHash = append(notHash, describe(s.Val))
			}
		}
	}
	if len(notHash) > 0 {
		hashOK = false
		r.Violation("O18.2", core.FuncName(tm.Hash)+": cached value comes only from the hash of the current children", p.Pos(tm.Hash.Pos()), "the node's cached value is also set from %s, which is not the result of hashing the node's current children in this call (a memo table keyed by anything short of the exact pair returns another pair's hash)", strings.Join(notHash, ", "))
	}
	okHash := hashOK && first != "" && second != "" && first != second
	r.Check(okHash, "O18.2", core.FuncName(tm.Hash)+": caches Hash(value(child1), value(child2))", p.Pos(tm.Hash.Pos()), fmt.Sprintf("val = Hash(value(%s), value(%s))", first, second), fmt.Sprintf("the hash method does not cache Hash of its two children's values (operands %q, %q; stored=%v)", first, second, hashOK))
	if uf != nil && ue != nil && pf != nil && okHash {
		var probs []string
		if uf.ChildTrue != first {
			probs = append(probs, fmt.Sprintf("full-node update puts the updated subtree into %s when the predicate holds, but the hash takes %s first", uf.ChildTrue, first))
		}
		if ue.ChildTrue != first {
			probs = append(probs, fmt.Sprintf("empty-node update puts the initialised child into %s when the predicate holds, but the hash takes %s first", ue.ChildTrue, first))
		}
		if pf.DescTrue != first {
			probs = append(probs, fmt.Sprintf("the proof descends into %s when the predicate holds, but the update modifies %s", pf.DescTrue, first))
		}
		r.Check(len(probs) == 0, "O18.2", "left/right convention: update, proof and hash order", p.Pos(tm.Hash.Pos()), fmt.Sprintf("bit(depth-1)=0 ⇒ child %s is updated, descended into and hashed first; sibling %s recorded", first, second), strings.Join(probs, "; "))
		// agreement with the circuit's convention
		ctx := newCircuitCtx(p)
		if br := discoverBatchQuiet(p, ctx, "SetupInsertion"); br != nil && br.Round != nil && br.Round.Ret.K == tf.KGadget {
			tmp := core.NewReport("tmp", "quick")
			if mr := checkMerkle(p, tmp, ctx, br.Round.Ret, "x"); mr != nil {
				r.Check(mr.DirZeroAccFirst, "O18.2", "tree ↔ circuit: bit 0 puts the running node first", p.Pos(tm.Hash.Pos()), "the circuit hashes (running, sibling) when the index bit is 0; the tree hashes the updated child first when bit(depth-1)=0", "the circuit puts the running node second when the index bit is 0, but the tree hashes the updated child first: roots and proofs of the generator would not satisfy the circuit")
			}
		}
	}
	// empty node details
	checkEmptyNode(p, r, tm, eng)
	// Update and NewTree
	checkTreeTop(p, r, tm, eng)
	checkTreeShiftWidths(p, r, tm)
	r.Floor("tree functions", 8)
}

func checkEmptyNode(p *core.Program, r *core.Report, tm *treeModel, eng *tf.Engine) {
	// value(): table[depth]
	vev := eng.NewEval(tm.val["empty"])
	r.AnalysedFn(core.FuncName(tm.val["empty"]))
	recv := vev.Params[0]
	want := tf.Idx(tf.Field(recv, tm.Table), tf.Field(recv, tm.DepFieldE))
	r.Check(tf.Eq(vev.Return(), want), "O18.6", core.FuncName(tm.val["empty"])+": empty subtree of depth d has value table[d]", p.Pos(tm.val["empty"].Pos()), "table[depth]", "an empty node reports "+describe(vev.Return())+", not table[depth]")
	// full value(): cached val
	fev := eng.NewEval(tm.val["full"])
	r.Check(tf.Eq(fev.Return(), tf.Field(fev.Params[0], tm.ValField)), "O18.6", core.FuncName(tm.val["full"])+": returns the cached value", p.Pos(tm.val["full"].Pos()), "node."+tm.ValField, "a full node reports "+describe(fev.Return()))
	// writeProof of empty: out[i] = table[i] for i in 0..depth-1
	fn := tm.prf["empty"]
	pev := eng.NewEval(fn)
	r.AnalysedFn(core.FuncName(fn))
	okP := false
	whyP := "the empty node's proof is not out[i] = table[i] for i in 0..depth-1"
	stores := pev.ExtStores()
	if len(stores) == 1 {
		s := stores[0]
		a := s.Addr
		if a.K == tf.KIdx && tf.Eq(a.Args[0], pev.Params[2]) && a.Args[1].K == tf.KIndVar {
			iv := a.Args[1]
			n, ok := loopRangeZeroTo(iv.Loop)
			src := s.Val
			if ok && tf.Eq(n, tf.Field(pev.Params[0], tm.DepFieldE)) && tf.Eq(src, tf.Idx(tf.Field(pev.Params[0], tm.Table), iv)) {
				okP = true
			} else {
				whyP = fmt.Sprintf("fills out[i] = %s for i < %s", describe(src), describe(n))
			}
		}
	} else if len(stores) == 0 {
		// writes through builtins (copy) are not element stores
		for _, e := range pev.Events() {
			if e.Term.K == tf.KCall && e.Term.Name == "builtin.copy" && len(e.Term.Args) == 2 {
				// copy(out, table[:depth]) (or out[:depth]) writes exactly the depth lowest levels
				dst, src := e.Term.Args[0], e.Term.Args[1]
				depthT := tf.Field(pev.Params[0], tm.DepFieldE)
				bounded := func(t *tf.Term, base *tf.Term) bool {
					return t.K == tf.KSub && tf.Eq(t.Args[0], base) && (t.Args[1].K == tf.KNil || isConstInt(t.Args[1], 0)) && tf.Eq(t.Args[2], depthT)
				}
				tableT := tf.Field(pev.Params[0], tm.Table)
				outT := pev.Params[2]
				if on, inLoop := e.OnEveryPathToReturn(); on && !inLoop &&
					((bounded(src, tableT) && (tf.Eq(dst, outT) || bounded(dst, outT))) || (tf.Eq(src, tableT) && bounded(dst, outT))) {
					okP = true
					continue
				}
				whyP = "the proof is produced by copy(out, table): it writes min(len(out), len(table)) entries — all " + "levels above this node are overwritten with empty-subtree hashes when the node sits below full ancestors"
			}
		}
	}
	r.Check(okP, "O18.6", core.FuncName(fn)+": proof of an empty subtree of depth d is table[0..d-1]", p.Pos(fn.Pos()), "out[i] = table[i], i in 0..depth-1", whyP)
	// empty.withValue child literal: {dep: depth-1, table: node.table}
	ufn := tm.upd["empty"]
	uev := eng.NewEval(ufn)
	okChild := false
	var got string
	for _, b := range ufn.Blocks {
		for _, in := range b.Instrs {
			if al, ok := in.(*ssa.Alloc); ok && namedOf(al.Type().(*types.Pointer).Elem()) == tm.Empty {
				rec := uev.Deref(uev.Term(al))
				if rec.K == tf.KRecord {
					d := rec.FieldOf(tm.DepFieldE)
					t := rec.FieldOf(tm.Table)
					got = describe(rec)
					wantD := tf.AffAdd(tf.Field(uev.Params[0], tm.DepFieldE), tf.ConstInt(1), -1)
					if d != nil && t != nil && tf.Eq(d, wantD) && tf.Eq(t, tf.Field(uev.Params[0], tm.Table)) {
						okChild = true
					}
				}
			}
		}
	}
	r.Check(okChild, "O18.6", core.FuncName(ufn)+": empty children have depth d-1 and share the table", p.Pos(ufn.Pos()), "Empty{depth-1, node.table}", "the empty child is "+got+": wrong depth or a different table")
	// sibling of the initialised child is that empty child; and the initialised child comes from updating the empty child
}

func checkTreeTop(p *core.Program, r *core.Report, tm *treeModel, eng *tf.Engine) {
	sp := tm.pkg
	// Update: method of the tree type taking (int, big.Int) returning []big.Int
	var upd *ssa.Function
	for _, fn := range p.RepoFuncs() {
		if fn.Pkg == sp && fn.Signature.Recv() != nil && fn.Signature.Params().Len() == 2 && fn.Signature.Results().Len() == 1 {
			if sl, ok := fn.Signature.Results().At(0).Type().Underlying().(*types.Slice); ok && isBigInt(sl.Elem()) {
				upd = fn
			}
		}
	}
	if upd == nil {
		r.Violation("O18.3", "tree Update method", "-", "no method (int, big.Int) []big.Int on the tree type")
	} else {
		name := core.FuncName(upd)
		r.AnalysedFn(name)
		// order: store root = update(...) ≺ proof call whose receiver is a later load of root; make(len = depth of later root)
		var rootStore *ssa.Store
		var proofCall, depthCall *ssa.Call
		var mk *ssa.MakeSlice
		for _, b := range upd.Blocks {
			for _, in := range b.Instrs {
				switch x := in.(type) {
				case *ssa.Store:
					if _, isUpd := tm.isUpdateResult(x.Val); isUpd {
						rootStore = x
					}
				case *ssa.Call:
					if x.Common().IsInvoke() && x.Common().Method.Name() == tm.prf["full"].Name() {
						proofCall = x
					}
					if x.Common().IsInvoke() && x.Common().Method.Name() == tm.dep["full"].Name() {
						depthCall = x
					}
				case *ssa.MakeSlice:
					mk = x
				}
			}
		}
		// the proof may be taken in a read-only method of the tree that Update calls after replacing the root
		// (Update = root.withValue ≺ return tree.Proof(index))
		var helper *ssa.Function
		var helperCall *ssa.Call
		if proofCall == nil && rootStore != nil {
			for _, b := range upd.Blocks {
				for _, in := range b.Instrs {
					c, ok := in.(*ssa.Call)
					if !ok || !instrBefore(rootStore, c) {
						continue
					}
					h := c.Common().StaticCallee()
					if h == nil || h.Pkg != sp || h.Signature.Recv() == nil || len(c.Common().Args) == 0 || c.Common().Args[0] != ssa.Value(upd.Params[0]) || len(h.Blocks) == 0 {
						continue
					}
					for _, hb := range h.Blocks {
						for _, hi := range hb.Instrs {
							switch x := hi.(type) {
							case *ssa.Call:
								if x.Common().IsInvoke() && x.Common().Method.Name() == tm.prf["full"].Name() {
									proofCall, helper, helperCall = x, h, c
								}
								if x.Common().IsInvoke() && x.Common().Method.Name() == tm.dep["full"].Name() {
									depthCall = x
								}
							case *ssa.MakeSlice:
								mk = x
							}
						}
					}
				}
			}
		}
		_ = helperCall
		var probs []string
		loadAfter := func(c *ssa.Call) bool {
			ld, ok := c.Common().Value.(*ssa.UnOp)
			if !ok || rootStore == nil {
				return false
			}
			if helper != nil {
				// inside the helper, which runs after the store: the load must be of the same field of the helper's receiver
				fa, ok1 := ld.X.(*ssa.FieldAddr)
				fb, ok2 := rootStore.Addr.(*ssa.FieldAddr)
				return ok1 && ok2 && fa.Field == fb.Field && fa.X == ssa.Value(helper.Params[0])
			}
			return sameFieldAddr(ld.X, rootStore.Addr) && instrBefore(rootStore, ld)
		}
		switch {
		case rootStore == nil:
			probs = append(probs, "the root is never replaced by the update's result")
		case proofCall == nil:
			probs = append(probs, "no proof is taken")
		default:
			if !loadAfter(proofCall) {
				probs = append(probs, "the proof is taken from the root as it was before the update (it authenticates the old value, not the new one, against the new root)")
			}
			depthOK := depthCall != nil && loadAfter(depthCall) && mk != nil && mk.Len == ssa.Value(depthCall)
			if !depthOK && mk != nil && rootStore != nil {
				// make([]T, tree.Depth()) with Depth() = tree.root.depth(): an accessor of the same receiver that returns the
				// depth of the root field
				if dc, ok := mk.Len.(*ssa.Call); ok {
					recvOK := len(dc.Common().Args) == 1 && ((helper != nil && dc.Common().Args[0] == ssa.Value(helper.Params[0])) || dc.Common().Args[0] == ssa.Value(upd.Params[0]))
					if acc := dc.Common().StaticCallee(); acc != nil && acc.Pkg == sp && recvOK && len(acc.Blocks) == 1 && (helper != nil || instrBefore(rootStore, dc)) {
						if ret, ok := acc.Blocks[0].Instrs[len(acc.Blocks[0].Instrs)-1].(*ssa.Return); ok && len(ret.Results) == 1 {
							if ic, ok := ret.Results[0].(*ssa.Call); ok && ic.Common().IsInvoke() && ic.Common().Method.Name() == tm.dep["full"].Name() {
								if ld, ok := ic.Common().Value.(*ssa.UnOp); ok {
									fa, ok1 := ld.X.(*ssa.FieldAddr)
									fb, ok2 := rootStore.Addr.(*ssa.FieldAddr)
									if ok1 && ok2 && fa.Field == fb.Field && fa.X == ssa.Value(acc.Params[0]) {
										depthOK = true
									}
								}
							}
						}
					}
				}
			}
			if !depthOK {
				probs = append(probs, "the proof slice is not allocated with the (new) root's depth")
			}
			if mk != nil && proofCall != nil && len(proofCall.Common().Args) == 2 {
				if proofCall.Common().Args[1] != ssa.Value(mk) {
					probs = append(probs, "the proof is written into a slice other than the one returned")
				}
			}
		}
		// the leaf that is updated and the leaf whose path is returned are the one the caller named: the index operand of
		// the update call and of the proof call is Update's own parameter, untouched (an "index %= …" normalisation maps
		// some caller indices onto other leaves)
		if rootStore != nil {
			if uc, isUpd := tm.isUpdateResult(rootStore.Val); isUpd && len(uc.Common().Args) >= 2 && len(upd.Params) >= 2 {
				ixArg := uc.Common().Args[0]
				if !uc.Common().IsInvoke() {
					ixArg = uc.Common().Args[1] // a static method call carries the receiver first
				}
				if ixArg != ssa.Value(upd.Params[1]) {
					probs = append(probs, "the index handed to the update is not Update's index parameter itself")
				}
			}
		}
		if proofCall != nil && len(proofCall.Common().Args) >= 1 {
			want := ssa.Value(upd.Params[1])
			if helper != nil && len(helper.Params) >= 2 {
				want = helper.Params[1]
				if helperCall != nil && len(helperCall.Common().Args) >= 2 && helperCall.Common().Args[1] != ssa.Value(upd.Params[1]) {
					probs = append(probs, "the index handed to the proof helper is not Update's index parameter itself")
				}
			}
			if proofCall.Common().Args[0] != want {
				probs = append(probs, "the index the proof is taken for is not Update's index parameter itself")
			}
		}
		r.Check(len(probs) == 0, "O18.3", name+": root replaced, then proof of depth entries taken from it", p.Pos(upd.Pos()), "root = root.update(i, v) ≺ proof := make(depth(root)) ≺ root.proof(i, proof)", strings.Join(probs, "; "))
	}
	// NewTree
	nt := sp.Func("NewTree")
	// NewTree(depth) may only delegate (NewTreeWithOptions(depth), newTreeWithHasher(depth, h)): the constructor that does
	// the work is the one whose first parameter receives NewTree's depth
	for hop := 0; hop < 3 && nt != nil; hop++ {
		var target *ssa.Function
		nCalls, hasMake := 0, false
		for _, b := range nt.Blocks {
			for _, in := range b.Instrs {
				switch x := in.(type) {
				case *ssa.MakeSlice:
					hasMake = true
				case *ssa.Call:
					if sc := x.Common().StaticCallee(); sc != nil && sc.Pkg == sp && len(sc.Blocks) > 0 && len(x.Common().Args) >= 1 && len(nt.Params) >= 1 && x.Common().Args[0] == ssa.Value(nt.Params[0]) {
						if refs := x.Referrers(); refs != nil {
							for _, rf := range *refs {
								if _, isRet := rf.(*ssa.Return); isRet {
									target = sc
								}
							}
						}
					}
					nCalls++
				}
			}
		}
		if target == nil || hasMake || len(nt.Blocks) != 1 {
			break
		}
		nt = target
	}
	nev := eng.NewEval(nt)
	r.AnalysedFn(core.FuncName(nt))
	depthP := nev.Params[0]
	var probs []string
	ret := nev.Return()
	rootT := ret.FieldOf(rootFieldName(nt))
	var rec *tf.Term
	if rootT != nil {
		rec = nev.Deref(rootT)
	}
	if rec == nil || rec.K != tf.KRecord {
		probs = append(probs, "NewTree does not root the tree at an empty-node literal")
	} else {
		if !tf.Eq(rec.FieldOf(tm.DepFieldE), depthP) {
			probs = append(probs, "the root's depth is "+describe(rec.FieldOf(tm.DepFieldE))+", not the requested depth")
		}
		tbl := rec.FieldOf(tm.Table)
		// table: make(depth+1) filled t[i] = Hash(t[i-1], t[i-1]) for i = 1..depth
		var mkT *tf.Term
		tf.Walk(tbl, func(x *tf.Term) bool {
			if x.K == tf.KMake && mkT == nil {
				mkT = x
			}
			return true
		})
		// find the make in the function
		var mk *ssa.MakeSlice
		for _, b := range nt.Blocks {
			for _, in := range b.Instrs {
				if m, ok := in.(*ssa.MakeSlice); ok {
					mk = m
				}
			}
		}
		if mk == nil || !tf.Eq(nev.Term(mk.Len), tf.AffAdd(depthP, tf.ConstInt(1), 1)) {
			probs = append(probs, "the empty-subtree table does not have depth+1 entries")
		}
		okFill := false
		for _, b := range nt.Blocks {
			for _, in := range b.Instrs {
				st, ok := in.(*ssa.Store)
				if !ok {
					continue
				}
				a := nev.Term(st.Addr)
				if a.K != tf.KIdx || a.Args[1].K != tf.KIndVar {
					continue
				}
				iv := a.Args[1]
				rng, ok := iv.Loop.Range(iv)
				if !ok {
					continue
				}
				f, isC := tf.IntConst(rng.First)
				okRange := isC && f == 1 && rng.Step == 1 && rng.Off == 0 && ((rng.CondOp == token.LEQ && tf.Eq(rng.Bound, depthP)) || (rng.CondOp == token.LSS && tf.Eq(rng.Bound, tf.AffAdd(depthP, tf.ConstInt(1), 1))))
				if !okRange {
					probs = append(probs, fmt.Sprintf("the table is filled for i from %s while i%+d %s %s, not for 1..depth", describe(rng.First), rng.Off, rng.CondOp, describe(rng.Bound)))
					continue
				}
				// value: Hash([t[i-1], t[i-1]])
				for _, e := range nev.Events() {
					if callNameHasSuffix(e.Term, "go-iden3-crypto/poseidon.Hash") && len(e.Term.Args) == 1 {
						parts := tf.Parts(nev.Resolve(e.Term.Args[0]))
						if len(parts) == 2 && parts[0].K == tf.KElem && parts[1].K == tf.KElem {
							x, y := parts[0].Args[0], parts[1].Args[0]
							ivm1 := tf.AffAdd(iv, tf.ConstInt(1), -1)
							isPrev := func(t *tf.Term) bool { return t.K == tf.KIdx && tf.Eq(t.Args[1], ivm1) }
							if isPrev(x) && isPrev(y) && tf.Eq(x, y) {
								okFill = true
							} else {
								probs = append(probs, "table[i] is not Hash(table[i-1], table[i-1]): operands "+describe(x)+", "+describe(y))
							}
						}
					}
				}
			}
		}
		if !okFill && len(probs) == 0 {
			probs = append(probs, "cannot recognise the table fill t[i] = Hash(t[i-1], t[i-1])")
		}
	}
	r.Check(len(probs) == 0, "O18.6", core.FuncName(nt)+": table of depth+1 entries, t[i]=Hash(t[i-1],t[i-1]) for i=1..depth, root at depth", p.Pos(nt.Pos()), "make(depth+1); t[i] = Hash(t[i-1], t[i-1]), i = 1..depth; root = Empty{depth, t}", strings.Join(probs, "; "))
	// O18.4: writes through the table field anywhere in the package
	var writes []string
	var fns []*ssa.Function
	for _, fn := range p.RepoFuncs() {
		if fn.Pkg == sp {
			fns = append(fns, fn)
		}
	}
	sort.Slice(fns, func(i, j int) bool { return fns[i].String() < fns[j].String() })
	e0 := tf.NewEngine(core.InRepo, 0)
	for _, fn := range fns {
		ev := e0.NewEval(fn)
		for _, s := range ev.ExtStores() {
			if tf.Contains(s.Addr, func(x *tf.Term) bool { return x.K == tf.KField && x.Name == tm.Table }) {
				writes = append(writes, core.FuncName(fn)+" at "+p.Pos(s.Instr.Pos()))
			}
		}
		for _, e := range ev.Events() {
			if e.Term.K == tf.KCall && e.Term.Name == "builtin.copy" && len(e.Term.Args) > 0 && tf.Contains(e.Term.Args[0], func(x *tf.Term) bool { return x.K == tf.KField && x.Name == tm.Table }) {
				writes = append(writes, core.FuncName(fn)+" (copy) at "+p.Pos(e.Instr.Pos()))
			}
		}
	}
	r.Check(len(writes) == 0, "O18.4", "empty-subtree table is immutable after construction", p.Pos(nt.Pos()), fmt.Sprintf("no write through the %s field in %d functions", tm.Table, len(fns)), "the shared empty-subtree table is written by "+strings.Join(writes, ", ")+": every empty subtree of every tree version changes its hash")
}

// sameFieldAddr: go/ssa does not share &x.f computations, so two field addresses are compared structurally.
func sameFieldAddr(a, b ssa.Value) bool {
	if a == b {
		return true
	}
	fa, ok1 := a.(*ssa.FieldAddr)
	fb, ok2 := b.(*ssa.FieldAddr)
	return ok1 && ok2 && fa.X == fb.X && fa.Field == fb.Field
}

func rootFieldName(nt *ssa.Function) string {
	if n := namedOf(nt.Signature.Results().At(0).Type()); n != nil {
		if st, ok := n.Underlying().(*types.Struct); ok && st.NumFields() > 0 {
			// the root is the field that holds a node (an interface declared in the tree's package); other fields (a lock,
			// a cached depth) may come before it
			for i := 0; i < st.NumFields(); i++ {
				if fn := namedOf(st.Field(i).Type()); fn != nil && inRepoObj(fn.Obj()) {
					if _, isI := fn.Underlying().(*types.Interface); isI {
						return st.Field(i).Name()
					}
				}
			}
			return st.Field(0).Name()
		}
	}
	return ""
}

func instrBefore(a, b ssa.Instruction) bool {
	if a.Block() == b.Block() {
		return indexOf(a.Block(), a) < indexOf(b.Block(), b)
	}
	return a.Block().Dominates(b.Block())
}

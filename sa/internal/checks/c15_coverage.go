package checks

import (
	"fmt"
	"go/ast"
	"go/token"
	"go/types"
	"sort"
	"strings"

	"golang.org/x/tools/go/ssa"

	"verif/sa/internal/core"
	"verif/sa/internal/eff"
)

// O15.8 — section coverage of every stream decoder of the proving system.
//
// A *stream decoder* is a function that hands an io.Reader to some call and, on the same activation (or in an in-repo callee
// that is given the same object), stores into fields of a proving-system object that outlives the call (a parameter, the
// receiver, or an object it returns). A decoder that is entered from code that is not itself a decoder (the loaders, the CLI
// actions) or that has no in-repo caller stands for "the file was read": on every return that may be a success it must have
// stored every field that the writers write. A decoder that stops after the keys accepts every file that is cut anywhere in
// the sections it did not read. Part-methods (readHeader, readKeys) that only decoders call are credited to their callers.

type psDecoder struct {
	fn     *ssa.Function
	judged bool
}

type decoderCtx struct {
	p       *core.Program
	ps      *types.Named
	memo    map[string][]string // fn|param → fields must-stored through that parameter on every possible-success return
	onStack map[string]bool
}

func isPSPointer(t types.Type, ps *types.Named) bool {
	pt, ok := types.Unalias(t).(*types.Pointer)
	if !ok {
		return false
	}
	n, _ := types.Unalias(pt.Elem()).(*types.Named)
	return n != nil && n.Origin() == ps
}

// psRoot resolves a *ProvingSystem value to the object it denotes within one function: a parameter, an allocation, or the
// variable (Alloc of type **PS) it was loaded from.
func psRoot(v ssa.Value, depth int) ssa.Value {
	if depth > 8 {
		return v
	}
	switch x := v.(type) {
	case *ssa.UnOp:
		if x.Op == token.MUL {
			if a, ok := x.X.(*ssa.Alloc); ok {
				// a variable holding the pointer: if it has a single stored value, that value; else the variable
				var stored []ssa.Value
				if refs := a.Referrers(); refs != nil {
					for _, r := range *refs {
						if st, ok := r.(*ssa.Store); ok && st.Addr == ssa.Value(a) {
							stored = append(stored, st.Val)
						}
					}
				}
				if len(stored) == 1 {
					return psRoot(stored[0], depth+1)
				}
				return a
			}
		}
	case *ssa.ChangeType:
		return psRoot(x.X, depth+1)
	case *ssa.Phi:
		var r ssa.Value
		for _, e := range x.Edges {
			er := psRoot(e, depth+1)
			if r == nil {
				r = er
			} else if r != er {
				return v
			}
		}
		if r != nil {
			return r
		}
	}
	return v
}

func hasReaderArg(fn *ssa.Function) bool {
	for _, b := range fn.Blocks {
		for _, in := range b.Instrs {
			c, ok := in.(ssa.CallInstruction)
			if !ok {
				continue
			}
			sig := c.Common().Signature()
			if sig == nil {
				continue
			}
			for i := 0; i < sig.Params().Len(); i++ {
				if isIOReader(sig.Params().At(i).Type()) {
					return true
				}
			}
		}
	}
	return false
}

// provablyErrorReturn: the error operand of ret is certainly non-nil — a freshly constructed error, or a value that a
// dominating test found non-nil.
func provablyErrorReturn(ret *ssa.Return) bool {
	if len(ret.Results) == 0 {
		return false
	}
	ev := ret.Results[len(ret.Results)-1]
	if !isErrorType(ev.Type()) {
		return false
	}
	return certainlyNonNil(ev, ret.Block(), 0)
}

func certainlyNonNil(ev ssa.Value, at *ssa.BasicBlock, depth int) bool {
	if depth > 6 {
		return false
	}
	switch x := ev.(type) {
	case *ssa.Const:
		return false
	case *ssa.MakeInterface:
		return true
	case *ssa.Call:
		if callee := x.Common().StaticCallee(); callee != nil {
			n := callee.String()
			if n == "errors.New" || n == "fmt.Errorf" || strings.HasPrefix(n, "errors.Join") {
				return true
			}
			// an in-repo error constructor (invalidMode(mode)): every return of it yields a certainly non-nil error
			if len(callee.Blocks) > 0 && callee.Pkg != nil && core.InRepo(callee.Pkg.Pkg.Path()) && callee.Signature.Results().Len() == 1 && isErrorType(callee.Signature.Results().At(0).Type()) {
				all, n := true, 0
				for _, cb := range callee.Blocks {
					if cr, ok := cb.Instrs[len(cb.Instrs)-1].(*ssa.Return); ok {
						n++
						if !certainlyNonNil(cr.Results[0], cb, depth+1) {
							all = false
						}
					}
				}
				if all && n > 0 {
					return true
				}
			}
		}
	case *ssa.Phi:
		all := len(x.Edges) > 0
		for i, e := range x.Edges {
			if !certainlyNonNil(e, x.Block().Preds[i], depth+1) {
				all = false
				break
			}
		}
		if all {
			return true
		}
		// otherwise the φ itself may have been tested (below)
	}
	// a sentinel error of another package (io.ErrUnexpectedEOF, io.EOF, …) is never nil
	if l, ok := ev.(*ssa.UnOp); ok && l.Op == token.MUL {
		if g, isG := l.X.(*ssa.Global); isG && g.Pkg != nil && !core.InRepo(g.Pkg.Pkg.Path()) && (strings.HasPrefix(g.Name(), "Err") || g.Name() == "EOF") {
			return true
		}
	}
	// a load of a result slot / variable right after a store in the same block (defer-spilled results): the stored value
	if l, ok := ev.(*ssa.UnOp); ok && l.Op == token.MUL {
		if _, isAlloc := l.X.(*ssa.Alloc); isAlloc {
			var last ssa.Value
			for _, in := range l.Block().Instrs {
				if in == ssa.Instruction(l) {
					break
				}
				if st, ok := in.(*ssa.Store); ok && st.Addr == l.X {
					last = st.Val
				}
			}
			if last != nil {
				return certainlyNonNil(last, l.Block(), depth+1)
			}
		}
	}
	// dominated by the non-nil edge of a test of this value (or of a load of the same variable with no store in between)
	same := func(c ssa.Value) bool {
		if c == ev {
			return true
		}
		l1, ok1 := ev.(*ssa.UnOp)
		l2, ok2 := c.(*ssa.UnOp)
		if ok1 && ok2 && l1.Op == token.MUL && l2.Op == token.MUL && l1.X == l2.X {
			if _, isAlloc := l1.X.(*ssa.Alloc); isAlloc {
				return true
			}
		}
		return false
	}
	fn := at.Parent()
	for _, b := range fn.Blocks {
		iff, ok := b.Instrs[len(b.Instrs)-1].(*ssa.If)
		if !ok {
			continue
		}
		bo, ok := iff.Cond.(*ssa.BinOp)
		if !ok || (bo.Op != token.NEQ && bo.Op != token.EQL) {
			continue
		}
		var tested ssa.Value
		if k, isC := bo.Y.(*ssa.Const); isC && k.Value == nil {
			tested = bo.X
		} else if k, isC := bo.X.(*ssa.Const); isC && k.Value == nil {
			tested = bo.Y
		}
		if tested == nil || !same(tested) {
			continue
		}
		succ := b.Succs[0]
		if bo.Op == token.EQL {
			succ = b.Succs[1]
		}
		if len(succ.Preds) != 1 || !(succ == at || succ.Dominates(at)) || at == nil {
			continue
		}
		// for a variable: no store to it between the test and the return
		if l, ok := ev.(*ssa.UnOp); ok && l.Op == token.MUL {
			clean := true
			if refs := l.X.Referrers(); refs != nil {
				for _, r := range *refs {
					if st, ok := r.(*ssa.Store); ok && st.Addr == l.X {
						sb := st.Block()
						if !(sb == succ || succ.Dominates(sb)) || !(sb == l.Block() || sb.Dominates(l.Block())) {
							continue
						}
						if sb == l.Block() {
							// only a store that precedes the load in its own block separates test and load
							before := false
							for _, in := range sb.Instrs {
								if in == ssa.Instruction(st) {
									before = true
									break
								}
								if in == ssa.Instruction(l) {
									break
								}
							}
							if !before {
								continue
							}
						}
						clean = false
					}
				}
			}
			if !clean {
				continue
			}
		}
		return true
	}
	return false
}

// credited: (block, field) pairs at which fn certainly stores field f of the object root.
type credit struct {
	b *ssa.BasicBlock
	i int // instruction index, for same-block ordering against the return (a return is always last)
	f string
}

func (dc *decoderCtx) credits(fn *ssa.Function, root ssa.Value) []credit {
	st, _ := dc.ps.Underlying().(*types.Struct)
	var out []credit
	for _, b := range fn.Blocks {
		for i, in := range b.Instrs {
			switch x := in.(type) {
			case *ssa.Store:
				if fa, ok := x.Addr.(*ssa.FieldAddr); ok && isPSPointer(fa.X.Type(), dc.ps) && psRoot(fa.X, 0) == root && st != nil {
					out = append(out, credit{b, i, st.Field(fa.Field).Name()})
				}
				// whole-object store *ps = ProvingSystem{…}
				if isPSPointer(x.Addr.Type(), dc.ps) && psRoot(x.Addr, 0) == root && st != nil {
					for k := 0; k < st.NumFields(); k++ {
						out = append(out, credit{b, i, st.Field(k).Name()})
					}
				}
			case ssa.CallInstruction:
				callee := x.Common().StaticCallee()
				if callee == nil || len(callee.Blocks) == 0 || callee.Pkg == nil || !core.InRepo(callee.Pkg.Pkg.Path()) {
					continue
				}
				for j, a := range x.Common().Args {
					if isPSPointer(a.Type(), dc.ps) && psRoot(a, 0) == root && j < len(callee.Params) {
						for _, f := range dc.summary(callee, j) {
							out = append(out, credit{b, i, f})
						}
						// a callee that lets &ps.F escape (a pointer view of the header handed back to the caller) may have it
						// written by code this analysis does not follow: the field is given the benefit of the doubt
						for _, f := range dc.escapingFields(callee, j, 0) {
							out = append(out, credit{b, i, f})
						}
					}
					// &ps.F handed to a helper that stores through it on every possible-success return (readUint32(r, &ps.TreeDepth))
					if fa, ok := a.(*ssa.FieldAddr); ok && isPSPointer(fa.X.Type(), dc.ps) && psRoot(fa.X, 0) == root && st != nil && j < len(callee.Params) {
						if dc.storesThrough(callee, j) {
							out = append(out, credit{b, i, st.Field(fa.Field).Name()})
						}
					}
				}
			}
		}
	}
	// &ps.F handed to a decoding call outside the repository together with a reader (binary.Read(r, order, &ps.TreeDepth))
	for _, b := range fn.Blocks {
		for i, in := range b.Instrs {
			c, ok := in.(ssa.CallInstruction)
			if !ok {
				continue
			}
			callee := c.Common().StaticCallee()
			if callee == nil || (callee.Pkg != nil && core.InRepo(callee.Pkg.Pkg.Path())) {
				continue
			}
			for _, a := range c.Common().Args {
				v := a
				if mi, isMI := v.(*ssa.MakeInterface); isMI {
					v = mi.X
				}
				if fa, ok := v.(*ssa.FieldAddr); ok && isPSPointer(fa.X.Type(), dc.ps) && psRoot(fa.X, 0) == root && st != nil {
					out = append(out, credit{b, i, st.Field(fa.Field).Name()})
				}
			}
		}
	}
	return out
}

// escapingFields: fields of parameter j whose address fn stores somewhere, returns or hands to a function value.
func (dc *decoderCtx) escapingFields(fn *ssa.Function, j int, depth int) []string {
	st, _ := dc.ps.Underlying().(*types.Struct)
	if st == nil || j >= len(fn.Params) || depth > 3 {
		return nil
	}
	root := ssa.Value(fn.Params[j])
	set := map[string]bool{}
	for _, b := range fn.Blocks {
		for _, in := range b.Instrs {
			fa, ok := in.(*ssa.FieldAddr)
			if !ok || !isPSPointer(fa.X.Type(), dc.ps) || psRoot(fa.X, 0) != root || fa.Referrers() == nil {
				continue
			}
			for _, r := range *fa.Referrers() {
				switch u := r.(type) {
				case *ssa.Store:
					if u.Val == ssa.Value(fa) {
						set[st.Field(fa.Field).Name()] = true // the address itself is stored
					}
				case *ssa.Return, *ssa.MakeInterface, *ssa.MakeClosure, *ssa.Phi:
					set[st.Field(fa.Field).Name()] = true
				}
			}
		}
	}
	var out []string
	for f := range set {
		out = append(out, f)
	}
	sort.Strings(out)
	return out
}

// storesThrough: fn stores through its pointer parameter j before every return that may be a success.
func (dc *decoderCtx) storesThrough(fn *ssa.Function, j int) bool {
	if len(fn.Blocks) == 0 || j >= len(fn.Params) {
		return false
	}
	prm := fn.Params[j]
	var stores []*ssa.BasicBlock
	for _, b := range fn.Blocks {
		for _, in := range b.Instrs {
			if st, ok := in.(*ssa.Store); ok && st.Addr == ssa.Value(prm) {
				stores = append(stores, b)
			}
		}
	}
	if len(stores) == 0 {
		return false
	}
	for _, b := range fn.Blocks {
		ret, ok := b.Instrs[len(b.Instrs)-1].(*ssa.Return)
		if !ok || provablyErrorReturn(ret) || b == fn.Recover {
			continue
		}
		covered := false
		for _, sb := range stores {
			if sb == b || sb.Dominates(b) {
				covered = true
			}
		}
		if !covered {
			return false
		}
	}
	return true
}

// summary: fields must-stored through parameter j on every return of fn that may be a success.
func (dc *decoderCtx) summary(fn *ssa.Function, j int) []string {
	key := fmt.Sprintf("%s|%d", fn.String(), j)
	if v, ok := dc.memo[key]; ok {
		return v
	}
	if dc.onStack[key] {
		return nil
	}
	dc.onStack[key] = true
	defer delete(dc.onStack, key)
	res := dc.mustStored(fn, fn.Params[j])
	var fields []string
	first := true
	for _, fs := range res {
		if first {
			fields = fs
			first = false
			continue
		}
		fields = intersect(fields, fs)
	}
	dc.memo[key] = fields
	return fields
}

func intersect(a, b []string) []string {
	in := map[string]bool{}
	for _, x := range b {
		in[x] = true
	}
	var out []string
	for _, x := range a {
		if in[x] {
			out = append(out, x)
		}
	}
	return out
}

// mustStored: for every possible-success return of fn, the fields of root certainly stored before it.
func (dc *decoderCtx) mustStored(fn *ssa.Function, root ssa.Value) map[*ssa.Return][]string {
	cr := dc.credits(fn, root)
	out := map[*ssa.Return][]string{}
	for _, b := range fn.Blocks {
		ret, ok := b.Instrs[len(b.Instrs)-1].(*ssa.Return)
		if !ok || provablyErrorReturn(ret) || b == fn.Recover {
			continue // (the recover block re-returns the named results after a panic in a deferred call: not a path of the decoder)
		}
		set := map[string]bool{}
		for _, c := range cr {
			if c.b == b || c.b.Dominates(b) {
				set[c.f] = true
			}
		}
		var fs []string
		for f := range set {
			fs = append(fs, f)
		}
		sort.Strings(fs)
		out[ret] = fs
	}
	return out
}

// psRootsOf: the proving-system objects of fn that outlive it — pointer parameters / receiver, and objects it returns.
func (dc *decoderCtx) escapingRoots(fn *ssa.Function) []ssa.Value {
	var roots []ssa.Value
	seen := map[ssa.Value]bool{}
	add := func(v ssa.Value) {
		if v != nil && !seen[v] {
			seen[v] = true
			roots = append(roots, v)
		}
	}
	for _, prm := range fn.Params {
		if isPSPointer(prm.Type(), dc.ps) {
			add(prm)
		}
	}
	for _, b := range fn.Blocks {
		if ret, ok := b.Instrs[len(b.Instrs)-1].(*ssa.Return); ok {
			for _, rv := range ret.Results {
				if isPSPointer(rv.Type(), dc.ps) {
					if k, isC := rv.(*ssa.Const); isC && k.Value == nil {
						continue
					}
					add(psRoot(rv, 0))
				}
			}
		}
	}
	return roots
}

// psStreamDecoders lists the stream decoders of the proving system and says which of them are entered from non-decoder code.
func psStreamDecoders(p *core.Program, ps *types.Named) (*decoderCtx, []psDecoder) {
	dc := &decoderCtx{p: p, ps: ps, memo: map[string][]string{}, onStack: map[string]bool{}}
	isDec := map[*ssa.Function]bool{}
	var decs []*ssa.Function
	for _, fn := range p.RepoFuncs() {
		if len(fn.Blocks) == 0 || !hasReaderArg(fn) {
			continue
		}
		for _, root := range dc.escapingRoots(fn) {
			if len(dc.credits(fn, root)) > 0 {
				isDec[fn] = true
			}
		}
		if isDec[fn] {
			decs = append(decs, fn)
		}
	}
	// callers
	calledFromOutside := map[*ssa.Function]bool{}
	hasCaller := map[*ssa.Function]bool{}
	for _, fn := range p.RepoFuncs() {
		for _, b := range fn.Blocks {
			for _, in := range b.Instrs {
				c, ok := in.(ssa.CallInstruction)
				if !ok {
					continue
				}
				callee := c.Common().StaticCallee()
				if callee == nil || !isDec[callee] {
					continue
				}
				hasCaller[callee] = true
				if !isDec[fn] {
					calledFromOutside[callee] = true
				}
			}
		}
	}
	var out []psDecoder
	for _, d := range decs {
		exported := d.Object() != nil && d.Object().Exported()
		out = append(out, psDecoder{fn: d, judged: calledFromOutside[d] || (!hasCaller[d] && exported)})
	}
	return dc, out
}

func writerFields(p *core.Program, ps *types.Named) []string {
	st, _ := ps.Underlying().(*types.Struct)
	set := map[string]bool{}
	for _, fn := range p.RepoFuncs() {
		if fn.Signature.Recv() == nil || namedOf(fn.Signature.Recv().Type()) != ps || len(fn.Blocks) == 0 {
			continue
		}
		isW := false
		for i := 0; i < fn.Signature.Params().Len(); i++ {
			if isNamed(fn.Signature.Params().At(i).Type(), "io", "Writer") {
				isW = true
			}
		}
		if !isW || fn.Signature.Results().Len() != 2 {
			continue
		}
		// fields read by the writer and by the in-repo functions it hands its receiver to
		var visit func(f *ssa.Function, root ssa.Value, depth int)
		visit = func(f *ssa.Function, root ssa.Value, depth int) {
			if depth > 4 {
				return
			}
			for _, b := range f.Blocks {
				for _, in := range b.Instrs {
					switch x := in.(type) {
					case *ssa.FieldAddr:
						if isPSPointer(x.X.Type(), ps) && psRoot(x.X, 0) == root && st != nil {
							set[st.Field(x.Field).Name()] = true
						}
					case ssa.CallInstruction:
						callee := x.Common().StaticCallee()
						if callee == nil || len(callee.Blocks) == 0 || callee.Pkg == nil || !core.InRepo(callee.Pkg.Pkg.Path()) {
							continue
						}
						for j, a := range x.Common().Args {
							if isPSPointer(a.Type(), ps) && psRoot(a, 0) == root && j < len(callee.Params) {
								visit(callee, callee.Params[j], depth+1)
							}
						}
					}
				}
			}
		}
		visit(fn, fn.Params[0], 0)
	}
	var out []string
	for f := range set {
		out = append(out, f)
	}
	sort.Strings(out)
	return out
}

func checkDecoderCoverage(p *core.Program, r *core.Report, ps *types.Named) {
	want := writerFields(p, ps)
	dc, decs := psStreamDecoders(p, ps)
	n := 0
	for _, d := range decs {
		if !d.judged {
			continue
		}
		name := core.FuncName(d.fn)
		r.AnalysedFn(name)
		for _, root := range dc.escapingRoots(d.fn) {
			if len(dc.credits(d.fn, root)) == 0 {
				continue
			}
			n++
			var bad []string
			rets := dc.mustStored(d.fn, root)
			for ret, got := range rets {
				has := map[string]bool{}
				for _, f := range got {
					has[f] = true
				}
				var missing []string
				for _, f := range want {
					if !has[f] {
						missing = append(missing, f)
					}
				}
				if len(missing) > 0 {
					bad = append(bad, fmt.Sprintf("the return at %s can be a success return although %s was not read", p.Pos(ret.Pos()), strings.Join(missing, ", ")))
				}
			}
			sort.Strings(bad)
			cn := name + ": a decoded system has every section the writers write"
			if len(bad) == 0 {
				r.OK("O15.8", cn, p.Pos(d.fn.Pos()), "%d possible-success return(s), each after stores to %s", len(rets), strings.Join(want, ", "))
			} else {
				r.Violation("O15.8", cn, p.Pos(d.fn.Pos()), "%s: a file cut anywhere in the sections that were not read is accepted", strings.Join(bad, "; "))
			}
		}
	}
	r.Count("stream decoders checked for section coverage", n)
}

// checkCommandsUseLoader (O15.9): every CLI command that is given a keys file (--keys-file, or --input of convert-to-raw)
// obtains its system from a loader of the load chain — the functions whose every section read is governed by O15.1–O15.8.
// A command that decodes or copies the file by other means (streams the constraint-system section through io.Copy, reads
// the keys with its own code) is outside all of those rules: end-of-file in the part it does not decode is not an error.
func checkCommandsUseLoader(p *core.Program, r *core.Report, li *loaderInfo) {
	loaderFns := map[*ssa.Function]bool{}
	for _, l := range li.loaders {
		if fd, ok := l.Node.(*ast.FuncDecl); ok {
			if obj, _ := l.Pkg.TypesInfo.Defs[fd.Name].(*types.Func); obj != nil {
				if fn := p.SSA.FuncValue(obj); fn != nil {
					loaderFns[fn] = true
				}
			}
		}
	}
	// the commands of today's interface that consume a keys file (a new read-only command that only peeks at the header is
	// not one of them)
	consumers := map[string]string{"start": "keys-file", "prove": "keys-file", "verify": "keys-file", "export-solidity": "keys-file", "export-vk": "keys-file", "convert-to-raw": "input"}
	g := eff.BuildGraph(p)
	n := 0
	for _, c := range cliCommands(p) {
		flag, isConsumer := consumers[c.Name]
		act := actionSSA(p, c)
		if act == nil || !isConsumer {
			continue
		}
		roots := []*ssa.Function{act}
		var addAnon func(f *ssa.Function)
		addAnon = func(f *ssa.Function) {
			for _, a := range f.AnonFuncs {
				roots = append(roots, a)
				addAnon(a)
			}
		}
		addAnon(act)
		usesLoader := false
		for f := range g.Reach(roots...) {
			if loaderFns[f] {
				usesLoader = true
			}
		}
		n++
		cn := "main.cmd:" + c.Name + ": the keys file is read by a loader of the load chain"
		if usesLoader {
			r.OK("O15.9", cn, p.Pos(c.Lit.Pos()), "--%s is loaded through the load chain", flag)
		} else {
			r.Violation("O15.9", cn, p.Pos(c.Lit.Pos()), "the command takes --%s but no loader of the load chain (%d known) is reachable from its action: whatever reads the file instead is not held to the section-by-section error and coverage rules, so a truncated file can pass", flag, len(loaderFns))
		}
	}
	r.Count("commands taking a keys file", n)
}

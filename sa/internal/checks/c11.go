package checks

import (
	"fmt"
	"go/ast"
	"go/constant"
	"go/token"
	"go/types"
	"sort"
	"golang.org/x/tools/go/ssa"
	"strings"

	"verif/sa/internal/core"
	"verif/sa/internal/flow"
)

func init() { Registry["C11"] = Check{Run: checkC11} }

// psIOMethods returns the methods of the proving-system type that take an io.Writer (writers) or io.Reader (readers).
func psIOMethods(p *core.Program, ix *funcIndex, ps *types.Named) (writers, readers []flow.FuncUnit) {
	writers, readers, _, _ = psIOMethodsParts(p, ix, ps)
	return
}

// psIOMethodsParts also returns the methods that are parts of a writer / of a reader (called by it on its own receiver).
func psIOMethodsParts(p *core.Program, ix *funcIndex, ps *types.Named) (writers, readers, writerParts, readerParts []flow.FuncUnit) {
	for _, u := range ix.all {
		fd := u.Node.(*ast.FuncDecl)
		obj := u.Pkg.TypesInfo.Defs[fd.Name].(*types.Func)
		sig := obj.Type().(*types.Signature)
		if sig.Recv() == nil || namedOf(sig.Recv().Type()) != ps {
			continue
		}
		for i := 0; i < sig.Params().Len(); i++ {
			t := sig.Params().At(i).Type()
			if isNamed(t, "io", "Writer") && sig.Results().Len() == 2 {
				writers = append(writers, u)
			}
			if isNamed(t, "io", "Reader") {
				readers = append(readers, u)
			}
		}
	}
	// a method that another of these methods calls on its own receiver is a part of that method (readHeader, readKeys, a
	// shared writeTo(w, raw)): it is read in place there (sectionEventsWith) and is not a writer/reader of its own — unless
	// it is exported, in which case callers outside can use it directly
	called := map[*types.Func]bool{}
	for _, u := range append(append([]flow.FuncUnit{}, writers...), readers...) {
		info := u.Pkg.TypesInfo
		fd := u.Node.(*ast.FuncDecl)
		var recv *types.Var
		if fd.Recv != nil && len(fd.Recv.List) == 1 && len(fd.Recv.List[0].Names) == 1 {
			recv, _ = info.Defs[fd.Recv.List[0].Names[0]].(*types.Var)
		}
		ast.Inspect(fd.Body, func(n ast.Node) bool {
			if call, ok := n.(*ast.CallExpr); ok {
				if sel, ok := ast.Unparen(call.Fun).(*ast.SelectorExpr); ok && recv != nil && identVar(info, sel.X) == recv {
					if fn, _ := flow.Callee(info, call).(*types.Func); fn != nil {
						called[fn.Origin()] = true
					}
				}
			}
			return true
		})
	}
	keep := func(us []flow.FuncUnit) (out, parts []flow.FuncUnit) {
		for _, u := range us {
			obj := u.Pkg.TypesInfo.Defs[u.Node.(*ast.FuncDecl).Name].(*types.Func)
			if called[obj] && !obj.Exported() {
				parts = append(parts, u)
				continue
			}
			out = append(out, u)
		}
		return out, parts
	}
	writers, writerParts = keep(writers)
	readers, readerParts = keep(readers)
	return
}

// ioEvent is one section event of the keys-file format.
type ioEvent struct {
	Kind  string // "u32" or "obj" or "bytes?"
	Order string // byte order for u32
	Field string // proving-system field
	Pos   string
}

func (e ioEvent) key() string {
	if e.Kind == "u32" {
		return "u32(" + e.Order + "," + e.Field + ")"
	}
	return e.Kind + "(" + e.Field + ")"
}

// recvField: if e is recv.F (recv = the method receiver) return F.
func recvField(info *types.Info, e ast.Expr, recv *types.Var) (string, bool) {
	sel, ok := ast.Unparen(e).(*ast.SelectorExpr)
	if !ok {
		return "", false
	}
	id, ok := ast.Unparen(sel.X).(*ast.Ident)
	if !ok || info.ObjectOf(id) != recv {
		return "", false
	}
	if v, ok := info.ObjectOf(sel.Sel).(*types.Var); ok && v.IsField() {
		return v.Name(), true
	}
	return "", false
}

// baseIdentVar: the variable underlying x, x[:], x[a:b], &x.
func baseIdentVar(info *types.Info, e ast.Expr) *types.Var {
	for {
		e = ast.Unparen(e)
		switch x := e.(type) {
		case *ast.SliceExpr:
			e = x.X
		case *ast.UnaryExpr:
			e = x.X
		case *ast.Ident:
			v, _ := info.ObjectOf(x).(*types.Var)
			return v
		default:
			return nil
		}
	}
}

// byteOrderOf: binary.BigEndian.PutUint32 / Uint32 → ("BigEndian", "PutUint32").
func byteOrderCall(info *types.Info, call *ast.CallExpr) (order, method string, ok bool) {
	sel, isSel := ast.Unparen(call.Fun).(*ast.SelectorExpr)
	if !isSel {
		return
	}
	inner, isSel := ast.Unparen(sel.X).(*ast.SelectorExpr)
	if !isSel {
		return
	}
	v, isVar := info.Uses[inner.Sel].(*types.Var)
	if !isVar || v.Pkg() == nil || v.Pkg().Path() != "encoding/binary" {
		return
	}
	return v.Name(), sel.Sel.Name, true
}

// u32Helper summarises an in-repo helper that transfers one 32-bit header word: reader helpers
// func(r io.Reader) (uint32, …, error) whose success path is ReadFull(r, buf) … return order.Uint32(buf), and writer helpers
// func(w io.Writer, v uint32) (…, error) whose success path is order.PutUint32(buf, v) … w.Write(buf).
type u32Helper struct {
	Order  string
	Reader bool
	ValArg int // writer: index of the uint32 argument
	DstArg int // reader: index of a *uint32 argument the word is stored through (-1: the word is the first result)
}

func summariseU32Helper(p *core.Program, u flow.FuncUnit) (u32Helper, bool) {
	fd, ok := u.Node.(*ast.FuncDecl)
	if !ok || fd.Recv != nil {
		return u32Helper{}, false
	}
	info := u.Pkg.TypesInfo
	var stream *types.Var
	valArg := -1
	dstArg := -1
	var dstVar *types.Var
	idx := 0
	for _, f := range fd.Type.Params.List {
		for _, n := range f.Names {
			v, _ := info.Defs[n].(*types.Var)
			if v != nil && (isNamed(v.Type(), "io", "Writer") || isNamed(v.Type(), "io", "Reader")) {
				stream = v
			} else if v != nil && isUint32(v.Type()) {
				valArg = idx
			} else if v != nil {
				if pt, ok := v.Type().(*types.Pointer); ok && isUint32(pt.Elem()) {
					dstArg, dstVar = idx, v
				}
			}
			idx++
		}
	}
	if stream == nil {
		return u32Helper{}, false
	}
	reader := isNamed(stream.Type(), "io", "Reader")
	g := flow.NewGraph(u)
	nodes, _, okPath := g.SuccessPath()
	if !okPath {
		return u32Helper{}, false
	}
	isStream := func(e ast.Expr) bool { return identVar(info, e) == stream }
	var filled *types.Var
	order := ""
	done := false
	for _, n := range nodes {
		ast.Inspect(n, func(m ast.Node) bool {
			call, ok := m.(*ast.CallExpr)
			if !ok {
				return true
			}
			fn, _ := flow.Callee(info, call).(*types.Func)
			if reader {
				if fn != nil && fn.FullName() == "io.ReadFull" && len(call.Args) == 2 && isStream(call.Args[0]) {
					filled = baseIdentVar(info, call.Args[1])
				}
				if o, meth, ok := byteOrderCall(info, call); ok && meth == "Uint32" && len(call.Args) == 1 && filled != nil && baseIdentVar(info, call.Args[0]) == filled {
					if ret, isRet := n.(*ast.ReturnStmt); isRet && len(ret.Results) > 0 && ast.Unparen(ret.Results[0]) == ast.Expr(call) {
						order, done = o, true
						dstArg = -1
					}
					// *dst = order.Uint32(buf)
					if as, isAs := n.(*ast.AssignStmt); isAs && len(as.Lhs) == 1 && len(as.Rhs) == 1 && ast.Unparen(as.Rhs[0]) == ast.Expr(call) && dstVar != nil {
						if st, isStar := ast.Unparen(as.Lhs[0]).(*ast.StarExpr); isStar && identVar(info, st.X) == dstVar {
							order, done = o, true
						}
					}
				}
			} else {
				if o, meth, ok := byteOrderCall(info, call); ok && meth == "PutUint32" && len(call.Args) == 2 {
					if valArg >= 0 && identVar(info, call.Args[1]) != nil && isUint32(identVar(info, call.Args[1]).Type()) {
						filled = baseIdentVar(info, call.Args[0])
						order = o
					}
				}
				if sel, ok := ast.Unparen(call.Fun).(*ast.SelectorExpr); ok && isStream(sel.X) && sel.Sel.Name == "Write" && len(call.Args) == 1 && filled != nil && baseIdentVar(info, call.Args[0]) == filled {
					done = true
				}
			}
			return true
		})
	}
	if !done || order == "" {
		return u32Helper{}, false
	}
	return u32Helper{Order: order, Reader: reader, ValArg: valArg, DstArg: dstArg}, true
}

// sectionEvents interprets the success path of a proving-system I/O method as a sequence of section events.
func sectionEvents(p *core.Program, u flow.FuncUnit, isWriter bool) (evs []ioEvent, problems []string) {
	return sectionEventsWith(p, u, isWriter, nil, 0)
}

// sectionEventsWith: bind gives the constant value of boolean parameters at the call site through which this unit was
// reached (a writer shared by both formats behind a `raw bool` flag is read once per flag value).
func sectionEventsWith(p *core.Program, u flow.FuncUnit, isWriter bool, bind map[*types.Var]bool, depth int) (evs []ioEvent, problems []string) {
	info := u.Pkg.TypesInfo
	ix := indexFuncs(p)
	helperOf := func(call *ast.CallExpr) (u32Helper, bool) {
		fn, _ := flow.Callee(info, call).(*types.Func)
		if fn == nil || !inRepoObj(fn) {
			return u32Helper{}, false
		}
		hu, ok := ix.decls[fn.Origin()]
		if !ok {
			return u32Helper{}, false
		}
		return summariseU32Helper(p, hu)
	}
	pendingVal := map[*types.Var]string{} // local variable holding a header word read by a helper -> byte order
	fd := u.Node.(*ast.FuncDecl)
	var recv *types.Var
	if fd.Recv != nil && len(fd.Recv.List) == 1 && len(fd.Recv.List[0].Names) == 1 {
		recv, _ = info.Defs[fd.Recv.List[0].Names[0]].(*types.Var)
	}
	var stream *types.Var
	for _, f := range fd.Type.Params.List {
		for _, n := range f.Names {
			v, _ := info.Defs[n].(*types.Var)
			if v != nil && (isNamed(v.Type(), "io", "Writer") || isNamed(v.Type(), "io", "Reader")) {
				stream = v
			}
		}
	}
	if recv == nil || stream == nil {
		return nil, []string{"receiver or stream parameter not named"}
	}
	g := flow.NewGraph(u)
	nodes, off, ok := g.SuccessPathWith(func(e ast.Expr) flow.Tri {
		if v := identVar(info, e); v != nil {
			if val, bound := bind[v]; bound {
				if val {
					return flow.True
				}
				return flow.False
			}
		}
		return flow.Unknown
	})
	if !ok {
		where := "-"
		if off != nil {
			where = p.Pos(off.Pos())
		}
		problems = append(problems, "success path is not linear (a condition that is not an error nil-test at "+where+")")
	}
	isStream := func(e ast.Expr) bool {
		id, ok := ast.Unparen(e).(*ast.Ident)
		return ok && info.ObjectOf(id) == stream
	}
	// buffer contents: var -> (order, field) of the last PutUint32; pending read: var -> true after ReadFull
	bufPut := map[*types.Var]ioEvent{}
	bufRead := map[*types.Var]bool{}
	for _, n := range nodes {
		// x, …, err := readHelper(r)   and later   F(x) = x
		if as, ok := n.(*ast.AssignStmt); ok && len(as.Rhs) == 1 {
			if call, ok := ast.Unparen(as.Rhs[0]).(*ast.CallExpr); ok {
				if h, ok := helperOf(call); ok && h.Reader && h.DstArg < 0 && len(as.Lhs) >= 1 {
					if f, ok := recvField(info, as.Lhs[0], recv); ok {
						evs = append(evs, ioEvent{Kind: "u32", Order: h.Order, Field: f, Pos: p.Pos(n.Pos())})
					} else if v := identVar(info, as.Lhs[0]); v != nil {
						pendingVal[v] = h.Order
					}
					continue
				}
			}
			if len(as.Lhs) == 1 {
				if v := identVar(info, as.Rhs[0]); v != nil {
					if order, ok := pendingVal[v]; ok {
						if f, ok := recvField(info, as.Lhs[0], recv); ok {
							evs = append(evs, ioEvent{Kind: "u32", Order: order, Field: f, Pos: p.Pos(n.Pos())})
							delete(pendingVal, v)
							continue
						}
					}
				}
			}
		}
		// assignments F(x) = order.Uint32(buf)
		if as, ok := n.(*ast.AssignStmt); ok && len(as.Lhs) == 1 && len(as.Rhs) == 1 {
			if call, ok := ast.Unparen(as.Rhs[0]).(*ast.CallExpr); ok {
				if order, m, ok := byteOrderCall(info, call); ok && m == "Uint32" && len(call.Args) == 1 {
					bv := baseIdentVar(info, call.Args[0])
					if f, ok := recvField(info, as.Lhs[0], recv); ok {
						if bv != nil && bufRead[bv] {
							evs = append(evs, ioEvent{Kind: "u32", Order: order, Field: f, Pos: p.Pos(n.Pos())})
							bufRead[bv] = false
						} else {
							problems = append(problems, fmt.Sprintf("field %s is decoded at %s from a buffer that was not (re)filled by a preceding read", f, p.Pos(n.Pos())))
						}
					}
					continue
				}
			}
		}
		ast.Inspect(n, func(m ast.Node) bool {
			if _, ok := m.(*ast.FuncLit); ok {
				return false
			}
			call, ok := m.(*ast.CallExpr)
			if !ok {
				return true
			}
			if order, meth, ok := byteOrderCall(info, call); ok && meth == "PutUint32" && len(call.Args) == 2 {
				bv := baseIdentVar(info, call.Args[0])
				if f, ok := recvField(info, call.Args[1], recv); ok && bv != nil {
					bufPut[bv] = ioEvent{Kind: "u32", Order: order, Field: f, Pos: p.Pos(call.Pos())}
				} else if bv != nil {
					bufPut[bv] = ioEvent{Kind: "u32", Order: order, Field: "?" + types.ExprString(call.Args[1]), Pos: p.Pos(call.Pos())}
				}
				return true
			}
			fn, _ := flow.Callee(info, call).(*types.Func)
			if fn == nil {
				return true
			}
			full := fn.FullName()
			// readHelper(r, &recv.F)
			if h, ok := helperOf(call); ok && h.Reader && h.DstArg >= 0 && h.DstArg < len(call.Args) {
				arg := call.Args[h.DstArg]
				if ue, isU := ast.Unparen(arg).(*ast.UnaryExpr); isU && ue.Op == token.AND {
					if f, ok := recvField(info, ue.X, recv); ok {
						evs = append(evs, ioEvent{Kind: "u32", Order: h.Order, Field: f, Pos: p.Pos(call.Pos())})
						return false
					}
				}
			}
			// writeHelper(w, recv.F)
			if h, ok := helperOf(call); ok && !h.Reader && h.ValArg >= 0 && h.ValArg < len(call.Args) {
				if f, ok := recvField(info, call.Args[h.ValArg], recv); ok {
					evs = append(evs, ioEvent{Kind: "u32", Order: h.Order, Field: f, Pos: p.Pos(call.Pos())})
					return false
				}
			}
			// w.Write(buf)
			if sel, ok := ast.Unparen(call.Fun).(*ast.SelectorExpr); ok && isStream(sel.X) && fn.Name() == "Write" && len(call.Args) == 1 {
				bv := baseIdentVar(info, call.Args[0])
				if ev, ok := bufPut[bv]; ok && bv != nil {
					ev.Pos = p.Pos(call.Pos())
					evs = append(evs, ev)
				} else {
					evs = append(evs, ioEvent{Kind: "bytes?", Field: types.ExprString(call.Args[0]), Pos: p.Pos(call.Pos())})
				}
				return true
			}
			// r.Read(buf): may legally return fewer bytes than len(buf)
			if sel, ok := ast.Unparen(call.Fun).(*ast.SelectorExpr); ok && isStream(sel.X) && fn.Name() == "Read" && len(call.Args) == 1 {
				problems = append(problems, fmt.Sprintf("the header word at %s is read with Reader.Read, which may return fewer bytes than requested (a reader that delivers the header in fragments leaves stale bytes in the buffer and misaligns every later section); io.ReadFull is required", p.Pos(call.Pos())))
				if bv := baseIdentVar(info, call.Args[0]); bv != nil {
					bufRead[bv] = true
				}
				return true
			}
			// io.ReadFull(r, buf)
			if (full == "io.ReadFull" || full == "io.ReadAtLeast") && len(call.Args) >= 2 && isStream(call.Args[0]) {
				if bv := baseIdentVar(info, call.Args[1]); bv != nil {
					bufRead[bv] = true
				}
				return true
			}
			// binary.Write(w, order, F(x)) / binary.Read(r, order, &F(x))
			if (full == "encoding/binary.Write" || full == "encoding/binary.Read") && len(call.Args) == 3 && isStream(call.Args[0]) {
				order := types.ExprString(call.Args[1])
				if i := strings.LastIndex(order, "."); i >= 0 {
					order = order[i+1:]
				}
				arg := call.Args[2]
				if ue, ok := ast.Unparen(arg).(*ast.UnaryExpr); ok {
					arg = ue.X
				}
				if f, ok := recvField(info, arg, recv); ok {
					evs = append(evs, ioEvent{Kind: "u32", Order: order, Field: f, Pos: p.Pos(call.Pos())})
				} else {
					evs = append(evs, ioEvent{Kind: "bytes?", Field: types.ExprString(call.Args[2]), Pos: p.Pos(call.Pos())})
				}
				return true
			}
			// recv.F.WriteTo(w) etc.
			if sel, ok := ast.Unparen(call.Fun).(*ast.SelectorExpr); ok {
				if f, ok := recvField(info, sel.X, recv); ok {
					passes := false
					for _, a := range call.Args {
						if isStream(a) {
							passes = true
						}
					}
					if passes {
						evs = append(evs, ioEvent{Kind: "obj", Field: f, Pos: p.Pos(call.Pos())})
						return true
					}
				}
			}
			// recv.helper(w, constants…): a method of the same receiver that carries on with the same stream is read in place
			if sel, ok := ast.Unparen(call.Fun).(*ast.SelectorExpr); ok && identVar(info, sel.X) == recv && inRepoObj(fn) && depth < 3 {
				if cu, ok := ix.decls[fn.Origin()]; ok {
					passes := false
					for _, a := range call.Args {
						if isStream(a) {
							passes = true
						}
					}
					if cfd, isFD := cu.Node.(*ast.FuncDecl); isFD && passes && cfd.Recv != nil {
						cb := map[*types.Var]bool{}
						i := 0
						for _, f := range cfd.Type.Params.List {
							for _, nm := range f.Names {
								if i < len(call.Args) {
									if tv, ok := info.Types[call.Args[i]]; ok && tv.Value != nil && tv.Value.Kind() == constant.Bool {
										if pv, _ := cu.Pkg.TypesInfo.Defs[nm].(*types.Var); pv != nil {
											cb[pv] = constant.BoolVal(tv.Value)
										}
									}
								}
								i++
							}
						}
						sub, subProblems := sectionEventsWith(p, cu, isWriter, cb, depth+1)
						evs = append(evs, sub...)
						problems = append(problems, subProblems...)
						return false
					}
				}
			}
			// any other call that receives the stream moves it in a way the analyser cannot name
			for _, a := range call.Args {
				if isStream(a) {
					if inRepoObj(fn) {
						evs = append(evs, ioEvent{Kind: "call:" + fn.Name(), Field: "", Pos: p.Pos(call.Pos())})
					} else if full != "io.ReadFull" {
						evs = append(evs, ioEvent{Kind: "call:" + full, Field: "", Pos: p.Pos(call.Pos())})
					}
				}
			}
			return true
		})
	}
	for bv, pending := range bufRead {
		if pending {
			problems = append(problems, fmt.Sprintf("buffer %s is read from the stream but never decoded into a field", bv.Name()))
		}
	}
	return evs, problems
}

func eventKeys(evs []ioEvent) []string {
	var out []string
	for _, e := range evs {
		out = append(out, e.key())
	}
	return out
}

func checkC11(p *core.Program, r *core.Report) {
	r.Explanation = "Structural necessary conditions of 'a proving-system file reloads to an interchangeable system in either format': (O11.1) sibling agreement — the success-path section sequences of every " +
		"ProvingSystem writer (io.Writer methods) and of the reader (io.Reader method) coincide: same fields, same order, same integer width and byte order, each header word decoded from a freshly read buffer; " +
		"(O11.2) every I/O error in those methods propagates; (O11.3) the CLI commands that persist a system write it with one of those writers to the file created from --output, and convert-to-raw writes the system it read; " +
		"the reader's section objects are created for BN254. Decided on go/cfg success paths + go/types. Not decided: that gnark's readers accept what its writers produce; equality of keys after reload; " +
		"that the stored dimensions are the compiled ones (C12 O12.3)."
	r.Rule("O11.1", "writer and reader section sequences coincide (fields, order, width, endianness)")
	r.Rule("O11.2", "every I/O error in the writers and the reader propagates on every path")
	r.Rule("O11.4", "the reader refuses a file only on read/decode failures (or defensive tests on their results), never on a condition over the decoded depth / batch size")
	r.Rule("O11.7", "imported from C15 O15.6: the load chain keeps no package-level state between loads (a system remembered per path is returned after the file was regenerated)")
	r.Rule("O11.6", "loading a keys file takes no exclusive advisory lock on it (a second reader of a valid file must not be refused)")
	r.Rule("O11.5", "a loader that opens a file lets the decoder read the file itself or a buffer holding the whole stream, not a buffer sized before reading (Stat)")
	r.Rule("O11.3", "CLI: persisting commands write the right system with a ProvingSystem writer to the --output file; reading commands use the loader")
	r.Trusted = append(r.Trusted, "gnark WriteTo/WriteRawTo output is accepted by UnsafeReadFrom/ReadFrom in both encodings", "encoding/binary")
	r.NotDecided = append(r.NotDecided, "equality of keys and constraint system after reload", "gnark's own encoders/decoders")

	ix := indexFuncs(p)
	ps := provingSystemType(p)
	if ps == nil {
		r.Violation("O11.1", "anchor server.Run", "-", "cannot discover the proving-system type")
		return
	}
	writers, readers, writerParts, readerParts := psIOMethodsParts(p, ix, ps)
	r.Count("writers", len(writers))
	r.Count("readers", len(readers))
	r.Floor("writers", 2)
	r.Floor("readers", 1)
	type seq struct {
		u    flow.FuncUnit
		evs  []ioEvent
		kind string
	}
	var seqs []seq
	// a writer with boolean parameters (one implementation behind a `raw bool` flag) is read once per flag value
	boolParams := func(u flow.FuncUnit) []*types.Var {
		var out []*types.Var
		if fd, ok := u.Node.(*ast.FuncDecl); ok {
			for _, f := range fd.Type.Params.List {
				for _, nm := range f.Names {
					if v, _ := u.Pkg.TypesInfo.Defs[nm].(*types.Var); v != nil {
						if b, ok := v.Type().Underlying().(*types.Basic); ok && b.Kind() == types.Bool {
							out = append(out, v)
						}
					}
				}
			}
		}
		return out
	}
	for _, w := range writers {
		r.AnalysedFn(w.Name)
		binds := []map[*types.Var]bool{nil}
		if bp := boolParams(w); len(bp) == 1 {
			binds = []map[*types.Var]bool{{bp[0]: false}, {bp[0]: true}}
		}
		for _, bind := range binds {
			wu := w
			for v, val := range bind {
				wu.Name = fmt.Sprintf("%s[%s=%v]", w.Name, v.Name(), val)
			}
			evs, probs := sectionEventsWith(p, w, true, bind, 0)
			for _, pr := range probs {
				r.Undecided("O11.1", wu.Name+": section sequence", p.Pos(w.Node.Pos()), "%s", pr)
			}
			seqs = append(seqs, seq{wu, evs, "writer"})
		}
	}
	for _, rd := range readers {
		r.AnalysedFn(rd.Name)
		evs, probs := sectionEvents(p, rd, false)
		for _, pr := range probs {
			r.Violation("O11.1", rd.Name+": section sequence", p.Pos(rd.Node.Pos()), "%s", pr)
		}
		seqs = append(seqs, seq{rd, evs, "reader"})
	}
	// every struct field of the proving system must appear exactly once in each sequence
	st, _ := ps.Underlying().(*types.Struct)
	for _, s := range seqs {
		keys := eventKeys(s.evs)
		r.Count("section events", len(s.evs))
		count := map[string]int{}
		for _, e := range s.evs {
			count[e.Field]++
		}
		var missing []string
		if st != nil {
			for i := 0; i < st.NumFields(); i++ {
				if count[st.Field(i).Name()] != 1 {
					missing = append(missing, fmt.Sprintf("%s×%d", st.Field(i).Name(), count[st.Field(i).Name()]))
				}
			}
		}
		cn := s.u.Name + ": covers every field once"
		r.Check(len(missing) == 0, "O11.1", cn, p.Pos(s.u.Node.Pos()), "sequence "+strings.Join(keys, " "), "fields not transferred exactly once: "+strings.Join(missing, ", ")+"; sequence "+strings.Join(keys, " "))
		for _, e := range s.evs {
			if e.Kind == "u32" && e.Order != "BigEndian" && e.Order != "LittleEndian" {
				r.Undecided("O11.1", s.u.Name+": byte order", e.Pos, "byte order %q not recognised", e.Order)
			}
		}
	}
	// pairwise agreement against the first reader
	for _, a := range seqs {
		for _, b := range seqs {
			if a.kind != "writer" || b.kind != "reader" {
				continue
			}
			ka, kb := eventKeys(a.evs), eventKeys(b.evs)
			cn := a.u.Name + " ~ " + b.u.Name
			if strings.Join(ka, " ") == strings.Join(kb, " ") {
				r.OK("O11.1", cn, p.Pos(a.u.Node.Pos()), "identical section sequences: %s", strings.Join(ka, " "))
			} else {
				i := 0
				for i < len(ka) && i < len(kb) && ka[i] == kb[i] {
					i++
				}
				wa, wb := "<end>", "<end>"
				pa := p.Pos(a.u.Node.Pos())
				if i < len(ka) {
					wa = ka[i]
					pa = a.evs[i].Pos
				}
				if i < len(kb) {
					wb = kb[i]
				}
				r.Violation("O11.1", cn, pa, "section sequences differ at position %d: writer has %s, reader has %s (writer: %s | reader: %s)", i, wa, wb, strings.Join(ka, " "), strings.Join(kb, " "))
			}
		}
	}
	r.Floor("section events", 10) // two header words and three objects, in at least one writer and one reader

	// O11.2 errors
	ord := map[string]int{}
	errUnits := append([]seq{}, seqs...)
	seenUnit := map[ast.Node]bool{}
	for _, s := range seqs {
		seenUnit[s.u.Node] = true
	}
	for _, pu := range append(append([]flow.FuncUnit{}, writerParts...), readerParts...) {
		if !seenUnit[pu.Node] {
			seenUnit[pu.Node] = true
			errUnits = append(errUnits, seq{u: pu})
			r.AnalysedFn(pu.Name)
		}
	}
	for _, s := range errUnits {
		sites := flow.Analyse(s.u, flow.Config{Select: chainSelect(s.u.Pkg.TypesInfo)})
		for _, site := range sites {
			if site.Form == "noerror" {
				continue
			}
			r.Count("I/O error sites", 1)
			cn := siteConstruct(s.u, site, ord)
			if len(site.Findings) == 0 {
				r.OK("O11.2", cn, p.Pos(site.Pos), "error propagated on every path")
			} else {
				r.Violation("O11.2", cn, p.Pos(site.Pos), "%s", findingsText(p, site))
			}
		}
	}
	r.Floor("I/O error sites", 8)

	// O11.4: the reader adds no precondition on the stored dimensions
	checkReaderRefusals(p, r, append(append([]flow.FuncUnit{}, readers...), readerParts...))
	checkLoaderStreams(p, r)
	checkLoaderLocks(p, r)
	importRule(p, r, "O11.7", "C15", "O15.6", "a load returns what the file holds now, not what an earlier load of that path returned")
	r.Floor("file loader decode sites", 1)
	// reader: section objects constructed for BN254
	for _, rd := range append(append([]flow.FuncUnit{}, readers...), readerParts...) {
		info := rd.Pkg.TypesInfo
		n := 0
		ast.Inspect(rd.Node, func(m ast.Node) bool {
			call, ok := m.(*ast.CallExpr)
			if !ok {
				return true
			}
			fn, _ := flow.Callee(info, call).(*types.Func)
			if fn == nil || fn.Pkg() == nil || fn.Pkg().Path() != "github.com/consensys/gnark/backend/groth16" || !strings.HasPrefix(fn.Name(), "New") {
				return true
			}
			n++
			good := false
			if len(call.Args) == 1 {
				if sel, ok := ast.Unparen(call.Args[0]).(*ast.SelectorExpr); ok {
					if c, ok := info.Uses[sel.Sel].(*types.Const); ok && c.Name() == "BN254" && c.Pkg().Path() == "github.com/consensys/gnark-crypto/ecc" {
						good = true
					}
				}
			}
			r.Check(good, "O11.1", rd.Name+": "+fn.Name()+" curve", p.Pos(call.Pos()), "section object created for ecc.BN254", "section object is not created for ecc.BN254 (the curve every circuit is compiled for)")
			return true
		})
		r.Count("reader section constructors", n)
	}
	r.Floor("reader section constructors", 3)

	// O11.3 CLI
	writerObjs := map[types.Object]bool{}
	for _, w := range writers {
		writerObjs[w.Pkg.TypesInfo.Defs[w.Node.(*ast.FuncDecl).Name]] = true
	}
	li := findLoaders(p, ix)
	loaderObjs := map[types.Object]bool{}
	for _, l := range li.loaders {
		loaderObjs[l.Pkg.TypesInfo.Defs[l.Node.(*ast.FuncDecl).Name]] = true
	}
	nWrite, nRead := 0, 0
	for _, c := range cliCommands(p) {
		if c.Action.Node == nil {
			continue
		}
		info := c.Pkg.TypesInfo
		body := c.Action.Node
		// variables assigned from calls
		assignedFrom := func(v *types.Var) []*ast.CallExpr {
			var out []*ast.CallExpr
			ast.Inspect(body, func(n ast.Node) bool {
				as, ok := n.(*ast.AssignStmt)
				if !ok {
					return true
				}
				for i, l := range as.Lhs {
					if id, ok := ast.Unparen(l).(*ast.Ident); ok && info.ObjectOf(id) == v {
						var rhs ast.Expr
						if len(as.Rhs) == len(as.Lhs) {
							rhs = as.Rhs[i]
						} else {
							rhs = as.Rhs[0]
						}
						if call, ok := ast.Unparen(rhs).(*ast.CallExpr); ok {
							out = append(out, call)
						} else {
							out = append(out, nil)
						}
					}
				}
				return true
			})
			return out
		}
		flagOf := func(e ast.Expr) string { // context.String("x") possibly through a local
			var name string
			var look func(e ast.Expr, depth int)
			look = func(e ast.Expr, depth int) {
				if depth > 3 {
					return
				}
				switch x := ast.Unparen(e).(type) {
				case *ast.CallExpr:
					if fn, ok := flow.Callee(info, x).(*types.Func); ok && fn.Pkg() != nil && fn.Pkg().Path() == "github.com/urfave/cli/v2" && len(x.Args) == 1 {
						if s, ok := constString(info, x.Args[0]); ok {
							name = s
						}
					}
				case *ast.Ident:
					if v, ok := info.ObjectOf(x).(*types.Var); ok {
						for _, c := range assignedFrom(v) {
							if c != nil {
								look(c, depth+1)
							}
						}
					}
				}
			}
			look(e, 0)
			return name
		}
		ast.Inspect(body, func(n ast.Node) bool {
			call, ok := n.(*ast.CallExpr)
			if !ok {
				return true
			}
			fn, _ := flow.Callee(info, call).(*types.Func)
			if fn == nil {
				return true
			}
			if loaderObjs[fn.Origin()] {
				nRead++
			}
			if !writerObjs[fn.Origin()] {
				return true
			}
			nWrite++
			cn := "main.cmd:" + c.Name + ": " + fn.Name()
			// destination: variable assigned from os.Create(<flag output>)
			var problems []string
			dest := ""
			if len(call.Args) == 1 {
				if v := baseIdentVar(info, call.Args[0]); v != nil {
					for _, src := range assignedFrom(v) {
						if src == nil {
							continue
						}
						if f2, ok := flow.Callee(info, src).(*types.Func); ok && f2.FullName() == "os.Create" && len(src.Args) == 1 {
							dest = flagOf(src.Args[0])
						}
					}
				}
			}
			if dest != "output" {
				problems = append(problems, fmt.Sprintf("destination is not the file created from --output (resolved flag %q)", dest))
			}
			// receiver: the system var; for convert-to-raw it must be the loaded one; otherwise assigned from Setup*/Import* results
			if sel, ok := ast.Unparen(call.Fun).(*ast.SelectorExpr); ok {
				if v := baseIdentVar(info, sel.X); v != nil {
					srcs := assignedFrom(v)
					if len(srcs) == 0 {
						problems = append(problems, "the written system is never assigned")
					}
					for _, src := range srcs {
						if src == nil {
							problems = append(problems, "the written system is assigned from a non-call expression")
							continue
						}
						f2, _ := flow.Callee(info, src).(*types.Func)
						if f2 == nil || !inRepoObj(f2) || f2.Type().(*types.Signature).Results().Len() != 2 || namedOf(f2.Type().(*types.Signature).Results().At(0).Type()) != ps {
							problems = append(problems, "the written system does not come from an in-repo constructor/loader returning (*ProvingSystem, error)")
						}
					}
				} else {
					problems = append(problems, "receiver of the writer is not a local variable")
				}
			}
			r.Check(len(problems) == 0, "O11.3", cn, p.Pos(call.Pos()), "writes the constructed/loaded system to the file created from --output", strings.Join(problems, "; "))
			return true
		})
	}
	// a command that both loads a system and creates an output file must finish loading first: os.Create truncates, and
	// --output may name the input file (in-place conversion)
	for _, c := range cliCommands(p) {
		if c.Action.Node == nil {
			continue
		}
		info := c.Pkg.TypesInfo
		var loads, creates []*ast.CallExpr
		ast.Inspect(c.Action.Node, func(n ast.Node) bool {
			if call, ok := n.(*ast.CallExpr); ok {
				if fn, _ := flow.Callee(info, call).(*types.Func); fn != nil {
					if loaderObjs[fn.Origin()] {
						loads = append(loads, call)
					}
					if fn.FullName() == "os.Create" || fn.FullName() == "os.OpenFile" {
						creates = append(creates, call)
					}
				}
			}
			return true
		})
		if len(loads) == 0 || len(creates) == 0 {
			continue
		}
		g := flow.NewGraph(c.Action)
		for _, cr := range creates {
			lc, ok1 := g.Locate(cr)
			okAll := ok1
			for _, ld := range loads {
				ll, ok2 := g.Locate(ld)
				if !ok2 || !g.LocDominates(ll, lc) {
					okAll = false
				}
			}
			r.Count("load-then-create sites", 1)
			r.Check(okAll, "O11.3", "main.cmd:"+c.Name+": input loaded before the output file is created", p.Pos(cr.Pos()), "the loader call dominates os.Create",
				"the output file is created (and truncated) before the proving system has been loaded: converting a file in place (--output naming the input) destroys it and the command fails with EOF")
		}
	}
	// the persisting commands persist on every success path: a `return nil` that is not preceded by a writer call (an
	// "already up to date" / "already present" shortcut) leaves whatever the output path held before — not the system the
	// command was asked to write
	for _, c := range cliCommands(p) {
		if c.Action.Node == nil || !(c.Name == "setup" || c.Name == "import-setup" || c.Name == "convert-to-raw") {
			continue
		}
		// on SSA: a return counts as a success return unless its error is certainly non-nil (a literal nil, but also
		// `return copyKeysFile(in, out)` — the result of a helper that may well be nil)
		act := actionSSA(p, c)
		if act == nil || len(act.Blocks) == 0 {
			continue
		}
		containsWriter := map[*ssa.Function]bool{}
		var hasWriter func(f *ssa.Function, depth int) bool
		hasWriter = func(f *ssa.Function, depth int) bool {
			if v, ok := containsWriter[f]; ok {
				return v
			}
			containsWriter[f] = false
			if depth > 4 {
				return false
			}
			for _, b := range f.Blocks {
				for _, in := range b.Instrs {
					// a writer bound as a method value (return system.WriteRawTo): whoever gets it writes with it
					if mc, ok := in.(*ssa.MakeClosure); ok {
						if bf, ok := mc.Fn.(*ssa.Function); ok {
							if o, _ := bf.Object().(*types.Func); o != nil && writerObjs[o.Origin()] {
								containsWriter[f] = true
								return true
							}
						}
					}
					ci, ok := in.(ssa.CallInstruction)
					if !ok {
						continue
					}
					sc := ci.Common().StaticCallee()
					if sc == nil {
						continue
					}
					if o, _ := sc.Object().(*types.Func); o != nil && writerObjs[o.Origin()] {
						containsWriter[f] = true
						return true
					}
					if len(sc.Blocks) > 0 && core.InRepo(pkgPathOf(sc)) && hasWriter(sc, depth+1) {
						containsWriter[f] = true
						return true
					}
				}
			}
			return false
		}
		type wsite struct {
			b *ssa.BasicBlock
		}
		var wsites []wsite
		for _, b := range act.Blocks {
			for _, in := range b.Instrs {
				ci, ok := in.(ssa.CallInstruction)
				if !ok {
					continue
				}
				sc := ci.Common().StaticCallee()
				if sc == nil {
					continue
				}
				isWriter := false
				if o, _ := sc.Object().(*types.Func); o != nil && writerObjs[o.Origin()] {
					isWriter = true
				} else if len(sc.Blocks) > 0 && core.InRepo(pkgPathOf(sc)) && hasWriter(sc, 0) {
					isWriter = true // an in-repo helper that contains a writer call (saveSystem(system, path))
				}
				// a writer handed over as a method value (writeToFile(path, system.WriteRawTo, msg)): the call that receives it
				// is where the system gets written
				for _, a := range ci.Common().Args {
					if mc, ok := a.(*ssa.MakeClosure); ok {
						if bf, ok := mc.Fn.(*ssa.Function); ok {
							if o, _ := bf.Object().(*types.Func); o != nil && writerObjs[o.Origin()] {
								isWriter = true
							}
						}
					}
				}
				if isWriter {
					wsites = append(wsites, wsite{b})
				}
			}
		}
		if len(wsites) == 0 {
			r.Violation("O11.3", "main.cmd:"+c.Name+": every success path writes the system", p.Pos(c.Lit.Pos()), "no ProvingSystem writer (WriteTo / WriteRawTo) is reachable from the command: what it leaves at --output is not written by the code whose section sequence is compared with the reader's")
			continue
		}
		var bad []string
		nSucc := 0
		for _, b := range act.Blocks {
			ret, ok := b.Instrs[len(b.Instrs)-1].(*ssa.Return)
			if !ok || provablyErrorReturn(ret) || b == act.Recover {
				continue
			}
			nSucc++
			dom := false
			for _, w := range wsites {
				if w.b == b || w.b.Dominates(b) {
					dom = true
				}
			}
			if !dom {
				bad = append(bad, "the return at "+p.Pos(ret.Pos())+" can report success and is reachable without writing the system with a ProvingSystem writer")
			}
		}
		sort.Strings(bad)
		r.Check(len(bad) == 0, "O11.3", "main.cmd:"+c.Name+": every success path writes the system", p.Pos(c.Lit.Pos()), fmt.Sprintf("%d success return(s), each dominated by the writer call", nSucc), strings.Join(bad, "; "))
	}
	r.Count("CLI write sites", nWrite)
	r.Count("CLI read sites", nRead)
	r.Floor("CLI write sites", 1)
	r.Floor("CLI read sites", 1)
}

// checkReaderRefusals decides O11.4: the reader refuses a file only because a read or a section decoder failed, or through a
// defensive test on what such a call returned (a byte count, an error). An error it constructs itself under a condition on
// the *decoded header values* (the stored depth or batch size) is a precondition that some correctly written system may not
// meet — that system then does not reload, although writer and reader agree on the format.
func checkReaderRefusals(p *core.Program, r *core.Report, readers []flow.FuncUnit) {
	for _, u := range readers {
		fd, ok := u.Node.(*ast.FuncDecl)
		if !ok {
			continue
		}
		obj, _ := u.Pkg.TypesInfo.Defs[fd.Name].(*types.Func)
		fn := p.SSA.FuncValue(obj)
		if fn == nil || fn.Blocks == nil || len(fn.Params) == 0 {
			continue
		}
		recv := fn.Params[0]
		var bad []string
		pos := ""
		for _, b := range fn.Blocks {
			ret, ok := b.Instrs[len(b.Instrs)-1].(*ssa.Return)
			if !ok || len(ret.Results) == 0 {
				continue
			}
			ev := ret.Results[len(ret.Results)-1]
			if !isErrorType(ev.Type()) {
				continue
			}
			for _, leaf := range errorLeaves(ev, b) {
				if !leaf.fresh {
					continue
				}
				if why := headerValueGuard(leaf.block, recv); why != "" {
					if pos == "" {
						pos = p.Pos(leaf.pos)
					}
					bad = append(bad, fmt.Sprintf("the error constructed at %s is returned under a condition on %s", p.Pos(leaf.pos), why))
				}
			}
		}
		cn := u.Name + ": refuses only on read/decode failures"
		if len(bad) > 0 {
			r.Violation("O11.4", cn, pos, "%s — a file that the writers produce for such a system is rejected on reload", strings.Join(uniqStrings(bad), "; "))
		} else {
			r.OK("O11.4", cn, p.Pos(fn.Pos()), "no self-constructed error depends on the decoded depth or batch size")
		}
	}
}

// headerValueGuard: a condition that decides whether b runs reads a field of the receiver or a decoded integer.
func headerValueGuard(b *ssa.BasicBlock, recv ssa.Value) string {
	for d := b.Idom(); d != nil; d = d.Idom() {
		iff, ok := d.Instrs[len(d.Instrs)-1].(*ssa.If)
		if !ok {
			continue
		}
		t, f := d.Succs[0], d.Succs[1]
		onT := (t == b || t.Dominates(b)) && !t.Dominates(d)
		onF := (f == b || f.Dominates(b)) && !f.Dominates(d)
		if onT == onF {
			continue
		}
		if why := readsHeaderValue(iff.Cond, recv, map[ssa.Value]bool{}); why != "" {
			return why
		}
	}
	return ""
}

func readsHeaderValue(v ssa.Value, recv ssa.Value, seen map[ssa.Value]bool) string {
	if seen[v] {
		return ""
	}
	seen[v] = true
	switch x := v.(type) {
	case *ssa.BinOp:
		if isErrorType(x.X.Type()) || isErrorType(x.Y.Type()) {
			return ""
		}
		if w := readsHeaderValue(x.X, recv, seen); w != "" {
			return w
		}
		return readsHeaderValue(x.Y, recv, seen)
	case *ssa.UnOp:
		if x.Op == token.MUL {
			if fa, ok := x.X.(*ssa.FieldAddr); ok && fa.X == recv {
				return "the decoded field " + structFieldName(fa.X.Type(), fa.Field)
			}
			if al, ok := x.X.(*ssa.Alloc); ok {
				for _, ref := range *al.Referrers() {
					if st, ok := ref.(*ssa.Store); ok && st.Addr == ssa.Value(al) {
						if w := readsHeaderValue(st.Val, recv, seen); w != "" {
							return w
						}
					}
				}
			}
			return ""
		}
		return readsHeaderValue(x.X, recv, seen)
	case *ssa.Convert:
		return readsHeaderValue(x.X, recv, seen)
	case *ssa.Phi:
		for _, e := range x.Edges {
			if w := readsHeaderValue(e, recv, seen); w != "" {
				return w
			}
		}
	case *ssa.Call:
		if callee := x.Common().StaticCallee(); callee != nil && strings.Contains(callee.String(), "encoding/binary") && strings.Contains(callee.Name(), "Uint") {
			return "a decoded header word (" + callee.Name() + ")"
		}
		if x.Common().IsInvoke() && strings.HasPrefix(x.Common().Method.Name(), "Uint") {
			return "a decoded header word (" + x.Common().Method.Name() + ")"
		}
	}
	return ""
}

// checkLoaderStreams (O11.5): a loader that opens a file hands the reader method either the file itself (possibly behind
// bufio/Tee) or a buffer that holds the whole stream (io.ReadAll, os.ReadFile, bytes.Buffer.ReadFrom). A buffer whose size
// is fixed before reading — typically from file.Stat().Size() — restores the system from a regular file but not from a
// pipe, a process substitution or /dev/stdin (size 0), and not from a file that is still growing.
func checkLoaderStreams(p *core.Program, r *core.Report) {
	ix := indexFuncs(p)
	li := findLoaders(p, ix)
	if li.ps == nil {
		return
	}
	isReaderMethod := func(f *ssa.Function) bool {
		if f == nil || f.Signature.Recv() == nil || namedOf(f.Signature.Recv().Type()) != li.ps {
			return false
		}
		for i := 0; i < f.Signature.Params().Len(); i++ {
			if isIOReader(f.Signature.Params().At(i).Type()) {
				return true
			}
		}
		return false
	}
	for _, l := range li.loaders {
		obj, _ := l.Pkg.TypesInfo.Defs[l.Node.(*ast.FuncDecl).Name].(*types.Func)
		fn := p.SSA.FuncValue(obj)
		if fn == nil {
			continue
		}
		opensFile := false
		var sites []*ssa.Call
		// the loader and the in-repo functions it calls (readSystem(r io.Reader) shared by two loaders); a reader that is a
		// parameter there is resolved to what the call sites inside this closure pass
		paramArg := map[*ssa.Parameter][]ssa.Value{}
		var scan func(f *ssa.Function, depth int)
		seen := map[*ssa.Function]bool{}
		scan = func(f *ssa.Function, depth int) {
			if seen[f] || depth > 4 {
				return
			}
			seen[f] = true
			for _, b := range f.Blocks {
				for _, in := range b.Instrs {
					c, ok := in.(*ssa.Call)
					if !ok {
						continue
					}
					callee := seamCallee(p, c.Common())
					if callee == nil {
						continue
					}
					switch callee.String() {
					case "os.Open", "os.OpenFile", "os.ReadFile", "io/ioutil.ReadFile":
						opensFile = true
					}
					if isReaderMethod(callee) {
						sites = append(sites, c)
						continue
					}
					if len(callee.Blocks) > 0 && core.InRepo(pkgPathOf(callee)) {
						for k, a := range c.Common().Args {
							if k < len(callee.Params) {
								paramArg[callee.Params[k]] = append(paramArg[callee.Params[k]], a)
							}
						}
						scan(callee, depth+1)
					}
				}
			}
			for _, a := range f.AnonFuncs {
				scan(a, depth)
			}
		}
		scan(fn, 0)
		loaderParamArg = paramArg
		loaderProgram = p
		if !opensFile {
			continue
		}
		for _, c := range sites {
			var rd ssa.Value
			for _, a := range c.Common().Args[1:] {
				if isIOReader(a.Type()) {
					rd = a
				}
			}
			if rd == nil {
				continue
			}
			r.Count("file loader decode sites", 1)
			cn := l.Name + ": reader handed to " + c.Common().StaticCallee().Name()
			kind, why := loaderReaderKind(rd, 0)
			switch kind {
			case "stream":
				r.OK("O11.5", cn, p.Pos(c.Pos()), "the decoder reads the opened file itself (%s): it consumes whatever the file delivers until the last section", why)
			case "whole":
				r.OK("O11.5", cn, p.Pos(c.Pos()), "the decoder reads a buffer holding the whole stream (%s)", why)
			case "fixed":
				r.Violation("O11.5", cn, p.Pos(c.Pos()), "the decoder reads a buffer whose size was fixed before reading (%s): a system written to a pipe, a process substitution or a file still being written is not restored although every byte is delivered", why)
			default:
				r.Undecided("O11.5", cn, p.Pos(c.Pos()), "cannot tell where the reader comes from: %s", why)
			}
		}
	}
}

func loaderReaderKind(v ssa.Value, depth int) (string, string) {
	if depth > 8 {
		return "unknown", "chain too long"
	}
	switch x := v.(type) {
	case *ssa.MakeInterface:
		return loaderReaderKind(x.X, depth+1)
	case *ssa.ChangeInterface:
		return loaderReaderKind(x.X, depth+1)
	case *ssa.Parameter:
		kind, why := "unknown", "a parameter no call site of the load chain binds"
		for _, a := range loaderParamArg[x] {
			k, w := loaderReaderKind(a, depth+1)
			if k != "stream" && k != "whole" {
				return k, w
			}
			kind, why = k, w
		}
		return kind, why
	case *ssa.Phi:
		kind, why := "", ""
		for _, e := range x.Edges {
			k, w := loaderReaderKind(e, depth+1)
			if k != "stream" && k != "whole" {
				return k, w
			}
			kind, why = k, w
		}
		return kind, why
	case *ssa.UnOp:
		if al, ok := x.X.(*ssa.Alloc); ok && x.Op == token.MUL {
			kind, why := "unknown", "cell never assigned"
			for _, ref := range *al.Referrers() {
				if st, ok := ref.(*ssa.Store); ok && st.Addr == ssa.Value(al) {
					k, w := loaderReaderKind(st.Val, depth+1)
					if k != "stream" && k != "whole" {
						return k, w
					}
					kind, why = k, w
				}
			}
			return kind, why
		}
	case *ssa.Extract:
		if c, ok := x.Tuple.(*ssa.Call); ok && x.Index == 0 {
			return loaderReaderKind(c, depth+1)
		}
	case *ssa.Call:
		callee := seamCallee(loaderProgram, x.Common())
		if callee == nil {
			return "unknown", "dynamic call"
		}
		switch callee.String() {
		case "os.Open", "os.OpenFile":
			return "stream", callee.String()
		case "io.Pipe":
			// the read end of a pipe delivers whatever the writing goroutine copies into it until it closes (O15.4 decides
			// that it does close); nothing fixes the amount beforehand
			return "stream", "the read end of an io.Pipe"
		case "bufio.NewReader", "bufio.NewReaderSize", "io.TeeReader", "io.NopCloser":
			k, w := loaderReaderKind(x.Common().Args[0], depth+1)
			if k == "stream" {
				w = callee.Name() + " over " + w
			}
			return k, w
		case "io.LimitReader", "io.NewSectionReader":
			return "fixed", callee.String() + " bounds the bytes the decoder may see"
		case "bytes.NewReader", "bytes.NewBuffer":
			k, w := wholeInput(x.Common().Args[0], depth+1)
			switch k {
			case "whole":
				return "whole", w
			case "partial":
				return "fixed", w
			}
			// a make()d buffer filled by Read/ReadFull: its size was chosen before the data was seen
			if ms := makeSliceOf(x.Common().Args[0]); ms != nil {
				sz := "a size computed beforehand"
				if fromStatSize(ms.Len, 0) {
					sz = "the size reported by Stat()"
				}
				return "fixed", "make([]byte, n) with n = " + sz
			}
			return "unknown", w
		}
		return "unknown", "result of " + callee.String()
	}
	return "unknown", fmt.Sprintf("%s (%T)", v.Name(), v)
}

func makeSliceOf(v ssa.Value) *ssa.MakeSlice {
	switch x := v.(type) {
	case *ssa.MakeSlice:
		return x
	case *ssa.Slice:
		return makeSliceOf(x.X)
	}
	return nil
}

func fromStatSize(v ssa.Value, depth int) bool {
	if depth > 6 || v == nil {
		return false
	}
	switch x := v.(type) {
	case *ssa.Convert:
		return fromStatSize(x.X, depth+1)
	case *ssa.BinOp:
		return fromStatSize(x.X, depth+1) || fromStatSize(x.Y, depth+1)
	case *ssa.Call:
		return x.Common().IsInvoke() && x.Common().Method.Name() == "Size"
	}
	return false
}

var loaderParamArg map[*ssa.Parameter][]ssa.Value
var loaderProgram *core.Program

// seamCallee: the static callee, or the function a seam variable (flow.SetSeams) was initialised with.
func seamCallee(p *core.Program, com *ssa.CallCommon) *ssa.Function {
	if f := com.StaticCallee(); f != nil {
		return f
	}
	if com.IsInvoke() || p == nil {
		return nil
	}
	if ld, ok := com.Value.(*ssa.UnOp); ok && ld.Op == token.MUL {
		if g, ok := ld.X.(*ssa.Global); ok {
			if v, ok := g.Object().(*types.Var); ok {
				if fn, ok := flow.SeamTarget(v).(*types.Func); ok {
					return p.SSA.FuncValue(fn)
				}
			}
		}
	}
	return nil
}

// checkLoaderLocks (O11.6): loading a keys file does not take an exclusive advisory lock on it. A reader that insists on
// LOCK_EX (non-blocking) refuses a perfectly valid file whenever anything else — another prover instance starting from the
// same volume, a second load in the same process — has it open for reading: the file does not "read back".
func checkLoaderLocks(p *core.Program, r *core.Report) {
	ix := indexFuncs(p)
	li := findLoaders(p, ix)
	var bad []string
	n := 0
	for _, u := range li.chain {
		fd, ok := u.Node.(*ast.FuncDecl)
		if !ok {
			continue
		}
		obj, _ := u.Pkg.TypesInfo.Defs[fd.Name].(*types.Func)
		fn := p.SSA.FuncValue(obj)
		if fn == nil {
			continue
		}
		n++
		for _, b := range fn.Blocks {
			for _, in := range b.Instrs {
				c, ok := in.(ssa.CallInstruction)
				if !ok {
					continue
				}
				sc := c.Common().StaticCallee()
				if sc == nil || sc.Pkg == nil {
					continue
				}
				pk := sc.Pkg.Pkg.Path()
				if !(pk == "syscall" || pk == "golang.org/x/sys/unix") || !(sc.Name() == "Flock" || sc.Name() == "FcntlFlock") {
					continue
				}
				excl := sc.Name() == "FcntlFlock"
				if len(c.Common().Args) == 2 {
					if k, ok := c.Common().Args[1].(*ssa.Const); ok && k.Value != nil && k.Int64()&2 != 0 { // LOCK_EX
						excl = true
					}
				}
				if excl {
					bad = append(bad, fmt.Sprintf("%s takes an exclusive lock (%s.%s) at %s", u.Name, pk, sc.Name(), p.Pos(c.Pos())))
				}
			}
		}
	}
	sort.Strings(bad)
	r.Check(len(bad) == 0, "O11.6", "load chain: no exclusive lock on the keys file", "-", fmt.Sprintf("%d function(s) of the load chain take no exclusive file lock", n), strings.Join(bad, "; ")+": a valid file is refused whenever another reader has it open")
}

package checks

import (
	"fmt"
	"go/constant"
	"go/token"
	"go/types"
	"sort"
	"strings"

	"golang.org/x/tools/go/ssa"

	"verif/sa/internal/core"
)

// respflow is a path-sensitive, interprocedural walk of the /prove handler's SSA over a small abstract domain (nil / non-nil /
// constant / error-object with constant fields / bytes with an origin). It enumerates the handler's paths — descending into
// the functions of the handler's own package (error constructors, senders, decode or response helpers, per-mode helpers) and
// treating everything else as an opaque step — and records, per path, which fallible step failed first, every status set and
// every body write. It is what makes O9.1/O9.2/O20.4 independent of how the handler is cut into functions.

type rvKind int

const (
	rvOther rvKind = iota
	rvNil
	rvNonNil  // certainly non-nil (the failing result of a step, or an object)
	rvStepErr // error result of a fallible step, nil-ness unknown
	rvConst
	rvObj   // pointer to a local struct object with recorded constant fields
	rvBytes // byte slice with an origin
	rvBool  // boolean constant known on this path
	rvFunc  // a function value (closure, method value, named function)
	rvIface // an interface value whose dynamic type is known
)

type rval struct {
	k      rvKind
	step   string         // rvStepErr / rvNonNil: the step kind
	c      constant.Value // rvConst / rvBool
	obj    *robj          // rvObj
	origin string         // rvBytes: "proof" (marshalled proof), "errorbody", "literal", "body"
	from   *robj          // rvConst loaded from a field of this object
	fn     *ssa.Function  // rvFunc
	dyn    types.Type     // rvIface
}

type robj struct {
	typ    types.Type
	fields map[string]rval
}

type rEvent struct {
	kind   string // "status", "write", "step", "opaque-w"
	code   int64  // status
	known  bool   // status constant known
	ecode  string // error code carried by the object whose status was sent
	origin string // write: origin of the bytes
	step   string // step kind
	callee *ssa.Function
	pos    token.Pos
}

type rPath struct {
	events     []rEvent
	failed     string // first failing step kind on this path
	failedPos  token.Pos
	notPost    bool // the path took the "method is not POST" side of a method test
	isPost     bool
	modeKnown  string // "", or the mode constant selected
	exitPos    token.Pos
	undecided  string
	stepsAfter []string     // steps executed after the first failure
	pending    []pendingErr // error results of steps that have not been tested yet
	early      []string     // steps executed while an earlier step's error was still untested
}

type pendingErr struct {
	v    ssa.Value
	step string
	pos  token.Pos
}

type respWalker struct {
	p           *core.Program
	pkg         *ssa.Package
	psT         *types.Named
	paths       []*rPath
	limit       int
	nForks      int
	modeOf      map[string]bool // accepted mode constants
	resolved    map[*ssa.Call]*ssa.Function
	resolvedCom map[*ssa.Call]*ssa.CallCommon
	globals     map[*ssa.Global]*robj
	enumMode    map[string]string
	relevantFn  map[*ssa.Function]int // 0 unknown, 1 relevant to the response logic, 2 not
}

type rFrame struct {
	fn  *ssa.Function
	env map[ssa.Value]rval
	w   ssa.Value // the ResponseWriter value in this frame (parameter), if any
	req ssa.Value // the *http.Request
}

func (f *rFrame) clone() *rFrame {
	e := make(map[ssa.Value]rval, len(f.env))
	for k, v := range f.env {
		e[k] = v
	}
	return &rFrame{fn: f.fn, env: e, w: f.w, req: f.req}
}

func (pt *rPath) clone() *rPath {
	c := *pt
	c.events = append([]rEvent{}, pt.events...)
	c.stepsAfter = append([]string{}, pt.stepsAfter...)
	c.pending = append([]pendingErr{}, pt.pending...)
	c.early = append([]string{}, pt.early...)
	return &c
}

// stepKind classifies a call as one of the handler's fallible steps.
func (rw *respWalker) stepKind(com *ssa.CallCommon) string {
	callee := com.StaticCallee()
	if callee == nil {
		return ""
	}
	full := callee.String()
	switch full {
	case "io.ReadAll", "io/ioutil.ReadAll", "(*bytes.Buffer).ReadFrom", "io.Copy":
		return "body"
	case "encoding/json.Unmarshal", "(*encoding/json.Decoder).Decode":
		return "decode"
	case "encoding/json.Marshal", "encoding/json.MarshalIndent":
		return "encode"
	}
	if callee.Signature.Recv() != nil && rw.psT != nil && namedOf(callee.Signature.Recv().Type()) == rw.psT && callee.Signature.Results().Len() == 2 {
		return "prove"
	}
	return ""
}

func isRespWriterType(t types.Type) bool { return isNamed(t, "net/http", "ResponseWriter") }

// walk enumerates the paths of fn starting at block b, instruction i; cont is called at each return with the returned values.
func (rw *respWalker) walk(fr *rFrame, pt *rPath, b *ssa.BasicBlock, i int, prev *ssa.BasicBlock, visited map[*ssa.BasicBlock]int, depth int, cont func(fr *rFrame, pt *rPath, results []rval)) {
	if len(rw.paths) > rw.limit || rw.nForks > 20000 {
		pt.undecided = "too many paths"
		return
	}
	if i == 0 { // entering the block (a continuation after an inlined call resumes in the middle and is not a new visit)
		if visited[b] > 1 {
			pt.undecided = "a loop in the response logic (" + rw.p.Pos(b.Instrs[0].Pos()) + ")"
			rw.paths = append(rw.paths, pt)
			return
		}
		visited[b]++
		defer func() { visited[b]-- }()
	}
	for ; i < len(b.Instrs); i++ {
		in := b.Instrs[i]
		switch x := in.(type) {
		case *ssa.Phi:
			for k, pred := range b.Preds {
				if pred == prev {
					fr.env[x] = rw.val(fr, x.Edges[k])
				}
			}
		case *ssa.Alloc:
			if st, ok := deref(x.Type()).Underlying().(*types.Struct); ok {
				_ = st
				fr.env[x] = rval{k: rvObj, obj: &robj{typ: deref(x.Type()), fields: map[string]rval{}}}
			}
		case *ssa.Store:
			if fa, ok := x.Addr.(*ssa.FieldAddr); ok {
				if o := rw.val(fr, fa.X); o.k == rvObj {
					o.obj.fields[structFieldName(fa.X.Type(), fa.Field)] = rw.val(fr, x.Val)
				}
			} else if al, ok := x.Addr.(*ssa.Alloc); ok {
				// a spilled local (address-taken variable): remember what it holds
				fr.env[al] = rval{k: rvObj, obj: &robj{typ: deref(al.Type()), fields: map[string]rval{"*": rw.val(fr, x.Val)}}}
				if sv := rw.val(fr, x.Val); sv.k == rvObj {
					// storing a struct value: copy its fields
					fr.env[al] = rval{k: rvObj, obj: sv.obj}
				}
			}
		case *ssa.Call:
			rw.call(fr, pt, x, depth)
			if pt.undecided != "" {
				rw.paths = append(rw.paths, pt)
				return
			}
			// an in-package callee forks the walk: handled by continuation inside call (returns true when it took over)
			if tk, ok := fr.env[x]; ok && tk.k == rvOther && tk.origin == "__forked__" {
				delete(fr.env, x)
				rw.inline(fr, pt, x, b, i, visited, depth, cont)
				return
			}
		case *ssa.Defer, *ssa.Go:
			// not part of the response logic
		case *ssa.If:
			cv := rw.cond(fr, pt, x.Cond)
			follow := func(edge int, fr2 *rFrame, pt2 *rPath) {
				rw.walk(fr2, pt2, b.Succs[edge], 0, b, visited, depth, cont)
			}
			switch cv.k {
			case rvBool:
				if constant.BoolVal(cv.c) {
					follow(0, fr, pt)
				} else {
					follow(1, fr, pt)
				}
				return
			}
			// fork
			rw.nForks++
			frT, ptT := fr.clone(), pt.clone()
			frF, ptF := fr, pt
			rw.assume(frT, ptT, x.Cond, true)
			rw.assume(frF, ptF, x.Cond, false)
			follow(0, frT, ptT)
			follow(1, frF, ptF)
			return
		case *ssa.Jump:
			rw.walk(fr, pt, b.Succs[0], 0, b, visited, depth, cont)
			return
		case *ssa.Return:
			var res []rval
			for _, v := range x.Results {
				res = append(res, rw.val(fr, v))
			}
			if depth == 0 {
				pt.exitPos = x.Pos()
			}
			cont(fr, pt, res)
			return
		case *ssa.Panic:
			return // the request dies; net/http recovers: not a response path
		}
	}
}

// val evaluates an SSA value in the frame.
func (rw *respWalker) val(fr *rFrame, v ssa.Value) rval {
	if r, ok := fr.env[v]; ok {
		return r
	}
	switch x := v.(type) {
	case *ssa.Const:
		if x.Value == nil {
			return rval{k: rvNil}
		}
		if x.Value.Kind() == constant.Bool {
			return rval{k: rvBool, c: x.Value}
		}
		return rval{k: rvConst, c: x.Value}
	case *ssa.MakeInterface:
		return rw.val(fr, x.X)
	case *ssa.ChangeInterface:
		return rw.val(fr, x.X)
	case *ssa.ChangeType:
		return rw.val(fr, x.X)
	case *ssa.Convert:
		in := rw.val(fr, x.X)
		if in.k == rvConst && in.c.Kind() == constant.String {
			return rval{k: rvBytes, origin: "literal"}
		}
		return in
	case *ssa.Slice:
		return rw.val(fr, x.X)
	case *ssa.UnOp:
		if x.Op == token.MUL {
			switch a := x.X.(type) {
			case *ssa.FieldAddr:
				if o := rw.val(fr, a.X); o.k == rvObj {
					if fv, ok := o.obj.fields[structFieldName(a.X.Type(), a.Field)]; ok {
						fv.from = o.obj
						return fv
					}
					return rval{k: rvOther, from: o.obj}
				}
			case *ssa.Alloc:
				if o, ok := fr.env[a]; ok && o.k == rvObj {
					if inner, ok := o.obj.fields["*"]; ok {
						return inner
					}
					return o
				}
			case *ssa.FreeVar:
				if v, ok := fr.env[a]; ok {
					return v
				}
			case *ssa.Global:
				// a package-level descriptor with constant fields (var malformedBody = errorKind{400, "malformed_body"}) that
				// nothing but the package initialiser writes
				if o := rw.globalObj(a); o != nil {
					return rval{k: rvObj, obj: o}
				}
				return rval{k: rvOther}
			}
		}
		if x.Op == token.NOT {
			in := rw.val(fr, x.X)
			if in.k == rvBool {
				return rval{k: rvBool, c: constant.MakeBool(!constant.BoolVal(in.c))}
			}
		}
	case *ssa.Field:
		if o := rw.val(fr, x.X); o.k == rvObj {
			if fv, ok := o.obj.fields[structFieldName(x.X.Type(), x.Field)]; ok {
				fv.from = o.obj
				return fv
			}
		}
	case *ssa.Extract:
		if t, ok := fr.env[x.Tuple]; ok && t.k == rvObj && t.obj.typ == nil {
			if fv, ok := t.obj.fields[fmt.Sprint(x.Index)]; ok {
				return fv
			}
		}
	case *ssa.BinOp:
		return rw.cmp(fr, x)
	case *ssa.Function:
		return rval{k: rvFunc, fn: x}
	case *ssa.MakeClosure:
		if f, ok := x.Fn.(*ssa.Function); ok {
			return rval{k: rvFunc, fn: f}
		}
		return rval{k: rvNonNil}
	}
	return rval{k: rvOther}
}

// cmp evaluates comparisons whose outcome the abstract values decide.
func (rw *respWalker) cmp(fr *rFrame, x *ssa.BinOp) rval {
	if x.Op != token.EQL && x.Op != token.NEQ {
		return rval{k: rvOther}
	}
	a, b := rw.val(fr, x.X), rw.val(fr, x.Y)
	res := func(eq bool) rval {
		if x.Op == token.NEQ {
			eq = !eq
		}
		return rval{k: rvBool, c: constant.MakeBool(eq)}
	}
	isNilV := func(v rval) bool { return v.k == rvNil }
	isNon := func(v rval) bool { return v.k == rvNonNil || v.k == rvObj || v.k == rvBytes }
	switch {
	case isNilV(a) && isNilV(b):
		return res(true)
	case (isNilV(a) && isNon(b)) || (isNilV(b) && isNon(a)):
		return res(false)
	case a.k == rvConst && b.k == rvConst:
		return res(constant.Compare(a.c, token.EQL, b.c))
	}
	return rval{k: rvOther}
}

// globalObj reads the constant fields the package initialiser stores into a struct-typed package-level variable; nil when
// the variable is not a struct, or is written anywhere else.
func (rw *respWalker) globalObj(g *ssa.Global) *robj {
	if o, ok := rw.globals[g]; ok {
		return o
	}
	rw.globals[g] = nil
	if _, isStruct := deref(g.Type()).Underlying().(*types.Struct); !isStruct || g.Pkg == nil {
		return nil
	}
	o := &robj{typ: deref(g.Type()), fields: map[string]rval{}}
	for _, m := range g.Pkg.Members {
		fn, ok := m.(*ssa.Function)
		if !ok {
			continue
		}
		var fns []*ssa.Function
		fns = append(fns, fn)
		fns = append(fns, fn.AnonFuncs...)
		for _, f := range fns {
			for _, b := range f.Blocks {
				for _, in := range b.Instrs {
					st, ok := in.(*ssa.Store)
					if !ok {
						continue
					}
					fa, isFA := st.Addr.(*ssa.FieldAddr)
					if st.Addr == ssa.Value(g) || (isFA && fa.X == ssa.Value(g)) {
						if f.Name() != "init" {
							return nil // written at run time
						}
						if isFA {
							if c, isC := st.Val.(*ssa.Const); isC && c.Value != nil {
								o.fields[structFieldName(fa.X.Type(), fa.Field)] = rval{k: rvConst, c: c.Value}
							}
						}
					}
				}
			}
		}
	}
	rw.globals[g] = o
	return o
}

func (rw *respWalker) cond(fr *rFrame, pt *rPath, c ssa.Value) rval { return rw.val(fr, c) }

// assume refines the frame on one edge of a condition that the abstract values did not decide.
func (rw *respWalker) assume(fr *rFrame, pt *rPath, c ssa.Value, truth bool) {
	switch x := c.(type) {
	case *ssa.UnOp:
		if x.Op == token.NOT {
			rw.assume(fr, pt, x.X, !truth)
		}
		return
	case *ssa.BinOp:
		if x.Op != token.EQL && x.Op != token.NEQ {
			return
		}
		eq := truth == (x.Op == token.EQL)
		a, b := rw.val(fr, x.X), rw.val(fr, x.Y)
		va, vb := x.X, x.Y
		if a.k == rvNil {
			a, b = b, a
			va, vb = vb, va
		}
		_ = vb
		// error of a step compared with nil
		if b.k == rvNil && a.k == rvStepErr {
			rw.tested(pt, va)
			if eq {
				rw.bind(fr, va, rval{k: rvNil})
			} else {
				rw.bind(fr, va, rval{k: rvNonNil, step: a.step})
				if pt.failed == "" {
					pt.failed = a.step
					pt.failedPos = c.Pos()
				}
			}
			return
		}
		if b.k == rvNil && a.k == rvOther {
			if eq {
				rw.bind(fr, va, rval{k: rvNil})
			} else {
				rw.bind(fr, va, rval{k: rvNonNil})
			}
			return
		}
		// request method against "POST"
		if rw.isMethodLoad(fr, x.X) || rw.isMethodLoad(fr, x.Y) {
			other := b
			if rw.isMethodLoad(fr, x.Y) {
				other = a
			}
			if other.k == rvConst && other.c.Kind() == constant.String && constant.StringVal(other.c) == "POST" {
				if eq {
					pt.isPost = true
				} else {
					pt.notPost = true
				}
			}
			return
		}
		// mode constant
		for i, side := range []rval{a, b} {
			if side.k == rvConst && side.c.Kind() == constant.String && rw.modeOf[constant.StringVal(side.c)] && eq {
				pt.modeKnown = constant.StringVal(side.c)
			}
			// the mode kept as a small enum parsed once from the configured string (parseMode): the enum constant stands
			// for the mode string it is parsed from
			if side.k == rvConst && side.c.Kind() == constant.Int && eq {
				t := x.X.Type()
				if i == 1 {
					t = x.Y.Type()
				}
				if m, ok := rw.enumModes()[t.String()+":"+side.c.ExactString()]; ok {
					pt.modeKnown = m
				}
			}
		}
	}
}

// tested removes the pending entry of the step whose error value v is.
func (rw *respWalker) tested(pt *rPath, v ssa.Value) {
	var call ssa.Value = v
	for {
		switch x := call.(type) {
		case *ssa.Extract:
			call = x.Tuple
			continue
		case *ssa.MakeInterface:
			call = x.X
			continue
		case *ssa.Phi:
			// the phi merges the errors of several steps; whichever reached here is tested now
			var keep []pendingErr
			for _, pe := range pt.pending {
				isEdge := false
				for _, e := range x.Edges {
					ev := e
					if ex, ok := ev.(*ssa.Extract); ok {
						ev = ex.Tuple
					}
					if ev == pe.v {
						isEdge = true
					}
				}
				if !isEdge {
					keep = append(keep, pe)
				}
			}
			pt.pending = keep
			return
		}
		break
	}
	var keep []pendingErr
	for _, pe := range pt.pending {
		if pe.v != call {
			keep = append(keep, pe)
		}
	}
	pt.pending = keep
}

// bind records a refined value for v and for the values it was copied from on this path (phi sources are already resolved).
func (rw *respWalker) bind(fr *rFrame, v ssa.Value, r rval) {
	fr.env[v] = r
	switch x := v.(type) {
	case *ssa.MakeInterface:
		rw.bind(fr, x.X, r)
	case *ssa.ChangeInterface:
		rw.bind(fr, x.X, r)
	}
}

func (rw *respWalker) isMethodLoad(fr *rFrame, v ssa.Value) bool {
	u, ok := v.(*ssa.UnOp)
	if !ok || u.Op != token.MUL {
		return false
	}
	fa, ok := u.X.(*ssa.FieldAddr)
	if !ok {
		return false
	}
	return structFieldName(fa.X.Type(), fa.Field) == "Method" && isNamed(deref(fa.X.Type()), "net/http", "Request")
}

// call applies the effect of a call instruction to the path.
func (rw *respWalker) call(fr *rFrame, pt *rPath, c *ssa.Call, depth int) {
	com := c.Common()
	// methods of the response writer
	if com.IsInvoke() && isRespWriterType(com.Value.Type()) {
		switch com.Method.Name() {
		case "WriteHeader":
			ev := rEvent{kind: "status", pos: c.Pos()}
			if len(com.Args) == 1 {
				a := rw.val(fr, com.Args[0])
				if a.k == rvConst && a.c.Kind() == constant.Int {
					ev.code, ev.known = constantInt(a.c), true
					if a.from != nil {
						if cv, ok := a.from.fields["Code"]; ok && cv.k == rvConst && cv.c.Kind() == constant.String {
							ev.ecode = constant.StringVal(cv.c)
						} else {
							for _, fv := range a.from.fields {
								if fv.k == rvConst && fv.c.Kind() == constant.String && ev.ecode == "" {
									ev.ecode = constant.StringVal(fv.c)
								}
							}
						}
					}
				}
			}
			pt.events = append(pt.events, ev)
		case "Write":
			ev := rEvent{kind: "write", pos: c.Pos()}
			if len(com.Args) == 1 {
				a := rw.val(fr, com.Args[0])
				if a.k == rvBytes {
					ev.origin = a.origin
				}
			}
			pt.events = append(pt.events, ev)
			fr.env[c] = rval{k: rvObj, obj: &robj{fields: map[string]rval{"1": {k: rvOther}}}}
		case "Header":
		}
		return
	}
	callee := com.StaticCallee()
	if com.IsInvoke() {
		// a method call on an interface value whose dynamic type is known on this path (the handler a middleware wraps)
		iv := rw.val(fr, com.Value)
		if !(iv.k == rvIface && iv.dyn != nil) {
			// an in-repo interface with exactly one implementation in the repository (an injection seam such as
			// batchProver, implemented by *ProvingSystem only): the call can only go there
			if dyn := uniqueImplementer(rw.p, com.Value.Type()); dyn != nil {
				iv = rval{k: rvIface, dyn: dyn}
			}
		}
		if iv.k == rvIface && iv.dyn != nil {
			target := rw.p.MethodOf(iv.dyn, com.Method.Name())
			if target == nil {
				if pt, ok := iv.dyn.(*types.Pointer); ok {
					target = rw.p.MethodOf(pt.Elem(), com.Method.Name())
				}
			}
			if target != nil {
				callee = target
				com = &ssa.CallCommon{Value: target, Args: append([]ssa.Value{com.Value}, com.Args...)}
				rw.resolvedCom[c] = com
			}
		}
	}
	if callee == nil && !com.IsInvoke() {
		// a call through a function value known on this path: a method value stands for the method, an in-package function
		// or closure is walked like a static callee
		if fv := rw.val(fr, com.Value); fv.k == rvFunc && fv.fn != nil {
			target := fv.fn
			if strings.Contains(target.Synthetic, "bound method wrapper") {
				for _, b := range target.Blocks {
					for _, in := range b.Instrs {
						if ic, ok := in.(*ssa.Call); ok && ic.Common().StaticCallee() != nil {
							target = ic.Common().StaticCallee()
						}
					}
				}
			}
			callee = target
			com = &ssa.CallCommon{Value: target, Args: com.Args}
		}
	}
	if k := rw.stepKind(com); k != "" {
		pt.events = append(pt.events, rEvent{kind: "step", step: k, callee: callee, pos: c.Pos()})
		if pt.failed != "" && k != "encode" {
			pt.stepsAfter = append(pt.stepsAfter, k+" at "+rw.p.Pos(c.Pos()))
		}
		// a step that consumes what an earlier step produced must not run before that step's error was ruled out
		for _, pe := range pt.pending {
			if pe.step != "encode" && k != "encode" {
				pt.early = append(pt.early, fmt.Sprintf("the %s step at %s runs before the error of the %s step at %s has been tested", k, rw.p.Pos(c.Pos()), pe.step, rw.p.Pos(pe.pos)))
			}
		}
		// results: (value, error) or error
		res := callee.Signature.Results()
		tuple := &robj{fields: map[string]rval{}}
		for i := 0; i < res.Len(); i++ {
			rv := rval{k: rvOther}
			if isErrorType(res.At(i).Type()) {
				rv = rval{k: rvStepErr, step: k}
				pt.pending = append(pt.pending, pendingErr{v: c, step: k, pos: c.Pos()})
			} else if k == "encode" {
				origin := "json"
				if len(com.Args) > 0 && rw.isProofValue(com.Args[0]) {
					origin = "proof"
				}
				rv = rval{k: rvBytes, origin: origin}
			} else if k == "body" {
				rv = rval{k: rvBytes, origin: "body"}
			}
			tuple.fields[fmt.Sprint(i)] = rv
		}
		if res.Len() == 1 {
			fr.env[c] = tuple.fields["0"]
		} else {
			fr.env[c] = rval{k: rvObj, obj: tuple}
		}
		return
	}
	// functions of the handler's own package are walked
	rw.resolved[c] = callee
	if callee != nil && callee.Blocks != nil && (callee.Pkg == rw.pkg || (callee.Pkg == nil && callee.Origin() != nil && callee.Origin().Pkg == rw.pkg)) && depth < 6 {
		if !rw.relevant(callee) {
			fr.env[c] = rval{k: rvOther} // a pure helper over plain data: opaque
			return
		}
		fr.env[c] = rval{k: rvOther, origin: "__forked__"}
		return
	}
	if mc, ok := com.Value.(*ssa.MakeClosure); ok {
		if cf, ok := mc.Fn.(*ssa.Function); ok && cf.Blocks != nil && depth < 6 {
			fr.env[c] = rval{k: rvOther, origin: "__forked__"}
			return
		}
	}
	// anything else that is handed the response writer has an effect on the response that is not known here
	for _, a := range com.Args {
		if isRespWriterType(a.Type()) {
			if callee != nil && callee.String() == "net/http.MaxBytesReader" {
				// keeps the writer only to mark the connection for closing when the limit is exceeded: it neither sets the
				// status nor writes a body (net/http contract)
				continue
			}
			name := "a dynamic call"
			if callee != nil {
				name = callee.String()
			}
			pt.undecided = "the response writer is handed to " + name + " at " + rw.p.Pos(c.Pos()) + ", whose effect on the status line is not known"
			return
		}
	}
	// error-typed results of other calls: unknown nil-ness, no step
	if callee != nil {
		res := callee.Signature.Results()
		if res.Len() == 1 && isErrorType(res.At(0).Type()) {
			fr.env[c] = rval{k: rvOther}
		}
	}
}

// relevant: can walking into fn tell anything about the response? Yes if its signature carries the response writer, the
// request, an error, a function value or a type of the handler's package, or if its body (or an in-package callee's)
// contains a step (body read, decode, prove, encode), an interface call, a closure, package-level state or a call into
// another repository package. A pure helper over plain data — a fingerprint of the body for a log line, a size
// computation — is none of that; it is left opaque instead of being walked, so that its loops and branches are not taken
// for loops and branches of the response logic.
func (rw *respWalker) relevant(fn *ssa.Function) bool {
	if rw.relevantFn == nil {
		rw.relevantFn = map[*ssa.Function]int{}
	}
	switch rw.relevantFn[fn] {
	case 1:
		return true
	case 2:
		return false
	}
	rw.relevantFn[fn] = 1 // recursion: assume relevant
	mentions := func(t types.Type) bool {
		if isRespWriterType(t) || isNamed(t, "net/http", "Request") || isNamed(t, "net/http", "Handler") || isErrorType(t) {
			return true
		}
		switch types.Unalias(t).Underlying().(type) {
		case *types.Signature, *types.Interface, *types.Chan:
			return true
		}
		if n := namedOf(t); n != nil && n.Obj().Pkg() != nil && rw.pkg != nil && n.Obj().Pkg() == rw.pkg.Pkg {
			return true // a type of the handler's own package (the handler, its configuration, an error descriptor)
		}
		if rw.psT != nil && namedOf(t) == rw.psT {
			return true
		}
		return false
	}
	rel := false
	sig := fn.Signature
	if sig.Recv() != nil && mentions(sig.Recv().Type()) {
		rel = true
	}
	for i := 0; i < sig.Params().Len() && !rel; i++ {
		rel = mentions(sig.Params().At(i).Type())
	}
	for i := 0; i < sig.Results().Len() && !rel; i++ {
		rel = mentions(sig.Results().At(i).Type())
	}
	if len(fn.FreeVars) > 0 {
		rel = true
	}
	for _, b := range fn.Blocks {
		if rel {
			break
		}
		for _, in := range b.Instrs {
			switch x := in.(type) {
			case *ssa.MakeClosure, *ssa.Go, *ssa.Defer, *ssa.Panic, *ssa.Send, *ssa.Select:
				rel = true
			case *ssa.UnOp:
				if x.Op == token.ARROW {
					rel = true
				}
				if g, ok := x.X.(*ssa.Global); ok && g.Pkg != nil && g.Pkg == rw.pkg {
					rel = true // reads package-level state of the handler's package
				}
			case *ssa.Store:
				if _, ok := x.Addr.(*ssa.Global); ok {
					rel = true
				}
			case ssa.CallInstruction:
				com := x.Common()
				if com.IsInvoke() || rw.stepKind(com) != "" {
					rel = true
					break
				}
				sc := com.StaticCallee()
				if sc == nil {
					if _, isB := com.Value.(*ssa.Builtin); !isB {
						rel = true
					}
					break
				}
				for _, a := range com.Args {
					if mentions(a.Type()) {
						rel = true
					}
				}
				if sc.Blocks != nil && sc.Pkg == rw.pkg && rw.relevant(sc) {
					rel = true
				}
				if sc.Pkg != nil && core.InRepo(sc.Pkg.Pkg.Path()) && sc.Pkg != rw.pkg {
					rel = true // other repository packages (prover, logging): keep today's treatment
				}
			}
			if rel {
				break
			}
		}
	}
	if rel {
		rw.relevantFn[fn] = 1
	} else {
		rw.relevantFn[fn] = 2
	}
	return rel
}

func (rw *respWalker) isProofValue(v ssa.Value) bool {
	t := v.Type()
	if mi, ok := v.(*ssa.MakeInterface); ok {
		t = mi.X.Type()
	}
	for {
		pt, ok := t.(*types.Pointer)
		if !ok {
			break
		}
		t = pt.Elem()
	}
	n := namedOf(t)
	return n != nil && n.Obj().Name() == "Proof"
}

func constantInt(c constant.Value) int64 {
	v, _ := constant.Int64Val(c)
	return v
}

// inline walks an in-package callee and continues the caller after each of its return paths.
func (rw *respWalker) inline(fr *rFrame, pt *rPath, c *ssa.Call, b *ssa.BasicBlock, i int, visited map[*ssa.BasicBlock]int, depth int, cont func(*rFrame, *rPath, []rval)) {
	com := c.Common()
	if rc, ok := rw.resolvedCom[c]; ok {
		com = rc
	}
	var callee *ssa.Function
	var bindings []ssa.Value
	if mc, ok := com.Value.(*ssa.MakeClosure); ok {
		callee, _ = mc.Fn.(*ssa.Function)
		bindings = mc.Bindings
	} else {
		callee = com.StaticCallee()
	}
	if callee == nil {
		callee = rw.resolved[c]
	}
	cf := &rFrame{fn: callee, env: map[ssa.Value]rval{}}
	for k, prm := range callee.Params {
		if k < len(com.Args) {
			cf.env[prm] = rw.val(fr, com.Args[k])
		}
	}
	for k, fv := range callee.FreeVars {
		if k < len(bindings) {
			cf.env[fv] = rw.val(fr, bindings[k])
		}
	}
	initial := map[*ssa.Parameter]rval{}
	for _, prm := range callee.Params {
		initial[prm] = cf.env[prm]
	}
	rw.walk(cf, pt, callee.Blocks[0], 0, nil, map[*ssa.BasicBlock]int{}, depth+1, func(cfEnd *rFrame, pt2 *rPath, results []rval) {
		fr2 := fr.clone()
		// what the callee learned about its arguments on this path (it tested the error it was handed: observe(…, err))
		// holds for the caller's values too — otherwise the caller's own test of the same error forks inconsistently
		if cfEnd != nil {
			for k, prm := range callee.Params {
				if k >= len(com.Args) {
					continue
				}
				before, after := initial[prm], cfEnd.env[prm]
				if (after.k == rvNil || after.k == rvNonNil) && before.k != after.k {
					if _, isConst := com.Args[k].(*ssa.Const); !isConst {
						rw.bind(fr2, com.Args[k], after)
					}
				}
			}
		}
		switch len(results) {
		case 0:
		case 1:
			fr2.env[c] = results[0]
		default:
			t := &robj{fields: map[string]rval{}}
			for k, rv := range results {
				t.fields[fmt.Sprint(k)] = rv
			}
			fr2.env[c] = rval{k: rvObj, obj: t}
		}
		// an error object handed back by a helper stands for the step that failed inside it
		rw.walk(fr2, pt2, b, i+1, nil, visited, depth, cont)
	})
}

// runRespFlow enumerates the handler's paths.
// entryBind gives the values the entry function's free variables are bound to (a middleware's closure); set by
// checkResponsePathsEntry for the duration of one walk.
var respEntryBind map[ssa.Value]ssa.Value

func runRespFlow(p *core.Program, handler *ssa.Function, psT *types.Named, modes map[string]bool) *respWalker {
	rw := &respWalker{p: p, pkg: handler.Pkg, psT: psT, limit: 40000, modeOf: modes, resolved: map[*ssa.Call]*ssa.Function{}, resolvedCom: map[*ssa.Call]*ssa.CallCommon{}, globals: map[*ssa.Global]*robj{}}
	fr := &rFrame{fn: handler, env: map[ssa.Value]rval{}}
	for fv, bv := range respEntryBind {
		switch x := bv.(type) {
		case *ssa.MakeInterface:
			fr.env[fv] = rval{k: rvIface, dyn: x.X.Type()}
		case *ssa.Const:
			fr.env[fv] = rw.val(fr, x)
		}
	}
	rw.walk(fr, &rPath{}, handler.Blocks[0], 0, nil, map[*ssa.BasicBlock]int{}, 0, func(_ *rFrame, pt *rPath, _ []rval) {
		rw.paths = append(rw.paths, pt)
	})
	return rw
}

// checkResponsePaths decides, over every enumerated path: exactly one status and no body write before it (ruleOnce); and
// (ruleTable, when non-empty) the decision table — a non-POST request is answered 405 before any step; the first failing step
// of kind k is answered want[k] and followed by no further step; a path without failure is answered 200 with the marshalled
// proof.
func checkResponsePaths(p *core.Program, r *core.Report, handler *ssa.Function, psT *types.Named, modes map[string]bool, ruleOnce, ruleTable string) *respWalker {
	rw := runRespFlow(p, handler, psT, modes)
	checkResponsePathsOf(p, r, rw, handler, ruleOnce, ruleTable)
	return rw
}

func checkResponsePathsOf(p *core.Program, r *core.Report, rw *respWalker, handler *ssa.Function, ruleOnce, ruleTable string) {
	name := core.FuncName(handler)
	r.Count("handler paths enumerated", len(rw.paths))
	r.Floor("handler paths enumerated", 6)
	if len(rw.paths) > rw.limit {
		r.Undecided(ruleOnce, name+": response paths", p.Pos(handler.Pos()), "more than %d paths through the response logic", rw.limit)
		return
	}
	want := map[string]errorConstructor{"body": {400, "malformed_body"}, "decode": {400, "malformed_body"}, "prove": {400, "proving_error"}, "encode": {500, "unexpected_error"}}
	var onceBad, tableBad, undec []string
	kinds := map[string]int{}
	nOK, n405, n200 := 0, 0, 0
	seenBad := map[string]bool{}
	add := func(list *[]string, s string) {
		if !seenBad[s] {
			seenBad[s] = true
			*list = append(*list, s)
		}
	}
	for _, pt := range rw.paths {
		if pt.undecided != "" {
			add(&undec, pt.undecided)
			continue
		}
		var statuses []rEvent
		writeBefore := false
		var writes []rEvent
		var stepsBeforeStatus []string
		for _, e := range pt.events {
			switch e.kind {
			case "status":
				statuses = append(statuses, e)
			case "write":
				if len(statuses) == 0 {
					writeBefore = true
				}
				writes = append(writes, e)
			case "step":
				if len(statuses) == 0 {
					stepsBeforeStatus = append(stepsBeforeStatus, e.step)
				}
			}
		}
		exit := p.Pos(pt.exitPos)
		if len(statuses) != 1 {
			what := "no status is set"
			if len(statuses) > 1 {
				what = fmt.Sprintf("the status is set %d times (at %s and %s)", len(statuses), p.Pos(statuses[0].pos), p.Pos(statuses[1].pos))
			}
			ctx := "on the success path"
			if pt.notPost {
				ctx = "for a non-POST request"
			} else if pt.failed != "" {
				ctx = "after the " + pt.failed + " step failed at " + p.Pos(pt.failedPos)
			}
			add(&onceBad, fmt.Sprintf("%s %s (exit %s)", what, ctx, exit))
			continue
		}
		if writeBefore {
			add(&onceBad, "the body is written before the status at "+p.Pos(writes[0].pos))
			continue
		}
		nOK++
		if ruleTable == "" {
			continue
		}
		st := statuses[0]
		switch {
		case pt.notPost:
			n405++
			if !st.known || st.code != 405 {
				add(&tableBad, fmt.Sprintf("a non-POST request is answered %d at %s, documented 405", st.code, p.Pos(st.pos)))
			}
			if len(stepsBeforeStatus) > 0 {
				add(&tableBad, "a non-POST request reaches the "+stepsBeforeStatus[0]+" step before it is refused")
			}
		case pt.failed != "":
			kinds[pt.failed]++
			w := want[pt.failed]
			if !st.known || st.code != w.Status || st.ecode != w.Code {
				add(&tableBad, fmt.Sprintf("a failing %s step (at %s) is answered %d/%q at %s, documented %d/%q", pt.failed, p.Pos(pt.failedPos), st.code, st.ecode, p.Pos(st.pos), w.Status, w.Code))
			}
			if len(pt.stepsAfter) > 0 {
				add(&tableBad, fmt.Sprintf("after the %s step failed at %s the handler carries on with %s", pt.failed, p.Pos(pt.failedPos), strings.Join(pt.stepsAfter, ", ")))
			}
			for _, e := range pt.early {
				add(&tableBad, e+" (decoded or read data is used before its error is ruled out)")
			}
		default:
			// no failure
			if pt.modeKnown == "" {
				continue // neither mode: outside "in either mode"
			}
			n200++
			if !st.known || st.code != 200 {
				add(&tableBad, fmt.Sprintf("a request whose steps all succeed (mode %s) is answered %d at %s, documented 200", pt.modeKnown, st.code, p.Pos(st.pos)))
			}
			proofWrites := 0
			for _, w := range writes {
				if w.origin == "proof" {
					proofWrites++
				}
			}
			if proofWrites != 1 || len(writes) != 1 {
				add(&tableBad, fmt.Sprintf("the 200 response (mode %s) does not write exactly the marshalled proof (%d body writes, %d of the proof)", pt.modeKnown, len(writes), proofWrites))
			}
			hasProve := false
			for _, e := range pt.events {
				if e.kind == "step" && e.step == "prove" {
					hasProve = true
				}
			}
			if !hasProve {
				add(&tableBad, "a 200 path in mode "+pt.modeKnown+" does not run the prover")
			}
		}
	}
	sort.Strings(onceBad)
	sort.Strings(tableBad)
	for _, u := range undec {
		r.Undecided(ruleOnce, name+": response paths", p.Pos(handler.Pos()), "%s", u)
	}
	r.Check(len(onceBad) == 0 && nOK > 0, ruleOnce, name+": exactly one status per request", p.Pos(handler.Pos()),
		fmt.Sprintf("%d paths through the handler and the functions of its package it calls: each sets the status exactly once, before any body write", nOK), strings.Join(onceBad, "; "))
	if ruleTable == "" {
		return
	}
	for _, k := range []string{"body", "decode", "prove", "encode"} {
		if kinds[k] == 0 {
			tableBad = append(tableBad, "no path on which a "+k+" step fails: the handler has no such step with a checked error")
		}
	}
	if n405 == 0 {
		tableBad = append(tableBad, "no test of the request method against POST: other methods are not answered 405")
	}
	if n200 == 0 {
		tableBad = append(tableBad, "no path answers 200 with a proof")
	}
	r.Check(len(tableBad) == 0, ruleTable, name+": decision table over all paths", p.Pos(handler.Pos()),
		fmt.Sprintf("non-POST ⇒ 405 before any step (%d paths); first failing step ⇒ its documented status/code and nothing after it (body %d, decode %d, prove %d, encode %d paths); otherwise 200 + marshalled proof (%d paths)", n405, kinds["body"], kinds["decode"], kinds["prove"], kinds["encode"], n200),
		strings.Join(tableBad, "; "))
}

// uniqueImplementer: t is an interface declared in the repository and exactly one non-interface named type of the
// repository's (non-test) packages implements it; that type (or its pointer) is returned.
func uniqueImplementer(p *core.Program, t types.Type) types.Type {
	n, ok := types.Unalias(t).(*types.Named)
	if !ok || !inRepoObj(n.Obj()) {
		return nil
	}
	iface, ok := n.Underlying().(*types.Interface)
	if !ok || iface.NumMethods() == 0 {
		return nil
	}
	var found []types.Type
	for _, sp := range p.SSAPkgs {
		sc := sp.Pkg.Scope()
		for _, name := range sc.Names() {
			tn, ok := sc.Lookup(name).(*types.TypeName)
			if !ok || tn.IsAlias() {
				continue
			}
			if _, isI := tn.Type().Underlying().(*types.Interface); isI {
				continue
			}
			switch {
			case types.Implements(tn.Type(), iface):
				found = append(found, tn.Type())
			case types.Implements(types.NewPointer(tn.Type()), iface):
				found = append(found, types.NewPointer(tn.Type()))
			}
		}
	}
	if len(found) == 1 {
		return found[0]
	}
	return nil
}

// enumModes: for every in-repo function f(string) T with T a named integer type that the serving function (server.Run
// or the function holding its body) calls, and every accepted mode string s, the constant f returns for s — found by
// following f's string comparisons with its parameter fixed to s. Key: T's name + ":" + the constant.
func (rw *respWalker) enumModes() map[string]string {
	if rw.enumMode != nil {
		return rw.enumMode
	}
	rw.enumMode = map[string]string{}
	run := serverRunFn(rw.p)
	if run == nil {
		return rw.enumMode
	}
	seen := map[*ssa.Function]bool{}
	for _, b := range run.Blocks {
		for _, in := range b.Instrs {
			c, ok := in.(*ssa.Call)
			if !ok {
				continue
			}
			f := c.Common().StaticCallee()
			if f == nil || seen[f] || len(f.Blocks) == 0 || !core.InRepo(pkgPathOf(f)) || len(f.Params) != 1 || f.Signature.Results().Len() != 1 {
				continue
			}
			seen[f] = true
			if bt, ok := f.Params[0].Type().Underlying().(*types.Basic); !ok || bt.Kind() != types.String {
				continue
			}
			rt := f.Signature.Results().At(0).Type()
			if _, named := types.Unalias(rt).(*types.Named); !named || !isIntegerType(rt) {
				continue
			}
			vals := map[string]string{}
			dup := map[string]bool{}
			for m := range rw.modeOf {
				if v, ok := evalStringSwitch(f, m); ok {
					k := rt.String() + ":" + v.ExactString()
					if _, had := vals[k]; had {
						dup[k] = true
					}
					vals[k] = m
				}
			}
			for k, m := range vals {
				if !dup[k] {
					rw.enumMode[k] = m
				}
			}
		}
	}
	return rw.enumMode
}

// evalStringSwitch runs f (one string parameter, one constant result) on the constant s: every branch must compare the
// parameter with a constant string.
func evalStringSwitch(f *ssa.Function, s string) (constant.Value, bool) {
	b := f.Blocks[0]
	for steps := 0; steps < 200; steps++ {
		switch last := b.Instrs[len(b.Instrs)-1].(type) {
		case *ssa.Return:
			if len(last.Results) != 1 {
				return nil, false
			}
			c, ok := last.Results[0].(*ssa.Const)
			if !ok || c.Value == nil {
				return nil, false
			}
			return c.Value, true
		case *ssa.Jump:
			b = b.Succs[0]
		case *ssa.If:
			bo, ok := last.Cond.(*ssa.BinOp)
			if !ok || (bo.Op != token.EQL && bo.Op != token.NEQ) {
				return nil, false
			}
			var k *ssa.Const
			switch {
			case bo.X == ssa.Value(f.Params[0]):
				k, _ = bo.Y.(*ssa.Const)
			case bo.Y == ssa.Value(f.Params[0]):
				k, _ = bo.X.(*ssa.Const)
			}
			if k == nil || k.Value == nil || k.Value.Kind() != constant.String {
				return nil, false
			}
			truth := (constant.StringVal(k.Value) == s) == (bo.Op == token.EQL)
			if truth {
				b = b.Succs[0]
			} else {
				b = b.Succs[1]
			}
		default:
			return nil, false
		}
	}
	return nil, false
}

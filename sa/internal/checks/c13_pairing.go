package checks

import (
	"fmt"
	"go/token"
	"go/types"
	"sort"
	"strings"

	"golang.org/x/tools/go/ssa"

	"verif/sa/internal/core"
	"verif/sa/internal/eff"
)

// syncOp is a blocking or releasing operation on a synchronisation object that two requests can share.
type syncOp struct {
	in       ssa.Instruction
	obj      string // canonical key of the object
	kind     string // "send", "recv", "lock", "unlock", "wait"
	deferred bool   // performed by a deferred call: it runs at every exit that the Defer instruction precedes
	via      string // callee performing it, when not direct
}

func (o syncOp) desc() string {
	s := map[string]string{"send": "send on ", "recv": "receive from ", "lock": "Lock of ", "unlock": "Unlock of ", "wait": "Wait on "}[o.kind] + o.obj
	if o.via != "" {
		s += " (in " + o.via + ")"
	}
	return s
}

// objKey names the synchronisation object an operand denotes, so that operations of one function — and, for package-level
// objects, of a function and its callees — can be matched.
func objKey(v ssa.Value) string {
	switch x := v.(type) {
	case *ssa.Global:
		return x.String()
	case *ssa.UnOp:
		if x.Op == token.MUL {
			return "*" + objKey(x.X)
		}
	case *ssa.FieldAddr:
		return fmt.Sprintf("%s.%d", objKey(x.X), x.Field)
	case *ssa.Field:
		return fmt.Sprintf("%s.%d", objKey(x.X), x.Field)
	case *ssa.Parameter:
		return "param:" + x.Name()
	case *ssa.FreeVar:
		return "free:" + x.Name()
	case *ssa.ChangeType:
		return objKey(x.X)
	case *ssa.MakeInterface:
		return objKey(x.X)
	}
	where := "?"
	if in, ok := v.(ssa.Instruction); ok && in.Parent() != nil {
		where = in.Parent().Name()
	}
	return v.Name() + "@" + where
}

// portable: the key means the same object in every function (rooted at a package-level variable).
func portableKey(k string) bool {
	k = strings.TrimLeft(k, "*")
	return !strings.HasPrefix(k, "param:") && !strings.HasPrefix(k, "free:") && !strings.Contains(k, "@")
}

func complementOf(k string) string {
	return map[string]string{"send": "recv", "recv": "send", "lock": "unlock", "unlock": "lock"}[k]
}

// directOps lists fn's own operations on shared synchronisation objects.
func directOps(fn *ssa.Function, shared func(ssa.Value) bool) []syncOp {
	var out []syncOp
	for _, b := range fn.Blocks {
		for _, in := range b.Instrs {
			switch x := in.(type) {
			case *ssa.Send:
				if shared(x.Chan) {
					out = append(out, syncOp{in: in, obj: objKey(x.Chan), kind: "send"})
				}
			case *ssa.UnOp:
				if x.Op == token.ARROW && shared(x.X) {
					out = append(out, syncOp{in: in, obj: objKey(x.X), kind: "recv"})
				}
			case *ssa.Select:
				if !x.Blocking {
					continue
				}
				for _, st := range x.States {
					if shared(st.Chan) {
						k := "recv"
						if st.Dir == types.SendOnly {
							k = "send"
						}
						out = append(out, syncOp{in: in, obj: objKey(st.Chan), kind: k})
					}
				}
			case ssa.CallInstruction:
				if _, isGo := in.(*ssa.Go); isGo {
					continue
				}
				com := x.Common()
				callee := com.StaticCallee()
				if callee == nil || callee.Pkg == nil || callee.Pkg.Pkg.Path() != "sync" || len(com.Args) == 0 || !shared(com.Args[0]) {
					continue
				}
				k := ""
				switch callee.Name() {
				case "Lock", "RLock":
					k = "lock"
				case "Unlock", "RUnlock":
					k = "unlock"
				case "Wait":
					k = "wait"
				}
				if k == "" {
					continue
				}
				_, isDefer := in.(*ssa.Defer)
				out = append(out, syncOp{in: in, obj: objKey(com.Args[0]), kind: k, deferred: isDefer})
			}
		}
	}
	return out
}

type pairing struct {
	shared func(ssa.Value) bool
	ext    map[*ssa.Function][]syncOp
	busy   map[*ssa.Function]bool
}

// net: the operations a call of fn performs, seen from its caller: those of its extended list that fn does not itself pair
// with a complement on the same object. Closure-captured objects are translated through the bindings by the caller.
func (pr *pairing) net(fn *ssa.Function) []syncOp {
	ops := pr.extended(fn)
	var out []syncOp
	for _, o := range ops {
		paired := false
		for _, q := range ops {
			if q.obj == o.obj && q.kind == complementOf(o.kind) {
				paired = true
			}
		}
		if !paired {
			out = append(out, o)
		}
	}
	return out
}

// extended: fn's direct operations plus, at each call/defer of an in-repo function or closure, that callee's net operations.
func (pr *pairing) extended(fn *ssa.Function) []syncOp {
	if ops, ok := pr.ext[fn]; ok {
		return ops
	}
	if pr.busy[fn] || fn.Blocks == nil {
		return nil
	}
	pr.busy[fn] = true
	defer delete(pr.busy, fn)
	ops := directOps(fn, pr.shared)
	for _, b := range fn.Blocks {
		for _, in := range b.Instrs {
			c, ok := in.(ssa.CallInstruction)
			if !ok {
				continue
			}
			if _, isGo := in.(*ssa.Go); isGo {
				continue
			}
			_, isDefer := in.(*ssa.Defer)
			com := c.Common()
			var callee *ssa.Function
			var bindings []ssa.Value
			if mc, ok := com.Value.(*ssa.MakeClosure); ok {
				callee, _ = mc.Fn.(*ssa.Function)
				bindings = mc.Bindings
			} else {
				callee = com.StaticCallee()
			}
			if callee == nil || callee.Blocks == nil || callee.Pkg == nil || !core.InRepo(callee.Pkg.Pkg.Path()) {
				if callee == nil || callee.Parent() == nil { // closures have no Pkg of their own in some builds
					continue
				}
			}
			for _, o := range pr.net(callee) {
				obj := o.obj
				if !portableKey(obj) {
					// translate a captured variable through the closure's bindings
					translated := false
					for i, fv := range callee.FreeVars {
						if i < len(bindings) && strings.TrimLeft(obj, "*") == "free:"+fv.Name() {
							stars := obj[:len(obj)-len(strings.TrimLeft(obj, "*"))]
							obj = stars + objKey(bindings[i])
							translated = true
						}
					}
					if !translated {
						continue
					}
				}
				ops = append(ops, syncOp{in: in, obj: obj, kind: o.kind, deferred: isDefer || o.deferred && false, via: core.FuncName(callee)})
			}
		}
	}
	sort.SliceStable(ops, func(i, j int) bool {
		a, b := ops[i].in, ops[j].in
		if a.Block() != b.Block() {
			return a.Block().Index < b.Block().Index
		}
		return indexOf(a.Block(), a) < indexOf(b.Block(), b)
	})
	pr.ext[fn] = ops
	return ops
}

// unreleasedExit searches for a path from just after the acquire to a function exit on which the complementary operation on
// the same object is neither performed nor already deferred. It returns the offending exit.
func unreleasedExit(acq syncOp, ops []syncOp) (ssa.Instruction, bool) {
	want := complementOf(acq.kind)
	releases := map[ssa.Instruction]bool{}
	for _, o := range ops {
		if o.obj == acq.obj && o.kind == want {
			if o.deferred && instrBefore(o.in, acq.in) {
				return nil, false // a release deferred before the acquire runs at every exit
			}
			releases[o.in] = true
		}
	}
	seen := map[*ssa.BasicBlock]bool{}
	var walk func(b *ssa.BasicBlock, from int) (ssa.Instruction, bool)
	walk = func(b *ssa.BasicBlock, from int) (ssa.Instruction, bool) {
		for i := from; i < len(b.Instrs); i++ {
			in := b.Instrs[i]
			if releases[in] {
				return nil, false
			}
			switch in.(type) {
			case *ssa.Return, *ssa.Panic:
				return in, true
			}
		}
		for _, s := range b.Succs {
			if seen[s] {
				continue
			}
			seen[s] = true
			if at, bad := walk(s, 0); bad {
				return at, true
			}
		}
		return nil, false
	}
	return walk(acq.in.Block(), indexOf(acq.in.Block(), acq.in)+1)
}

// checkSyncPairing decides O13.4: in handler-reachable code every blocking acquire on a synchronisation object that requests
// share (a send to / receive from a shared channel used as a semaphore or token pool, a Lock) is followed on every path to
// the function's exit — error returns included — by the complementary operation on the same object: directly, by defer, or
// inside a callee. Otherwise one request's outcome — a leaked slot, a lock never released — decides whether a later request
// is ever answered. Functions that perform only one half of a pair are judged where the two halves meet (their callers).
func checkSyncPairing(p *core.Program, r *core.Report, reach map[*ssa.Function]*ssa.Function, sh *eff.Shared) {
	shared := func(v ssa.Value) bool {
		if _, ok := sh.Ref(v); ok {
			return true
		}
		if u, ok := v.(*ssa.UnOp); ok && u.Op == token.MUL { // a load from a shared address
			_, ok := sh.Ref(u.X)
			return ok
		}
		if _, ok := v.(*ssa.FreeVar); ok { // judged after translation at the closure's creation site
			return true
		}
		return false
	}
	pr := &pairing{shared: shared, ext: map[*ssa.Function][]syncOp{}, busy: map[*ssa.Function]bool{}}
	var fns []*ssa.Function
	for f := range reach {
		fns = append(fns, f)
	}
	sort.Slice(fns, func(i, j int) bool { return fns[i].String() < fns[j].String() })
	calledFrom := map[*ssa.Function]bool{} // has a caller inside the reach set (so a half-pair is judged there)
	for _, f := range fns {
		for _, b := range f.Blocks {
			for _, in := range b.Instrs {
				if c, ok := in.(ssa.CallInstruction); ok {
					if mc, ok := c.Common().Value.(*ssa.MakeClosure); ok {
						if cf, ok := mc.Fn.(*ssa.Function); ok {
							calledFrom[cf] = true
						}
					} else if callee := c.Common().StaticCallee(); callee != nil {
						calledFrom[callee] = true
					}
				}
			}
		}
	}
	nOps, nAcq, nBad := 0, 0, 0
	for _, f := range fns {
		ops := pr.extended(f)
		for _, o := range ops {
			if o.via == "" {
				nOps++
			}
		}
		for _, o := range ops {
			if o.via == "" && !portableKey(o.obj) && strings.Contains(o.obj, "free:") {
				continue // a closure's own operation on a captured object: judged in the function that creates the closure
			}
			cn := core.FuncName(f) + ": " + o.desc()
			if o.kind == "wait" {
				nAcq++
				nBad++
				r.Violation("O13.4", cn, p.Pos(o.in.Pos()), "a request waits on a synchronisation object shared with other requests (reachable via %s): its response then depends on what other requests do", eff.Path(reach, f))
				continue
			}
			if o.deferred || o.kind == "unlock" {
				continue
			}
			// the release half: preceded by its complement on the same object
			second := false
			hasComplement := false
			for _, q := range ops {
				if q.obj == o.obj && q.kind == complementOf(o.kind) {
					hasComplement = true
					if q.in != o.in && !q.deferred && instrBefore(q.in, o.in) {
						second = true
					}
				}
			}
			if second {
				continue
			}
			if !hasComplement && calledFrom[f] && (portableKey(o.obj) || f.Parent() != nil) {
				continue // one half of a pair: appears in the callers' extended lists and is judged there
			}
			nAcq++
			exit, bad := unreleasedExit(o, ops)
			if bad {
				nBad++
				r.Violation("O13.4", cn, p.Pos(o.in.Pos()), "blocking %s on a synchronisation object shared by all requests, and the exit at %s is reachable from it without the complementary operation (reachable via %s): a request leaving on that path keeps the slot/lock, so later requests block forever — their outcome depends on other requests", o.kind, p.Pos(exit.Pos()), eff.Path(reach, f))
			} else {
				r.OK("O13.4", cn, p.Pos(o.in.Pos()), "complementary operation on every path to every exit (directly, by defer or in a callee)")
			}
		}
	}
	if nBad == 0 {
		r.OK("O13.4", "handler-reachable code: blocking operations on shared synchronisation objects", "-", "%d operation(s) on shared channels/locks in %d reachable functions, %d acquire(s), all paired on every exit", nOps, len(fns), nAcq)
	}
	r.Extra["shared_sync_operations"] = nOps
}

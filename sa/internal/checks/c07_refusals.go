package checks

import (
	"fmt"
	"go/token"
	"go/types"
	"sort"
	"strings"

	"golang.org/x/tools/go/ssa"

	"verif/sa/internal/core"
)

// checkRefusals decides O7.7 for a prover method and the in-repo functions it can take an error from: the prover refuses a
// parameter set only (a) because an accounted callee failed (shape validation, witness construction, the solver) or (b) by an
// error it constructs itself under a condition over *dimensions only* (lengths of the request arrays, the system's depth and
// batch size). A self-constructed refusal whose condition reads the request's *values* is a precondition the statement does
// not have: nothing here can show that every parameter set it refuses is one the circuit rejects, so some valid batch may be
// left without a proof.
var refusalPS *types.Named

func checkRefusals(p *core.Program, r *core.Report, rule string, root *ssa.Function) {
	refusalPS = provingSystemType(p)
	seen := map[*ssa.Function]bool{}
	var order []*ssa.Function
	var visit func(fn *ssa.Function)
	visit = func(fn *ssa.Function) {
		if fn == nil || fn.Blocks == nil || seen[fn] || fn.Pkg == nil || !core.InRepo(fn.Pkg.Pkg.Path()) {
			return
		}
		seen[fn] = true
		order = append(order, fn)
		for _, b := range fn.Blocks {
			for _, in := range b.Instrs {
				if c, ok := in.(ssa.CallInstruction); ok {
					if callee := c.Common().StaticCallee(); callee != nil && fnReturnsError(callee) {
						visit(callee)
					}
				}
			}
		}
	}
	visit(root)
	for _, fn := range order {
		nFresh := 0
		var bad []string
		pos := ""
		for _, b := range fn.Blocks {
			ret, ok := b.Instrs[len(b.Instrs)-1].(*ssa.Return)
			if !ok || len(ret.Results) == 0 {
				continue
			}
			ev := ret.Results[len(ret.Results)-1]
			if !isErrorType(ev.Type()) {
				continue
			}
			for _, leaf := range errorLeaves(ev, b) {
				if !leaf.fresh {
					continue
				}
				nFresh++
				if why := dataDependentGuard(leaf.block); why != "" {
					if pos == "" {
						pos = p.Pos(leaf.pos)
					}
					bad = append(bad, fmt.Sprintf("the error constructed at %s is returned under a condition that reads request values (%s)", p.Pos(leaf.pos), why))
				}
			}
		}
		cn := core.FuncName(fn) + ": refusals it constructs itself depend on dimensions only"
		if len(bad) > 0 {
			r.Violation(rule, cn, pos, "%s — a precondition beyond the statement's: a valid batch that meets it gets an error instead of a proof, and nothing decides that every refused parameter set is invalid", strings.Join(uniqStrings(bad), "; "))
		} else {
			r.OK(rule, cn, p.Pos(fn.Pos()), "%d self-constructed error(s), each under a condition over lengths/dimensions only; other error exits propagate a callee's error", nFresh)
		}
		r.Count("functions checked for extra refusals", 1)
	}
}

func fnReturnsError(fn *ssa.Function) bool {
	res := fn.Signature.Results()
	return res.Len() > 0 && isErrorType(res.At(res.Len()-1).Type())
}

func isErrorType(t types.Type) bool {
	n, ok := t.(*types.Named)
	return ok && n.Obj().Pkg() == nil && n.Obj().Name() == "error"
}

type errLeaf struct {
	fresh bool
	pos   token.Pos
	block *ssa.BasicBlock // the block whose execution decides that this error is returned
}

// errorLeaves follows an error value back through phis to where it comes from.
func errorLeaves(v ssa.Value, at *ssa.BasicBlock) []errLeaf {
	var out []errLeaf
	seen := map[ssa.Value]bool{}
	var walk func(v ssa.Value, at *ssa.BasicBlock)
	walk = func(v ssa.Value, at *ssa.BasicBlock) {
		if seen[v] {
			return
		}
		seen[v] = true
		switch x := v.(type) {
		case *ssa.Const:
			return
		case *ssa.Phi:
			for i, e := range x.Edges {
				walk(e, x.Block().Preds[i])
			}
		case *ssa.Extract:
			return // a callee's error
		case *ssa.Call:
			callee := x.Common().StaticCallee()
			if callee != nil && callee.Pkg != nil {
				full := callee.Pkg.Pkg.Path() + "." + callee.Name()
				if full == "fmt.Errorf" || full == "errors.New" {
					// wrapping a callee's error (%w / %v of an error operand) is propagation, not a fresh refusal
					for _, a := range x.Common().Args {
						if wrapsError(a) {
							return
						}
					}
					out = append(out, errLeaf{true, x.Pos(), x.Block()})
					return
				}
			}
			return // another function's error result
		case *ssa.MakeInterface:
			if _, isConst := x.X.(*ssa.Const); isConst {
				return
			}
			out = append(out, errLeaf{true, x.Pos(), x.Block()})
		case *ssa.ChangeInterface:
			walk(x.X, at)
		case *ssa.UnOp:
			// a load of a named result / package-level sentinel: treat as propagated
			return
		}
	}
	walk(v, at)
	return out
}

// wrapsError: the variadic argument slice of fmt.Errorf holds an error value.
func wrapsError(a ssa.Value) bool {
	sl, ok := a.(*ssa.Slice)
	if !ok {
		return false
	}
	al, ok := sl.X.(*ssa.Alloc)
	if !ok {
		return false
	}
	for _, ref := range *al.Referrers() {
		ia, ok := ref.(*ssa.IndexAddr)
		if !ok {
			continue
		}
		for _, r2 := range *ia.Referrers() {
			if st, ok := r2.(*ssa.Store); ok {
				if mi, ok := st.Val.(*ssa.MakeInterface); ok && isErrorType(mi.X.Type()) {
					return true
				}
				if isErrorType(st.Val.Type()) {
					return true
				}
			}
		}
	}
	return false
}

// dataDependentGuard inspects the branch conditions that decide whether block b runs (the conditions of the If instructions
// on b's dominator chain that b lies on one side of) and names the first operand that reads a request value rather than a
// dimension. Dimensions: constants, len/cap results, integer parameters, integer fields of the receiver/parameters reached
// without indexing, loop counters built from those.
func dataDependentGuard(b *ssa.BasicBlock) string {
	var reasons []string
	for d := b.Idom(); d != nil; d = d.Idom() {
		iff, ok := d.Instrs[len(d.Instrs)-1].(*ssa.If)
		if !ok {
			continue
		}
		// b must be on exactly one side
		t, f := d.Succs[0], d.Succs[1]
		// a successor that dominates d itself is a loop back edge, not a side of the branch
		onT := (t == b || t.Dominates(b)) && !t.Dominates(d)
		onF := (f == b || f.Dominates(b)) && !f.Dominates(d)
		if onT == onF {
			continue
		}
		if why := valueRead(iff.Cond, map[ssa.Value]bool{}); why != "" {
			reasons = append(reasons, why)
		}
	}
	sort.Strings(reasons)
	if len(reasons) == 0 {
		return ""
	}
	return reasons[0]
}

// valueRead returns a description of the first request-value read feeding v, or "" when v is built from dimensions only.
func valueRead(v ssa.Value, seen map[ssa.Value]bool) string {
	if seen[v] {
		return ""
	}
	seen[v] = true
	switch x := v.(type) {
	case *ssa.Const, *ssa.Parameter, *ssa.Global, *ssa.FreeVar:
		return ""
	case *ssa.BinOp:
		// having passed `err != nil` of a callee is not a condition on the request that this function adds
		if isErrorType(x.X.Type()) || isErrorType(x.Y.Type()) {
			return ""
		}
		if w := valueRead(x.X, seen); w != "" {
			return w
		}
		return valueRead(x.Y, seen)
	case *ssa.UnOp:
		if x.Op == token.MUL {
			// a load: allowed from a field path of a parameter (ps.BatchSize), not from an element of a slice/array
			return addrRead(x.X, seen)
		}
		return valueRead(x.X, seen)
	case *ssa.Convert:
		return valueRead(x.X, seen)
	case *ssa.ChangeType:
		return valueRead(x.X, seen)
	case *ssa.Phi:
		for _, e := range x.Edges {
			if w := valueRead(e, seen); w != "" {
				return w
			}
		}
		return ""
	case *ssa.Call:
		if bi, ok := x.Common().Value.(*ssa.Builtin); ok && (bi.Name() == "len" || bi.Name() == "cap") {
			return "" // a length, whatever it is the length of
		}
		name := "a call"
		if c := x.Common().StaticCallee(); c != nil {
			name = "the result of " + c.String()
		}
		return name
	case *ssa.Extract:
		return "the " + ordinal(x.Index) + " result of " + describeValue(x.Tuple)
	case *ssa.Lookup:
		return "a map/string lookup"
	case *ssa.Field:
		return valueRead(x.X, seen)
	case *ssa.Index:
		return "an element " + x.Name()
	case *ssa.Slice, *ssa.MakeSlice, *ssa.Alloc:
		return ""
	case *ssa.TypeAssert:
		return "a type assertion"
	}
	return "value " + v.Name() + " (" + fmt.Sprintf("%T", v) + ")"
}

func addrRead(a ssa.Value, seen map[ssa.Value]bool) string {
	switch x := a.(type) {
	case *ssa.FieldAddr:
		// a field of a struct reached from a parameter: a dimension if it is an integer, otherwise (a *big.Int, a slice) a value
		if b, ok := x.Type().(*types.Pointer).Elem().Underlying().(*types.Basic); ok && b.Info()&types.IsInteger != 0 {
			// an integer field of the proving system is a dimension; an integer field of anything else reached from the
			// request (StartIndex) is a request value
			if refusalPS != nil {
				if n := namedOf(x.X.Type()); n != nil && n != refusalPS && inRepoObj(n.Obj()) {
					return "field " + fieldNameOf(x) + " of the request"
				}
			}
			return addrBase(x.X, seen)
		}
		if _, ok := x.Type().(*types.Pointer).Elem().Underlying().(*types.Slice); ok {
			return addrBase(x.X, seen) // the slice header itself (for len); its elements are reached through IndexAddr
		}
		return "field " + x.Name() + " of the request"
	case *ssa.IndexAddr:
		return "an element of a request array"
	case *ssa.Alloc:
		// a local: look at what is stored
		for _, ref := range *x.Referrers() {
			if st, ok := ref.(*ssa.Store); ok && st.Addr == x {
				if w := valueRead(st.Val, seen); w != "" {
					return w
				}
			}
		}
		return ""
	case *ssa.Global, *ssa.Parameter, *ssa.FreeVar:
		return ""
	}
	return "memory at " + a.Name()
}

func addrBase(a ssa.Value, seen map[ssa.Value]bool) string {
	switch x := a.(type) {
	case *ssa.Parameter, *ssa.Global, *ssa.FreeVar, *ssa.Alloc:
		return ""
	case *ssa.FieldAddr:
		return addrBase(x.X, seen)
	case *ssa.UnOp:
		if x.Op == token.MUL {
			return addrRead(x.X, seen)
		}
	case *ssa.IndexAddr:
		return "an element of a request array"
	}
	return ""
}

func ordinal(i int) string { return []string{"first", "second", "third", "fourth"}[min(i, 3)] }

func describeValue(v ssa.Value) string {
	switch x := v.(type) {
	case *ssa.Lookup:
		return "a map lookup"
	case *ssa.Call:
		if c := x.Common().StaticCallee(); c != nil {
			return c.String()
		}
	case *ssa.TypeAssert:
		return "a type assertion"
	}
	return v.Name()
}

// writesThroughParam: fn (or an in-repo function it hands the pointer to) stores through its k-th parameter: a field, an
// element of a slice reached from it, or the pointee itself.
func writesThroughParam(fn *ssa.Function, k int, seen map[string]bool) (bool, token.Pos) {
	key := fmt.Sprintf("%p/%d", fn, k)
	if seen[key] || len(fn.Blocks) == 0 || k >= len(fn.Params) {
		return false, token.NoPos
	}
	seen[key] = true
	rooted := map[ssa.Value]bool{fn.Params[k]: true}
	for changed := true; changed; {
		changed = false
		for _, b := range fn.Blocks {
			for _, in := range b.Instrs {
				v, ok := in.(ssa.Value)
				if !ok || rooted[v] {
					continue
				}
				switch x := in.(type) {
				case *ssa.FieldAddr:
					if rooted[x.X] {
						rooted[v], changed = true, true
					}
				case *ssa.IndexAddr:
					if rooted[x.X] {
						rooted[v], changed = true, true
					}
				case *ssa.UnOp:
					// loading a slice or pointer stored in the request keeps us inside the request's memory
					if x.Op == token.MUL && rooted[x.X] {
						switch x.Type().Underlying().(type) {
						case *types.Slice, *types.Pointer:
							rooted[v], changed = true, true
						}
					}
				case *ssa.Slice:
					if rooted[x.X] {
						rooted[v], changed = true, true
					}
				case *ssa.Phi:
					for _, e := range x.Edges {
						if rooted[e] {
							rooted[v], changed = true, true
						}
					}
				}
			}
		}
	}
	for _, b := range fn.Blocks {
		for _, in := range b.Instrs {
			switch x := in.(type) {
			case *ssa.Store:
				if rooted[x.Addr] {
					return true, x.Pos()
				}
			case ssa.CallInstruction:
				callee := x.Common().StaticCallee()
				// a mutating big.Int method on a value inside the request (p.InputHash.SetBytes(…))
				if callee != nil && callee.Signature.Recv() != nil && isBigIntType(callee.Signature.Recv().Type()) && !bigIntReadOnly[callee.Name()] && len(x.Common().Args) > 0 && rooted[x.Common().Args[0]] {
					return true, x.Pos()
				}
				if callee == nil || len(callee.Blocks) == 0 || !core.InRepo(pkgPathOf(callee)) {
					continue
				}
				for j, a := range x.Common().Args {
					if rooted[a] {
						if w, _ := writesThroughParam(callee, j, seen); w {
							return true, x.Pos()
						}
					}
				}
			}
		}
	}
	return false, token.NoPos
}

// Package checks holds one file per property: the obligations of DESIGN.md section 5 applied to the loaded program.
package checks

import "verif/sa/internal/core"

// Check is one property's decision procedure.
type Check struct {
	Run        func(p *core.Program, r *core.Report)
	NeedAllSSA bool // thorough tier wants SSA bodies of dependencies (VTA call graph)
}

// Registry maps property id to its check.
var Registry = map[string]Check{}

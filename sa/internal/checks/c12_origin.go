package checks

import (
	"fmt"
	"go/ast"
	"go/types"
	"sort"
	"strings"

	"golang.org/x/tools/go/ssa"

	"verif/sa/internal/core"
)

// checkConstraintSystemOrigin decides O12.6: outside the keys-file load chain, the constraint system of every proving
// system the repository builds (setup, key import) is the result of frontend.Compile *in this call*. A constraint system
// taken from anywhere else — a cache file next to the keys, a memo keyed by the dimensions — makes what a construction path
// returns depend on what an earlier call or process left behind, not on (mode, depth, batch) alone.
func checkConstraintSystemOrigin(p *core.Program, r *core.Report) {
	ps := provingSystemType(p)
	if ps == nil {
		return
	}
	st, _ := ps.Underlying().(*types.Struct)
	csField := -1
	if st != nil {
		for i := 0; i < st.NumFields(); i++ {
			if n := namedOf(st.Field(i).Type()); n != nil && n.Obj().Name() == "ConstraintSystem" {
				csField = i
			}
		}
	}
	if csField < 0 {
		r.Undecided("O12.6", "proving-system type: constraint-system field", "-", "no field of a ConstraintSystem type found")
		return
	}
	// the load chain reads the constraint system from the keys file: not construction code
	ix := indexFuncs(p)
	li := findLoaders(p, ix)
	inChain := map[*ssa.Function]bool{}
	for _, u := range li.chain {
		if fd, ok := u.Node.(*ast.FuncDecl); ok {
			if obj, _ := u.Pkg.TypesInfo.Defs[fd.Name].(*types.Func); obj != nil {
				if fn := p.SSA.FuncValue(obj); fn != nil {
					inChain[fn] = true
				}
			}
		}
	}
	n := 0
	var bad []string
	for _, fn := range p.RepoFuncs() {
		if inChain[fn] {
			continue
		}
		for _, b := range fn.Blocks {
			for _, in := range b.Instrs {
				s, ok := in.(*ssa.Store)
				if !ok {
					continue
				}
				fa, ok := s.Addr.(*ssa.FieldAddr)
				if !ok || fa.Field != csField || !isPSPointer(fa.X.Type(), ps) {
					continue
				}
				n++
				var origins []originLeaf
				var expand func(v ssa.Value, depth int)
				expand = func(v ssa.Value, depth int) {
					for _, o := range ssaOrigins(v, nil) {
						// a builder handed in as a function value (setupWith(build, depth, batch)): the functions every call site passes
						if c, isCall := o.V.(*ssa.Call); isCall && depth < 3 {
							if prm, isPrm := c.Common().Value.(*ssa.Parameter); isPrm {
								idx := -1
								for i, q := range prm.Parent().Params {
									if q == prm {
										idx = i
									}
								}
								resolved := idx >= 0
								var fns []*ssa.Function
								for _, caller := range p.RepoFuncs() {
									for _, cb := range caller.Blocks {
										for _, ci := range cb.Instrs {
											cc, ok := ci.(ssa.CallInstruction)
											if !ok || cc.Common().StaticCallee() != prm.Parent() || idx >= len(cc.Common().Args) {
												continue
											}
											av := cc.Common().Args[idx]
											for {
												ct, isCT := av.(*ssa.ChangeType)
												if !isCT {
													break
												}
												av = ct.X
											}
											if f, isFn := av.(*ssa.Function); isFn && len(f.Blocks) > 0 {
												fns = append(fns, f)
											} else {
												resolved = false
											}
										}
									}
								}
								if resolved && len(fns) > 0 {
									for _, f := range fns {
										for _, fb := range f.Blocks {
											if ret, ok := fb.Instrs[len(fb.Instrs)-1].(*ssa.Return); ok && len(ret.Results) > 0 {
												expand(ret.Results[0], depth+1)
											}
										}
									}
									continue
								}
								if !resolved {
									continue // a builder this analysis cannot name: not judged
								}
							}
						}
						origins = append(origins, o)
					}
				}
				expand(s.Val, 0)
				for _, o := range origins {
					if c, isCall := o.V.(*ssa.Call); isCall {
						if sc := c.Common().StaticCallee(); sc != nil && sc.String() == "github.com/consensys/gnark/frontend.Compile" && o.Index <= 0 {
							continue
						}
					}
					if _, isPrm := o.V.(*ssa.Parameter); isPrm {
						continue // handed in by a caller, judged there
					}
					bad = append(bad, fmt.Sprintf("%s at %s: the constraint system stored into the proving system has an origin other than frontend.Compile: %s", core.FuncName(fn), p.Pos(s.Pos()), o.V.String()))
				}
			}
		}
	}
	r.Count("constructed proving systems", n)
	sort.Strings(bad)
	cn := "construction paths: the constraint system is compiled in this call"
	if len(bad) == 0 {
		r.OK("O12.6", cn, "-", "%d proving-system construction site(s) outside the load chain; every constraint system is frontend.Compile's result", n)
	} else {
		r.Violation("O12.6", cn, "-", "%s: what the construction path returns then depends on state left by an earlier call or process (a cache), not on mode and dimensions alone", strings.Join(uniqStrings(bad), "; "))
	}
}

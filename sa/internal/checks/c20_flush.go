package checks

import (
	"sort"
	"strings"

	"golang.org/x/tools/go/ssa"

	"verif/sa/internal/core"
	"verif/sa/internal/eff"
)

// checkNoEarlyFlush decides O20.8. promhttp counts a request, and takes it off the in-flight gauge, when the wrapped
// handler *returns*; net/http hands a (small) response to the client only after that, when it finishes the request. A
// client that has its response can therefore rely on the totals. A handler that pushes the response out itself
// (http.Flusher.Flush, ResponseController.Flush, Hijack) and goes on working breaks that order: a scrape taken after the
// response was received still shows the request in flight and not yet counted.
func checkNoEarlyFlush(p *core.Program, r *core.Report, entry *ssa.Function) {
	g := eff.BuildGraph(p)
	reach := g.Reach(entry)
	var bad []string
	for f := range reach {
		for _, b := range f.Blocks {
			for _, in := range b.Instrs {
				c, ok := in.(ssa.CallInstruction)
				if !ok {
					continue
				}
				com := c.Common()
				name := ""
				if com.IsInvoke() {
					if (com.Method.Name() == "Flush" || com.Method.Name() == "FlushError") && isNamed(com.Value.Type(), "net/http", "Flusher") {
						name = "http.Flusher.Flush"
					}
					if com.Method.Name() == "Hijack" && isNamed(com.Value.Type(), "net/http", "Hijacker") {
						name = "http.Hijacker.Hijack"
					}
					// an anonymous interface{ Flush() } / { FlushError() error } asserted from the response writer
					if name == "" && (com.Method.Name() == "Flush" || com.Method.Name() == "FlushError") {
						if ta, isTA := com.Value.(*ssa.TypeAssert); isTA && isRespWriterType(ta.X.Type()) {
							name = "Flush on the response writer"
						}
						if ex, isEx := com.Value.(*ssa.Extract); isEx {
							if ta, isTA := ex.Tuple.(*ssa.TypeAssert); isTA && isRespWriterType(ta.X.Type()) {
								name = "Flush on the response writer"
							}
						}
					}
				} else if sc := com.StaticCallee(); sc != nil && sc.Pkg != nil && sc.Pkg.Pkg.Path() == "net/http" && sc.Signature.Recv() != nil {
					if isNamed(sc.Signature.Recv().Type(), "net/http", "ResponseController") && (sc.Name() == "Flush" || sc.Name() == "Hijack") {
						name = "http.ResponseController." + sc.Name()
					}
				}
				if name != "" {
					bad = append(bad, name+" in "+core.FuncName(f)+" at "+p.Pos(c.Pos())+" ("+eff.Path(reach, f)+")")
				}
			}
		}
	}
	sort.Strings(bad)
	cn := "request path: the response leaves through the instrumentation"
	if len(bad) == 0 {
		r.OK("O20.8", cn, p.Pos(entry.Pos()), "no Flush / Hijack in the %d function(s) reachable from the handler: the client receives the response after the wrappers have counted it", len(reach))
	} else {
		r.Violation("O20.8", cn, p.Pos(entry.Pos()), "%s: the response reaches the client while the handler is still running, i.e. before http_requests_total is incremented and http_requests_in_flight decremented — a scrape taken after the response was received disagrees with the responses sent", strings.Join(bad, "; "))
	}
}

package checks

import (
	"fmt"
	"go/constant"
	"sort"
	"strings"

	"golang.org/x/tools/go/ssa"

	"verif/sa/internal/core"
	"verif/sa/internal/eff"
)

// checkResponseBodiesAreJSON decides O9.9: every body the request path writes is a JSON document produced by
// encoding/json (or a constant). The statement's "code" of an error response is a field of a JSON body; the message it
// travels with echoes request content (the offending number string), so a body assembled with fmt.Sprintf / %q / string
// concatenation is not valid JSON for every request — control characters and invalid UTF-8 are quoted the Go way, not the
// JSON way — and then carries no parseable code. Decided by backwards origin tracing of the argument of every Write on the
// response writer in code reachable from the handler.
func checkResponseBodiesAreJSON(p *core.Program, r *core.Report, handler *ssa.Function) {
	g := eff.BuildGraph(p)
	reach := g.Reach(handler)
	within := map[*ssa.Function]bool{}
	for f := range reach {
		within[f] = true
	}
	var bad []string
	n := 0
	var fns []*ssa.Function
	for f := range reach {
		fns = append(fns, f)
	}
	sort.Slice(fns, func(i, j int) bool { return fns[i].String() < fns[j].String() })
	for _, f := range fns {
		for _, b := range f.Blocks {
			for _, in := range b.Instrs {
				c, ok := in.(*ssa.Call)
				if !ok || !c.Common().IsInvoke() || c.Common().Method.Name() != "Write" || !isRespWriterType(c.Common().Value.Type()) || len(c.Common().Args) != 1 {
					continue
				}
				n++
				for _, o := range ssaOriginsIPWithin(p, c.Common().Args[0], nil, within) {
					switch x := o.V.(type) {
					case *ssa.Const:
						if x.Value == nil || x.Value.Kind() == constant.String {
							continue
						}
					case *ssa.Call:
						if sc := x.Common().StaticCallee(); sc != nil {
							name := sc.String()
							if (name == "encoding/json.Marshal" || name == "encoding/json.MarshalIndent") && o.Index <= 0 {
								continue
							}
							bad = append(bad, fmt.Sprintf("the body written at %s in %s comes from %s at %s", p.Pos(c.Pos()), core.FuncName(f), name, p.Pos(x.Pos())))
							continue
						}
					}
					bad = append(bad, fmt.Sprintf("the body written at %s in %s has an origin other than encoding/json: %s", p.Pos(c.Pos()), core.FuncName(f), o.V.String()))
				}
			}
		}
	}
	r.Count("response body writes", n)
	sort.Strings(bad)
	cn := "request path: every response body is produced by encoding/json"
	if len(bad) == 0 {
		r.OK("O9.9", cn, p.Pos(handler.Pos()), "%d body write(s); every origin is json.Marshal's result or a constant document", n)
	} else {
		r.Violation("O9.9", cn, p.Pos(handler.Pos()), "%s: a body assembled by formatting is not valid JSON for every request (the message echoes request content; %%q and string concatenation do not escape the JSON way), so the response carries no parseable code", strings.Join(uniqStrings(bad), "; "))
	}
}

package checks

import (
	"fmt"
	"go/token"
	"sort"
	"strings"

	"golang.org/x/tools/go/ssa"

	"verif/sa/internal/core"
	"verif/sa/internal/tf"
)

func init() { Registry["C02"] = Check{Run: checkC02} }

func checkC02(p *core.Program, r *core.Report) {
	r.Explanation = "Value-flow conformance of the deletion gadget chain to the relation in the statement, parametric in depth and batch size: " +
		"(O2.1) the round decomposes the index into exactly depth+1 bits, the skip flag is bit number depth and the path is bits [0,depth); (O2.2) the pre-deletion root is recomputed with the presented item and the post-deletion root with the empty leaf over the same siblings and path; " +
		"(O2.3) the must-execute equality asserts of the round accept exactly the rows with (pre-deletion root = running root) OR skip — decided by exhaustive evaluation of the asserted terms over skip∈{0,1} × [pre=root]∈{0,1}; " +
		"(O2.4) on every accepted row the returned root is the running root when skip=1 and the post-deletion root when skip=0; (O2.5) chaining through indices[i], items[i], paths[i] from the pre-root for i in 0..batch-1; (O2.6) final root asserted equal to the post-root; " +
		"(O2.7) a test depth>31 returning an error dominates every constraint-emitting call of Define; (O2.8) no repository-introduced hints. Roles are bound by dataflow from the anchor prover.SetupDeletion. " +
		"Not decided: gnark API semantics, satisfiability for concrete witnesses, Poseidon equality (C05)."
	for id, t := range map[string]string{
		"O2.1": "bits = api.ToBinary(index, depth+1); skip = bits[depth]; path = bits[:depth]",
		"O2.2": "pre = Merkle(item ‖ siblings, path), post = Merkle(0 ‖ siblings, path)",
		"O2.3": "the round's must-execute equality asserts hold exactly when (pre = running root) ∨ skip (4-row truth table)",
		"O2.4": "the returned root is the running root if skip else post (on the accepted rows)",
		"O2.5": "batch gadget: loop 0..batch-1; running root seeded by pre-root; round operands indices[i], items[i], running, paths[i], depth",
		"O2.6": "Define: AssertIsEqual(batch result, post-root) on every path; operands are distinct circuit fields",
		"O2.7": "depth guard (depth > 31 ⇒ error) dominates every API / gadget call of Define",
		"O2.8": "no NewHint/Commit/Defer and no API handed to code outside the repository in definition code",
		"O2.12": "imported rule: no state / nondeterminism in construction and definition code (C12 O12.4)",
		"O2.13": "imported rule: no unsynchronised write to state shared between requests in the proving path (C13 O13.1) — an assignment reused across requests lets one request be proved with another's inputs",
		"O2.11": "the prover of this circuit (ProveDeletion, its shape validator, their callees) constructs no refusal under a condition on request values",
		"O2.10": "imported verdict: the input-hash side of the circuit (C03, which imports C06's comparator rules and C04's Keccak layout)",
		"O2.9": "completeness: every constraint-introducing API/gadget call of Define, the batch, round, Merkle and step definitions is a subterm of the definition's result or of an assert evaluated by O2.3 / accounted by O2.6, O1.6 or the input-hash binding (C03)",
		"O1.6": "Merkle gadget (shared with C01): fold over levels with the two orderings of {running, sibling} selected by a boolean bit",
	} {
		r.Rule(id, t)
	}
	r.Trusted = append(r.Trusted, "gnark v0.8.0 API contracts: ToBinary, Select (asserts boolean condition), Or, IsZero, Sub, AssertIsEqual", "in-circuit Poseidon2 (C05)", "go/ssa construction")
	r.NotDecided = append(r.NotDecided, "satisfiability for concrete witnesses", "hint soundness inside gnark (ToBinary bits, IsZero inverse)", "function equality of Poseidon (C05)")
	ctx := newCircuitCtx(p)
	br := discoverBatch(p, r, ctx, "SetupDeletion", "O2.6", "O2.5")
	r.Floor("final root asserts", 1)
	r.Floor("batch loops", 1)
	if br == nil {
		return
	}
	rd := br.Round
	rname := rd.Name + ".DefineGadget"
	recv := rd.Ev.Params[0]
	// the round must return something built from a Merkle recomputation; find the Merkle gadget type: the gadget invoked twice
	counts := map[string][]tf.Event{}
	for _, e := range gadgetEvents(rd, "") {
		counts[e.Term.Name] = append(counts[e.Term.Name], e)
	}
	var merkleName string
	for n, es := range counts {
		if len(es) >= 2 && (merkleName == "" || n < merkleName) {
			merkleName = n
		}
	}
	if merkleName == "" {
		r.Violation("O2.2", rname+": two Merkle recomputations", p.Pos(rd.Fn.Pos()), "the round does not invoke one gadget type twice (pre- and post-deletion recomputation)")
		return
	}
	r.Count("merkle recomputations in the round", len(counts[merkleName]))
	r.Floor("merkle recomputations in the round", 2)
	mr := checkMerkle(p, r, ctx, counts[merkleName][0].Term, "O1.6")
	if mr == nil {
		return
	}
	// slot fields: index = operand of ToBinary; item = head of a recomputed sequence
	slots := map[string]string{} // round field -> batch field
	for k, v := range br.RoundRole {
		if strings.HasPrefix(k, "slot:") {
			slots[strings.TrimPrefix(k, "slot:")] = v
		}
	}
	tbs := apiEvents(rd, "ToBinary")
	r.Count("index decompositions", len(tbs))
	r.Floor("index decompositions", 1)
	var bits *tf.Term
	for _, e := range tbs {
		if f, ok := recvFieldName(e.Term.Args[0]); ok {
			if _, isSlot := slots[f]; isSlot && len(e.Term.Args) == 2 {
				bits = e.Term
				br.RoundRole["index"] = f
				br.Indices = slots[f]
			}
		}
	}
	if bits == nil {
		r.Violation("O2.1", rname+": index decomposition", p.Pos(rd.Fn.Pos()), "no api.ToBinary applied to the per-slot index of the round")
		return
	}
	for f, src := range slots {
		if f != br.RoundRole["index"] {
			br.RoundRole["item"] = f
			br.Items = src
		}
	}
	F := func(role string) *tf.Term { return tf.Field(recv, br.RoundRole[role]) }
	bname := br.Batch.Name + ".DefineGadget"
	okRoles := len(slots) == 2 && br.RoundRole["running"] != "" && br.RoundRole["proof"] != "" && br.RoundRole["depth"] != "" && br.IndexKind == ""
	if okRoles {
		r.OK("O2.5", bname+": round operands", ctx.posOf(br.RoundG, br.Batch), "%s{%s: $g.%s[i], %s: $g.%s[i], %s: running(seed $g.%s), %s: $g.%s[i], %s: $g.%s}", br.RoundG.Name,
			br.RoundRole["index"], br.Indices, br.RoundRole["item"], br.Items, br.RoundRole["running"], br.PreRoot, br.RoundRole["proof"], br.Paths, br.RoundRole["depth"], br.Depth)
	} else {
		r.Violation("O2.5", bname+": round operands", ctx.posOf(br.RoundG, br.Batch), "the round does not receive {indices[i], items[i], running root, paths[i], depth}: roles %v (index kind %q)", br.RoundRole, br.IndexKind)
		return
	}
	// O2.6 operands
	cname := typeKey(br.T) + ".Define"
	var probs []string
	used := map[string]string{}
	for _, role := range []struct{ name, f string }{{"indices", br.Indices}, {"pre-root", br.PreRoot}, {"items", br.Items}, {"paths", br.Paths}, {"batch size", br.BatchSize}, {"depth", br.Depth}} {
		cf := br.Map[role.f]
		if role.f == "" || cf == "" || strings.HasPrefix(cf, "?") {
			probs = append(probs, fmt.Sprintf("%s (batch-gadget field %q) is not fed from a circuit field (%s)", role.name, role.f, cf))
			continue
		}
		if prev, dup := used[cf]; dup {
			probs = append(probs, fmt.Sprintf("circuit field %s feeds both %s and %s", cf, prev, role.name))
		}
		used[cf] = role.name
	}
	if br.Map[br.PreRoot] == br.PostRoot {
		probs = append(probs, "the running root is seeded with the post-root field")
	}
	r.Check(len(probs) == 0, "O2.6", cname+": batch gadget operands", ctx.posOf(br.BatchG, br.Circuit),
		fmt.Sprintf("indices←%s pre-root←%s items←%s paths←%s batch←%s depth←%s; result asserted = %s", br.Map[br.Indices], br.Map[br.PreRoot], br.Map[br.Items], br.Map[br.Paths], br.Map[br.BatchSize], br.Map[br.Depth], br.PostRoot),
		strings.Join(probs, "; "))

	// O2.1
	width := bits.Args[1]
	d, okW := tf.AffDiff(width, F("depth"))
	r.Check(okW && d == 1, "O2.1", rname+": decomposition width", ctx.posOf(bits, rd), "api.ToBinary(index, depth+1)",
		fmt.Sprintf("the index is decomposed into %s bits; exactly depth+1 are required (more accepts indices ≥ 2^(depth+1), fewer loses the skip flag)", describe(width)))
	skip := tf.Idx(bits, F("depth"))
	isPath := func(t *tf.Term) bool {
		if t == nil || t.K != tf.KSub || !tf.Eq(t.Args[0], bits) {
			return false
		}
		lo, hi := t.Args[1], t.Args[2]
		return (lo.K == tf.KNil || isConstInt(lo, 0)) && tf.Eq(hi, F("depth"))
	}
	// O2.2
	seqOf := func(t *tf.Term) *tf.Term { return t.FieldOf(mr.SeqField) }
	pathOf := func(t *tf.Term) *tf.Term { return t.FieldOf(mr.DirField) }
	wantPre := tf.Seq(tf.Elem(F("item")), tf.Splice(F("proof")))
	wantPost := tf.Seq(tf.Elem(tf.ConstInt(0)), tf.Splice(F("proof")))
	var pre, post *tf.Term
	var other []string
	for _, e := range counts[merkleName] {
		g := e.Term
		switch {
		case seqOf(g) != nil && tf.Eq(seqOf(g), wantPre) && isPath(pathOf(g)):
			pre = g
		case seqOf(g) != nil && tf.Eq(seqOf(g), wantPost) && isPath(pathOf(g)):
			post = g
		default:
			other = append(other, describe(g))
		}
	}
	r.Check(pre != nil, "O2.2", rname+": pre-deletion recomputation", p.Pos(rd.Fn.Pos()), merkleName+"(item ‖ siblings, bits[:depth])",
		"no recomputation of the form Merkle([item siblings...], bits[:depth]) — found "+strings.Join(other, " | "))
	r.Check(post != nil, "O2.2", rname+": post-deletion recomputation", p.Pos(rd.Fn.Pos()), merkleName+"(0 ‖ siblings, bits[:depth])",
		"no recomputation of the form Merkle([0 siblings...], bits[:depth]) — found "+strings.Join(other, " | "))
	if pre == nil || post == nil {
		return
	}
	// O2.3 / O2.4 truth table
	root := F("running")
	type row struct{ skip, eq int64 }
	rows := []row{{0, 0}, {0, 1}, {1, 0}, {1, 1}}
	var asserts []tf.Event
	for _, e := range apiEvents(rd, "AssertIsEqual") {
		if mustEvent(e) {
			asserts = append(asserts, e)
		} else {
			r.Violation("O2.3", rname+": conditional assert", p.Pos(e.Instr.Pos()), "an AssertIsEqual of the round does not execute on every path: the accepted relation depends on compile-time control flow")
		}
	}
	r.Count("round equality asserts", len(asserts))
	r.Floor("round equality asserts", 1)
	var tableLines []string
	okTable, okRet := true, true
	var tableErr error
	for _, rw := range rows {
		env := &ttEnv{
			vals: map[string]poly{pre.Key(): psym("pre"), post.Key(): psym("post"), root.Key(): psym("root"), skip.Key(): pconst(rw.skip)},
			eqs:  map[string]bool{"pre|root": rw.eq == 1},
		}
		if rw.eq == 1 {
			env.vals[pre.Key()] = psym("root") // the recomputed root *is* the running root on this row
		}
		accepted := true
		for _, e := range asserts {
			a, b, _ := assertEqSides(e.Term)
			va, err := ttEval(a, env)
			if err != nil {
				tableErr = err
				break
			}
			vb, err := ttEval(b, env)
			if err != nil {
				tableErr = err
				break
			}
			if !peq(va, vb) {
				accepted = false
			}
		}
		if tableErr != nil {
			break
		}
		want := rw.eq == 1 || rw.skip == 1
		if accepted != want {
			okTable = false
		}
		line := fmt.Sprintf("skip=%d [pre=root]=%d: accepted=%v (want %v)", rw.skip, rw.eq, accepted, want)
		if want {
			ret, err := ttEval(rd.Ret, env)
			if err != nil {
				tableErr = err
				break
			}
			wantRet := psym("post")
			if rw.skip == 1 {
				wantRet = psym("root")
			}
			if !peq(ret, wantRet) {
				okRet = false
			}
			line += fmt.Sprintf(" next-root=%s (want %s)", ret.key(), wantRet.key())
		}
		tableLines = append(tableLines, line)
	}
	if tableErr != nil {
		r.Undecided("O2.3", rname+": accepted rows", p.Pos(rd.Fn.Pos()), "the round's asserted/returned terms cannot be evaluated over {skip, pre=root}: %v", tableErr)
	} else {
		apos := p.Pos(rd.Fn.Pos())
		if len(asserts) > 0 {
			apos = p.Pos(asserts[0].Instr.Pos())
		}
		r.Check(okTable, "O2.3", rname+": accepted rows", apos, strings.Join(tableLines, "; "), "the round accepts the wrong rows: "+strings.Join(tableLines, "; "))
		r.Check(okRet, "O2.4", rname+": next running root", ctx.posOf(rd.Ret, rd), "skip ? running root : post-deletion root on all accepted rows", "the next running root is wrong on an accepted row: "+strings.Join(tableLines, "; "))
		r.Extra["o2_truth_table"] = tableLines
	}
	// direction bits boolean
	r.Check(mr.dirBoolInStep || (okW && bits != nil), "O1.6", mr.Step.Name+".DefineGadget: direction bit is boolean", p.Pos(mr.Step.Fn.Pos()),
		"asserted/selected in the step or api.ToBinary output", "the direction bit is neither constrained boolean in the step nor an api.ToBinary output")

	// O2.9: nothing restricts the witness beyond the asserts of the truth table and the input-hash binding
	var stepBool []tf.Event
	for _, e := range mr.Step.Events {
		if isApi(e.Term, "AssertIsBoolean") && len(e.Term.Args) == 1 && tf.Eq(e.Term.Args[0], tf.Field(mr.Step.Ev.Params[0], mr.Dir)) {
			stepBool = append(stepBool, e)
		}
	}
	checkNoExtraConstraints(p, r, "O2.9", []*gadgetInfo{br.Circuit, br.Batch, rd, mr.G, mr.Step}, map[*gadgetInfo][]tf.Event{
		br.Circuit: append([]tf.Event{br.Final}, publicAsserts(br.Circuit, br.T)...),
		rd:         asserts,
		mr.Step:    stepBool,
	})
	r.Floor("constraint-introducing calls accounted", 10)
	// O2.7 depth guard
	checkDepthGuard(p, r, br)
	// O2.8
	checkNoHints(p, r, ctx, br.Circuit, "O2.8")
	// O2.10: as O1.9 — the input-hash side must accept every canonical value
	// O2.12: "for every tree depth and batch size" also quantifies over what was built before in the same process: the
	// construction code keeps no state (a compiled-circuit cache with a colliding key hands out the circuit of another depth)
	importRule(p, r, "O2.12", "C12", "O12.4", "construction and definition code is free of state and other nondeterminism sources")
	importRule(p, r, "O2.13", "C13", "O13.1", "the proving path keeps no unsynchronised shared state: each witness is built from its own request, whatever else is in flight")
	// O2.11: "every input that meets the relation is accepted" as observed at the prover: the prover of this circuit, its
	// shape validator and whatever they call refuse nothing on the strength of request *values* (a range test on the start
	// index or on an index that overflows for the largest depth refuses valid batches the circuit would accept)
	if T, _, _ := circuitTypeOf(p, "SetupDeletion"); T != nil {
		if ps := provingSystemType(p); ps != nil {
			for _, fn := range p.RepoFuncs() {
				if fn.Signature.Recv() == nil || namedOf(fn.Signature.Recv().Type()) != ps || fn.Signature.Results().Len() != 2 || (delegateTarget(fn) != nil || composesProvers(fn)) || requestParamIndex(fn) < 0 {
					continue
				}
				if wt := witnessCircuitType(fn); wt != nil && wt == T {
					checkRefusals(p, r, "O2.11", fn)
				}
			}
		}
	}
	importVerdicts(p, r, "O2.10", "the input-hash binding adds no restriction of its own: packer, reducedness comparator and Keccak layout", "C03")
	r.Extra["merkle_convention"] = map[string]any{"direction_bit_0_puts_running_node_first": mr.DirZeroAccFirst, "hash": mr.Hash2.Name}
}

// checkDepthGuard decides O2.7 on the SSA of the circuit's Define.
func checkDepthGuard(p *core.Program, r *core.Report, br *batchRoles) {
	ci := br.Circuit
	cname := typeKey(br.T) + ".Define"
	depthField := br.Map[br.Depth]
	recv := ci.Ev.Params[0]
	want := tf.Field(recv, depthField)
	var guard *ssa.If
	var cont *ssa.BasicBlock // where Define carries on once the depth was accepted
	var why []string
	ci.Ev.Events()
	ci.Ev.WalkActivations(func(av *tf.Eval) {
		if guard != nil {
			return
		}
		for _, b := range av.Fn.Blocks {
			if len(b.Instrs) == 0 {
				continue
			}
			ifi, ok := b.Instrs[len(b.Instrs)-1].(*ssa.If)
			if !ok {
				continue
			}
			cond := av.TermIn(ifi.Cond, b)
			if cond.K != tf.KBin || len(cond.Args) != 2 {
				continue
			}
			// normalise to depth OP const
			op := cond.Name
			x, y := cond.Args[0], cond.Args[1]
			if tf.Eq(y, want) {
				x, y = y, x
				switch op {
				case "<":
					op = ">"
				case "<=":
					op = ">="
				case ">":
					op = "<"
				case ">=":
					op = "<="
				}
			}
			if !tf.Eq(x, want) {
				continue
			}
			c, isC := tf.IntConst(y)
			if !isC {
				continue
			}
			refusesAbove31 := (op == ">" && c == 31) || (op == ">=" && c == 32)
			if !refusesAbove31 {
				why = append(why, fmt.Sprintf("a test 'depth %s %d' exists but does not refuse exactly the depths above 31", op, c))
				continue
			}
			// true branch returns a non-nil error
			if !returnsError(b.Succs[0]) {
				why = append(why, "the depth test does not lead to a return with a non-nil error")
				continue
			}
			if av.Parent == nil {
				guard, cont = ifi, b.Succs[1]
				continue
			}
			// the test lives in a helper: its error must make Define return an error, and Define carries on past that test
			chainOK := true
			for a := av; a.Parent != nil; a = a.Parent {
				if !errorResultPropagates(a.Site) {
					chainOK = false
				}
			}
			var rootSite ssa.CallInstruction
			for a := av; a.Parent != nil; a = a.Parent {
				rootSite = a.Site
			}
			if !chainOK || rootSite == nil {
				why = append(why, "the depth test is made in a helper whose error does not reach Define's result")
				continue
			}
			// the block in Define that runs when the helper returned nil
			var c2 *ssa.BasicBlock
			if v := rootSite.Value(); v != nil && v.Referrers() != nil {
				for _, ref := range *v.Referrers() {
					if bo, ok := ref.(*ssa.BinOp); ok && (bo.Op == token.NEQ || bo.Op == token.EQL) && bo.Referrers() != nil {
						for _, r2 := range *bo.Referrers() {
							if i2, ok := r2.(*ssa.If); ok {
								if bo.Op == token.NEQ {
									c2 = i2.Block().Succs[1]
								} else {
									c2 = i2.Block().Succs[0]
								}
							}
						}
					}
				}
			}
			if c2 == nil {
				why = append(why, "the helper's error is returned as Define's last action: nothing follows the depth test")
				continue
			}
			guard, cont = ifi, c2
		}
	})
	if guard == nil {
		if len(why) == 0 {
			why = append(why, "no test of the circuit's depth field against 31 found")
		}
		r.Violation("O2.7", cname+": depth guard", p.Pos(ci.Fn.Pos()), "%s: deletion circuits deeper than 31 levels are not refused (index bits beyond 32 are unconstrained by the 32-bit packing)", strings.Join(why, "; "))
		return
	}
	r.Count("depth guards", 1)
	var before []string
	for _, e := range ci.Events {
		if e.Term.K != tf.KApi && e.Term.K != tf.KGadget {
			continue
		}
		in := e.OuterInstr()
		if !cont.Dominates(in.Block()) {
			before = append(before, describe(e.Term)+" at "+p.Pos(e.Instr.Pos()))
		}
	}
	sort.Strings(before)
	r.Check(len(before) == 0, "O2.7", cname+": depth guard", p.Pos(guard.Cond.Pos()), "depth > 31 ⇒ error, dominating every constraint-emitting call", "constraints are emitted without passing the depth guard: "+strings.Join(before, "; "))
	_ = token.GTR
}

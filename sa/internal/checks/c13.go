package checks

import (
	"fmt"
	"go/ast"
	"go/constant"
	"go/types"
	"sort"
	"strings"

	"golang.org/x/tools/go/callgraph"
	"golang.org/x/tools/go/callgraph/cha"
	"golang.org/x/tools/go/callgraph/vta"
	"golang.org/x/tools/go/ssa"
	"golang.org/x/tools/go/ssa/ssautil"

	"verif/sa/internal/core"
	"verif/sa/internal/eff"
	"verif/sa/internal/flow"
)

func init() { Registry["C13"] = Check{Run: checkC13, NeedAllSSA: true} }

// handlerEntry is what is registered for "/prove": the function that net/http invokes first (the handler type's ServeHTTP, or
// the closure an in-repo middleware returns), the values its free variables and parameters are bound to, and the handler
// type's ServeHTTP it ends up invoking.
type handlerEntry struct {
	Fn    *ssa.Function
	Bind  map[ssa.Value]ssa.Value
	Inner *ssa.Function
}

// proveHandlerEntry resolves the registration through at most one level of in-repo middleware
// (Handle("/prove", requireMethod(POST, proveHandler{…}))).
func proveHandlerEntry(p *core.Program) (*handlerEntry, string) {
	inner, run, why := proveHandlerFnDirect(p)
	if inner != nil {
		return &handlerEntry{Fn: inner, Inner: inner, Bind: map[ssa.Value]ssa.Value{}}, ""
	}
	if run == nil {
		return nil, why
	}
	for _, b := range run.Blocks {
		for _, in := range b.Instrs {
			c, ok := in.(ssa.CallInstruction)
			if !ok {
				continue
			}
			com := c.Common()
			name := ""
			if com.IsInvoke() {
				name = com.Method.Name()
			} else if sc := com.StaticCallee(); sc != nil {
				name = sc.Name()
			}
			if (name != "Handle" && name != "HandleFunc") || len(com.Args) < 2 {
				continue
			}
			k, ok := com.Args[len(com.Args)-2].(*ssa.Const)
			if !ok || k.Value == nil || k.Value.Kind() != constant.String || constant.StringVal(k.Value) != "/prove" {
				continue
			}
			wrap, ok := com.Args[len(com.Args)-1].(*ssa.Call)
			if !ok {
				continue
			}
			mw := wrap.Common().StaticCallee()
			if mw == nil || mw.Blocks == nil || mw.Pkg == nil || !core.InRepo(mw.Pkg.Pkg.Path()) {
				continue
			}
			// the middleware returns a closure (possibly converted to http.HandlerFunc and boxed)
			var mc *ssa.MakeClosure
			for _, mb := range mw.Blocks {
				if ret, ok := mb.Instrs[len(mb.Instrs)-1].(*ssa.Return); ok && len(ret.Results) == 1 {
					v := ret.Results[0]
					for {
						switch x := v.(type) {
						case *ssa.MakeInterface:
							v = x.X
							continue
						case *ssa.ChangeType:
							v = x.X
							continue
						}
						break
					}
					if m, ok := v.(*ssa.MakeClosure); ok {
						mc = m
					}
				}
			}
			if mc == nil {
				continue
			}
			entry, _ := mc.Fn.(*ssa.Function)
			if entry == nil {
				continue
			}
			he := &handlerEntry{Fn: entry, Bind: map[ssa.Value]ssa.Value{}}
			for i, fv := range entry.FreeVars {
				if i >= len(mc.Bindings) {
					continue
				}
				bv := mc.Bindings[i]
				// a captured parameter of the middleware stands for the argument in Run (captured by reference: through its cell)
				if al, ok := bv.(*ssa.Alloc); ok {
					for _, ref := range *al.Referrers() {
						if st, ok := ref.(*ssa.Store); ok && st.Addr == ssa.Value(al) {
							bv = st.Val
						}
					}
				}
				if prm, ok := bv.(*ssa.Parameter); ok {
					for j, q := range mw.Params {
						if q == prm && j < len(wrap.Common().Args) {
							bv = wrap.Common().Args[j]
						}
					}
				}
				he.Bind[fv] = bv
				if mi, ok := bv.(*ssa.MakeInterface); ok {
					if fn := p.MethodOf(mi.X.Type(), "ServeHTTP"); fn != nil {
						he.Inner = fn
					} else if pt, ok := mi.X.Type().(*types.Pointer); ok {
						if fn := p.MethodOf(pt.Elem(), "ServeHTTP"); fn != nil {
							he.Inner = fn
						}
					}
				}
			}
			if he.Inner != nil {
				return he, ""
			}
		}
	}
	return nil, why
}

// proveHandlerFn finds the function net/http invokes for "/prove" (see proveHandlerEntry) and server.Run.
func proveHandlerFn(p *core.Program) (*ssa.Function, *ssa.Function, string) {
	he, why := proveHandlerEntry(p)
	run := serverRunFn(p)
	if he == nil {
		return nil, run, why
	}
	return he.Fn, run, ""
}

// proveHandlerFnDirect finds the ServeHTTP method of the handler value registered for "/prove" in server.Run.
func proveHandlerFnDirect(p *core.Program) (*ssa.Function, *ssa.Function, string) {
	run := serverRunFn(p)
	if run == nil {
		return nil, nil, "anchor server.Run not found"
	}
	for _, b := range run.Blocks {
		for _, in := range b.Instrs {
			c, ok := in.(ssa.CallInstruction)
			if !ok {
				continue
			}
			com := c.Common()
			name := ""
			if com.IsInvoke() {
				name = com.Method.Name()
			} else if sc := com.StaticCallee(); sc != nil {
				name = sc.Name()
			}
			if name != "Handle" && name != "HandleFunc" {
				continue
			}
			args := com.Args
			if len(args) < 2 {
				continue
			}
			k, ok := args[len(args)-2].(*ssa.Const)
			if !ok || k.Value == nil || k.Value.Kind() != constant.String || constant.StringVal(k.Value) != "/prove" {
				continue
			}
			if mi, ok := args[len(args)-1].(*ssa.MakeInterface); ok {
				if fn := p.MethodOf(mi.X.Type(), "ServeHTTP"); fn != nil {
					return fn, run, ""
				}
				if pt, ok := mi.X.Type().(*types.Pointer); ok {
					if fn := p.MethodOf(pt.Elem(), "ServeHTTP"); fn != nil {
						return fn, run, ""
					}
				}
			}
		}
	}
	return nil, run, "no Handle(\"/prove\", handler) call with a concrete handler type in server.Run"
}

// externalReadOnly is the allow-list of code outside the repository that may receive a shared reference from the request
// path: each entry is a contract of the callee, not a property of the repository.
func externalReadOnly(callee *ssa.Function, com *ssa.CallCommon) (bool, string) {
	pkg, name := "", ""
	if callee != nil {
		name = callee.Name()
		if callee.Pkg != nil {
			pkg = callee.Pkg.Pkg.Path()
		} else if callee.Signature.Recv() != nil {
			if n, ok := types.Unalias(deref(callee.Signature.Recv().Type())).(*types.Named); ok && n.Obj().Pkg() != nil {
				pkg = n.Obj().Pkg().Path()
			}
		}
	} else if com.IsInvoke() {
		name = com.Method.Name()
		if com.Method.Pkg() != nil {
			pkg = com.Method.Pkg().Path()
		}
	}
	switch {
	case pkg == "sync" || pkg == "sync/atomic":
		return true, "synchronisation primitive"
	case pkg == "github.com/rs/zerolog":
		return true, "zerolog loggers are safe for concurrent use"
	case strings.HasPrefix(pkg, "github.com/prometheus/client_golang/prometheus"):
		return true, "prometheus collectors (Counter/Gauge/Histogram and their vectors) are documented safe for concurrent use"
	case pkg == "github.com/consensys/gnark/backend/groth16" && (name == "Prove" || name == "Verify"):
		return true, "groth16.Prove/Verify read the keys and constraint system (trusted base)"
	case pkg == "fmt" || pkg == "errors" || pkg == "strconv":
		return true, "formatting reads its operands"
	case pkg == "math/big" && (name == "Text" || name == "String" || name == "Cmp" || name == "Bytes" || name == "BitLen" || name == "Bit" || name == "Sign" || name == "FillBytes" || name == "Uint64" || name == "IsUint64"):
		return true, "read-only big.Int method"
	}
	return false, ""
}

func deref(t types.Type) types.Type {
	if p, ok := types.Unalias(t).(*types.Pointer); ok {
		return p.Elem()
	}
	return t
}

func checkC13(p *core.Program, r *core.Report) {
	r.Explanation = "Concurrent /prove requests are isolated — structural part, covering every schedule: ServeHTTP runs concurrently with itself, so two invocations race iff both can reach an access to the same location, one of them a write, " +
		"without common synchronisation. All locations two invocations can share are package-level variables, the handler value and the proving system it points to, and whatever those reach. " +
		"(O13.1) in the in-repo functions reachable from the handler (call graph with interface resolution and encoding/json reflection callbacks; united with a whole-program VTA graph in the thorough tier) there is no store, map update or builtin write through a reference into shared memory that is not dominated by a held sync lock, " +
		"and no shared reference is handed to code outside the repository other than an enumerated allow-list of read-only/synchronised callees; an object taken from a sync.Pool is not used after it was Put back; " +
		"(O13.4) a blocking acquire on a shared channel or lock is released on every exit, so no request's outcome can depend on which exits other requests took; (O13.2) every function that writes a package-level variable is inventoried and unreachable from the handler, and in the CLI it cannot run after server.Run; " +
		"Decides race-freedom of in-repo code on shared state under every interleaving. Not decided: isolation inside groth16.Prove with a shared key and constraint system (trusted), nor that each response is the right one (C07/C09)."
	r.Rule("O13.1", "no unsynchronised write through a reference into shared memory is reachable from the /prove handler")
	r.Rule("O13.2", "writers of package-level variables are inventoried, unreachable from the handler, and cannot run after server.Run")
	r.Rule("O13.5", "an object obtained from a sync.Pool is reset (Reset method or whole-object assignment) before any other use")
	r.Rule("O13.6", "the writer behind every zerolog logger the repository constructs is safe for concurrent use (zerolog writes from the logging goroutine without a lock): no bufio.Writer / bytes.Buffer / strings.Builder sink")
	r.Rule("O13.3", "an object obtained from a sync.Pool is not used after it was returned to the pool")
	r.Rule("O13.4", "every blocking acquire on a channel/lock shared by requests (semaphore send/receive, Lock) reachable from the handler is followed by its complementary operation on every path to every exit, error returns included; no request waits on a shared WaitGroup/Cond")
	r.Trusted = append(r.Trusted, "Go memory model", "groth16.Prove is safe for concurrent use with a shared proving key and constraint system", "zerolog.Logger is safe for concurrent use when its writer is (O13.6)", "net/http gives every request its own ResponseWriter and Request")
	r.NotDecided = append(r.NotDecided, "races inside third-party libraries", "that each response is the correct one for its request (C07, C09)")

	handler, run, why := proveHandlerFn(p)
	if handler == nil {
		r.Violation("O13.1", "anchor server.Run: /prove handler", "-", "%s", why)
		return
	}
	r.AnalysedFn(core.FuncName(handler))
	g := eff.BuildGraph(p)
	reach := g.Reach(handler)
	// thorough: unite with VTA reachability
	if r.Tier == "thorough" {
		extra := vtaReach(p, handler)
		added := 0
		for f := range extra {
			if _, ok := reach[f]; !ok {
				reach[f] = handler
				added++
			}
		}
		r.Extra["vta_added_functions"] = added
		r.Extra["vta_reachable_in_repo"] = len(extra)
	}
	var names []string
	for f := range reach {
		names = append(names, core.FuncName(f))
		r.AnalysedFn(core.FuncName(f))
	}
	sort.Strings(names)
	r.Extra["handler_reachable"] = names
	r.Count("functions reachable from the handler", len(reach))
	r.Floor("functions reachable from the handler", 10)
	// floor on specific members discovered by role: prover methods (receiver = proving system), JSON callbacks
	ps := provingSystemType(p)
	nProver, nJSON := 0, 0
	for f := range reach {
		if f.Signature.Recv() != nil && ps != nil && namedOf(f.Signature.Recv().Type()) == ps {
			nProver++
		}
		if f.Name() == "UnmarshalJSON" || f.Name() == "MarshalJSON" {
			nJSON++
		}
	}
	r.Count("proving-system methods reachable", nProver)
	r.Count("JSON callbacks reachable", nJSON)
	r.Floor("proving-system methods reachable", 2)
	r.Floor("JSON callbacks reachable", 3)

	seeds := map[ssa.Value]string{}
	if handler.Signature.Recv() != nil && len(handler.Params) > 0 {
		seeds[handler.Params[0]] = "the handler value (shared by all requests)"
	}
	for _, fv := range handler.FreeVars {
		// a middleware's closure: what it captured is shared by all requests
		seeds[fv] = "a value captured by the handler closure (shared by all requests)"
	}
	if he, _ := proveHandlerEntry(p); he != nil && he.Inner != nil && he.Inner != handler && he.Inner.Signature.Recv() != nil && len(he.Inner.Params) > 0 {
		seeds[he.Inner.Params[0]] = "the handler value (shared by all requests)"
	}
	sh := eff.Analyse(g, reach, seeds, func(gl *ssa.Global) bool { return gl.Pkg != nil && core.InRepo(gl.Pkg.Pkg.Path()) })
	var allowNotes = map[string]bool{}
	writes := sh.Writes(func(callee *ssa.Function, com *ssa.CallCommon) bool {
		ok, note := externalReadOnly(callee, com)
		if ok {
			allowNotes[note] = true
		}
		return ok
	})
	nUnsync := 0
	ord := map[string]int{}
	for _, w := range writes {
		cn := fmt.Sprintf("%s: %s [%s]", core.FuncName(w.Fn), w.What, w.Root)
		ord[cn]++
		if ord[cn] > 1 {
			cn = fmt.Sprintf("%s #%d", cn, ord[cn])
		}
		if w.Lock {
			r.OK("O13.1", cn, p.Pos(w.Instr.Pos()), "write under a held sync lock (not a race)")
			continue
		}
		nUnsync++
		r.Violation("O13.1", cn, p.Pos(w.Instr.Pos()), "%s reachable via %s: two overlapping requests can both execute it on the same location (%s)", w.Kind, eff.Path(reach, w.Fn), w.Root)
	}
	if nUnsync == 0 {
		r.OK("O13.1", "handler-reachable code: writes through shared references", p.Pos(handler.Pos()), "no unsynchronised write in %d reachable functions (%d synchronised)", len(reach), len(writes))
	}
	var notes []string
	for n := range allowNotes {
		notes = append(notes, n)
	}
	sort.Strings(notes)
	r.Extra["external_allow_list_used"] = notes

	// O13.3 sync.Pool typestate
	checkPoolUse(p, r, reach)
	checkLoggerSinkConcurrency(p, r)
	// O13.4 acquire/release pairing on shared synchronisation objects
	checkSyncPairing(p, r, reach, sh)

	// O13.2 writers inventory
	gw := eff.GlobalWriters(g)
	nW := 0
	var writerFns []*ssa.Function
	for f := range gw {
		writerFns = append(writerFns, f)
	}
	sort.Slice(writerFns, func(i, j int) bool { return writerFns[i].String() < writerFns[j].String() })
	for _, f := range writerFns {
		nW++
		var gs []string
		for _, gl := range gw[f] {
			gs = append(gs, gl.Name())
		}
		cn := core.FuncName(f) + ": writes " + strings.Join(gs, ", ")
		if _, ok := reach[f]; ok {
			r.Violation("O13.2", cn, p.Pos(f.Pos()), "this writer of package-level state is reachable from the handler via %s", eff.Path(reach, f))
		} else {
			r.OK("O13.2", cn, p.Pos(f.Pos()), "not reachable from the handler")
		}
	}
	r.Count("package-level writers inventoried", nW)
	r.Floor("package-level writers inventoried", 1)
	// CLI: a writer cannot run after server.Run
	ix := indexFuncs(p)
	writerObjs := map[types.Object]string{}
	for _, f := range writerFns {
		if obj, ok := f.Object().(*types.Func); ok {
			writerObjs[obj] = core.FuncName(f)
		}
	}
	// closure: any in-repo function that (transitively, statically) calls a writer
	callsWriter := func(u flow.FuncUnit) string {
		for _, c := range ix.closure([]flow.FuncUnit{u}) {
			if fd, ok := c.Node.(*ast.FuncDecl); ok {
				if n, ok := writerObjs[c.Pkg.TypesInfo.Defs[fd.Name]]; ok {
					return n
				}
			}
		}
		return ""
	}
	runObj, _ := run.Object().(*types.Func)
	for _, c := range cliCommands(p) {
		if c.Action.Node == nil {
			continue
		}
		su, runCall, _ := servingUnit(ix, c, runObj)
		if runCall == nil {
			continue
		}
		c.Action = su
		info := su.Pkg.TypesInfo
		r.Count("CLI server commands", 1)
		gph := flow.NewGraph(c.Action)
		runLoc, ok := gph.Locate(runCall)
		if !ok {
			continue
		}
		var after []string
		ast.Inspect(c.Action.Node, func(n ast.Node) bool {
			call, ok := n.(*ast.CallExpr)
			if !ok || call == runCall {
				return true
			}
			fn, _ := flow.Callee(info, call).(*types.Func)
			if fn == nil || !inRepoObj(fn) {
				return true
			}
			w := writerObjs[fn]
			if w == "" {
				if d, ok := ix.decls[fn]; ok {
					w = callsWriter(d)
				}
			}
			if w == "" {
				return true
			}
			if l, ok := gph.Locate(call); ok && gph.LocReaches(runLoc, l) {
				after = append(after, fmt.Sprintf("%s at %s", w, p.Pos(call.Pos())))
			}
			return true
		})
		r.Check(len(after) == 0, "O13.2", "main.cmd:"+c.Name+": no package-level writer after server.Run", p.Pos(runCall.Pos()), "writers of package-level state run, if at all, before the servers are started", "after server.Run (while requests may be in flight) the action can call "+strings.Join(after, ", "))
	}
	r.Floor("CLI server commands", 2)
}

// checkPoolUse: a value obtained from (*sync.Pool).Get must not be used on any path after it was handed to Put.
// poolRules: the rule ids checkPoolUse reports under (use-after-Put, reset-before-use); C16 re-uses the rule for the codecs.
var poolRules = [2]string{"O13.3", "O13.5"}

func checkPoolUse(p *core.Program, r *core.Report, reach map[*ssa.Function]*ssa.Function) {
	n := 0
	for fn := range reach {
		for _, b := range fn.Blocks {
			for _, in := range b.Instrs {
				c, ok := in.(*ssa.Call)
				if !ok {
					continue
				}
				callee := c.Common().StaticCallee()
				if callee == nil || callee.String() != "(*sync.Pool).Get" {
					continue
				}
				n++
				// aliases of the object
				alias := map[ssa.Value]bool{c: true}
				grow := true
				for grow {
					grow = false
					for _, bb := range fn.Blocks {
						for _, i2 := range bb.Instrs {
							v, ok := i2.(ssa.Value)
							if !ok || alias[v] {
								continue
							}
							switch x := i2.(type) {
							case *ssa.TypeAssert:
								if alias[x.X] {
									alias[v] = true
									grow = true
								}
							case *ssa.Extract:
								if alias[x.Tuple] {
									alias[v] = true
									grow = true
								}
							case *ssa.ChangeType:
								if alias[x.X] {
									alias[v] = true
									grow = true
								}
							case *ssa.MakeInterface:
								if alias[x.X] {
									alias[v] = true
									grow = true
								}
							case *ssa.Phi:
								for _, e := range x.Edges {
									if alias[e] {
										alias[v] = true
										grow = true
									}
								}
							}
						}
					}
				}
				// Put sites and uses
				var puts []ssa.Instruction
				deferred := false
				for _, bb := range fn.Blocks {
					for _, i2 := range bb.Instrs {
						switch x := i2.(type) {
						case *ssa.Call:
							if sc := x.Common().StaticCallee(); sc != nil && sc.String() == "(*sync.Pool).Put" && len(x.Common().Args) == 2 && alias[x.Common().Args[1]] {
								puts = append(puts, i2)
							}
						case *ssa.Defer:
							if sc := x.Common().StaticCallee(); sc != nil && sc.String() == "(*sync.Pool).Put" {
								deferred = true
							}
						}
					}
				}
				// O13.5: what comes out of the pool still holds the previous request's contents; it is reset (a Reset method, or
				// an assignment of the whole object) before anything else touches it. A decoder that only *overwrites the
				// fields present in this request's document* (encoding/json) otherwise answers this request with the absent
				// fields of an earlier one.
				{
					var resets, others []ssa.Instruction
					for _, bb := range fn.Blocks {
						for _, i2 := range bb.Instrs {
							if v, isV := i2.(ssa.Value); isV && alias[v] {
								continue
							}
							uses := false
							for _, op := range i2.Operands(nil) {
								if op != nil && *op != nil && alias[*op] {
									uses = true
								}
							}
							if !uses {
								continue
							}
							isReset := false
							switch x := i2.(type) {
							case *ssa.Store:
								isReset = alias[x.Addr]
							case *ssa.Call:
								if sc := x.Common().StaticCallee(); sc != nil && len(x.Common().Args) > 0 && alias[x.Common().Args[0]] && (sc.Name() == "Reset" || sc.Name() == "reset" || sc.Name() == "Clear") {
									isReset = true
								}
								if sc := x.Common().StaticCallee(); sc != nil && sc.String() == "(*sync.Pool).Put" {
									continue
								}
							case *ssa.Defer:
								continue
							}
							if isReset {
								resets = append(resets, i2)
							} else {
								others = append(others, i2)
							}
						}
					}
					okReset := len(others) == 0
					for _, rs := range resets {
						all := true
						for _, o := range others {
							if !instrBefore(rs, o) {
								all = false
							}
						}
						if all {
							okReset = true
						}
					}
					cn5 := core.FuncName(fn) + ": pooled object is reinitialised before use"
					if okReset {
						r.OK(poolRules[1], cn5, p.Pos(c.Pos()), "a Reset / whole-object assignment precedes every other use (%d use(s))", len(others))
					} else {
						r.Violation(poolRules[1], cn5, p.Pos(c.Pos()), "the object taken from the pool is used (first at %s) without being reset: it still holds what an earlier request left in it, so fields or bytes this request does not overwrite are answered from another request's data", p.Pos(others[0].Pos()))
					}
				}
				cn := core.FuncName(fn) + ": object from sync.Pool"
				var bad []string
				for _, put := range puts {
					reachAfter := reachableAfter(put)
					for _, bb := range fn.Blocks {
						for idx, i2 := range bb.Instrs {
							if i2 == put {
								continue
							}
							uses := false
							for _, op := range i2.Operands(nil) {
								if op != nil && *op != nil && alias[*op] {
									uses = true
								}
							}
							if !uses {
								continue
							}
							if _, isAliasDef := i2.(ssa.Value); isAliasDef && alias[i2.(ssa.Value)] {
								continue
							}
							after := reachAfter[bb]
							if bb == put.Block() {
								after = after || indexOf(bb, put) < idx
							}
							if after {
								bad = append(bad, fmt.Sprintf("used at %s after Put at %s", p.Pos(i2.Pos()), p.Pos(put.Pos())))
							}
						}
					}
				}
				_ = deferred
				if len(bad) > 0 {
					sort.Strings(bad)
					r.Violation(poolRules[0], cn, p.Pos(c.Pos()), "the pooled object is %s: another request can Get the same object while this one still reads or writes it", strings.Join(uniqStrings(bad), "; "))
				} else {
					r.OK(poolRules[0], cn, p.Pos(c.Pos()), "no use after Put (%d Put site(s))", len(puts))
				}
			}
		}
	}
	if n == 0 {
		r.OK(poolRules[0], "handler-reachable code: sync.Pool use", "-", "no sync.Pool.Get in the %d reachable functions", len(reach))
	}
}

func uniqStrings(s []string) []string {
	var out []string
	for i, x := range s {
		if i == 0 || x != s[i-1] {
			out = append(out, x)
		}
	}
	return out
}

func indexOf(b *ssa.BasicBlock, in ssa.Instruction) int {
	for i, x := range b.Instrs {
		if x == in {
			return i
		}
	}
	return -1
}

// reachableAfter: blocks reachable from the successors of in's block.
func reachableAfter(in ssa.Instruction) map[*ssa.BasicBlock]bool {
	seen := map[*ssa.BasicBlock]bool{}
	work := append([]*ssa.BasicBlock{}, in.Block().Succs...)
	for len(work) > 0 {
		b := work[len(work)-1]
		work = work[:len(work)-1]
		if seen[b] {
			continue
		}
		seen[b] = true
		work = append(work, b.Succs...)
	}
	return seen
}

// vtaReach computes the in-repo functions reachable from root in a whole-program VTA call graph.
func vtaReach(p *core.Program, root *ssa.Function) map[*ssa.Function]bool {
	all := ssautil.AllFunctions(p.SSA)
	cg := vta.CallGraph(all, cha.CallGraph(p.SSA))
	out := map[*ssa.Function]bool{}
	node := cg.Nodes[root]
	if node == nil {
		return out
	}
	seen := map[*callgraph.Node]bool{}
	var visit func(n *callgraph.Node)
	visit = func(n *callgraph.Node) {
		if seen[n] {
			return
		}
		seen[n] = true
		if n.Func != nil && n.Func.Pkg != nil && core.InRepo(n.Func.Pkg.Pkg.Path()) && n.Func.Blocks != nil {
			out[n.Func] = true
		}
		for _, e := range n.Out {
			visit(e.Callee)
		}
	}
	visit(node)
	return out
}

package checks

import (
	"fmt"
	"go/ast"
	"go/constant"
	"go/types"
	"sort"
	"strings"

	"golang.org/x/tools/go/ssa"

	"verif/sa/internal/core"
	"verif/sa/internal/flow"
	"verif/sa/internal/tf"
)

func init() { Registry["C16"] = Check{Run: checkC16} }

// paramTypes: the request parameter types = parameter types of the prover methods.
func paramTypes(p *core.Program) []*types.Named {
	ps := provingSystemType(p)
	var out []*types.Named
	if ps == nil {
		return nil
	}
	for _, fn := range p.RepoFuncs() {
		if fn.Signature.Recv() != nil && namedOf(fn.Signature.Recv().Type()) == ps && requestParamIndex(fn) >= 0 && fn.Signature.Results().Len() == 2 && (delegateTarget(fn) == nil && !composesProvers(fn)) && witnessCircuitType(fn) != nil {
			if n := namedOf(fn.Signature.Params().At(requestParamIndex(fn)).Type()); n != nil && inRepoObj(n.Obj()) {
				out = append(out, n)
			}
		}
	}
	sort.Slice(out, func(i, j int) bool { return out[i].Obj().Name() < out[j].Obj().Name() })
	return out
}

// hexDigitsOf recognises the two spellings of "0x" + <digits>: fmt.Sprintf("0x%s", digits) and "0x" + digits.
func hexDigitsOf(t *tf.Term) (*tf.Term, string) {
	if t.K == tf.KCall && strings.HasSuffix(t.Name, "fmt.Sprintf") && len(t.Args) == 2 {
		if s, ok := constStr(t.Args[0]); !ok || s != "0x%s" {
			return nil, "format " + describe(t.Args[0]) + " is not \"0x%s\": the decoder (base 0) needs the 0x prefix to read hexadecimal"
		}
		parts := tf.Parts(t.Args[1])
		if len(parts) != 1 || parts[0].K != tf.KElem {
			return nil, "unexpected Sprintf operands"
		}
		return parts[0].Args[0], ""
	}
	if t.K == tf.KBin && t.Name == "+" && len(t.Args) == 2 {
		if s, ok := constStr(t.Args[0]); ok && s == "0x" {
			return t.Args[1], ""
		}
		return nil, "string concatenation does not start with the \"0x\" prefix: " + describe(t.Args[0])
	}
	return nil, "not rendered as \"0x\"+hex: " + describe(t)
}

// hexOfBig recognises "0x"+x.Text(16) and returns x.
func hexOfBig(t *tf.Term) (*tf.Term, string) {
	txt, why := hexDigitsOf(t)
	if txt == nil {
		return nil, why
	}
	if !(txt.K == tf.KCall && strings.HasSuffix(txt.Name, "math/big.Int).Text") && len(txt.Args) == 2) {
		return nil, "digits are not produced by big.Int.Text: " + describe(txt)
	}
	if !isConstInt(txt.Args[1], 16) {
		return nil, "digits are rendered in base " + describe(txt.Args[1]) + " under a 0x prefix"
	}
	return txt.Args[0], ""
}

// encSource: the parameter field (and nesting) a wire field of the encoder is produced from.
func encSource(t, recv *tf.Term) (copySource, string) {
	// direct copy (indices)
	if src, ok := copyOf(t, recv); ok && src.Depth == 0 {
		return src, ""
	}
	// scalar hex
	if x, why := hexOfBig(t); x != nil {
		if f, ok := fieldOf(x, recv); ok {
			return copySource{Field: f}, ""
		}
		return copySource{}, "hex of " + describe(x) + ", not of a parameter field"
	} else if t.K != tf.KSeq {
		return copySource{}, why
	}
	// vectors / matrices of hex
	var dims []*tf.Term
	var ivs []*tf.Term
	cur := t
	for cur.K == tf.KSeq && len(cur.Args) == 1 && cur.Args[0].K == tf.KStar && cur.Args[0].Loop != nil && len(cur.Args[0].Args) == 1 && cur.Args[0].Args[0].K == tf.KElem {
		star := cur.Args[0]
		n, ok := loopRangeZeroTo(star.Loop)
		if !ok {
			return copySource{}, "element loop does not run 0..n-1"
		}
		iv := &tf.Term{K: tf.KIndVar, Loop: star.Loop, Phi: star.Loop.IV}
		if tf.StarIndex(star) != iv.Key() {
			return copySource{}, "destination index differs from the loop variable"
		}
		dims = append(dims, n)
		ivs = append(ivs, iv)
		cur = star.Args[0].Args[0]
	}
	x, why := hexOfBig(cur)
	if x == nil {
		return copySource{}, why
	}
	var idx []*tf.Term
	for x.K == tf.KIdx {
		idx = append([]*tf.Term{x.Args[1]}, idx...)
		x = x.Args[0]
	}
	f, ok := fieldOf(x, recv)
	if !ok || len(idx) != len(ivs) {
		return copySource{}, "elements are not taken from a parameter field with one index per level"
	}
	for i := range idx {
		if !tf.Eq(idx[i], ivs[i]) {
			return copySource{}, "source and destination indices differ"
		}
	}
	return copySource{Field: f, Depth: len(dims), Dims: dims}, ""
}

func checkC16(p *core.Program, r *core.Report) {
	r.Explanation = "Parameter JSON — structural part: (O16.1) for each parameter type the encoder's wire struct is filled field by field from the parameter fields and the decoder fills every parameter field from the same wire field (the two copy graphs are one bijection between parameter fields and wire fields, discovered by dataflow, not by name); " +
		"(O16.2) no truncation: every vector/matrix is copied over 0..len(source)-1 with the same index on both sides at both nesting levels, into a destination made with the source's length; " +
		"(O16.3) every number parse (fromHex) and the inner json.Unmarshal propagate their errors, and fromHex fails exactly when big.Int.SetString reports failure; " +
		"(O16.4) the radix convention is compatible: the decoder parses with base 0 (prefix-driven) and the encoder emits \"0x\" + lowercase hex; " +
		"(O16.5) index fields of the wire structs are uint32 / []uint32 so encoding/json rejects non-numeric and out-of-range tokens; (O16.6) the generator marshals values exposing MarshalJSON. " +
		"Not decided: encoding/json and math/big behaviour on exotic literals; value equality itself."
	r.Rule("O16.1", "encoder and decoder copy graphs form one bijection parameter field ↔ wire field")
	r.Rule("O16.2", "element-wise copies cover 0..len(source)-1 with equal indices into destinations of the source's length")
	r.Rule("O16.3", "parse errors propagate; fromHex fails iff SetString fails")
	r.Rule("O16.4", "decoder base 0 ↔ encoder \"0x\"+Text(16)")
	r.Rule("O16.5", "wire index fields are uint32 / []uint32")
	r.Rule("O16.7", "pooled wire structs / buffers in the codecs are reset before use and not used after Put (result independent of earlier decodes)")
	r.Rule("O16.6", "json.Marshal sites expose MarshalJSON")
	r.Trusted = append(r.Trusted, "math/big.Int.SetString(s, 0) accepts exactly Go integer literals and reports failure through ok", "encoding/json rejects out-of-range or non-numeric tokens for uint32 fields", "big.Int.Text(16) is lowercase hex without prefix")
	r.NotDecided = append(r.NotDecided, "value equality after a round trip (numerical)", "exotic literals accepted by SetString base 0 (underscores, 0b/0o prefixes)")
	eng := tf.NewEngine(core.InRepo, 6)
	ix := indexFuncs(p)
	pts := paramTypes(p)
	r.Count("parameter types", len(pts))
	r.Floor("parameter types", 2)
	for _, pt := range pts {
		tn := typeKey(pt)
		wi := unmarshalWiring(p, eng, pt)
		enc := p.MethodOf(pt, "MarshalJSON")
		dec := p.MethodOf(pt, "UnmarshalJSON")
		if wi == nil || enc == nil || dec == nil || enc.Blocks == nil {
			r.Violation("O16.1", tn+": custom JSON codec", "-", "parameter type lacks an analysable MarshalJSON/UnmarshalJSON pair")
			continue
		}
		r.AnalysedFn(core.FuncName(enc), core.FuncName(dec))
		for _, n := range wi.Notes {
			r.Violation("O16.1", tn+".UnmarshalJSON: field wiring", p.Pos(dec.Pos()), "%s", n)
		}
		checkDecoderFillsOnEveryPath(p, r, tn, dec, 0)
		// ---- encoder
		eev := eng.NewEval(enc)
		recv := eev.Params[0]
		var rec *tf.Term
		for _, e := range eev.Events() {
			if callNameHasSuffix(e.Term, "encoding/json.Marshal") && len(e.Term.Args) == 1 {
				rec = eev.Resolve(e.Term.Args[0])
				if on, _ := e.OnEveryPathToReturn(); !on {
					r.Violation("O16.1", tn+".MarshalJSON: json.Marshal", p.Pos(e.Instr.Pos()), "the wire struct is not marshalled on every path")
				}
			}
		}
		if rec == nil || rec.K != tf.KRecord || namedOf(rec.Type) != wi.Wire {
			r.Violation("O16.1", tn+".MarshalJSON: wire struct", p.Pos(enc.Pos()), "the encoder does not marshal the wire struct %s that the decoder reads (got %s)", typeKey(wi.Wire), describe(rec))
			continue
		}
		encMap := map[string]string{} // param field -> wire field
		var encBad, dimBad []string
		for i, w := range rec.Names {
			src, why := encSource(rec.Args[i], recv)
			if why != "" {
				if rec.Args[i].K == tf.KZero {
					why = "never assigned: the field is dropped from the document"
				}
				encBad = append(encBad, fmt.Sprintf("wire field %s: %s", w, why))
				continue
			}
			if prev, dup := encMap[src.Field]; dup {
				encBad = append(encBad, fmt.Sprintf("parameter field %s feeds both %s and %s", src.Field, prev, w))
			}
			encMap[src.Field] = w
			r.Count("encoder field copies", 1)
			// dims: each level bound = len(source at that level)
			cur := tf.Field(recv, src.Field)
			for lvl, d := range src.Dims {
				if !tf.Eq(d, tf.Len(cur)) {
					dimBad = append(dimBad, fmt.Sprintf("%s level %d is copied over %s elements, not len(source)=%s", src.Field, lvl, describe(d), describe(tf.Len(cur))))
				}
				// next level element
				star := rec.Args[i]
				for k := 0; k < lvl; k++ {
					star = star.Args[0].Args[0].Args[0]
				}
				iv := &tf.Term{K: tf.KIndVar, Loop: star.Args[0].Loop, Phi: star.Args[0].Loop.IV}
				cur = tf.Idx(cur, iv)
			}
		}
		// ---- bijection
		st, _ := pt.Underlying().(*types.Struct)
		var bij []string
		okBij := len(encBad) == 0
		if st != nil {
			for i := 0; i < st.NumFields(); i++ {
				f := st.Field(i).Name()
				e, d := encMap[f], wi.Map[f]
				switch {
				case e == "" && d == "":
					okBij = false
					bij = append(bij, f+": neither encoded nor decoded")
				case e == "":
					okBij = false
					bij = append(bij, f+": decoded from "+d+" but never encoded (dropped from the document)")
				case d == "":
					okBij = false
					bij = append(bij, f+": encoded into "+e+" but never decoded (left at its zero value)")
				case e != d:
					okBij = false
					bij = append(bij, fmt.Sprintf("%s: encoded into %s but decoded from %s", f, e, d))
				default:
					bij = append(bij, fmt.Sprintf("%s↔%s(%q)", f, e, wi.JSONKey[e]))
				}
			}
		}
		r.Check(okBij, "O16.1", tn+": field bijection", p.Pos(enc.Pos()), strings.Join(bij, " "), strings.Join(append(encBad, bij...), "; "))
		r.Check(len(dimBad) == 0, "O16.2", tn+".MarshalJSON: full-length copies", p.Pos(enc.Pos()), "every vector/matrix level is copied over len(source)", strings.Join(dimBad, "; "))
		// ---- decoder lengths
		checkDecoderLengths(p, r, eng, pt, dec, tn)
		// ---- O16.5
		var idxBad []string
		wst, _ := wi.Wire.Underlying().(*types.Struct)
		nIdx := 0
		if wst != nil && st != nil {
			for f, w := range wi.Map {
				pf := fieldType(pt, f)
				if isUint32(pf) || isUint32Slice(pf) {
					nIdx++
					wf := fieldType(wi.Wire, w)
					if !(isUint32(wf) && isUint32(pf)) && !(isUint32Slice(wf) && isUint32Slice(pf)) {
						idxBad = append(idxBad, fmt.Sprintf("wire field %s has type %s for the %s parameter field %s: encoding/json no longer rejects out-of-range indices", w, wf, pf, f))
					} else if why := customIndexDecoder(p, wf); why != "" {
						// a named index type with its own unmarshaller takes the range check away from encoding/json
						idxBad = append(idxBad, fmt.Sprintf("wire field %s has type %s, which decodes itself: %s", w, wf, why))
					}
				}
			}
		}
		r.Count("index fields", nIdx)
		r.Check(len(idxBad) == 0, "O16.5", tn+": index field types", p.Pos(wi.Wire.Obj().Pos()), fmt.Sprintf("%d index field(s) typed uint32/[]uint32 on the wire", nIdx), strings.Join(idxBad, "; "))
		// ---- O16.3 errors
		for _, fn := range []*ssa.Function{dec} {
			obj, _ := fn.Object().(*types.Func)
			u, ok := ix.decls[obj]
			if !ok {
				continue
			}
			info := u.Pkg.TypesInfo
			sites := flow.Analyse(u, flow.Config{Select: func(call *ast.CallExpr, callee types.Object) bool { return hasErrorResult(info, call) }})
			ord := map[string]int{}
			for _, s := range sites {
				if s.Form == "noerror" {
					continue
				}
				cn := siteConstruct(u, s, ord)
				r.Count("decoder error sites", 1)
				if len(s.Findings) == 0 {
					r.OK("O16.3", cn, p.Pos(s.Pos), "error propagated on every path")
				} else {
					r.Violation("O16.3", cn, p.Pos(s.Pos), "%s", findingsText(p, s))
				}
			}
		}
	}
	r.Floor("encoder field copies", 10)
	r.Floor("decoder error sites", 2)
	r.Floor("index fields", 2)
	// ---- number parser and convention
	checkNumberCodec(p, r, eng, ix)
	checkMarshalArgs16(p, r, ix)
	// O16.7: "decoding yields identical values for every parameter set" must not depend on what was decoded before: a wire
	// struct or buffer the codecs take from a sync.Pool is reset before use and not used after Put (the rule of C13
	// O13.3/O13.5, applied to the codec methods whether or not the server reaches them)
	codecFns := map[*ssa.Function]*ssa.Function{}
	for _, T := range paramTypes(p) {
		for _, m := range []string{"MarshalJSON", "UnmarshalJSON"} {
			if fn := p.MethodOf(T, m); fn != nil && fn.Blocks != nil {
				codecFns[fn] = fn
			}
		}
	}
	saved := poolRules
	poolRules = [2]string{"O16.7", "O16.7"}
	checkPoolUse(p, r, codecFns)
	poolRules = saved
}

// checkDecoderLengths: every destination slice of the decoder is made with the length of its wire source and filled over
// 0..len(source)-1 (the parse loops were already matched index-by-index in unmarshalWiring).
func checkDecoderLengths(p *core.Program, r *core.Report, eng *tf.Engine, pt *types.Named, dec *ssa.Function, tn string) {
	ev := eng.NewEval(dec)
	recv := ev.Params[0]
	var wire *tf.Term
	for _, e := range ev.Events() {
		if callNameHasSuffix(e.Term, "encoding/json.Unmarshal") && len(e.Term.Args) == 2 {
			wire = e.Term.Args[1]
		}
	}
	if wire == nil {
		return
	}
	var bad []string
	n := 0
	// makes stored into parameter fields
	for _, b := range dec.Blocks {
		for _, in := range b.Instrs {
			st, ok := in.(*ssa.Store)
			if !ok {
				continue
			}
			mk, ok := st.Val.(*ssa.MakeSlice)
			if !ok {
				continue
			}
			addr := ev.Term(st.Addr)
			f, idx, ok := pathBelow(addr, recv)
			if !ok {
				continue
			}
			n++
			ln := ev.Term(mk.Len)
			// expected: len(wire.W[idx…])
			if ln.K != tf.KLen {
				bad = append(bad, fmt.Sprintf("%s%v is made with length %s, not the length of its source", f, idx, describe(ln)))
				continue
			}
			_, sidx, okS := pathBelow(ln.Args[0], wire)
			if !okS || strings.Join(sidx, ",") != strings.Join(idx, ",") {
				bad = append(bad, fmt.Sprintf("%s%v is made with length %s: not the corresponding element of the decoded document", f, idx, describe(ln)))
			}
		}
	}
	// parse loops: bound = len(wire source)
	for _, e := range ev.Events() {
		if !callNameHasSuffix(e.Term, "math/big.Int).SetString") || len(e.Term.Args) != 3 {
			continue
		}
		src := e.Term.Args[1]
		cur := src
		for cur.K == tf.KIdx {
			iv := cur.Args[1]
			if iv.K != tf.KIndVar {
				bad = append(bad, "parse index "+describe(iv)+" is not a loop variable")
				break
			}
			bound, ok := loopRangeZeroTo(iv.Loop)
			if !ok || !tf.Eq(bound, tf.Len(cur.Args[0])) {
				bad = append(bad, fmt.Sprintf("loop over %s runs to %s, not len(source)", describe(cur.Args[0]), describe(bound)))
			}
			cur = cur.Args[0]
		}
	}
	r.Count("decoder destination allocations", n)
	r.Check(len(bad) == 0, "O16.2", tn+".UnmarshalJSON: full-length copies", p.Pos(dec.Pos()), fmt.Sprintf("%d destination slices made with len(source); parse loops run over len(source)", n), strings.Join(bad, "; "))
}

// checkNumberCodec: the in-repo number parser/renderer used by the codecs (fromHex / toHex): idiom and convention.
func checkNumberCodec(p *core.Program, r *core.Report, eng *tf.Engine, ix *funcIndex) {
	// parser: in-repo function (i *big.Int, s string) error whose body is SetString
	nParser := 0
	for fnObj, u := range ix.decls {
		sig := fnObj.Type().(*types.Signature)
		if sig.Recv() != nil || sig.Params().Len() != 2 || sig.Results().Len() != 1 || !strings.Contains(sig.Params().At(0).Type().String(), "math/big.Int") {
			continue
		}
		if b, ok := sig.Params().At(1).Type().Underlying().(*types.Basic); !ok || b.Kind() != types.String {
			continue
		}
		sf := p.SSA.FuncValue(fnObj)
		if sf == nil {
			continue
		}
		nParser++
		r.AnalysedFn(u.Name)
		ev := eng.NewEval(sf)
		var set *tf.Term
		for _, e := range ev.Events() {
			if callNameHasSuffix(e.Term, "math/big.Int).SetString") && len(e.Term.Args) == 3 {
				set = e.Term
				if on, _ := e.OnEveryPathToReturn(); !on {
					set = nil
				}
			}
		}
		cn := u.Name + ": number parser"
		if set == nil {
			r.Violation("O16.4", cn, p.Pos(u.Node.Pos()), "numbers are not parsed by big.Int.SetString on every path (e.g. fmt.Sscan accepts numeric prefixes and surrounding whitespace): strings that are not numbers may decode silently")
			continue
		}
		okOps := tf.Eq(set.Args[0], ev.Params[0]) && tf.Eq(set.Args[1], ev.Params[1])
		base, okB := tf.IntConst(set.Args[2])
		r.Check(okOps && okB && base == 0, "O16.4", cn, p.Pos(u.Node.Pos()), "dst.SetString(src, 0): prefix-driven radix",
			fmt.Sprintf("SetString operands dst/src ok=%v, base=%s: with base ≠ 0 the \"0x\" prefix emitted by the encoder is rejected (or decimal strings are misread)", okOps, describe(set.Args[2])))
		// fails iff !ok
		sites := flow.Analyse(u, flow.Config{Select: func(call *ast.CallExpr, callee types.Object) bool {
			f, _ := callee.(*types.Func)
			return f != nil && f.FullName() == "(*math/big.Int).SetString"
		}})
		for _, s := range sites {
			r.Count("SetString ok sites", 1)
			if len(s.Findings) == 0 && s.IsOK {
				r.OK("O16.3", u.Name+": SetString failure ⇒ error", p.Pos(s.Pos), "!ok leads to a non-nil error on every path")
			} else {
				r.Violation("O16.3", u.Name+": SetString failure ⇒ error", p.Pos(s.Pos), "the ok result of SetString does not lead to an error when false: %s (form %s)", findingsText(p, s), s.Form)
			}
		}
		// success path returns nil only
	}
	r.Count("number parsers", nParser)
	r.Floor("number parsers", 1)
	r.Floor("SetString ok sites", 1)
}

func checkMarshalArgs16(p *core.Program, r *core.Report, ix *funcIndex) {
	sub := core.NewReport("sub", r.Tier)
	checkMarshalArgs(p, sub, ix)
	for _, ob := range sub.Obs {
		ob.Rule = "O16.6"
		r.Obs = append(r.Obs, ob)
	}
}

// customIndexDecoder: when the (element) type of an index field is a named type with its own UnmarshalJSON/UnmarshalText,
// encoding/json's built-in uint32 range check no longer applies; the method must then parse at width 32 itself. Returns a
// reason when it does not (or cannot be seen to), "" otherwise.
func customIndexDecoder(p *core.Program, t types.Type) string {
	if sl, ok := types.Unalias(t).Underlying().(*types.Slice); ok {
		if _, isNamed := types.Unalias(t).(*types.Named); !isNamed {
			t = sl.Elem()
		}
	}
	n, ok := types.Unalias(t).(*types.Named)
	if !ok {
		return ""
	}
	for _, m := range []string{"UnmarshalJSON", "UnmarshalText"} {
		fn := p.MethodOf(types.NewPointer(n), m)
		if fn == nil {
			fn = p.MethodOf(n, m)
		}
		if fn == nil || fn.Blocks == nil {
			continue
		}
		parsed32 := false
		var other []string
		for _, b := range fn.Blocks {
			for _, in := range b.Instrs {
				c, ok := in.(*ssa.Call)
				if !ok {
					continue
				}
				callee := c.Common().StaticCallee()
				if callee == nil || callee.Pkg == nil {
					continue
				}
				switch callee.String() {
				case "strconv.ParseUint", "strconv.ParseInt":
					if k, ok := c.Common().Args[2].(*ssa.Const); ok && k.Value != nil {
						if bits, exact := constant.Int64Val(k.Value); exact && bits == 32 && callee.Name() == "ParseUint" {
							parsed32 = true
						} else {
							other = append(other, fmt.Sprintf("%s with bit size %d at %s (a value outside 32 bits is accepted and then narrowed)", callee.Name(), bits, p.Pos(c.Pos())))
						}
					} else {
						other = append(other, callee.Name()+" with a non-constant bit size at "+p.Pos(c.Pos()))
					}
				case "strconv.Atoi", "encoding/json.Unmarshal", "fmt.Sscanf", "fmt.Sscan", "(*math/big.Int).SetString":
					other = append(other, callee.String()+" at "+p.Pos(c.Pos())+" (no 32-bit range check)")
				}
			}
		}
		if len(other) > 0 {
			return strings.Join(other, "; ")
		}
		if !parsed32 {
			return "its " + m + " does not parse with strconv.ParseUint(…, 32): the 32-bit range check is not visible"
		}
	}
	return ""
}

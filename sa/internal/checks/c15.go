package checks

import (
	"fmt"
	"go/ast"
	"go/types"

	"golang.org/x/tools/go/ssa"

	"verif/sa/internal/core"
	"verif/sa/internal/flow"
)

func init() { Registry["C15"] = Check{Run: checkC15} }

// provingSystemType discovers the proving-system type from the anchor server.Run(config, provingSystem).
func provingSystemType(p *core.Program) *types.Named {
	if pk := p.Pkg("server"); pk != nil {
		if fn, ok := pk.Types.Scope().Lookup("Run").(*types.Func); ok {
			sig := fn.Type().(*types.Signature)
			for i := 0; i < sig.Params().Len(); i++ {
				if n := namedOf(sig.Params().At(i).Type()); n != nil && inRepoObj(n.Obj()) && n.Obj().Name() != "Config" {
					if _, ok := n.Underlying().(*types.Struct); ok {
						return n
					}
				}
			}
		}
	}
	return nil
}

func isIOReader(t types.Type) bool {
	return isNamed(t, "io", "Reader")
}

// loaderInfo: the functions of the load chain.
type loaderInfo struct {
	ps      *types.Named
	readers []flow.FuncUnit // methods of *PS taking an io.Reader
	loaders []flow.FuncUnit // package-level functions returning (*PS, error) that reach a reader method
	chain   []flow.FuncUnit // closure of loaders (in-repo)
}

func findLoaders(p *core.Program, ix *funcIndex) *loaderInfo {
	li := &loaderInfo{ps: provingSystemType(p)}
	if li.ps == nil {
		return li
	}
	isReader := map[ast.Node]bool{}
	selfDecoders := map[*ssa.Function]bool{}
	if _, decs := psStreamDecoders(p, li.ps); true {
		for _, d := range decs {
			if d.judged {
				selfDecoders[d.fn] = true
			}
		}
	}
	for _, u := range ix.all {
		fd := u.Node.(*ast.FuncDecl)
		obj := u.Pkg.TypesInfo.Defs[fd.Name].(*types.Func)
		sig := obj.Type().(*types.Signature)
		if sig.Recv() != nil && namedOf(sig.Recv().Type()) == li.ps {
			for i := 0; i < sig.Params().Len(); i++ {
				if isIOReader(sig.Params().At(i).Type()) {
					li.readers = append(li.readers, u)
					isReader[u.Node] = true
				}
			}
		}
	}
	for _, u := range ix.all {
		fd := u.Node.(*ast.FuncDecl)
		obj := u.Pkg.TypesInfo.Defs[fd.Name].(*types.Func)
		sig := obj.Type().(*types.Signature)
		if sig.Recv() != nil || sig.Results().Len() != 2 || namedOf(sig.Results().At(0).Type()) != li.ps {
			continue
		}
		if _, ok := sig.Results().At(0).Type().(*types.Pointer); !ok {
			continue
		}
		reaches := false
		for _, c := range ix.closure([]flow.FuncUnit{u}) {
			if isReader[c.Node] {
				reaches = true
			}
		}
		// … or that decodes a stream into the system it returns by itself (a second loader next to the reader method)
		if !reaches {
			if fn := p.SSA.FuncValue(obj); fn != nil && selfDecoders[fn] {
				reaches = true
			}
		}
		if reaches {
			li.loaders = append(li.loaders, u)
		}
	}
	li.chain = ix.closure(li.loaders)
	return li
}

// chainSelect: every error-returning call in the load chain except the enumerated exceptions.
func chainSelect(info *types.Info) func(call *ast.CallExpr, callee types.Object) bool {
	return func(call *ast.CallExpr, callee types.Object) bool {
		if !hasErrorResult(info, call) {
			return false
		}
		if fn, ok := callee.(*types.Func); ok {
			// exception: Close of a file opened for reading cannot invalidate what was read
			if fn.Name() == "Close" {
				return false
			}
		}
		return true
	}
}

func siteConstruct(u flow.FuncUnit, s *flow.Site, ord map[string]int) string {
	k := u.Name + ": " + s.Name
	ord[k]++
	return fmt.Sprintf("%s #%d", k, ord[k])
}

func checkC15(p *core.Program, r *core.Report) {
	r.Explanation = "Structural necessary condition of 'a truncated keys file is rejected, never half-loaded': (O15.1/O15.2) every error-returning call in the load chain " +
		"(the loaders returning (*ProvingSystem, error), the ProvingSystem reader methods taking an io.Reader, and the in-repo functions they call) reaches a return carrying a non-nil error on every CFG path on which it is non-nil; " +
		"(O15.3) at every call site of a loader the returned system is not used before the error has been ruled out, and the error reaches the caller's return. " +
		"Decided by a forward must-propagate dataflow over go/cfg with nil-test edge refinement, for every cut point at which some section reader fails. Not decided: that gnark's decoders fail (rather than panic/hang/succeed) on every strict prefix."
	r.Rule("O15.1", "each fallible call inside the ProvingSystem reader methods (and in-repo helpers of the load chain) propagates its error on every path where it is non-nil")
	r.Rule("O15.2", "each fallible call in the loader functions (ReadSystemFrom*) reaches the named/returned error on every path")
	r.Rule("O15.4", "the load chain terminates with an error on a short file: a pipe's write end is closed on every path; a deferred function does not call through a field of the system that is still unset on early error returns")
	r.Rule("O15.5", "no integer division in the load chain whose divisor can be zero (empty file ⇒ panic)")
	r.Rule("O15.7", "a section reader of the load chain performs the same reads before every success return (no early success under a flag)")
	r.Rule("O15.8", "every stream decoder of the proving system that non-decoder code enters has stored every field the writers write before any return that may be a success (a keys-only loader accepts files cut in the sections it skips)")
	r.Rule("O15.9", "every CLI command that takes a keys file (--keys-file; --input of convert-to-raw) obtains its system from a loader of the load chain")
	r.Rule("O15.6", "the load chain reads no package-level variable that non-initialiser code writes (a reused buffer completes a truncated file with the tail of an earlier load)")
	r.Rule("O15.3", "callers of a loader do not use the returned system before the error is ruled out and return the error")
	r.Trusted = append(r.Trusted, "go/types, go/cfg construction", "gnark section decoders report truncation as an error", "io.ReadFull returns an error on short reads")
	r.NotDecided = append(r.NotDecided, "behaviour of gnark/gnark-crypto decoders on truncated input (panic, hang)", "S3 transport failures beyond the returned error")

	ix := indexFuncs(p)
	li := findLoaders(p, ix)
	if li.ps == nil {
		r.Violation("O15.2", "anchor server.Run", "-", "cannot discover the proving-system type from server.Run's parameters")
		return
	}
	if len(li.readers) == 0 {
		r.Violation("O15.1", "ProvingSystem reader", "-", "no method of %s takes an io.Reader: the load chain cannot be located", li.ps.Obj().Name())
	}
	if len(li.loaders) == 0 {
		r.Violation("O15.2", "loaders", "-", "no function returning (*%s, error) reaches a reader method", li.ps.Obj().Name())
	}
	isLoader := map[ast.Node]bool{}
	loaderObjs := map[types.Object]bool{}
	for _, l := range li.loaders {
		isLoader[l.Node] = true
		loaderObjs[l.Pkg.TypesInfo.Defs[l.Node.(*ast.FuncDecl).Name]] = true
	}
	ord := map[string]int{}
	for _, u := range li.chain {
		rule, role := "O15.1", "reader-chain fallible calls"
		if isLoader[u.Node] {
			rule, role = "O15.2", "loader fallible calls"
		}
		r.AnalysedFn(u.Name)
		sites := flow.Analyse(u, flow.Config{Select: chainSelect(u.Pkg.TypesInfo)})
		for _, s := range sites {
			if s.Form == "noerror" {
				continue
			}
			c := siteConstruct(u, s, ord)
			r.Count(role, 1)
			if len(s.Findings) == 0 {
				r.OK(rule, c, p.Pos(s.Pos), "error propagated on every path (form %s)", s.Form)
			} else {
				r.Violation(rule, c, p.Pos(s.Pos), "%s", findingsText(p, s))
			}
		}
	}
	// O15.4: a truncated file makes the loader return, not hang or panic
	checkLoadChainTermination(p, r, li.chain, li.ps)
	// O15.2: deferred clean-up does not replace a pending error
	checkDeferredErrorOverwrite(p, r, li.chain)
	// O15.5: no division by a size/count that is zero for an empty file
	checkLoadChainDivisions(p, r, li.chain)
	// O15.6: the load chain keeps no state between loads
	checkLoadChainState(p, r, li.chain)
	// O15.7: no success path that reads fewer sections than another
	checkReaderCompleteness(p, r, li.chain)
	// O15.8: every decoder that stands for "the file was read" reads every section
	checkDecoderCoverage(p, r, li.ps)
	// O15.9: the commands that are given a keys file read it through the load chain
	checkCommandsUseLoader(p, r, li)
	// O15.3 callers
	inChain := map[ast.Node]bool{}
	for _, u := range li.chain {
		inChain[u.Node] = true
	}
	var callers []flow.FuncUnit
	for _, c := range cliCommands(p) {
		if c.Action.Node != nil {
			callers = append(callers, c.Action)
		}
	}
	for _, u := range ix.all {
		if !inChain[u.Node] {
			callers = append(callers, u)
			callers = append(callers, nestedLits(u)...)
		}
	}
	seenUnit := map[ast.Node]bool{}
	for _, u := range callers {
		if seenUnit[u.Node] {
			continue
		}
		seenUnit[u.Node] = true
		uinfo := u.Pkg.TypesInfo
		sel := func(call *ast.CallExpr, callee types.Object) bool {
			if fn, ok := callee.(*types.Func); ok && loaderObjs[fn.Origin()] {
				return true
			}
			// a loader handed over as a function value (load func() (*ProvingSystem, error)): the call through it is a
			// loader call site like any other
			if _, isFn := callee.(*types.Func); !isFn {
				if tv, ok := uinfo.Types[call]; ok {
					if tup, ok := tv.Type.(*types.Tuple); ok && tup.Len() == 2 && namedOf(tup.At(0).Type()) == li.ps && isErrorType(tup.At(1).Type()) {
						if _, isPtr := tup.At(0).Type().(*types.Pointer); isPtr {
							return true
						}
					}
				}
			}
			return false
		}
		sites := flow.Analyse(u, flow.Config{Select: sel, CheckValueUse: func(*flow.Site) bool { return true }})
		if len(sites) > 0 {
			r.AnalysedFn(u.Name)
		}
		for _, s := range sites {
			c := siteConstruct(u, s, ord)
			r.Count("loader call sites", 1)
			if len(s.Findings) == 0 {
				r.OK("O15.3", c, p.Pos(s.Pos), "error returned before any use of the loaded system")
			} else {
				r.Violation("O15.3", c, p.Pos(s.Pos), "%s", findingsText(p, s))
			}
		}
	}
	r.Floor("reader-chain fallible calls", 5)
	r.Floor("loader fallible calls", 2)
	r.Floor("loader call sites", 1)
	r.Floor("commands taking a keys file", 3)
}

// nestedLits returns all function literals nested (at any depth) in u, each as its own unit, excluding cli actions
// (which are analysed under their command name).
func nestedLits(u flow.FuncUnit) []flow.FuncUnit {
	var out []flow.FuncUnit
	var rec func(x flow.FuncUnit)
	rec = func(x flow.FuncUnit) {
		for _, l := range funcLitsIn(x) {
			out = append(out, l)
			rec(l)
		}
	}
	rec(u)
	return out
}

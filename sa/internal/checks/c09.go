package checks

import (
	"fmt"
	"go/ast"
	"go/constant"
	"go/token"
	"go/types"
	"sort"
	"strings"

	"golang.org/x/tools/go/ssa"

	"verif/sa/internal/core"
	"verif/sa/internal/flow"
	"verif/sa/internal/tf"
)

func init() { Registry["C09"] = Check{Run: checkC09} }

// respWriterParam returns the http.ResponseWriter parameter of a function unit.
func respWriterParam(u flow.FuncUnit) *types.Var {
	var ft *ast.FuncType
	switch n := u.Node.(type) {
	case *ast.FuncDecl:
		ft = n.Type
	case *ast.FuncLit:
		ft = n.Type
	}
	if ft == nil || ft.Params == nil {
		return nil
	}
	for _, f := range ft.Params.List {
		for _, n := range f.Names {
			if v, ok := u.Pkg.TypesInfo.Defs[n].(*types.Var); ok && isNamed(v.Type(), "net/http", "ResponseWriter") {
				return v
			}
		}
	}
	return nil
}

// headerClassifier builds the node classifier for the exactly-once-header typestate on response writer w.
// helpers maps in-repo functions that (on all their paths) set the header exactly once before writing.
func headerClassifier(info *types.Info, w *types.Var, helpers map[*types.Func]bool) func(n ast.Node) (int, bool) {
	return func(n ast.Node) (int, bool) {
		events, use := 0, false
		ast.Inspect(n, func(m ast.Node) bool {
			if _, ok := m.(*ast.FuncLit); ok {
				return false
			}
			call, ok := m.(*ast.CallExpr)
			if !ok {
				return true
			}
			if sel, ok := ast.Unparen(call.Fun).(*ast.SelectorExpr); ok && identVar(info, sel.X) == w {
				switch sel.Sel.Name {
				case "WriteHeader":
					events++
				case "Write":
					use = true
				}
				return true
			}
			if fn, _ := flow.Callee(info, call).(*types.Func); fn != nil && helpers[fn.Origin()] {
				for _, a := range call.Args {
					if identVar(info, a) == w {
						events++
					}
				}
			}
			return true
		})
		// a helper that sets the header and writes is not a bare "use"
		if events > 0 {
			use = false
		}
		return events, use
	}
}

// errorConstructor describes an in-repo function returning &Error{StatusCode: c, Code: s, …}.
type errorConstructor struct {
	Status int64
	Code   string
}

func errorConstructors(p *core.Program, ix *funcIndex) map[*types.Func]errorConstructor {
	out := map[*types.Func]errorConstructor{}
	for fn, u := range ix.decls {
		fd := u.Node.(*ast.FuncDecl)
		info := u.Pkg.TypesInfo
		if fd.Recv != nil || len(fd.Body.List) != 1 {
			continue
		}
		ret, ok := fd.Body.List[0].(*ast.ReturnStmt)
		if !ok || len(ret.Results) != 1 {
			continue
		}
		e := ast.Unparen(ret.Results[0])
		if ue, ok := e.(*ast.UnaryExpr); ok && ue.Op == token.AND {
			e = ue.X
		}
		cl, ok := e.(*ast.CompositeLit)
		if !ok {
			continue
		}
		if ec, ok := literalStatusCode(info, cl); ok {
			out[fn] = ec
		}
	}
	return out
}

func checkC09(p *core.Program, r *core.Report) {
	r.Explanation = "Structural part of '/prove answers every request with the documented status and code': (O9.1) on every path of the handler exactly one WriteHeader happens (interprocedurally through the error sender) and nothing is written before it; " +
		"(O9.2) decision table by error source: method != POST ⇒ 405 before the body is read; error of reading or decoding the body ⇒ sender with status 400 / code malformed_body, and the decoded parameters are not used before that error is ruled out; " +
		"error of the prover ⇒ 400 / proving_error; error of marshalling the proof ⇒ 500 / unexpected_error; otherwise WriteHeader(200) then Write(json.Marshal(&proof)) of this request's proof; " +
		"(O9.3) the handler's mode constant selects the prover whose witness type is the circuit that `setup --mode <constant>` compiles; (O9.4) guard-covers-use: every index into a request array in the provers is bounded by a length equality that ValidateShape enforces, and ValidateShape dominates the indexing; " +
		"(O9.5) json.Marshal arguments have MarshalJSON in the method set json will look at. Not decided: absence of panics or hangs inside gnark/encoding/json, liveness after a panic (net/http recovers), that the 200 body verifies (C07, C10)."
	r.Rule("O9.1", "exactly one WriteHeader on every path, nothing written before it")
	r.Rule("O9.2", "error source → (status, code) table; no use of decoded parameters before the decode error is ruled out")
	r.Rule("O9.3", "mode constant ↔ prover ↔ circuit agreement between handler and CLI setup")
	r.Rule("O9.4", "guard-covers-use: index bounds in the provers ⊆ length equalities enforced by ValidateShape, which dominates the indexing")
	r.Rule("O9.5", "json.Marshal arguments expose MarshalJSON to encoding/json")
	r.Rule("O9.7", "imported verdict: requests are isolated from one another (C13), so an answered request leaves the server able to answer the next")
	r.Rule("O9.8", "no make / Grow / slice bound / index in the request path is sized by a request-controlled integer (Content-Length, numbers parsed from headers or the URL) without a lower- and an upper-bound test dominating it")
	r.Rule("O9.9", "every body the request path writes is the result of encoding/json.Marshal or a constant document (an error body assembled by formatting is not valid JSON for every request, so it carries no parseable code)")
	r.Rule("O9.6", "imported verdicts: prover wiring and circuits (C07 ⊇ C01–C03), parameter decoder (C16)")
	r.Trusted = append(r.Trusted, "net/http: first WriteHeader wins, panics in handlers are recovered per connection", "encoding/json rejects ill-typed documents with an error", "groth16.Prove returns an error for an unsatisfied system")
	r.NotDecided = append(r.NotDecided, "panics/hangs inside third-party code for arbitrary bodies", "validity of the returned proof (C07)")

	ix := indexFuncs(p)
	he, why := proveHandlerEntry(p)
	if he == nil {
		r.Violation("O9.1", "anchor server.Run: /prove handler", "-", "%s", why)
		return
	}
	// the walk starts where net/http enters (a middleware's closure, if there is one); the syntax-level rules read the
	// handler type's own ServeHTTP
	entryFn := he.Fn
	hfn := he.Inner
	hobj, _ := hfn.Object().(*types.Func)
	hu, ok := ix.decls[hobj]
	if !ok {
		r.Violation("O9.1", core.FuncName(hfn), "-", "handler syntax not found")
		return
	}
	r.AnalysedFn(hu.Name)
	info := hu.Pkg.TypesInfo
	w := respWriterParam(hu)
	if w == nil {
		r.Violation("O9.1", hu.Name, p.Pos(hu.Node.Pos()), "handler has no named http.ResponseWriter parameter")
		return
	}
	// ---- O9.1 / O9.2: path-sensitive walk of the handler and the functions of its package it calls (respflow.go)
	ps := provingSystemType(p)
	respEntryBind = he.Bind
	rw := checkResponsePaths(p, r, entryFn, ps, modeConstants(p), "O9.1", "O9.2")
	respEntryBind = nil
	_ = w
	// whole-body decoding: a streaming decoder accepts trailing bytes after a valid document
	ast.Inspect(hu.Node, func(n ast.Node) bool {
		if call, ok := n.(*ast.CallExpr); ok {
			if fn, _ := flow.Callee(info, call).(*types.Func); fn != nil && fn.FullName() == "(*encoding/json.Decoder).Decode" {
				hasMore := false
				ast.Inspect(hu.Node, func(m ast.Node) bool {
					if c2, ok := m.(*ast.CallExpr); ok {
						if f2, _ := flow.Callee(info, c2).(*types.Func); f2 != nil && (f2.FullName() == "(*encoding/json.Decoder).More" || f2.FullName() == "(*encoding/json.Decoder).Token" || f2.FullName() == "(*encoding/json.Decoder).Buffered") {
							hasMore = true
						}
					}
					return true
				})
				r.Check(hasMore, "O9.2", hu.Name+": whole body is one document", p.Pos(call.Pos()), "streaming decode followed by an end-of-input test",
					"the body is decoded with a streaming json.Decoder and never tested for trailing data: a valid document followed by garbage is proved and answered 200 instead of 400 malformed_body")
			}
		}
		return true
	})
	// the decoded bytes are the whole body
	r.Count("request documents decoded", checkWholeDocument(p, r, "O9.2", hu.Name, hfn))
	r.Floor("request documents decoded", 1)
	// O9.9
	checkResponseBodiesAreJSON(p, r, hfn)
	// O9.8
	checkRequestSizedOps(p, r, []*ssa.Function{entryFn, hfn})
	// O9.3
	checkModeDispatch(p, r, ix, hu, rw)
	// O9.4
	checkGuardCoversUse(p, r, ps)
	// O9.5
	checkMarshalArgs(p, r, ix)
	// O9.6: "only a valid batch yields 200 with a proof that verifies; an invalid one yields proving_error; a non-document
	// yields malformed_body" rests on the prover wiring/circuits (C07, which imports C01–C03) and on the strict decoder (C16)
	importVerdicts(p, r, "O9.6", "status 200 ⇔ valid batch rests on the prover wiring, the circuits and the strict parameter decoder", "C07", "C16")
	// "the server answers subsequent requests normally" rests on requests not blocking one another (C13: shared state and
	// acquire/release pairing on shared synchronisation objects)
	importVerdicts(p, r, "O9.7", "no request can leave the server in a state in which later requests hang or see its data", "C13")
}

func posList(p *core.Program, ps []token.Pos) []string {
	var out []string
	for _, x := range ps {
		out = append(out, p.Pos(x))
	}
	return out
}

func isWriterCall(info *types.Info, call *ast.CallExpr, w *types.Var) bool {
	if sel, ok := ast.Unparen(call.Fun).(*ast.SelectorExpr); ok && identVar(info, sel.X) == w {
		return true
	}
	return false
}

// senderConstructor: for X(err).send(w) (or send(w, X(err))) find the constructor X.
// literalStatusCode reads the constant (status, code) pair of an error literal.
func literalStatusCode(info *types.Info, cl *ast.CompositeLit) (errorConstructor, bool) {
	ec := errorConstructor{Status: -1}
	for _, el := range cl.Elts {
		kv, ok := el.(*ast.KeyValueExpr)
		if !ok {
			continue
		}
		tv := info.Types[kv.Value]
		if tv.Value == nil {
			continue
		}
		switch tv.Value.Kind() {
		case constant.Int:
			if v, ok := constant.Int64Val(tv.Value); ok && v >= 100 && v < 600 {
				ec.Status = v
			}
		case constant.String:
			ec.Code = constant.StringVal(tv.Value)
		}
	}
	return ec, ec.Status > 0 && ec.Code != ""
}

func senderConstructor(info *types.Info, sink *ast.CallExpr, ctors map[*types.Func]errorConstructor) (errorConstructor, bool) {
	var found errorConstructor
	ok := false
	ast.Inspect(sink, func(n ast.Node) bool {
		// the error value written out as a literal at the call site
		if cl, isLit := n.(*ast.CompositeLit); isLit {
			if ec, isC := literalStatusCode(info, cl); isC {
				found, ok = ec, true
			}
		}
		if c, isCall := n.(*ast.CallExpr); isCall && c != sink {
			if fn, _ := flow.Callee(info, c).(*types.Func); fn != nil {
				if ec, isC := ctors[fn.Origin()]; isC {
					found, ok = ec, true
				}
			}
		}
		return true
	})
	return found, ok
}

func checkMethodGate(p *core.Program, r *core.Report, hu flow.FuncUnit, g *flow.Graph, w *types.Var) {
	info := hu.Pkg.TypesInfo
	cn := hu.Name + ": method gate"
	// find `x.Method != "POST"` (or ==) in an if condition
	var gate *ast.IfStmt
	neq := false
	ast.Inspect(hu.Node, func(n ast.Node) bool {
		ifs, ok := n.(*ast.IfStmt)
		if !ok || gate != nil {
			return true
		}
		b, ok := ast.Unparen(ifs.Cond).(*ast.BinaryExpr)
		if !ok || (b.Op != token.NEQ && b.Op != token.EQL) {
			return true
		}
		isMethod := func(e ast.Expr) bool {
			sel, ok := ast.Unparen(e).(*ast.SelectorExpr)
			if !ok || sel.Sel.Name != "Method" {
				return false
			}
			tv, ok := info.Types[sel.X]
			return ok && isNamed(tv.Type, "net/http", "Request")
		}
		isPost := func(e ast.Expr) bool {
			s, ok := constString(info, e)
			return ok && s == "POST"
		}
		if (isMethod(b.X) && isPost(b.Y)) || (isMethod(b.Y) && isPost(b.X)) {
			gate, neq = ifs, b.Op == token.NEQ
		}
		return true
	})
	if gate == nil {
		r.Violation("O9.2", cn, p.Pos(hu.Node.Pos()), "no test of the request method against POST: other methods are not answered 405")
		return
	}
	var reject ast.Stmt = gate.Body
	if !neq {
		reject = gate.Else
	}
	if reject == nil {
		r.Violation("O9.2", cn, p.Pos(gate.Pos()), "the non-POST branch is empty")
		return
	}
	var status []int64
	returns := false
	var otherCalls []string
	ast.Inspect(reject, func(n ast.Node) bool {
		switch x := n.(type) {
		case *ast.ReturnStmt:
			returns = true
		case *ast.CallExpr:
			if sel, ok := ast.Unparen(x.Fun).(*ast.SelectorExpr); ok && identVar(info, sel.X) == w && sel.Sel.Name == "WriteHeader" && len(x.Args) == 1 {
				if tv := info.Types[x.Args[0]]; tv.Value != nil {
					if v, ok := constant.Int64Val(tv.Value); ok {
						status = append(status, v)
					}
				}
				return true
			}
			if fn, _ := flow.Callee(info, x).(*types.Func); fn != nil {
				full := fn.FullName()
				if full == "io.ReadAll" || full == "encoding/json.Unmarshal" || (fn.Pkg() != nil && core.InRepo(fn.Pkg().Path()) && fn.Pkg().Name() == "prover") {
					otherCalls = append(otherCalls, full)
				}
			}
		}
		return true
	})
	// the gate must precede the body read
	gateFirst := true
	if loc, ok := g.Locate(gate.Cond); ok {
		ast.Inspect(hu.Node, func(n ast.Node) bool {
			if c, ok := n.(*ast.CallExpr); ok {
				if fn, _ := flow.Callee(info, c).(*types.Func); fn != nil && fn.FullName() == "io.ReadAll" {
					if l2, ok := g.Locate(c); ok && !g.LocDominates(loc, l2) {
						gateFirst = false
					}
				}
			}
			return true
		})
	}
	okGate := len(status) == 1 && status[0] == 405 && returns && len(otherCalls) == 0 && gateFirst
	r.Check(okGate, "O9.2", cn, p.Pos(gate.Pos()), "method != POST ⇒ WriteHeader(405); return — before the body is read",
		fmt.Sprintf("non-POST branch: statuses %v (want [405]), returns=%v, body/prover calls on it %v, gate dominates the body read=%v", status, returns, otherCalls, gateFirst))
	r.Count("method gates", 1)
	r.Floor("method gates", 1)
}

func checkSuccessPath(p *core.Program, r *core.Report, hu flow.FuncUnit, g *flow.Graph, w *types.Var, ps *types.Named) {
	info := hu.Pkg.TypesInfo
	cn := hu.Name + ": success response"
	var okHeader *ast.CallExpr
	var writes []*ast.CallExpr
	ast.Inspect(hu.Node, func(n ast.Node) bool {
		if x, ok := n.(*ast.CallExpr); ok {
			if sel, ok := ast.Unparen(x.Fun).(*ast.SelectorExpr); ok && identVar(info, sel.X) == w {
				if sel.Sel.Name == "WriteHeader" && len(x.Args) == 1 {
					if tv := info.Types[x.Args[0]]; tv.Value != nil {
						if v, ok := constant.Int64Val(tv.Value); ok && v == 200 {
							okHeader = x
						}
					}
				}
				if sel.Sel.Name == "Write" {
					writes = append(writes, x)
				}
			}
		}
		return true
	})
	if okHeader == nil || len(writes) != 1 {
		r.Violation("O9.2", cn, p.Pos(hu.Node.Pos()), "expected WriteHeader(200) and exactly one direct body write in the handler; found header=%v, %d writes", okHeader != nil, len(writes))
		return
	}
	lh, ok1 := g.Locate(okHeader)
	lw, ok2 := g.Locate(writes[0])
	var probs []string
	if !ok1 || !ok2 || !g.LocDominates(lh, lw) {
		probs = append(probs, "the body write is not preceded by WriteHeader(200) on every path")
	}
	// written bytes: var assigned from json.Marshal(x) where x mentions a var assigned only from prover methods
	body := hu.Node.(*ast.FuncDecl).Body
	assigns := func(v *types.Var) []ast.Expr {
		var rhs []ast.Expr
		ast.Inspect(body, func(n ast.Node) bool {
			as, ok := n.(*ast.AssignStmt)
			if !ok {
				return true
			}
			for i, l := range as.Lhs {
				if identVar(info, l) == v {
					if len(as.Rhs) == len(as.Lhs) {
						rhs = append(rhs, as.Rhs[i])
					} else {
						rhs = append(rhs, as.Rhs[0])
					}
				}
			}
			return true
		})
		return rhs
	}
	okChain := false
	if len(writes[0].Args) == 1 {
		if bv := baseIdentVar(info, writes[0].Args[0]); bv != nil {
			for _, rhs := range assigns(bv) {
				call, ok := ast.Unparen(rhs).(*ast.CallExpr)
				if !ok {
					continue
				}
				if fn, _ := flow.Callee(info, call).(*types.Func); fn == nil || fn.FullName() != "encoding/json.Marshal" || len(call.Args) != 1 {
					continue
				}
				pv := baseIdentVar(info, call.Args[0])
				if pv == nil || pv.Parent() == hu.Pkg.Types.Scope() {
					probs = append(probs, "the marshalled value is not a local of the handler")
					continue
				}
				rs := assigns(pv)
				all := len(rs) > 0
				for _, x := range rs {
					c2, ok := ast.Unparen(x).(*ast.CallExpr)
					if !ok {
						all = false
						continue
					}
					f2, _ := flow.Callee(info, c2).(*types.Func)
					if f2 == nil || f2.Type().(*types.Signature).Recv() == nil || ps == nil || namedOf(f2.Type().(*types.Signature).Recv().Type()) != ps {
						all = false
					}
				}
				if all {
					okChain = true
				} else {
					probs = append(probs, "the marshalled proof variable is assigned from something other than the prover's result")
				}
			}
		}
	}
	if !okChain && len(probs) == 0 {
		probs = append(probs, "the written bytes do not derive from json.Marshal of the prover's result for this request")
	}
	r.Check(len(probs) == 0, "O9.2", cn, p.Pos(writes[0].Pos()), "WriteHeader(200) ≺ Write(json.Marshal(&proof)), proof assigned only from the prover", strings.Join(probs, "; "))
}

// modeBranches lists the (mode constant, branch body) pairs of a function: if/else-if chains on `x == "<mode>"` and clauses
// of a switch whose cases are mode constants.
func modeBranches(info *types.Info, root ast.Node) []struct {
	Mode string
	Body ast.Node
	Pos  token.Pos
} {
	var out []struct {
		Mode string
		Body ast.Node
		Pos  token.Pos
	}
	ast.Inspect(root, func(n ast.Node) bool {
		switch x := n.(type) {
		case *ast.IfStmt:
			if cst, ok := modeComparison(info, x.Cond); ok {
				out = append(out, struct {
					Mode string
					Body ast.Node
					Pos  token.Pos
				}{cst, x.Body, x.Pos()})
			}
		case *ast.SwitchStmt:
			if x.Tag == nil {
				return true
			}
			for _, c := range x.Body.List {
				cc, ok := c.(*ast.CaseClause)
				if !ok {
					continue
				}
				for _, e := range cc.List {
					if s, ok := constString(info, e); ok && (s == "insertion" || s == "deletion") {
						out = append(out, struct {
							Mode string
							Body ast.Node
							Pos  token.Pos
						}{s, &ast.BlockStmt{List: cc.Body, Lbrace: cc.Colon, Rbrace: cc.End()}, cc.Pos()})
					}
				}
			}
		}
		return true
	})
	return out
}

// checkModeDispatch: O9.3.
func checkModeDispatch(p *core.Program, r *core.Report, ix *funcIndex, hu flow.FuncUnit, rw *respWalker) {
	// mode constant -> circuit type, from the CLI setup action
	constCircuit := map[string]string{}
	for _, c := range cliCommands(p) {
		if c.Name != "setup" || c.Action.Node == nil {
			continue
		}
		ci := c.Pkg.TypesInfo
		for _, mb := range modeBranches(ci, c.Action.Node) {
			ast.Inspect(mb.Body, func(m ast.Node) bool {
				if call, ok := m.(*ast.CallExpr); ok {
					if fn, _ := flow.Callee(ci, call).(*types.Func); fn != nil && inRepoObj(fn) && fn.Pkg().Name() == "prover" {
						if T, _, _ := circuitTypeOf(p, fn.Name()); T != nil {
							constCircuit[mb.Mode] = typeKey(T)
						}
					}
				}
				return true
			})
		}
	}
	if len(constCircuit) < 2 {
		// the dispatch is not written in the action (prover.Setup(kind, …)): walk the action once per accepted constant and
		// see which circuit the functions called under that constant compile
		for _, c := range cliCommands(p) {
			if c.Name != "setup" || c.Action.Node == nil {
				continue
			}
			act := actionSSA(p, c)
			for m := range modeConstants(p) {
				found := map[string]bool{}
				for fn := range calledUnderMode(p, act, modeConstants(p), m) {
					if fn.Pkg != nil && fn.Pkg.Pkg.Name() == "prover" && fn.Signature.Recv() == nil {
						if T, _, _ := circuitTypeOfFn(p, fn); T != nil {
							found[typeKey(T)] = true
						}
					}
				}
				if len(found) == 1 {
					for k := range found {
						constCircuit[m] = k
					}
				}
			}
		}
	}
	if len(constCircuit) < 2 {
		r.Undecided("O9.3", "main.cmd:setup: mode constant → circuit", "-", "cannot derive which circuit each mode constant compiles from the setup command (found %v)", constCircuit)
		return
	}
	// which prover runs under which mode: read off the enumerated paths (so it does not matter in which function of the
	// handler's package the dispatch is written)
	provers := map[string]map[string]token.Pos{}
	for _, pt := range rw.paths {
		if pt.modeKnown == "" {
			continue
		}
		for _, e := range pt.events {
			if e.kind == "step" && e.step == "prove" && e.callee != nil {
				if wt := witnessCircuitType(e.callee); wt != nil {
					if provers[pt.modeKnown] == nil {
						provers[pt.modeKnown] = map[string]token.Pos{}
					}
					provers[pt.modeKnown][typeKey(wt)] = e.pos
				}
			}
		}
	}
	n := 0
	var modes []string
	for m := range constCircuit {
		modes = append(modes, m)
	}
	sort.Strings(modes)
	for _, m := range modes {
		got := provers[m]
		if len(got) == 0 {
			continue
		}
		n++
		var gl []string
		pos := token.NoPos
		for g, at := range got {
			gl = append(gl, g)
			pos = at
		}
		sort.Strings(gl)
		cn := fmt.Sprintf("%s: mode %q", hu.Name, m)
		want := constCircuit[m]
		r.Check(len(gl) == 1 && gl[0] == want, "O9.3", cn, p.Pos(pos), "proves with the circuit that `setup --mode "+m+"` compiles ("+want+")",
			fmt.Sprintf("under mode %q the handler builds a witness for %v but `setup --mode %s` compiles %s: every request would fail or prove the other circuit", m, gl, m, want))
	}
	r.Count("handler mode branches", n)
	r.Floor("handler mode branches", 2)
}

// modeComparison recognises `<expr> == <const string in {insertion,deletion}>`.
func modeComparison(info *types.Info, cond ast.Expr) (string, bool) {
	b, ok := ast.Unparen(cond).(*ast.BinaryExpr)
	if !ok || b.Op != token.EQL {
		return "", false
	}
	for _, e := range []ast.Expr{b.X, b.Y} {
		if s, ok := constString(info, e); ok && (s == "insertion" || s == "deletion") {
			return s, true
		}
	}
	return "", false
}

// witnessCircuitType: the circuit type of the assignment passed to frontend.NewWitness in fn.
func witnessCircuitType(fn *ssa.Function) *types.Named {
	return witnessTypeIn(fn, nil, 0)
}

// witnessTypeIn finds the circuit type whose assignment fn turns into a witness: the dynamic type of frontend.NewWitness's
// first argument, in fn itself or in an in-repo function it calls, following an interface-typed parameter back to what the
// caller passes (proveAssignment(circuit frontend.Circuit) shared by both provers).
func witnessTypeIn(fn *ssa.Function, bind map[*ssa.Parameter]types.Type, depth int) *types.Named {
	if fn == nil || fn.Blocks == nil || depth > 3 {
		return nil
	}
	dyn := func(v ssa.Value) types.Type {
		for {
			switch x := v.(type) {
			case *ssa.MakeInterface:
				return x.X.Type()
			case *ssa.ChangeInterface:
				v = x.X
				continue
			case *ssa.Parameter:
				return bind[x]
			}
			return nil
		}
	}
	for _, b := range fn.Blocks {
		for _, in := range b.Instrs {
			c, ok := in.(*ssa.Call)
			if !ok {
				continue
			}
			callee := c.Common().StaticCallee()
			if callee == nil {
				continue
			}
			if callee.Pkg != nil && callee.Pkg.Pkg.Path() == "github.com/consensys/gnark/frontend" && callee.Name() == "NewWitness" {
				if t := dyn(c.Common().Args[0]); t != nil {
					return namedOf(t)
				}
				continue
			}
			cpkg := callee.Pkg
			if cpkg == nil && callee.Origin() != nil {
				cpkg = callee.Origin().Pkg
			}
			if cpkg != nil && core.InRepo(cpkg.Pkg.Path()) && callee.Blocks != nil && callee != fn {
				cb := map[*ssa.Parameter]types.Type{}
				for i, prm := range callee.Params {
					if i < len(c.Common().Args) {
						if t := dyn(c.Common().Args[i]); t != nil {
							cb[prm] = t
						}
					}
				}
				// only descend when something type-carrying is handed on, or at the top level
				if len(cb) > 0 || depth == 0 {
					if n := witnessTypeIn(callee, cb, depth+1); n != nil {
						return n
					}
				}
			}
		}
	}
	return nil
}

// lengthFact: on the error-free exit of a shape validator, len(path) == bound.
type lengthFact struct {
	Path  string // e.g. "IdComms" or "MerkleProofs[*]"
	Bound int    // index of the validator's parameter (0-based, excluding the receiver)
}

// shapeFacts extracts the length equalities a ValidateShape-like method enforces.
func shapeFacts(eng *tf.Engine, fn *ssa.Function) ([]lengthFact, []string) {
	root := eng.NewEval(fn)
	var facts []lengthFact
	var notes []string
	root.Events() // evaluates every call, which creates the activations of inlined helpers
	root.WalkActivations(func(ev *tf.Eval) {
		// a helper's verdict counts only if its error reaches the validator's own result: every call on the chain up to the
		// validator is either returned as it is or tested `!= nil` with the failing edge returning an error
		for a := ev; a.Parent != nil; a = a.Parent {
			if !errorResultPropagates(a.Site) {
				return
			}
		}
		scanShapeTests(root, ev, &facts, &notes)
	})
	return facts, notes
}

// errorResultPropagates: the error returned by this call makes the calling function return a non-nil error.
func errorResultPropagates(site ssa.CallInstruction) bool {
	v := site.Value()
	if v == nil || v.Referrers() == nil {
		return false
	}
	var vals []ssa.Value
	vals = append(vals, v)
	for _, ref := range *v.Referrers() {
		if ex, ok := ref.(*ssa.Extract); ok && isErrorType(ex.Type()) {
			vals = append(vals, ex)
		}
	}
	for _, x := range vals {
		if !isErrorType(x.Type()) || x.Referrers() == nil {
			continue
		}
		for _, ref := range *x.Referrers() {
			switch u := ref.(type) {
			case *ssa.Return:
				return true
			case *ssa.BinOp:
				if u.Op != token.NEQ && u.Op != token.EQL {
					continue
				}
				for _, r2 := range *u.Referrers() {
					if iff, ok := r2.(*ssa.If); ok {
						fail := iff.Block().Succs[0]
						if u.Op == token.EQL {
							fail = iff.Block().Succs[1]
						}
						if returnsError(fail) {
							return true
						}
					}
				}
			}
		}
	}
	return false
}

func scanShapeTests(root, ev *tf.Eval, factsP *[]lengthFact, notesP *[]string) {
	facts, notes := *factsP, *notesP
	defer func() { *factsP, *notesP = facts, notes }()
	fn := ev.Fn
	for _, b := range fn.Blocks {
		if len(b.Instrs) == 0 {
			continue
		}
		ifi, ok := b.Instrs[len(b.Instrs)-1].(*ssa.If)
		if !ok {
			continue
		}
		cond := ev.Term(ifi.Cond)
		if cond.K != tf.KBin || (cond.Name != "!=" && cond.Name != "==") {
			continue
		}
		// a test of an inlined helper's error: (ite(c ? error : nil) != nil) stands for c
		if (cond.Args[1].K == tf.KNil && cond.Args[0].K == tf.KIte) || (cond.Args[0].K == tf.KNil && cond.Args[1].K == tf.KIte) {
			ite := cond.Args[0]
			if ite.K != tf.KIte {
				ite = cond.Args[1]
			}
			inner := ite.Args[0]
			thenNil, elseNil := ite.Args[1].K == tf.KNil, ite.Args[2].K == tf.KNil
			if inner.K == tf.KBin && (inner.Name == "!=" || inner.Name == "==") && thenNil != elseNil {
				name := inner.Name
				if thenNil { // error when the inner condition is false
					if name == "!=" {
						name = "=="
					} else {
						name = "!="
					}
				}
				if cond.Name == "==" { // testing err == nil
					if name == "!=" {
						name = "=="
					} else {
						name = "!="
					}
				}
				c2 := *inner
				c2.Name = name
				cond = &c2
			}
		}
		// the failing edge must return a non-nil error
		failSucc := b.Succs[0]
		if cond.Name == "==" {
			failSucc = b.Succs[1]
		}
		if !returnsError(failSucc) {
			notes = append(notes, "a length test does not lead to an error return")
			continue
		}
		x, y := cond.Args[0], cond.Args[1]
		if y.K == tf.KLen {
			x, y = y, x
		}
		if x.K != tf.KLen {
			continue
		}
		// bound: a parameter
		bi := -1
		for i, prm := range root.Params {
			if i > 0 && tf.Eq(stripConv(y), stripConv(prm)) {
				bi = i - 1
			}
		}
		if bi < 0 {
			continue
		}
		path, ok := fieldPath(x.Args[0], root.Params[0])
		if !ok {
			continue
		}
		facts = append(facts, lengthFact{path, bi})
	}
}

func returnsError(b *ssa.BasicBlock) bool {
	seen := map[*ssa.BasicBlock]bool{}
	for b != nil && !seen[b] {
		seen[b] = true
		if len(b.Instrs) == 0 {
			return false
		}
		switch x := b.Instrs[len(b.Instrs)-1].(type) {
		case *ssa.Return:
			if len(x.Results) == 0 {
				return false
			}
			last := x.Results[len(x.Results)-1]
			c, isC := last.(*ssa.Const)
			return !isC || c.Value != nil
		case *ssa.Jump:
			b = b.Succs[0]
		default:
			return false
		}
	}
	return false
}

// fieldPath renders $recv.F / $recv.F[i] (i an induction variable covering the whole slice) as "F" / "F[*]".
func fieldPath(t, recv *tf.Term) (string, bool) {
	switch t.K {
	case tf.KField:
		if tf.Eq(t.Args[0], recv) {
			return t.Name, true
		}
	case tf.KIdx:
		base, ok := fieldPath(t.Args[0], recv)
		if !ok {
			return "", false
		}
		// index must be (affine in) an induction variable
		isIV := false
		tf.Walk(t.Args[1], func(x *tf.Term) bool {
			if x.K == tf.KIndVar {
				isIV = true
			}
			return true
		})
		if isIV {
			return base + "[*]", true
		}
	}
	return "", false
}

func checkGuardCoversUse(p *core.Program, r *core.Report, ps *types.Named) {
	checkGuardCoversUseRule(p, r, ps, "O9.4")
}

func checkGuardCoversUseRule(p *core.Program, r *core.Report, ps *types.Named, rule string) {
	if ps == nil {
		return
	}
	eng := tf.NewEngine(core.InRepo, 0)  // the prover is analysed without inlining the validator
	veng := tf.NewEngine(core.InRepo, 3) // the validator may use small in-repo helpers
	for _, fn := range p.RepoFuncs() {
		if fn.Signature.Recv() == nil || namedOf(fn.Signature.Recv().Type()) != ps || fn.Signature.Results().Len() != 2 || requestParamIndex(fn) < 0 || (delegateTarget(fn) != nil || composesProvers(fn)) {
			continue
		}
		if witnessCircuitType(fn) == nil || !strings.Contains(fn.Signature.Results().At(0).Type().String(), "Proof") {
			continue
		}
		name := core.FuncName(fn)
		r.AnalysedFn(name)
		r.Count("prover methods", 1)
		ev := eng.NewEval(fn)
		psT, paramsT := ev.Params[0], ev.Params[1+requestParamIndex(fn)]
		// the validator call: a method on the params value taking (uint32, uint32) and returning error
		var vcall *ssa.Call
		var validator *ssa.Function
		for _, b := range fn.Blocks {
			for _, in := range b.Instrs {
				c, ok := in.(*ssa.Call)
				if !ok {
					continue
				}
				callee := c.Common().StaticCallee()
				if callee == nil || callee.Signature.Recv() == nil || len(c.Common().Args) != 3 || callee.Signature.Results().Len() != 1 {
					continue
				}
				if !tf.Eq(ev.Term(c.Common().Args[0]), paramsT) {
					continue
				}
				vcall, validator = c, callee
			}
		}
		if vcall == nil {
			r.Violation(rule, name+": shape validation", p.Pos(fn.Pos()), "no dimension validation of the request parameters is called: short arrays make the prover index out of range (the handler crashes instead of answering 400 proving_error)")
			continue
		}
		r.AnalysedFn(core.FuncName(validator))
		facts, notes := shapeFacts(veng, validator)
		// bound arguments at the call
		boundArgs := []*tf.Term{ev.Term(vcall.Common().Args[1]), ev.Term(vcall.Common().Args[2])}
		G := map[string]*tf.Term{}
		var gdesc []string
		for _, f := range facts {
			if f.Bound < len(boundArgs) {
				G[f.Path] = boundArgs[f.Bound]
				gdesc = append(gdesc, fmt.Sprintf("len(%s)=%s", f.Path, describe(boundArgs[f.Bound])))
			}
		}
		sort.Strings(gdesc)
		// error edge of the validator returns
		vErrOK := false
		if refs := vcall.Referrers(); refs != nil {
			for _, ref := range *refs {
				if bo, ok := ref.(*ssa.BinOp); ok && bo.Op == token.NEQ {
					if brefs := bo.Referrers(); brefs != nil {
						for _, br := range *brefs {
							if ifi, ok := br.(*ssa.If); ok && returnsError(ifi.Block().Succs[0]) {
								vErrOK = true
							}
						}
					}
				}
			}
		}
		r.Check(vErrOK, rule, name+": validation error returns", p.Pos(vcall.Pos()), "validator error ⇒ return (nil, err)", "the validator's error does not lead to an error return before the arrays are indexed")
		// uses: index sites on parameter-derived slices
		nUse := 0
		var uncovered []string
		// index sites are collected with the in-repo helpers inlined (conversion helpers, generic or not)
		evIn := tf.NewEngine(core.InRepo, 4).NewEval(fn)
		evIn.Events() // evaluates every call: the activations of inlined helpers exist afterwards
		pIn := evIn.Params[1+requestParamIndex(fn)]
		evIn.WalkActivations(func(av *tf.Eval) {
			// the instruction of the prover method through which this activation is reached
			var rootSite ssa.Instruction
			for a := av; a.Parent != nil; a = a.Parent {
				rootSite = a.Site
			}
			for _, b := range av.Fn.Blocks {
				for _, in := range b.Instrs {
					var base, idx ssa.Value
					switch x := in.(type) {
					case *ssa.IndexAddr:
						base, idx = x.X, x.Index
					case *ssa.Index:
						base, idx = x.X, x.Index
					default:
						continue
					}
					bt := av.TermIn(base, b)
					path, ok := fieldPath(bt, pIn)
					if !ok {
						continue
					}
					nUse++
					it := av.TermIn(idx, b)
					// the index must be an induction variable 0..n-1 with n the enforced length, or the slice's own length
					var loop *tf.Loop
					if it.K == tf.KIndVar {
						loop = it.Loop
					}
					n, okN := loopRangeZeroTo(loop)
					want, has := G[path]
					site := fmt.Sprintf("%s[%s] at %s", path, describe(it), p.Pos(in.Pos()))
					at := ssa.Instruction(in.(ssa.Instruction))
					if rootSite != nil {
						at = rootSite
					}
					switch {
					case !okN:
						uncovered = append(uncovered, site+": index range not recognised")
					case tf.Eq(stripConv(n), tf.Len(bt)):
						// bounded by the length of the very slice that is indexed: in range whatever the validator says
					case !has:
						uncovered = append(uncovered, fmt.Sprintf("%s: indexed up to %s but the validator enforces no length for %s", site, describe(n), path))
					case !tf.Eq(stripConv(n), stripConv(want)):
						uncovered = append(uncovered, fmt.Sprintf("%s: indexed up to %s but the validator enforces len = %s", site, describe(n), describe(want)))
					case !vcall.Block().Dominates(at.Block()):
						uncovered = append(uncovered, site+": not dominated by the validation call")
					}
				}
			}
		})
		_ = psT
		r.Count("guarded index sites", nUse)
		r.Check(len(uncovered) == 0, rule, name+": every index is covered by an enforced length", p.Pos(vcall.Pos()),
			fmt.Sprintf("%d index sites ⊆ {%s}", nUse, strings.Join(gdesc, ", ")), "index sites not covered by the validator: "+strings.Join(uncovered, "; ")+strings.Join(notes, "; "))
	}
	r.Floor("prover methods", 2)
	r.Floor("guarded index sites", 4)
}

func stripConv(t *tf.Term) *tf.Term {
	for t.K == tf.KConv {
		t = t.Args[0]
	}
	return t
}

// checkMarshalArgs: O9.5 over every json.Marshal call in the repository whose argument's pointee is an in-repo named type
// that declares MarshalJSON on its pointer.
func checkMarshalArgs(p *core.Program, r *core.Report, ix *funcIndex) {
	n := 0
	units := append([]flow.FuncUnit{}, ix.all...)
	for _, u := range units {
		info := u.Pkg.TypesInfo
		ast.Inspect(u.Node, func(nd ast.Node) bool {
			call, ok := nd.(*ast.CallExpr)
			if !ok {
				return true
			}
			fn, _ := flow.Callee(info, call).(*types.Func)
			if fn == nil || fn.FullName() != "encoding/json.Marshal" || len(call.Args) != 1 {
				return true
			}
			tv, ok := info.Types[call.Args[0]]
			if !ok {
				return true
			}
			// base named type
			t := tv.Type
			for {
				pt, ok := types.Unalias(t).(*types.Pointer)
				if !ok {
					break
				}
				t = pt.Elem()
			}
			nm, _ := types.Unalias(t).(*types.Named)
			if nm == nil || !inRepoObj(nm.Obj()) {
				return true
			}
			// does *T declare MarshalJSON?
			if !hasMethod(types.NewPointer(nm), "MarshalJSON") {
				return true
			}
			n++
			r.Check(hasMethod(tv.Type, "MarshalJSON"), "O9.5", fmt.Sprintf("%s: json.Marshal(%s)", u.Name, types.ExprString(call.Args[0])), p.Pos(call.Pos()),
				"argument type "+tv.Type.String()+" exposes MarshalJSON", "argument type "+tv.Type.String()+" does not expose the pointer-receiver MarshalJSON: encoding/json silently emits the default struct encoding")
			return true
		})
	}
	r.Count("custom-marshalled json.Marshal sites", n)
	r.Floor("custom-marshalled json.Marshal sites", 2)
}

// checkStatusOnce decides the exactly-one-status typestate of the handler (O9.1 / O20.4) and returns the response helpers
// it recognised and the handler's CFG.
func checkStatusOnce(p *core.Program, r *core.Report, ix *funcIndex, hu flow.FuncUnit, w *types.Var, rule string) (map[*types.Func]bool, *flow.Graph) {
	helpers, _, g := checkStatusOnceX(p, r, ix, hu, w, rule)
	return helpers, g
}

// condResponder summarises a response helper with a boolean result that tells whether it answered: the number of statuses it
// sets on the exits returning true and on the exits returning false.
type condResponder struct {
	Unit     flow.FuncUnit
	W        *types.Var
	EvT, EvF int
}

// calleesWithWriter lists the in-repo functions to which the body of u hands the response writer w.
func calleesWithWriter(info *types.Info, u flow.FuncUnit, w *types.Var) []*types.Func {
	seen := map[*types.Func]bool{}
	var out []*types.Func
	ast.Inspect(u.Node, func(n ast.Node) bool {
		if call, ok := n.(*ast.CallExpr); ok {
			if fn, _ := flow.Callee(info, call).(*types.Func); fn != nil && inRepoObj(fn) {
				for _, a := range call.Args {
					if identVar(info, a) == w && !seen[fn.Origin()] {
						seen[fn.Origin()] = true
						out = append(out, fn.Origin())
					}
				}
			}
		}
		return true
	})
	sort.Slice(out, func(i, j int) bool { return out[i].FullName() < out[j].FullName() })
	return out
}

// condBranch builds the branch callback of CountOnPathsCond for the conditional responders known so far: the condition is
// h(…w…), !h(…w…), or a boolean variable assigned from such a call by the statement just before it.
func condBranch(info *types.Info, conds map[*types.Func]*condResponder) func(cond ast.Expr, prev ast.Node) (int, int, bool, bool) {
	callOf := func(e ast.Expr) *condResponder {
		call, ok := ast.Unparen(e).(*ast.CallExpr)
		if !ok {
			return nil
		}
		fn, _ := flow.Callee(info, call).(*types.Func)
		if fn == nil {
			return nil
		}
		return conds[fn.Origin()]
	}
	return func(cond ast.Expr, prev ast.Node) (int, int, bool, bool) {
		neg := false
		e := ast.Unparen(cond)
		for {
			u, ok := e.(*ast.UnaryExpr)
			if !ok || u.Op != token.NOT {
				break
			}
			neg = !neg
			e = ast.Unparen(u.X)
		}
		cr := callOf(e)
		consumed := false
		if cr == nil {
			// ok := h(…); if ok
			if id, isId := e.(*ast.Ident); isId && prev != nil {
				if as, isAs := prev.(*ast.AssignStmt); isAs && len(as.Lhs) == 1 && len(as.Rhs) == 1 {
					if identVar(info, as.Lhs[0]) != nil && identVar(info, as.Lhs[0]) == identVar(info, id) {
						cr = callOf(as.Rhs[0])
						consumed = cr != nil
					}
				}
			}
		}
		if cr == nil {
			return 0, 0, false, false
		}
		if neg {
			return cr.EvF, cr.EvT, consumed, true
		}
		return cr.EvT, cr.EvF, consumed, true
	}
}

// condCallsBranchedOn: every call of a conditional responder in u is in one of the positions condBranch understands.
func condCallsBranchedOn(info *types.Info, u flow.FuncUnit, conds map[*types.Func]*condResponder) []token.Pos {
	okCalls := map[*ast.CallExpr]bool{}
	isCond := func(e ast.Expr) *ast.CallExpr {
		e = ast.Unparen(e)
		for {
			ue, ok := e.(*ast.UnaryExpr)
			if !ok || ue.Op != token.NOT {
				break
			}
			e = ast.Unparen(ue.X)
		}
		c, _ := e.(*ast.CallExpr)
		return c
	}
	ast.Inspect(u.Node, func(n ast.Node) bool {
		switch x := n.(type) {
		case *ast.IfStmt:
			if c := isCond(x.Cond); c != nil {
				okCalls[c] = true
			}
		case *ast.BlockStmt:
			for i := 0; i+1 < len(x.List); i++ {
				as, ok := x.List[i].(*ast.AssignStmt)
				ifs, ok2 := x.List[i+1].(*ast.IfStmt)
				if !ok || !ok2 || len(as.Lhs) != 1 || len(as.Rhs) != 1 || ifs.Init != nil {
					continue
				}
				e := ast.Unparen(ifs.Cond)
				for {
					ue, isU := e.(*ast.UnaryExpr)
					if !isU || ue.Op != token.NOT {
						break
					}
					e = ast.Unparen(ue.X)
				}
				if id, isId := e.(*ast.Ident); isId && identVar(info, id) != nil && identVar(info, id) == identVar(info, as.Lhs[0]) {
					if c, isCall := ast.Unparen(as.Rhs[0]).(*ast.CallExpr); isCall {
						okCalls[c] = true
					}
				}
			}
		}
		return true
	})
	var bad []token.Pos
	ast.Inspect(u.Node, func(n ast.Node) bool {
		if call, ok := n.(*ast.CallExpr); ok && !okCalls[call] {
			if fn, _ := flow.Callee(info, call).(*types.Func); fn != nil && conds[fn.Origin()] != nil {
				bad = append(bad, call.Pos())
			}
		}
		return true
	})
	return bad
}

// checkStatusOnceX decides the exactly-one-status typestate of the handler interprocedurally: functions that receive the
// response writer are summarised bottom-up as unconditional responders (exactly one status on every path, then writes) or
// conditional responders (a boolean result; one count on the exits returning true, another on those returning false).
func checkStatusOnceX(p *core.Program, r *core.Report, ix *funcIndex, hu flow.FuncUnit, w *types.Var, rule string) (map[*types.Func]bool, map[*types.Func]*condResponder, *flow.Graph) {
	info := hu.Pkg.TypesInfo
	helpers := map[*types.Func]bool{}
	conds := map[*types.Func]*condResponder{}
	state := map[*types.Func]int{} // 1 = in progress, 2 = done
	var summarize func(fn *types.Func)
	summarize = func(fn *types.Func) {
		if state[fn] != 0 {
			return
		}
		state[fn] = 1
		defer func() { state[fn] = 2 }()
		u, ok := ix.decls[fn]
		if !ok {
			r.Violation(rule, hu.Name+": response writer handed to "+fn.FullName(), p.Pos(hu.Node.Pos()), "the ResponseWriter is passed to a function whose body is not available: its effect on the status line is unknown")
			return
		}
		hw := respWriterParam(u)
		if hw == nil {
			return
		}
		uinfo := u.Pkg.TypesInfo
		for _, c := range calleesWithWriter(uinfo, u, hw) {
			summarize(c)
		}
		g := flow.NewGraph(u)
		exits, bad := g.CountOnPathsCond(headerClassifier(uinfo, hw, helpers), condBranch(uinfo, conds))
		for _, at := range condCallsBranchedOn(uinfo, u, conds) {
			bad = append(bad, at)
		}
		r.AnalysedFn(u.Name)
		once := len(bad) == 0 && len(exits) > 0
		for _, e := range exits {
			if e.Mask != 2 {
				once = false
			}
		}
		if once {
			helpers[fn] = true
			r.OK(rule, u.Name+": sets the status exactly once before writing", p.Pos(u.Node.Pos()), "every path: one WriteHeader, then writes")
			return
		}
		// conditional responder: single bool result, constant at every exit, uniform count per constant
		if sig, ok := fn.Type().(*types.Signature); ok && sig.Results().Len() == 1 && len(bad) == 0 && len(exits) > 0 {
			if b, isB := sig.Results().At(0).Type().Underlying().(*types.Basic); isB && b.Kind() == types.Bool {
				cnt := map[bool]CountOf{}
				okC := true
				for _, e := range exits {
					ret, _ := e.Node.(*ast.ReturnStmt)
					if ret == nil || len(ret.Results) != 1 {
						okC = false
						break
					}
					tv := uinfo.Types[ret.Results[0]]
					if tv.Value == nil || tv.Value.Kind() != constant.Bool {
						okC = false
						break
					}
					k := -1
					switch e.Mask {
					case 1:
						k = 0
					case 2:
						k = 1
					}
					v := constant.BoolVal(tv.Value)
					if k < 0 {
						okC = false
						break
					}
					if prev, seen := cnt[v]; seen && prev.N != k {
						okC = false
						break
					}
					cnt[v] = CountOf{k, true}
				}
				if okC && len(cnt) == 2 {
					conds[fn] = &condResponder{Unit: u, W: hw, EvT: cnt[true].N, EvF: cnt[false].N}
					r.OK(rule, u.Name+": conditional responder", p.Pos(u.Node.Pos()), "returns true after setting %d status(es) and false after %d, on every path; callers must branch on the result", cnt[true].N, cnt[false].N)
					return
				}
			}
		}
		var ms []string
		for _, e := range exits {
			ms = append(ms, fmt.Sprintf("exit %s: counts %03b", p.Pos(e.Pos), e.Mask))
		}
		r.Violation(rule, u.Name+": sets the status exactly once before writing", p.Pos(u.Node.Pos()), "response helper neither sets the status exactly once on every path nor tells its caller through a constant boolean result whether it did (or writes before it): %s; writes-before-header / unbranched conditional calls at %v", strings.Join(ms, ", "), posList(p, bad))
	}
	for _, c := range calleesWithWriter(info, hu, w) {
		summarize(c)
	}
	r.Count("response helpers", len(helpers)+len(conds))
	g := flow.NewGraph(hu)
	exits, bad := g.CountOnPathsCond(headerClassifier(info, w, helpers), condBranch(info, conds))
	okAll := len(bad) == 0 && len(exits) > 0
	var ms []string
	for _, e := range exits {
		if e.Mask != 2 {
			okAll = false
			what := "no status is set"
			if e.Mask&4 != 0 {
				what = "the status can be set twice (a sender is not followed by return)"
			}
			if e.Mask&1 != 0 && e.Mask&4 != 0 {
				what = "the status can be set zero or two times"
			}
			ms = append(ms, fmt.Sprintf("at the exit %s %s", p.Pos(e.Pos), what))
		}
	}
	for _, b := range bad {
		ms = append(ms, "body written before the status at "+p.Pos(b))
	}
	for _, at := range condCallsBranchedOn(info, hu, conds) {
		okAll = false
		ms = append(ms, "a helper that answers only on some paths is called at "+p.Pos(at)+" without branching on its result")
	}
	r.Check(okAll, rule, hu.Name+": exactly one status per request", p.Pos(hu.Node.Pos()), fmt.Sprintf("%d exits, each after exactly one WriteHeader", len(exits)), strings.Join(ms, "; "))
	r.Count("handler exits", len(exits))
	return helpers, conds, g
}

// CountOf is a status count with a presence flag.
type CountOf struct {
	N  int
	Ok bool
}

package checks

import (
	"golang.org/x/tools/go/ssa"

	"fmt"
	"go/ast"
	"go/token"
	"go/types"
	"sort"
	"strings"

	"verif/sa/internal/core"
	"verif/sa/internal/flow"
	"verif/sa/internal/tf"
)

func init() { Registry["C10"] = Check{Run: checkC10} }

// proofType finds the in-repo proof wrapper: the first result type of the prover methods.
func proofType(p *core.Program) *types.Named {
	ps := provingSystemType(p)
	if ps == nil {
		return nil
	}
	for _, fn := range p.RepoFuncs() {
		if fn.Signature.Recv() != nil && namedOf(fn.Signature.Recv().Type()) == ps && fn.Signature.Results().Len() == 2 && witnessCircuitType(fn) != nil {
			if n := namedOf(fn.Signature.Results().At(0).Type()); n != nil && inRepoObj(n.Obj()) {
				return n
			}
		}
	}
	return nil
}

// hexEncodingOf recognises the encoder idiom "0x" + big.Int(SetBytes(chunk)).Text(16) and returns the chunk.
func hexEncodingOf(t *tf.Term) (*tf.Term, string) {
	x, why := hexOfBig(t)
	if x == nil {
		return nil, why
	}
	if !(x.K == tf.KCall && strings.HasSuffix(x.Name, "math/big.Int).SetBytes") && len(x.Args) == 2) {
		return nil, "the rendered integer is not SetBytes of a chunk: " + describe(x)
	}
	return x.Args[1], ""
}

// chunkIndex: t == raw[32k:32k+32] → k.
func chunkIndex(t, raw *tf.Term) (int64, bool) {
	if t.K != tf.KSub || !tf.Eq(t.Args[0], raw) {
		return 0, false
	}
	lo, ok1 := tf.IntConst(t.Args[1])
	if t.Args[1].K == tf.KNil {
		lo, ok1 = 0, true
	}
	hi, ok2 := tf.IntConst(t.Args[2])
	if !ok1 || !ok2 || lo%32 != 0 || hi != lo+32 {
		return 0, false
	}
	return lo / 32, true
}

// flattenSlots lists the leaves of a (nested) array-valued term with their paths: F[0], F[1][0] …
func flattenSlots(prefix string, t *tf.Term, out map[string]*tf.Term) {
	if t.K == tf.KSeq {
		for i, p := range t.Args {
			if p.K == tf.KElem {
				flattenSlots(fmt.Sprintf("%s[%d]", prefix, i), p.Args[0], out)
			}
		}
		return
	}
	out[prefix] = t
}

func checkC10(p *core.Program, r *core.Report) {
	statementOrder := []string{"ar[0]", "ar[1]", "bs[0][0]", "bs[0][1]", "bs[1][0]", "bs[1][1]", "krs[0]", "krs[1]"}
	r.Explanation = "Proof JSON — structural part: (O10.1) the encoder renders chunk k = raw[32k:32k+32] of the proof's *raw* (uncompressed) serialisation as \"0x\"+hex of the big-endian integer and puts it in JSON slot σ(k), σ = (ar[0], ar[1], bs[0][0], bs[0][1], bs[1][0], bs[1][1], krs[0], krs[1]) — the identity order of the statement " +
		"(gnark's raw order A.x, A.y, B.x1, B.x0, B.y1, B.y0, C.x, C.y is trusted); (O10.2) the decoder reads the same slots in the same order (sibling agreement: σ_dec = σ_enc); " +
		"(O10.3) every decoded coordinate is placed right-aligned at fixed width 32 in slot [32k, 32k+32) of the buffer handed to the proof's ReadFrom (FillBytes into that sub-slice, after rejecting values that do not fit) — copy(dst, x.Bytes()) is value-width and left-aligned; " +
		"(O10.4) parse and read errors propagate; (O10.5) the CLI prove site marshals a value exposing MarshalJSON and verify decodes into the proof type. " +
		"O10.3 exposed a genuine defect on the original tree, repaired by a fix: commit (known_findings.txt). Not decided: that the decoded proof verifies; gnark's coordinate order."
	r.Rule("O10.1", "encoder: raw serialisation, chunk k → \"0x\"+hex → JSON slot σ(k) in the statement's order")
	r.Rule("O10.2", "decoder reads the slots in the encoder's order")
	r.Rule("O10.3", "decoder: coordinate k right-aligned at fixed width 32 in bytes [32k, 32k+32) of the buffer that is parsed")
	r.Rule("O10.4", "decoder errors (number parsing, range, ReadFrom) propagate")
	r.Rule("O10.6", "decoder range tests: Sign() < 0 (present, strict) and BitLen() > 256 — nothing else refuses a coordinate")
	r.Rule("O10.7", "the decoded proof object is created (groth16.NewProof) by this call on every path before ReadFrom")
	r.Rule("O10.8", "the number parser the decoder uses for each coordinate (imported from C16 O16.3/O16.4): big.Int.SetString on every path, failure exactly on !ok, prefix convention compatible with the encoder")
	r.Rule("O10.9", "verify hands the decoder the whole document read from stdin (no size cap, no single line): every encoding the encoder can emit, with the framing prove adds, is decoded")
	r.Rule("O10.5", "CLI: prove marshals through MarshalJSON; verify decodes into the proof type")
	r.Trusted = append(r.Trusted, "gnark Proof.WriteRawTo order A.x A.y B.x1 B.x0 B.y1 B.y0 C.x C.y, 32 bytes each; ReadFrom accepts that encoding", "math/big SetBytes/Text/FillBytes", "encoding/json struct tags")
	r.NotDecided = append(r.NotDecided, "that the decoded proof verifies", "gnark's coordinate order")

	pt := proofType(p)
	if pt == nil {
		r.Violation("O10.1", "proof type", "-", "cannot discover the proof wrapper type from the prover methods")
		return
	}
	eng := tf.NewEngine(core.InRepo, 6)
	enc := p.MethodOf(pt, "MarshalJSON")
	dec := p.MethodOf(pt, "UnmarshalJSON")
	if enc == nil || dec == nil || enc.Blocks == nil || dec.Blocks == nil {
		r.Violation("O10.1", typeKey(pt)+": MarshalJSON/UnmarshalJSON", "-", "the proof type lacks a custom JSON codec: the default encoding does not list the EVM-order coordinates")
		return
	}
	r.AnalysedFn(core.FuncName(enc), core.FuncName(dec))
	// ---- encoder
	eev := eng.NewEval(enc)
	var raw, marshalArg, rawBuf *tf.Term
	var rawInstr ssa.Instruction
	rawIsRaw := false
	var wireT *types.Named
	for _, e := range eev.Events() {
		t := e.Term
		switch {
		case t.K == tf.KCall && (strings.HasSuffix(t.Name, ").WriteRawTo") || strings.HasSuffix(t.Name, ").WriteTo")) && len(t.Args) == 2:
			rawIsRaw = strings.HasSuffix(t.Name, ").WriteRawTo")
			rawBuf, rawInstr = t.Args[1], e.Instr
			// the buffer
			for _, e2 := range eev.Events() {
				if callNameHasSuffix(e2.Term, "bytes.Buffer).Bytes") && tf.Eq(e2.Term.Args[0], t.Args[1]) {
					raw = e2.Term
				}
			}
		case callNameHasSuffix(t, "encoding/json.Marshal") && len(t.Args) == 1:
			marshalArg = eev.Resolve(t.Args[0])
			// a conversion helper returning (wire, error): on the path that reaches json.Marshal the error was nil, so the
			// zero value of the helper's failing return is not what is marshalled
			for marshalArg.K == tf.KIte && len(marshalArg.Args) == 3 && strings.Contains(describe(marshalArg.Args[0]), "!= nil") && marshalArg.Args[1].K == tf.KZero {
				marshalArg = eev.Resolve(marshalArg.Args[2])
			}
			if marshalArg.K == tf.KRecord {
				wireT = namedOf(marshalArg.Type)
			}
		}
	}
	ename := core.FuncName(enc)
	if raw == nil {
		r.Violation("O10.1", ename+": raw serialisation", p.Pos(enc.Pos()), "the encoder does not serialise the proof into a bytes.Buffer with WriteRawTo")
		return
	}
	// the buffer starts empty: a fresh local bytes.Buffer, or one that is Reset before the proof is written into it (a
	// recycled buffer still holds the previous proof's bytes, and the chunks are cut from its start)
	emptyBuf := rawBuf != nil && (rawBuf.K == tf.KAlloc || rawBuf.K == tf.KZero)
	if !emptyBuf && rawBuf != nil {
		for _, e2 := range eev.Events() {
			if callNameHasSuffix(e2.Term, "bytes.Buffer).Reset") && len(e2.Term.Args) == 1 && tf.Eq(e2.Term.Args[0], rawBuf) && instrBefore(e2.OuterInstr(), rawInstr) {
				// (a Reset inside an inlined helper such as getScratchBuffer() is ordered by its call site, and must lie on
				// every path of that helper)
				if on, inLoop := e2.OnEveryPathToReturn(); on || (!inLoop && e2.Instr == e2.OuterInstr()) {
					emptyBuf = true
				}
			}
		}
	}
	r.Check(emptyBuf, "O10.1", ename+": serialisation buffer starts empty", p.Pos(enc.Pos()), "the proof is written into a fresh (or Reset) buffer", "the proof is written into "+describe(rawBuf)+", which is neither a fresh local buffer nor Reset first: with a recycled buffer the eight chunks are cut from an earlier proof's bytes")
	r.Check(rawIsRaw, "O10.1", ename+": raw serialisation", p.Pos(enc.Pos()), "proof.WriteRawTo(&buf): uncompressed affine coordinates", "the encoder uses the compressed WriteTo serialisation: the chunks are not the eight affine coordinates")
	if marshalArg == nil || marshalArg.K != tf.KRecord || wireT == nil {
		r.Violation("O10.1", ename+": JSON document", p.Pos(enc.Pos()), "the encoder does not marshal a struct of coordinate slots (got %s)", describe(marshalArg))
		return
	}
	keys := jsonKeys(wireT)
	encSlots := map[string]*tf.Term{}
	for i, n := range marshalArg.Names {
		flattenSlots(keys[n], marshalArg.Args[i], encSlots)
	}
	sigmaEnc := map[int64]string{}
	var encBad []string
	for slot, t := range encSlots {
		chunk, why := hexEncodingOf(t)
		if chunk == nil {
			encBad = append(encBad, slot+": "+why)
			continue
		}
		k, ok := chunkIndex(chunk, raw)
		if !ok {
			encBad = append(encBad, slot+": rendered bytes "+describe(chunk)+" are not a 32-byte chunk raw[32k:32k+32]")
			continue
		}
		if prev, dup := sigmaEnc[k]; dup {
			encBad = append(encBad, fmt.Sprintf("chunk %d goes to both %s and %s", k, prev, slot))
		}
		sigmaEnc[k] = slot
	}
	sort.Strings(encBad)
	r.Count("encoder slots", len(encSlots))
	var encOrder []string
	okOrder := len(sigmaEnc) == 8 && len(encBad) == 0
	for k := int64(0); k < 8; k++ {
		encOrder = append(encOrder, sigmaEnc[k])
		if sigmaEnc[k] != statementOrder[k] {
			okOrder = false
		}
	}
	r.Check(okOrder, "O10.1", ename+": chunk → slot table", p.Pos(enc.Pos()), "σ = "+strings.Join(encOrder, ", "),
		fmt.Sprintf("encoder table is [%s], statement order is [%s]; %s", strings.Join(encOrder, ", "), strings.Join(statementOrder, ", "), strings.Join(encBad, "; ")))

	// ---- decoder
	dev := eng.NewEval(dec)
	dname := core.FuncName(dec)
	var wire *tf.Term
	for _, e := range dev.Events() {
		if callNameHasSuffix(e.Term, "encoding/json.Unmarshal") && len(e.Term.Args) == 2 {
			wire = e.Term.Args[1]
		}
	}
	if wire == nil || wire.K != tf.KAlloc || namedOf(dev.AllocType(wire)) != wireT {
		r.Violation("O10.2", dname+": wire struct", p.Pos(dec.Pos()), "the decoder does not decode into the encoder's wire struct %s", typeKey(wireT))
		return
	}
	// parse events: SetString(INTS[i], HEX[i], base)
	var ints, hexSeq *tf.Term
	var parseLoop *tf.Loop
	var fills []tf.Event
	var copies []tf.Event
	var readFrom *tf.Term
	for _, e := range dev.Events() {
		t := dev.Resolve(e.Term)
		switch {
		case callNameHasSuffix(t, "math/big.Int).SetString") && len(t.Args) == 3:
			d, s := t.Args[0], t.Args[1]
			if d.K == tf.KIdx && s.K == tf.KIdx && d.Args[1].K == tf.KIndVar && tf.Eq(d.Args[1], s.Args[1]) {
				ints, hexSeq, parseLoop = d.Args[0], s.Args[0], d.Args[1].Loop
			}
		case callNameHasSuffix(t, "math/big.Int).FillBytes"):
			e.Term = t
			fills = append(fills, e)
		case t.K == tf.KCall && t.Name == "builtin.copy":
			e.Term = t
			copies = append(copies, e)
		case t.K == tf.KCall && strings.HasSuffix(t.Name, ").ReadFrom") && len(t.Args) == 2:
			readFrom = t
		}
	}
	if ints == nil || hexSeq == nil || hexSeq.K != tf.KSeq {
		r.Undecided("O10.2", dname+": slot table", p.Pos(dec.Pos()), "cannot recognise the loop parsing slot i of a literal slot table into integer i")
		return
	}
	if n, ok := loopRangeZeroTo(parseLoop); !ok || !isConstInt(n, 8) {
		r.Violation("O10.2", dname+": slot table", p.Pos(dec.Pos()), "the parse loop does not run over the 8 slots")
	}
	var decOrder []string
	for _, el := range hexSeq.Args {
		if el.K != tf.KElem {
			continue
		}
		f, idx, ok := pathBelow(el.Args[0], wire)
		if !ok {
			decOrder = append(decOrder, "?"+describe(el.Args[0]))
			continue
		}
		s := keys[f]
		for _, i := range idx {
			s += "[" + i + "]"
		}
		decOrder = append(decOrder, s)
	}
	r.Count("decoder slots", len(decOrder))
	r.Check(strings.Join(decOrder, ", ") == strings.Join(encOrder, ", "), "O10.2", dname+": slot table equals the encoder's", p.Pos(dec.Pos()), "σ_dec = "+strings.Join(decOrder, ", "),
		fmt.Sprintf("decoder reads [%s] but the encoder writes [%s]", strings.Join(decOrder, ", "), strings.Join(encOrder, ", ")))
	// placement
	var buf *tf.Term
	if readFrom != nil {
		rd := readFrom.Args[1]
		if (callNameHasSuffix(rd, "bytes.NewReader") || callNameHasSuffix(rd, "bytes.NewBuffer")) && len(rd.Args) == 1 {
			buf = rd.Args[0]
			for buf.K == tf.KSub && (buf.Args[1].K == tf.KNil || isConstInt(buf.Args[1], 0)) {
				if n, ok := tf.IntConst(buf.Args[2]); ok && n == 256 || buf.Args[2].K == tf.KNil {
					buf = buf.Args[0]
				} else {
					break
				}
			}
		}
	}
	if buf == nil {
		r.Violation("O10.3", dname+": parsed buffer", p.Pos(dec.Pos()), "the decoder does not parse a byte buffer with the proof's ReadFrom(bytes.NewReader(buffer))")
		return
	}
	stripFull := func(t *tf.Term) *tf.Term {
		for t.K == tf.KSub && (t.Args[1].K == tf.KNil || isConstInt(t.Args[1], 0)) && (t.Args[2].K == tf.KNil || isConstInt(t.Args[2], 256)) {
			t = t.Args[0]
		}
		return t
	}
	placed := false
	var why []string
	rangeTested := func(x *tf.Term, at interface{ Block() *ssa.BasicBlock }) bool {
		for _, e := range dev.Events() {
			if callNameHasSuffix(e.Term, "math/big.Int).BitLen") && len(e.Term.Args) == 1 && tf.Eq(dev.Resolve(e.Term.Args[0]), x) && e.Instr.Block().Dominates(at.Block()) {
				return true
			}
		}
		return false
	}
	for _, c := range copies {
		if len(c.Term.Args) == 2 {
			// copy(buf[32(i+1)-len(b) : 32(i+1)], b) with b = ints[i].Bytes(), after a range test: right-aligned in a zeroed slot
			if src, ok := bigBytesOf(c.Term.Args[1]); ok {
				dst := c.Term.Args[0]
				okSlot := false
				if dst.K == tf.KSub && tf.Eq(stripFull(dst.Args[0]), stripFull(buf)) && src.K == tf.KIdx && tf.Eq(src.Args[0], ints) && src.Args[1].K == tf.KIndVar {
					iv := src.Args[1]
					lo, hi := dst.Args[1], dst.Args[2]
					n, okN := loopRangeZeroTo(iv.Loop)
					if okN && isConstInt(n, 8) && tf.Eq(hi, tf.AffAdd(tf.AffScale(iv, 32), tf.ConstInt(32), 1)) && tf.Eq(tf.AffAdd(hi, lo, -1), tf.Len(c.Term.Args[1])) &&
						isFreshBuffer(stripFull(buf)) && rangeTested(src, c.Instr) {
						okSlot = true
					}
				}
				if okSlot {
					placed = true
					continue
				}
			}
			if _, ok := bigBytesOf(c.Term.Args[1]); ok {
				why = append(why, fmt.Sprintf("copy(dst, x.Bytes()) at %s places a byte string whose length depends on the value (leading zero bytes are dropped); unless dst is exactly the right-aligned tail of a zeroed slot the coordinate is shifted — only FillBytes into the 32-byte slot is recognised as fixed-width right-aligned placement", p.Pos(c.Instr.Pos())))
			} else {
				why = append(why, fmt.Sprintf("copy at %s: placement idiom not recognised (%s)", p.Pos(c.Instr.Pos()), describe(c.Term)))
			}
		}
	}
	for _, f := range fills {
		t := f.Term
		if len(t.Args) != 2 {
			continue
		}
		src, dst := t.Args[0], t.Args[1]
		okSrc := src.K == tf.KIdx && tf.Eq(src.Args[0], ints) && src.Args[1].K == tf.KIndVar
		if !okSrc {
			why = append(why, "FillBytes of "+describe(src)+", not of parsed integer i")
			continue
		}
		iv := src.Args[1]
		n, okN := loopRangeZeroTo(iv.Loop)
		if !okN || !isConstInt(n, 8) {
			why = append(why, "the placement loop does not run over the 8 coordinates")
			continue
		}
		// dst = buf[32i : 32i+32]
		if dst.K != tf.KSub || !tf.Eq(stripFull(dst.Args[0]), stripFull(buf)) {
			why = append(why, "FillBytes writes into "+describe(dst)+", not into a slot of the buffer that is parsed")
			continue
		}
		lo, hi := dst.Args[1], dst.Args[2]
		if !tf.Eq(lo, tf.AffScale(iv, 32)) {
			why = append(why, "slot starts at "+describe(lo)+", not 32·i")
			continue
		}
		if d, ok := tf.AffDiff(hi, lo); !ok || d != 32 {
			why = append(why, "slot ["+describe(lo)+":"+describe(hi)+"] is not 32 bytes wide")
			continue
		}
		placed = true
	}
	r.Count("coordinate placements", len(fills)+len(copies))
	if placed && len(why) == 0 {
		r.OK("O10.3", dname+": fixed-width right-aligned placement", p.Pos(dec.Pos()), "ints[i].FillBytes(buf[32i:32i+32]) for i in 0..7; buf parsed by ReadFrom")
	} else {
		if len(why) == 0 {
			why = append(why, "no recognised fixed-width placement of the parsed coordinates into the parsed buffer")
		}
		r.Violation("O10.3", dname+": fixed-width right-aligned placement", p.Pos(dec.Pos()), "%s", strings.Join(why, "; "))
	}
	// FillBytes panics on overflow: a range test must dominate it (else a crafted document crashes the decoder)
	for _, f := range fills {
		guarded := false
		for _, e := range dev.Events() {
			if callNameHasSuffix(e.Term, "math/big.Int).BitLen") && len(e.Term.Args) == 1 && tf.Eq(dev.Resolve(e.Term.Args[0]), f.Term.Args[0]) {
				if e.Instr.Block().Dominates(f.Instr.Block()) {
					guarded = true
				}
			}
		}
		r.Check(guarded, "O10.3", dname+": range test before FillBytes", p.Pos(f.Instr.Pos()), "BitLen test dominates FillBytes (no panic on oversized coordinates)", "FillBytes panics when the value needs more than 32 bytes and no BitLen test dominates it")
	}
	// O10.6: the decoder refuses a coordinate exactly when it is negative or wider than 32 bytes. A sign test must be
	// there (FillBytes and BitLen use the absolute value: "-0x…" would decode to the original proof) and must be strict
	// (zero is a coordinate of the point at infinity); the width test must be BitLen() > 256.
	// (the decoding may be split into the method and unexported helpers of the same type: fromJSON, packProofWords)
	decFns := []*ssa.Function{dec}
	{
		seen := map[*ssa.Function]bool{dec: true}
		for i := 0; i < len(decFns) && i < 8; i++ {
			for _, b := range decFns[i].Blocks {
				for _, in := range b.Instrs {
					if c, ok := in.(*ssa.Call); ok {
						if sc := c.Common().StaticCallee(); sc != nil && !seen[sc] && len(sc.Blocks) > 0 && sc.Pkg == dec.Pkg && sc.Name() != "fromHex" {
							seen[sc] = true
							decFns = append(decFns, sc)
						}
					}
				}
			}
		}
	}
	checkProofRangeTests(p, r, decFns, dname)
	// O10.7: the proof object the bytes are read into is created by this call, unconditionally: decoding in place into
	// whatever the receiver already holds rewrites every earlier copy of that Proof value
	checkFreshProofObject(p, r, decFns, dname)
	// O10.4 errors
	ix := indexFuncs(p)
	if obj, ok := dec.Object().(*types.Func); ok {
		if u, ok := ix.decls[obj]; ok {
			info := u.Pkg.TypesInfo
			sites := flow.Analyse(u, flow.Config{Select: func(call *ast.CallExpr, callee types.Object) bool { return hasErrorResult(info, call) }})
			ord := map[string]int{}
			for _, s := range sites {
				if s.Form == "noerror" {
					continue
				}
				cn := siteConstruct(u, s, ord)
				r.Count("decoder error sites", 1)
				if len(s.Findings) == 0 {
					r.OK("O10.4", cn, p.Pos(s.Pos), "error propagated on every path")
				} else {
					r.Violation("O10.4", cn, p.Pos(s.Pos), "%s", findingsText(p, s))
				}
			}
		}
	}
	// O10.5 CLI: on SSA, so that the sites are found inside helpers and generic decode functions (instances carry the
	// concrete type)
	mainPath := ""
	if mp := p.Pkg(""); mp != nil {
		mainPath = mp.PkgPath
	}
	unitName := map[*ssa.Function]string{}
	for _, c := range cliCommands(p) {
		if a := actionSSA(p, c); a != nil {
			unitName[a] = "main.cmd:" + c.Name
		}
	}
	for _, fn := range repoFuncsAndInstances(p) {
		if pkgPathOf(fn) != mainPath {
			continue
		}
		un := unitName[fn]
		if un == "" {
			un = "main." + fn.Name()
		}
		for _, b := range fn.Blocks {
			for _, in := range b.Instrs {
				call, ok := in.(*ssa.Call)
				if !ok || call.Common().StaticCallee() == nil {
					continue
				}
				argT := func(k int) types.Type {
					if k >= len(call.Common().Args) {
						return nil
					}
					a := call.Common().Args[k]
					if mi, isMI := a.(*ssa.MakeInterface); isMI {
						return mi.X.Type()
					}
					return a.Type()
				}
				switch call.Common().StaticCallee().String() {
				case "encoding/json.Marshal":
					if t := argT(0); t != nil && baseNamed(t) == pt {
						r.Count("CLI proof codec sites", 1)
						r.Check(hasMethod(t, "MarshalJSON"), "O10.5", un+": json.Marshal(proof)", p.Pos(call.Pos()), "argument exposes MarshalJSON", "argument type "+t.String()+" hides the pointer-receiver MarshalJSON")
					}
				case "encoding/json.Unmarshal":
					if t := argT(1); t != nil && baseNamed(t) == pt {
						r.Count("CLI proof codec sites", 1)
						_, isPtr := types.Unalias(t).(*types.Pointer)
						r.Check(isPtr && hasMethod(t, "UnmarshalJSON"), "O10.5", un+": json.Unmarshal into proof", p.Pos(call.Pos()), "decodes through UnmarshalJSON", "destination does not expose UnmarshalJSON")
					}
				}
			}
		}
	}
	// O10.8: the coordinate parser is the one C16 governs (SetString on every path, failure ⇔ !ok, radix convention)
	importRule(p, r, "O10.8", "C16", "O16.4", "each coordinate is parsed by big.Int.SetString with a prefix convention compatible with the encoder's")
	importRule(p, r, "O10.8", "C16", "O16.3", "the coordinate parser fails exactly when SetString reports failure")
	// O10.9: verify decodes the whole document it is given
	for _, c := range cliCommands(p) {
		if c.Name != "verify" {
			continue
		}
		if a := actionSSA(p, c); a != nil {
			r.Count("verify documents decoded", checkWholeDocument(p, r, "O10.9", "main.cmd:verify", a))
		}
	}
	r.Floor("verify documents decoded", 1)
	r.Floor("encoder slots", 8)
	r.Floor("decoder slots", 8)
	r.Floor("coordinate placements", 1)
	r.Floor("decoder error sites", 2)
	r.Floor("CLI proof codec sites", 2)
}

func baseNamed(t types.Type) *types.Named {
	for {
		pt, ok := types.Unalias(t).(*types.Pointer)
		if !ok {
			break
		}
		t = pt.Elem()
	}
	n, _ := types.Unalias(t).(*types.Named)
	return n
}

// isFreshBuffer: a locally allocated byte buffer (all zero until written here).
func isFreshBuffer(t *tf.Term) bool {
	if t.K == tf.KMake || t.K == tf.KAlloc {
		return true
	}
	if t.K == tf.KCall && t.Name == "zeros" {
		return true
	}
	_, ok := freshZeroBytes(t)
	return ok
}

func checkProofRangeTests(p *core.Program, r *core.Report, decFns []*ssa.Function, dname string) {
	var probs []string
	nSign, nLen := 0, 0
	dec := decFns[0]
	var blocks []*ssa.BasicBlock
	for _, f := range decFns {
		blocks = append(blocks, f.Blocks...)
	}
	for _, b := range blocks {
		iff, ok := b.Instrs[len(b.Instrs)-1].(*ssa.If)
		if !ok {
			continue
		}
		bo, ok := iff.Cond.(*ssa.BinOp)
		if !ok {
			continue
		}
		method := func(v ssa.Value) string {
			if c, ok := v.(*ssa.Call); ok {
				if f := c.Common().StaticCallee(); f != nil && f.Signature.Recv() != nil && isBigIntType(f.Signature.Recv().Type()) {
					return f.Name()
				}
			}
			return ""
		}
		op, x, y := bo.Op, bo.X, bo.Y
		m := method(x)
		if m == "" {
			if m = method(y); m != "" {
				x, y = y, x
				op = flipCmpTok(op)
			}
		}
		if m == "" {
			continue
		}
		k, isC := y.(*ssa.Const)
		if !isC || k.Value == nil {
			probs = append(probs, "the "+m+"() test at "+p.Pos(iff.Cond.Pos())+" compares with a non-constant")
			continue
		}
		c := constantInt(k.Value)
		switch m {
		case "Sign":
			nSign++
			// accepted spellings of "negative": Sign() < 0, Sign() <= -1, Sign() == -1 (and their negations on the other edge)
			okForm := (op == token.LSS && c == 0) || (op == token.LEQ && c == -1) || (op == token.EQL && c == -1) || (op == token.GEQ && c == 0) || (op == token.GTR && c == -1) || (op == token.NEQ && c == -1)
			if !okForm {
				probs = append(probs, fmt.Sprintf("the sign test at %s is Sign() %s %d: it must single out negative values only (zero is a coordinate of the point at infinity)", p.Pos(iff.Cond.Pos()), op, c))
			}
		case "BitLen":
			nLen++
			okForm := (op == token.GTR && c == 256) || (op == token.GEQ && c == 257) || (op == token.LEQ && c == 256) || (op == token.LSS && c == 257)
			if !okForm {
				probs = append(probs, fmt.Sprintf("the width test at %s is BitLen() %s %d, not BitLen() > 256", p.Pos(iff.Cond.Pos()), op, c))
			}
		case "Cmp", "CmpAbs", "IsInt64", "IsUint64", "Bit", "ProbablyPrime":
			probs = append(probs, "a further test on the parsed coordinate ("+m+") at "+p.Pos(iff.Cond.Pos())+" can refuse values the encoder emits")
		}
	}
	if nSign == 0 {
		probs = append(probs, "no sign test: a negated coordinate (\"-0x…\") is placed by its absolute value and decodes to the original proof")
	}
	if nLen == 0 {
		probs = append(probs, "no width test")
	}
	r.Check(len(probs) == 0, "O10.6", dname+": range tests", p.Pos(dec.Pos()), fmt.Sprintf("%d sign test(s) for negative only, %d width test(s) BitLen() > 256", nSign, nLen), strings.Join(probs, "; "))
}

func checkFreshProofObject(p *core.Program, r *core.Report, decFns []*ssa.Function, dname string) {
	var readFrom *ssa.Call
	dec := decFns[0]
	for _, f := range decFns {
		for _, b := range f.Blocks {
			for _, in := range b.Instrs {
				if c, ok := in.(*ssa.Call); ok && c.Common().IsInvoke() && c.Common().Method.Name() == "ReadFrom" {
					readFrom = c
					dec = f
				}
			}
		}
	}
	if readFrom == nil {
		return // O10.3 reports the missing ReadFrom
	}
	ld, ok := readFrom.Common().Value.(*ssa.UnOp)
	var fa *ssa.FieldAddr
	if ok {
		fa, _ = ld.X.(*ssa.FieldAddr)
	}
	if fa == nil {
		// a local proof object: fine when it is the NewProof result itself
		if c, ok := readFrom.Common().Value.(*ssa.Call); ok && c.Common().StaticCallee() != nil && strings.HasSuffix(c.Common().StaticCallee().String(), "groth16.NewProof") {
			r.OK("O10.7", dname+": fresh proof object", p.Pos(readFrom.Pos()), "ReadFrom on the result of groth16.NewProof")
			return
		}
		r.Undecided("O10.7", dname+": fresh proof object", p.Pos(readFrom.Pos()), "cannot tell which object ReadFrom fills")
		return
	}
	fresh := false
	for _, b := range dec.Blocks {
		for _, in := range b.Instrs {
			st, ok := in.(*ssa.Store)
			if !ok {
				continue
			}
			sfa, ok := st.Addr.(*ssa.FieldAddr)
			if !ok || sfa.X != fa.X || sfa.Field != fa.Field {
				continue
			}
			c, isCall := st.Val.(*ssa.Call)
			if isCall && c.Common().StaticCallee() != nil && strings.HasSuffix(c.Common().StaticCallee().String(), "groth16.NewProof") && instrBefore(st, readFrom) {
				fresh = true
			}
		}
	}
	r.Check(fresh, "O10.7", dname+": fresh proof object", p.Pos(readFrom.Pos()), "p.Proof = groth16.NewProof(…) precedes ReadFrom on every path",
		"the object ReadFrom fills is not unconditionally a new one: decoding into a receiver that already holds a proof overwrites that object in place, and with it every copy of the Proof value taken earlier")
}

package checks

import (
	"fmt"
	"go/types"
	"sort"
	"strings"

	"golang.org/x/tools/go/ssa"

	"verif/sa/internal/core"
)

// checkDecoderFillsOnEveryPath (O16.1, path part): the copy graph says *which* wire field fills which parameter field; this
// says that the fill happens on every path on which the decoder can report success. A field that is parsed from the
// document on one branch and left alone, defaulted or derived on another ("inputHash is optional: when it is empty it is
// computed") accepts a document in which that field is not a number.
//
// Decided on SSA: a fill site of field F is a store to p.F (or to an element of it) or a call that is handed an address
// inside p.F (fromHex(&p.F, …), (*big.Int).SetString(&p.F[i], …)); every return of the decoder whose error is not
// certainly non-nil must be dominated by (or share its block with) a fill site of every field that has one. A decoder that
// delegates (`return p.fromJSON(&wire)`) is judged in the function it delegates to.
func checkDecoderFillsOnEveryPath(p *core.Program, r *core.Report, tn string, dec *ssa.Function, depth int) {
	if dec == nil || len(dec.Blocks) == 0 || len(dec.Params) == 0 || depth > 3 {
		return
	}
	recv := dec.Params[0]
	st := structOf(recv.Type())
	if st == nil {
		return
	}
	// root field of an address below the receiver
	var fieldBelow func(v ssa.Value, d int) (string, bool)
	fieldBelow = func(v ssa.Value, d int) (string, bool) {
		if d > 8 {
			return "", false
		}
		switch x := v.(type) {
		case *ssa.FieldAddr:
			if x.X == ssa.Value(recv) {
				return st.Field(x.Field).Name(), true
			}
			return fieldBelow(x.X, d+1)
		case *ssa.IndexAddr:
			return fieldBelow(x.X, d+1)
		case *ssa.UnOp:
			return fieldBelow(x.X, d+1)
		case *ssa.Slice:
			return fieldBelow(x.X, d+1)
		}
		return "", false
	}
	type site struct {
		b *ssa.BasicBlock
	}
	fills := map[string][]site{}
	parsed := map[string]bool{} // fields with a fill site that is a call (a parse that can fail), as opposed to plain copies
	var delegates []*ssa.Function
	for _, b := range dec.Blocks {
		for _, in := range b.Instrs {
			switch x := in.(type) {
			case *ssa.Store:
				if f, ok := fieldBelow(x.Addr, 0); ok {
					fills[f] = append(fills[f], site{b})
				}
			case ssa.CallInstruction:
				for j, a := range x.Common().Args {
					if f, ok := fieldBelow(a, 0); ok {
						if _, isAddr := a.Type().Underlying().(*types.Pointer); isAddr {
							fills[f] = append(fills[f], site{b})
							parsed[f] = true
						}
					}
					// the receiver itself handed to an in-repo method/function together with the decoded document
					if a == ssa.Value(recv) && j == 0 {
						if sc := x.Common().StaticCallee(); sc != nil && len(sc.Blocks) > 0 && core.InRepo(pkgPathOf(sc)) && len(x.Common().Args) > 1 {
							delegates = append(delegates, sc)
						}
					}
				}
			}
		}
	}
	if len(fills) == 0 {
		for _, d := range delegates {
			checkDecoderFillsOnEveryPath(p, r, tn, d, depth+1)
		}
		return
	}
	// only fields that are *parsed* are judged: a plain copy (p.StartIndex = wire.StartIndex) cannot fail, and a decoder
	// in the sticky-error style guards it with "no error so far", which no dominance argument sees through
	var fields []string
	for f := range fills {
		if parsed[f] {
			fields = append(fields, f)
		}
	}
	sort.Strings(fields)
	var bad []string
	nRet := 0
	for _, b := range dec.Blocks {
		ret, ok := b.Instrs[len(b.Instrs)-1].(*ssa.Return)
		if !ok || provablyErrorReturn(ret) || b == dec.Recover {
			continue
		}
		nRet++
		var missing []string
		for _, f := range fields {
			covered := false
			for _, s := range fills[f] {
				if s.b == b || s.b.Dominates(b) {
					covered = true
				}
			}
			if !covered {
				missing = append(missing, f)
			}
		}
		if len(missing) > 0 {
			bad = append(bad, fmt.Sprintf("the return at %s can report success although %s was not filled from the document on the way to it", p.Pos(ret.Pos()), strings.Join(missing, ", ")))
		}
	}
	sort.Strings(bad)
	cn := tn + "." + dec.Name() + ": every field is filled on every success path"
	if len(bad) == 0 {
		r.OK("O16.1", cn, p.Pos(dec.Pos()), "%d field(s) filled before each of the %d return(s) that can report success", len(fields), nRet)
	} else {
		r.Violation("O16.1", cn, p.Pos(dec.Pos()), "%s: a document whose value for that field is absent or not a number is accepted", strings.Join(bad, "; "))
	}
}

func structOf(t types.Type) *types.Struct {
	if pt, ok := types.Unalias(t).(*types.Pointer); ok {
		t = pt.Elem()
	}
	s, _ := types.Unalias(t).Underlying().(*types.Struct)
	return s
}

package checks

import (
	"fmt"
	"go/token"
	"strings"

	"golang.org/x/tools/go/ssa"

	"verif/sa/internal/core"
	"verif/sa/internal/tf"
)

func init() { Registry["C06"] = Check{Run: checkC06} }

// packRoles: the bit-encoding gadgets discovered from a circuit's Define.
type packRoles struct {
	Packer     *gadgetInfo
	PackVal    string // packer field holding the value
	PackSize   string // packer field holding the width
	Reduced    *gadgetInfo
	ReducedIn  string // reducedness gadget field holding the bits
	Unpacker   *gadgetInfo
	UnpackBits string
}

// byteReversal checks that seq is [∀L{ src[i:i+8]... }] with i running len(src)-8, len(src)-16, … ≥ 0.
func byteReversal(seq, src *tf.Term) (ok bool, why string) {
	if seq == nil || seq.K != tf.KSeq || len(seq.Args) != 1 || seq.Args[0].K != tf.KStar {
		return false, "the emitted sequence is not a single loop of appended groups: " + describe(seq)
	}
	star := seq.Args[0]
	if len(star.Args) != 1 || star.Args[0].K != tf.KSplice {
		return false, "each iteration does not append one contiguous group: " + describe(star)
	}
	sub := star.Args[0].Args[0]
	if sub.K != tf.KSub || !tf.Eq(sub.Args[0], src) {
		return false, "the appended group is not a sub-slice of the decomposed bits: " + describe(sub)
	}
	l := star.Loop
	if l == nil || l.IV == nil {
		return false, "the loop has no recognised induction variable"
	}
	iv := &tf.Term{K: tf.KIndVar, Loop: l, Phi: l.IV}
	lo, hi := sub.Args[1], sub.Args[2]
	if !tf.Eq(lo, iv) {
		return false, "group start is " + describe(lo) + ", not the loop index"
	}
	if d, ok := tf.AffDiff(hi, iv); !ok || d != 8 {
		return false, "group is not 8 bits wide: [" + describe(lo) + ":" + describe(hi) + "]"
	}
	rng, okR := l.Range(iv)
	if !okR {
		return false, "loop range not recognised (break, or non-affine index)"
	}
	if d, ok := tf.AffDiff(rng.First, tf.Len(src)); !ok || d != -8 {
		return false, "the loop starts at " + describe(rng.First) + ", not len-8 (the most significant byte)"
	}
	if rng.Step != -8 {
		return false, fmt.Sprintf("the loop step is %d, not -8", rng.Step)
	}
	b, isC := tf.IntConst(rng.Bound)
	okCond := isC && rng.Off == 0 && ((rng.CondOp == token.GEQ && b == 0) || (rng.CondOp == token.GTR && b == -1))
	if !okCond {
		return false, fmt.Sprintf("the loop continues while i%+d %s %s; expected i >= 0 (the least significant byte would be dropped or the slice under-run)", rng.Off, rng.CondOp, describe(rng.Bound))
	}
	return true, ""
}

// checkPacker decides O3.5/O6.1 for the packer gadget.
func checkPacker(p *core.Program, r *core.Report, ctx *circuitCtx, g *gadgetInfo, rule string, pr *packRoles) bool {
	name := g.Name + ".DefineGadget"
	r.AnalysedFn(core.FuncName(g.Fn))
	tbs := apiEvents(g, "ToBinary")
	r.Count("packer decompositions", len(tbs))
	var le *tf.Term
	for _, e := range tbs {
		if len(e.Term.Args) == 2 && isRecv(e.Term.Args[0]) && isRecv(e.Term.Args[1]) && mustEvent(e) {
			le = e.Term
			pr.PackVal, _ = recvFieldName(e.Term.Args[0])
			pr.PackSize, _ = recvFieldName(e.Term.Args[1])
		}
	}
	if le == nil {
		r.Violation(rule, name+": n-bit decomposition", p.Pos(g.Fn.Pos()), "no api.ToBinary(value field, width field) on every path of the packer")
		return false
	}
	r.OK(rule, name+": n-bit decomposition", ctx.posOf(le, g), "le = api.ToBinary($g.%s, $g.%s)", pr.PackVal, pr.PackSize)
	// reducedness gadget applied to that very value on every path
	var red tf.Event
	found := false
	var why []string
	for _, e := range gadgetEvents(g, "") {
		// a void gadget taking the bits
		for i, a := range e.Term.Args {
			if a.K == tf.KApi && a.Name == "ToBinary" {
				switch {
				case !tf.Eq(a, le):
					why = append(why, fmt.Sprintf("%s is applied to %s, a different decomposition than the one that is emitted (%s): a dishonest prover can supply a non-canonical emitted decomposition", e.Term.Name, describe(a), describe(le)))
				case !mustEvent(e):
					why = append(why, fmt.Sprintf("%s does not run on every path of the packer", e.Term.Name))
				default:
					red, found = e, true
					pr.ReducedIn = e.Term.Names[i]
				}
			}
		}
	}
	if !found {
		if len(why) == 0 {
			why = append(why, "the decomposition is never handed to a reducedness-check gadget")
		}
		r.Violation(rule, name+": reducedness check on the emitted bits", ctx.posOf(le, g), "%s", strings.Join(why, "; "))
		return false
	}
	r.OK(rule, name+": reducedness check on the emitted bits", p.Pos(red.Instr.Pos()), "%s{%s: le} on every path, same value as emitted", red.Term.Name, pr.ReducedIn)
	pr.Reduced = ctx.gadgetOfTerm(red.Term)
	// byte-order reversal
	ok, whyRev := byteReversal(g.Ret, le)
	r.Check(ok, rule, name+": big-endian byte order", p.Pos(g.Fn.Pos()), "returns le[len-8:len] ‖ le[len-16:len-8] ‖ … ‖ le[0:8]", whyRev)
	return ok
}

// checkUnpacker decides O3.6/O6.2.
func checkUnpacker(p *core.Program, r *core.Report, ctx *circuitCtx, g *gadgetInfo, rule string, pr *packRoles) bool {
	name := g.Name + ".DefineGadget"
	r.AnalysedFn(core.FuncName(g.Fn))
	ret := g.Ret
	if !isApi(ret, "FromBinary") || len(ret.Args) != 1 || ret.Args[0].K != tf.KSplice {
		r.Violation(rule, name+": recomposition", p.Pos(g.Fn.Pos()), "the unpacker does not return api.FromBinary of a reordered bit sequence (got %s)", describe(ret))
		return false
	}
	seq := ret.Args[0].Args[0]
	// find the source field
	var src *tf.Term
	tf.Walk(seq, func(x *tf.Term) bool {
		if src == nil && x.K == tf.KSub && isRecv(x.Args[0]) {
			src = x.Args[0]
		}
		return true
	})
	if src == nil {
		r.Violation(rule, name+": recomposition", ctx.posOf(ret, g), "the recomposed bits are not groups of an input field: %s", describe(seq))
		return false
	}
	pr.UnpackBits, _ = recvFieldName(src)
	ok, why := byteReversal(seq, src)
	r.Check(ok, rule, name+": big-endian recomposition", ctx.posOf(ret, g), "api.FromBinary(bits[len-8:len] ‖ … ‖ bits[0:8])", why)
	return ok
}

// checkReducedness decides O6.3–O6.7 for the reducedness gadget.
func checkReducedness(p *core.Program, r *core.Report, ctx *circuitCtx, g *gadgetInfo, pr *packRoles) {
	name := g.Name + ".DefineGadget"
	r.AnalysedFn(core.FuncName(g.Fn))
	recv := g.Ev.Params[0]
	input := tf.Field(recv, pr.ReducedIn)
	// the accept assert: AssertIsEqual(μ flag, 1)
	var accept tf.Event
	var succ *tf.Term
	nAccept := 0
	for _, e := range apiEvents(g, "AssertIsEqual") {
		a, b, _ := assertEqSides(e.Term)
		for _, pair := range [][2]*tf.Term{{a, b}, {b, a}} {
			if pair[0].K == tf.KMu {
				if c, ok := tf.IntConst(pair[1]); ok {
					nAccept++
					accept, succ = e, pair[0]
					if c != 1 {
						r.Violation("O6.7", name+": accept condition", p.Pos(e.Instr.Pos()), "a scan flag is asserted equal to %d, not 1: equality with the modulus (which sets neither flag) would be accepted", c)
						return
					}
				}
			}
		}
	}
	r.Count("comparator accept asserts", nAccept)
	if nAccept != 1 {
		r.Violation("O6.7", name+": accept condition", p.Pos(g.Fn.Pos()), "expected exactly one AssertIsEqual(scan flag, 1) after the scan, found %d", nAccept)
		return
	}
	loop := succ.Loop
	iv := &tf.Term{K: tf.KIndVar, Loop: loop, Phi: loop.IV}
	// O6.4 scan range
	okScan := false
	whyScan := "loop range not recognised"
	if rng, ok := loop.Range(iv); ok {
		d, okD := tf.AffDiff(rng.First, tf.Len(input))
		b, isC := tf.IntConst(rng.Bound)
		okCond := isC && rng.Off == 0 && ((rng.CondOp == token.GEQ && b == 0) || (rng.CondOp == token.GTR && b == -1))
		okScan = okD && d == -1 && rng.Step == -1 && okCond
		whyScan = fmt.Sprintf("the scan visits first=%s step=%d while i%+d %s %s; expected len-1 down to 0: a bit position would never be compared", describe(rng.First), rng.Step, rng.Off, rng.CondOp, describe(rng.Bound))
	}
	r.Check(okScan, "O6.4", name+": scan range", p.Pos(accept.Instr.Pos()), "i = len(bits)-1 … 0 (most significant first)", whyScan)
	r.Count("comparator scan loops", 1)
	// flags: the header phis of the loop that are not the induction variable
	type flag struct {
		phi  *ssa.Phi
		mu   *tf.Term
		v    *tf.Term // in-loop variable
		name string
	}
	var flags []flag
	for _, in := range loop.Header.Instrs {
		ph, ok := in.(*ssa.Phi)
		if !ok {
			break
		}
		if ph == loop.IV {
			continue
		}
		mu := g.Ev.Resolve(g.Ev.Term(ph))
		flags = append(flags, flag{phi: ph, mu: mu, v: &tf.Term{K: tf.KMuVar, Loop: loop, Phi: ph, Name: ph.Comment}, name: ph.Comment})
	}
	r.Count("comparator flags", len(flags))
	if len(flags) != 2 {
		r.Violation("O6.5", name+": scan state", p.Pos(g.Fn.Pos()), "the scan carries %d values besides its index; the lexicographic comparison needs exactly two flags (already-greater, already-smaller)", len(flags))
		return
	}
	var sIdx = -1
	for i, f := range flags {
		if tf.Eq(f.mu, succ) {
			sIdx = i
		}
	}
	if sIdx < 0 {
		r.Undecided("O6.5", name+": scan state", p.Pos(g.Fn.Pos()), "the asserted flag is not one of the loop-carried values")
		return
	}
	S, Fl := flags[sIdx], flags[1-sIdx]
	okInit := S.mu.K == tf.KMu && Fl.mu.K == tf.KMu && isConstInt(S.mu.Args[0], 0) && isConstInt(Fl.mu.Args[0], 0)
	r.Check(okInit, "O6.5", name+": scan starts with both flags clear", p.Pos(g.Fn.Pos()), "failed = succeeded = 0 before the scan", fmt.Sprintf("initial flags are %s / %s, not 0 / 0", describe(S.mu.Args[0]), describe(Fl.mu.Args[0])))
	if !okInit {
		return
	}
	// O6.6 truth table
	bit := tf.Idx(input, iv)
	// branch conditions inside the next-state terms
	conds := map[string]*tf.Term{}
	for _, f := range flags {
		tf.Walk(f.mu.Args[1], func(x *tf.Term) bool {
			if x.K == tf.KIte {
				conds[x.Args[0].Key()] = x.Args[0]
			}
			return true
		})
	}
	if len(conds) != 1 {
		r.Undecided("O6.6", name+": comparator step", p.Pos(g.Fn.Pos()), "expected one branch condition (on the modulus bit) in the step, found %d", len(conds))
		return
	}
	var cond *tf.Term
	for _, c := range conds {
		cond = c
	}
	// cond = (Bit(field, i) OP c)
	modbitOnTrue := int64(-1)
	whyCond := ""
	if cond.K == tf.KBin && len(cond.Args) == 2 {
		call, cst := cond.Args[0], cond.Args[1]
		if _, ok := tf.IntConst(call); ok {
			call, cst = cst, call
		}
		c, okC := tf.IntConst(cst)
		isBit := call.K == tf.KCall && strings.HasSuffix(call.Name, "math/big.Int).Bit") && len(call.Args) == 2
		switch {
		case !isBit || !okC || (c != 0 && c != 1):
			whyCond = "the branch condition is not a test of a modulus bit against 0/1: " + describe(cond)
		case !tf.Eq(call.Args[1], iv):
			whyCond = "the modulus bit tested is number " + describe(call.Args[1]) + " while the input bit compared is number i"
		case !(call.Args[0].K == tf.KCall && strings.HasSuffix(call.Args[0].Name, "frontend.Compiler).Field") && len(call.Args[0].Args) == 1 && isApi(call.Args[0].Args[0], "Compiler")):
			whyCond = "the bit is not taken from api.Compiler().Field() (the modulus of the field being compiled for): " + describe(call.Args[0])
		case cond.Name == "==":
			modbitOnTrue = c
		case cond.Name == "!=":
			modbitOnTrue = 1 - c
		default:
			whyCond = "unsupported comparison " + cond.Name
		}
	} else {
		whyCond = "the branch condition is not a comparison: " + describe(cond)
	}
	if modbitOnTrue < 0 {
		r.Violation("O6.6", name+": comparator step", p.Pos(g.Fn.Pos()), "%s", whyCond)
		return
	}
	type st struct{ f, s int64 }
	reach := map[st]bool{{0, 0}: true}
	work := []st{{0, 0}}
	var lines []string
	okTab := true
	var evalErr error
	for len(work) > 0 && evalErr == nil {
		cur := work[0]
		work = work[1:]
		for _, m := range []int64{0, 1} {
			for _, b := range []int64{0, 1} {
				env := &ttEnv{
					vals:  map[string]poly{Fl.v.Key(): pconst(cur.f), S.v.Key(): pconst(cur.s), bit.Key(): pconst(b)},
					conds: map[string]bool{cond.Key(): m == modbitOnTrue},
				}
				fv, err := ttEval(Fl.mu.Args[1], env)
				if err != nil {
					evalErr = err
					break
				}
				sv, err := ttEval(S.mu.Args[1], env)
				if err != nil {
					evalErr = err
					break
				}
				fn, ok1 := fv.isConst()
				sn, ok2 := sv.isConst()
				if !ok1 || !ok2 {
					evalErr = fmt.Errorf("next state is not numeric: %s / %s", fv.key(), sv.key())
					break
				}
				// specification
				want := cur
				if cur == (st{0, 0}) {
					switch {
					case m == 0 && b == 1:
						want = st{1, 0}
					case m == 1 && b == 0:
						want = st{0, 1}
					}
				}
				got := st{fn, sn}
				if got != want {
					okTab = false
					lines = append(lines, fmt.Sprintf("state(failed=%d,succeeded=%d) modulus-bit=%d input-bit=%d → (%d,%d), expected (%d,%d)", cur.f, cur.s, m, b, got.f, got.s, want.f, want.s))
				}
				if !reach[got] {
					reach[got] = true
					work = append(work, got)
				}
			}
		}
	}
	if evalErr != nil {
		r.Undecided("O6.6", name+": comparator step", p.Pos(g.Fn.Pos()), "the step cannot be evaluated over {flags, modulus bit, input bit}: %v", evalErr)
		return
	}
	r.Extra["o6_reachable_states"] = len(reach)
	r.Check(okTab && !reach[st{1, 1}], "O6.6", name+": comparator step", p.Pos(g.Fn.Pos()),
		fmt.Sprintf("all %d rows over %d reachable flag states equal the lexicographic-compare step; (1,1) unreachable", 4*len(reach), len(reach)),
		"the step differs from the lexicographic comparison: "+strings.Join(lines, "; "))
	// O6.3 / O6.7: every normal return is dominated by the accept assert or guarded by len(input) < BitLen(modulus)
	ablk := accept.Instr.Block()
	for _, b := range g.Fn.Blocks {
		if len(b.Instrs) == 0 {
			continue
		}
		ret, ok := b.Instrs[len(b.Instrs)-1].(*ssa.Return)
		if !ok {
			continue
		}
		if ablk.Dominates(b) {
			r.OK("O6.7", name+": accept assert before return", p.Pos(ret.Pos()), "AssertIsEqual(succeeded, 1) dominates this return")
			continue
		}
		// look for a guarding If
		guarded := false
		why := "this return is reachable without the accept assert and without a width guard"
		for _, gb := range g.Fn.Blocks {
			if len(gb.Instrs) == 0 {
				continue
			}
			ifi, ok := gb.Instrs[len(gb.Instrs)-1].(*ssa.If)
			if !ok || !gb.Dominates(b) {
				continue
			}
			onTrue := gb.Succs[0].Dominates(b) && !gb.Succs[1].Dominates(b)
			onFalse := gb.Succs[1].Dominates(b) && !gb.Succs[0].Dominates(b)
			if !onTrue && !onFalse {
				continue
			}
			c := g.Ev.Term(ifi.Cond)
			if c.K != tf.KBin || len(c.Args) != 2 {
				continue
			}
			op, x, y := c.Name, c.Args[0], c.Args[1]
			isLen := func(t *tf.Term) bool { return tf.Eq(t, tf.Len(input)) }
			isBitLen := func(t *tf.Term) bool {
				return t.K == tf.KCall && strings.HasSuffix(t.Name, "math/big.Int).BitLen") && len(t.Args) == 1 &&
					t.Args[0].K == tf.KCall && strings.HasSuffix(t.Args[0].Name, "frontend.Compiler).Field")
			}
			if isBitLen(x) && isLen(y) {
				x, y = y, x
				switch op {
				case "<":
					op = ">"
				case ">":
					op = "<"
				case "<=":
					op = ">="
				case ">=":
					op = "<="
				}
			}
			if !isLen(x) || !isBitLen(y) {
				continue
			}
			if onFalse {
				switch op {
				case "<":
					op = ">="
				case ">=":
					op = "<"
				case "<=":
					op = ">"
				case ">":
					op = "<="
				}
			}
			if op == "<" {
				guarded = true
			} else {
				why = fmt.Sprintf("the early return is taken when len(bits) %s BitLen(modulus); only strictly fewer bits than the modulus guarantee a reduced value (equal width admits values ≥ the modulus)", op)
			}
		}
		r.Check(guarded, "O6.3", name+": early return only for widths below the field size", p.Pos(ret.Pos()), "return without scan only when len(bits) < BitLen(modulus)", why)
		r.Count("comparator early exits", 1)
	}
}

func checkC06(p *core.Program, r *core.Report) {
	r.Explanation = "Bit-encoding gadgets, discovered from the insertion circuit's Define (anchor prover.SetupInsertion): (O6.1) the packer decomposes into exactly Size bits, hands that very decomposition to the reducedness gadget on every path and " +
		"emits its 8-bit groups from the most significant byte down; every width passed at a call site is a multiple of 8; (O6.2) the unpacker reverses the groups the same way and recomposes with FromBinary; " +
		"(O6.3) the only exit without a scan is taken when the width is strictly below the modulus' bit length; (O6.4) the scan visits bits len-1…0; (O6.5) both flags start clear; " +
		"(O6.6) one scan step equals the lexicographic-compare step function on every reachable flag state × modulus bit × input bit (decided exhaustively on the finite domain; the modulus bit tested has the same index as the input bit and comes from api.Compiler().Field()); " +
		"(O6.7) succeeded = 1 is asserted before every other return. By induction over the scan: accepted ⇔ bit string lexicographically below the modulus ⇔ value < r, for every prime field. " +
		"Not decided: soundness of gnark's ToBinary/FromBinary themselves."
	for id, t := range map[string]string{
		"O6.1": "packer: le = ToBinary(value, size); reducedness gadget on le on every path; returns the 8-bit groups of le from len-8 down to 0; call-site widths ≡ 0 mod 8",
		"O6.2": "unpacker: FromBinary of the 8-bit groups of its input from len-8 down to 0",
		"O6.3": "reducedness: return without scanning only if len(bits) < BitLen(api.Compiler().Field())",
		"O6.4": "reducedness: scan index runs len(bits)-1 … 0",
		"O6.5": "reducedness: failed = succeeded = 0 initially",
		"O6.6": "reducedness: the step is the lexicographic-compare step (exhaustive truth table)",
		"O6.7": "reducedness: AssertIsEqual(succeeded, 1) dominates every return after the scan",
	} {
		r.Rule(id, t)
	}
	r.Trusted = append(r.Trusted, "gnark v0.8.0: ToBinary yields n boolean-constrained bits whose weighted sum is the value; FromBinary; Select/Or assert boolean operands", "math/big Int.Bit/BitLen")
	r.NotDecided = append(r.NotDecided, "soundness of gnark's ToBinary/FromBinary", "behaviour when the width is not a multiple of 8 (reported if a call site passes one)")
	ctx := newCircuitCtx(p)
	pr, ci := discoverPacking(p, r, ctx, "SetupInsertion", "O6.1", "O6.2")
	if pr == nil {
		return
	}
	_ = ci
	if pr.Packer != nil && checkPacker(p, r, ctx, pr.Packer, "O6.1", pr) && pr.Reduced != nil {
		checkReducedness(p, r, ctx, pr.Reduced, pr)
	}
	if pr.Unpacker != nil {
		checkUnpacker(p, r, ctx, pr.Unpacker, "O6.2", pr)
	}
	// widths at call sites, over both circuits
	for _, anchor := range []string{"SetupInsertion", "SetupDeletion"} {
		T, _, _ := circuitTypeOf(p, anchor)
		if T == nil {
			continue
		}
		c := ctx.define(T, "Define")
		if c == nil {
			continue
		}
		for _, e := range gadgetEvents(c, pr.Packer.Name) {
			sz := e.Term.FieldOf(pr.PackSize)
			n, ok := tf.IntConst(sz)
			cn := fmt.Sprintf("%s.Define: width of %s", typeKey(T), describe(e.Term.FieldOf(pr.PackVal)))
			r.Count("packer call sites", 1)
			if !ok {
				r.Undecided("O6.1", cn, p.Pos(e.Instr.Pos()), "the width %s is not a constant: byte alignment cannot be decided", describe(sz))
			} else {
				r.Check(n%8 == 0 && n > 0, "O6.1", cn, p.Pos(e.Instr.Pos()), fmt.Sprintf("%d bits (byte-aligned)", n), fmt.Sprintf("width %d is not a positive multiple of 8: the 8-bit group loop drops the top %d bit(s)", n, n%8))
			}
		}
	}
	r.Floor("packer decompositions", 1)
	r.Floor("comparator accept asserts", 1)
	r.Floor("comparator scan loops", 1)
	r.Floor("comparator flags", 2)
	r.Floor("comparator early exits", 1)
	r.Floor("packer call sites", 4)
}

// discoverPacking finds the packer (the gadget applied to the parts of the hashed sequence) and the unpacker (the gadget
// whose result is asserted equal to a circuit field other than the post-root) from the circuit's Define.
func discoverPacking(p *core.Program, r *core.Report, ctx *circuitCtx, anchor, rulePack, ruleUnpack string) (*packRoles, *gadgetInfo) {
	T, _, why := circuitTypeOf(p, anchor)
	if T == nil {
		r.Violation(rulePack, "anchor prover."+anchor, "-", "%s", why)
		return nil, nil
	}
	ci := ctx.define(T, "Define")
	if ci == nil {
		r.Violation(rulePack, typeKey(T)+".Define", "-", "no Define body")
		return nil, nil
	}
	r.AnalysedFn(core.FuncName(ci.Fn))
	pr := &packRoles{}
	// unpacker: AssertIsEqual($circuit.F, gadget U{ X: gadget Hash{…} })
	for _, e := range apiEvents(ci, "AssertIsEqual") {
		a, b, _ := assertEqSides(e.Term)
		for _, pair := range [][2]*tf.Term{{a, b}, {b, a}} {
			if isRecv(pair[0]) && pair[1].K == tf.KGadget && len(pair[1].Args) == 1 && pair[1].Args[0].K == tf.KGadget {
				pr.Unpacker = ctx.gadgetOfTerm(pair[1])
				hash := pair[1].Args[0]
				// packer: the gadget type of the spliced parts of the hash's sequence-valued field
				for _, a := range hash.Args {
					if a.K == tf.KSeq {
						for _, part := range a.Args {
							tf.Walk(part, func(x *tf.Term) bool {
								if x.K == tf.KGadget && pr.Packer == nil {
									pr.Packer = ctx.gadgetOfTerm(x)
								}
								return pr.Packer == nil
							})
						}
					}
				}
			}
		}
	}
	if pr.Packer == nil {
		r.Violation(rulePack, typeKey(T)+".Define: packer", p.Pos(ci.Fn.Pos()), "no gadget is applied to the parts of a hashed bit sequence whose recomposition is asserted equal to a circuit field")
		return nil, ci
	}
	if pr.Unpacker == nil {
		r.Violation(ruleUnpack, typeKey(T)+".Define: unpacker", p.Pos(ci.Fn.Pos()), "no recomposition gadget applied to a hash result is asserted equal to a circuit field")
	}
	return pr, ci
}

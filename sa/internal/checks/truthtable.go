package checks

import (
	"fmt"
	"sort"
	"strings"

	"verif/sa/internal/tf"
)

// poly is a polynomial with integer coefficients over opaque symbols: the finite-domain evaluator (E8) substitutes the
// boolean inputs by 0/1 and normalises what is left, so that e.g. Select(d,a,b) and b + d*(a-b) get the same value.
type poly map[string]int64 // monomial (sorted symbols joined by '*', "" = constant) -> coefficient

func pconst(n int64) poly {
	if n == 0 {
		return poly{}
	}
	return poly{"": n}
}
func psym(s string) poly { return poly{s: 1} }

func (p poly) isConst() (int64, bool) {
	switch len(p) {
	case 0:
		return 0, true
	case 1:
		if c, ok := p[""]; ok {
			return c, true
		}
	}
	return 0, false
}

func padd(a, b poly, k int64) poly {
	out := poly{}
	for m, c := range a {
		out[m] += c
	}
	for m, c := range b {
		out[m] += k * c
	}
	for m, c := range out {
		if c == 0 {
			delete(out, m)
		}
	}
	return out
}

func pmul(a, b poly) poly {
	out := poly{}
	for ma, ca := range a {
		for mb, cb := range b {
			var syms []string
			if ma != "" {
				syms = append(syms, strings.Split(ma, "*")...)
			}
			if mb != "" {
				syms = append(syms, strings.Split(mb, "*")...)
			}
			sort.Strings(syms)
			out[strings.Join(syms, "*")] += ca * cb
		}
	}
	for m, c := range out {
		if c == 0 {
			delete(out, m)
		}
	}
	return out
}

func (p poly) key() string {
	ms := make([]string, 0, len(p))
	for m := range p {
		ms = append(ms, m)
	}
	sort.Strings(ms)
	var b strings.Builder
	for _, m := range ms {
		fmt.Fprintf(&b, "%+d[%s]", p[m], m)
	}
	if b.Len() == 0 {
		return "0"
	}
	return b.String()
}

func peq(a, b poly) bool { return a.key() == b.key() }

// ttEnv binds term keys to values for the finite-domain evaluation.
type ttEnv struct {
	vals  map[string]poly // term key -> value
	conds map[string]bool // condition term key -> truth value (for ite)
	eqs   map[string]bool // IsZero(Sub(a,b)) atoms: key "a|b" (sorted) -> equal?
}

// ttEval evaluates a term to a polynomial under env. Boolean gates require 0/1 operands (gnark asserts it).
func ttEval(t *tf.Term, env *ttEnv) (poly, error) {
	if v, ok := env.vals[t.Key()]; ok {
		return v, nil
	}
	if n, ok := tf.IntConst(t); ok {
		return pconst(n), nil
	}
	switch t.K {
	case tf.KZero, tf.KNil:
		return pconst(0), nil
	case tf.KIte:
		c, ok := env.conds[t.Args[0].Key()]
		if !ok {
			return nil, fmt.Errorf("branch condition %s is not an input of the table", describe(t.Args[0]))
		}
		if c {
			return ttEval(t.Args[1], env)
		}
		return ttEval(t.Args[2], env)
	case tf.KApi:
		var args []poly
		for _, a := range t.Args {
			if t.Name == "IsZero" {
				break
			}
			v, err := ttEval(a, env)
			if err != nil {
				return nil, err
			}
			args = append(args, v)
		}
		bit := func(p poly) (int64, error) {
			c, ok := p.isConst()
			if !ok || (c != 0 && c != 1) {
				return 0, fmt.Errorf("operand of api.%s is not a 0/1 value in this row (%s)", t.Name, p.key())
			}
			return c, nil
		}
		switch t.Name {
		case "Select":
			if len(args) != 3 {
				break
			}
			c, err := bit(args[0])
			if err != nil {
				return nil, err
			}
			if c == 1 {
				return args[1], nil
			}
			return args[2], nil
		case "Or", "And", "Xor":
			if len(args) != 2 {
				break
			}
			a, err := bit(args[0])
			if err != nil {
				return nil, err
			}
			b, err := bit(args[1])
			if err != nil {
				return nil, err
			}
			switch t.Name {
			case "Or":
				return pconst(a | b), nil
			case "And":
				return pconst(a & b), nil
			}
			return pconst(a ^ b), nil
		case "Add":
			out := poly{}
			for _, a := range args {
				out = padd(out, a, 1)
			}
			return out, nil
		case "Sub":
			if len(args) == 0 {
				break
			}
			out := args[0]
			for _, a := range args[1:] {
				out = padd(out, a, -1)
			}
			return out, nil
		case "Neg":
			if len(args) == 1 {
				return padd(poly{}, args[0], -1), nil
			}
		case "Mul":
			out := pconst(1)
			for _, a := range args {
				out = pmul(out, a)
			}
			return out, nil
		case "IsZero":
			if len(t.Args) != 1 {
				break
			}
			v, err := ttEval(t.Args[0], env)
			if err != nil {
				return nil, err
			}
			if c, ok := v.isConst(); ok {
				if c == 0 {
					return pconst(1), nil
				}
				return pconst(0), nil
			}
			// difference of two opaque symbols: governed by an equality atom
			if len(v) == 2 {
				var pos, neg string
				for m, c := range v {
					if c == 1 {
						pos = m
					}
					if c == -1 {
						neg = m
					}
				}
				if pos != "" && neg != "" {
					k := []string{pos, neg}
					sort.Strings(k)
					if eq, ok := env.eqs[k[0]+"|"+k[1]]; ok {
						if eq {
							return pconst(1), nil
						}
						return pconst(0), nil
					}
				}
			}
			return nil, fmt.Errorf("IsZero of %s is not decided by the table's atoms", v.key())
		}
		return nil, fmt.Errorf("api.%s with %d operands is not an operation of the finite-domain evaluator", t.Name, len(t.Args))
	}
	return nil, fmt.Errorf("term %s is not an input of the table and not an arithmetic/boolean gate", describe(t))
}

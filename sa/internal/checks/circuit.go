package checks

import (
	"fmt"
	"go/token"
	"go/types"
	"reflect"
	"sort"
	"strings"

	"golang.org/x/tools/go/ssa"

	"verif/sa/internal/core"
	"verif/sa/internal/tf"
)

// gadgetInfo is the evaluated definition of one gadget (or circuit) type.
type gadgetInfo struct {
	T      *types.Named
	Name   string
	Fn     *ssa.Function
	Ev     *tf.Eval
	Ret    *tf.Term
	Events []tf.Event
}

// circuitCtx caches gadget evaluations.
type circuitCtx struct {
	p       *core.Program
	eng     *tf.Engine
	gadgets map[string]*gadgetInfo
}

func newCircuitCtx(p *core.Program) *circuitCtx {
	return &circuitCtx{p: p, eng: tf.NewEngine(core.InRepo, 6), gadgets: map[string]*gadgetInfo{}}
}

func typeKey(t types.Type) string {
	return types.TypeString(t, func(p *types.Package) string { return p.Name() })
}

// define evaluates the DefineGadget (or Define) method of t.
func (c *circuitCtx) define(t types.Type, method string) *gadgetInfo {
	n := namedOf(t)
	if n == nil {
		return nil
	}
	k := typeKey(n) + "." + method
	if g, ok := c.gadgets[k]; ok {
		return g
	}
	fn := c.p.MethodOf(n, method)
	if fn == nil || fn.Blocks == nil {
		c.gadgets[k] = nil
		return nil
	}
	ev := c.eng.NewEval(fn)
	g := &gadgetInfo{T: n, Name: typeKey(n), Fn: fn, Ev: ev}
	g.Ret = ev.Resolve(ev.Return())
	for _, e := range ev.Events() {
		e.Term = ev.Resolve(e.Term)
		g.Events = append(g.Events, e)
	}
	c.gadgets[k] = g
	return g
}

func (c *circuitCtx) gadget(t types.Type) *gadgetInfo { return c.define(t, "DefineGadget") }

// gadgetOfTerm evaluates the definition of the gadget type of a KGadget term.
func (c *circuitCtx) gadgetOfTerm(t *tf.Term) *gadgetInfo {
	if t == nil || t.K != tf.KGadget || t.Type == nil {
		return nil
	}
	return c.gadget(t.Type)
}

// pos renders the position of a term's origin.
func (c *circuitCtx) posOf(t *tf.Term, fallback *gadgetInfo) string {
	if t != nil && t.Instr != nil {
		return c.p.Pos(t.Instr.Pos())
	}
	if fallback != nil {
		return c.p.Pos(fallback.Fn.Pos())
	}
	return "-"
}

// recvFieldName: t == $recv.F → F.
func recvFieldName(t *tf.Term) (string, bool) {
	if t != nil && t.K == tf.KField && len(t.Args) == 1 && t.Args[0].K == tf.KParam {
		return t.Name, true
	}
	return "", false
}

func isRecvField(t *tf.Term, name string) bool {
	n, ok := recvFieldName(t)
	return ok && n == name
}

func isApi(t *tf.Term, name string) bool { return t != nil && t.K == tf.KApi && t.Name == name }

func isConstInt(t *tf.Term, n int64) bool {
	v, ok := tf.IntConst(t)
	return ok && v == n
}

// apiEvents returns the events that are calls of the given API method.
func apiEvents(g *gadgetInfo, name string) []tf.Event {
	var out []tf.Event
	for _, e := range g.Events {
		if isApi(e.Term, name) {
			out = append(out, e)
		}
	}
	return out
}

// gadgetEvents returns the gadget invocation events (optionally of one type).
func gadgetEvents(g *gadgetInfo, typeName string) []tf.Event {
	var out []tf.Event
	for _, e := range g.Events {
		if e.Term.K == tf.KGadget && (typeName == "" || e.Term.Name == typeName) {
			out = append(out, e)
		}
	}
	return out
}

// definitionCode returns every gadget reachable from root through gadget invocations (root included), sorted by name.
func (c *circuitCtx) definitionCode(root *gadgetInfo) []*gadgetInfo {
	seen := map[string]*gadgetInfo{}
	var visit func(g *gadgetInfo)
	visit = func(g *gadgetInfo) {
		if g == nil || seen[g.Name+"/"+g.Fn.Name()] != nil {
			return
		}
		seen[g.Name+"/"+g.Fn.Name()] = g
		for _, e := range g.Events {
			tf.Walk(e.Term, func(x *tf.Term) bool {
				if x.K == tf.KGadget {
					visit(c.gadgetOfTerm(x))
				}
				return true
			})
		}
		tf.Walk(g.Ret, func(x *tf.Term) bool {
			if x.K == tf.KGadget {
				visit(c.gadgetOfTerm(x))
			}
			return true
		})
	}
	visit(root)
	var out []*gadgetInfo
	for _, g := range seen {
		out = append(out, g)
	}
	sort.Slice(out, func(i, j int) bool { return out[i].Name < out[j].Name })
	return out
}

// circuitTypeOf discovers the circuit type compiled by the in-repo call chain starting at the anchor function
// (prover.SetupInsertion / prover.SetupDeletion): the dynamic type of frontend.Compile's circuit argument.
func circuitTypeOf(p *core.Program, anchor string) (*types.Named, *ssa.Function, string) {
	fn := p.Func("prover", anchor)
	if fn == nil {
		return nil, nil, "anchor prover." + anchor + " not found"
	}
	return circuitTypeOfFn(p, fn)
}

// circuitTypeOfFn: the same, starting from a given function.
func circuitTypeOfFn(p *core.Program, fn *ssa.Function) (*types.Named, *ssa.Function, string) {
	anchor := fn.Name()
	seen := map[*ssa.Function]bool{}
	var found *types.Named
	var where *ssa.Function
	// dyn: what is known about the dynamic type of a function's interface-typed parameters (from the call site that led
	// here) — wrappers such as compileR1CS(circuit frontend.Circuit) hand the circuit on as a parameter
	type dynInfo struct {
		n  *types.Named
		fn *ssa.Function
	}
	var dynOf func(v ssa.Value, f *ssa.Function, bind map[*ssa.Parameter]dynInfo) (dynInfo, bool)
	dynOf = func(v ssa.Value, f *ssa.Function, bind map[*ssa.Parameter]dynInfo) (dynInfo, bool) {
		switch x := v.(type) {
		case *ssa.MakeInterface:
			if n := namedOf(x.X.Type()); n != nil {
				return dynInfo{n, f}, true
			}
		case *ssa.ChangeInterface:
			return dynOf(x.X, f, bind)
		case *ssa.Parameter:
			d, ok := bind[x]
			return d, ok
		}
		return dynInfo{}, false
	}
	var visit func(f *ssa.Function, bind map[*ssa.Parameter]dynInfo)
	visit = func(f *ssa.Function, bind map[*ssa.Parameter]dynInfo) {
		if f == nil || seen[f] || f.Blocks == nil || found != nil {
			return
		}
		seen[f] = true
		for _, b := range f.Blocks {
			for _, in := range b.Instrs {
				call, ok := in.(*ssa.Call)
				if !ok {
					continue
				}
				// functions handed on as values (setupWith(BuildR1CSInsertion, …)) are part of the chain
				for _, a := range call.Common().Args {
					for {
						if ct, ok := a.(*ssa.ChangeType); ok {
							a = ct.X
							continue
						}
						break
					}
					if fv, ok := a.(*ssa.Function); ok && fv.Pkg != nil && core.InRepo(fv.Pkg.Pkg.Path()) {
						visit(fv, nil)
					}
					if mc, ok := a.(*ssa.MakeClosure); ok {
						if cf, ok := mc.Fn.(*ssa.Function); ok {
							visit(cf, nil)
						}
					}
				}
				callee := call.Common().StaticCallee()
				if callee == nil {
					continue
				}
				sub := map[*ssa.Parameter]dynInfo{}
				for k, a := range call.Common().Args {
					if k < len(callee.Params) {
						if d, ok := dynOf(a, f, bind); ok {
							sub[callee.Params[k]] = d
						}
					}
				}
				if o := callee.Origin(); o != nil && callee.Pkg == nil {
					if o.Pkg != nil && core.InRepo(o.Pkg.Pkg.Path()) {
						visit(callee, sub)
					}
					continue
				}
				if callee.Pkg != nil && callee.Pkg.Pkg.Path() == "github.com/consensys/gnark/frontend" && callee.Name() == "Compile" && len(call.Common().Args) >= 3 {
					if d, ok := dynOf(call.Common().Args[2], f, bind); ok {
						found, where = d.n, d.fn
					}
				}
				if callee.Pkg != nil && core.InRepo(callee.Pkg.Pkg.Path()) {
					visit(callee, sub)
				}
			}
		}
	}
	visit(fn, nil)
	if found == nil {
		return nil, nil, "no frontend.Compile call reachable from prover." + anchor
	}
	return found, where, ""
}

// gnarkTag parses the `gnark` struct tag the way gnark's schema does: name before the first comma, options after.
type gnarkTag struct {
	Name    string
	Options []string
	Omit    bool
}

func parseGnarkTag(tag string) gnarkTag {
	v, ok := reflect.StructTag(tag).Lookup("gnark")
	if !ok {
		return gnarkTag{}
	}
	parts := strings.Split(v, ",")
	g := gnarkTag{Name: strings.TrimSpace(parts[0])}
	if g.Name == "-" {
		g.Omit = true
	}
	for _, o := range parts[1:] {
		g.Options = append(g.Options, strings.TrimSpace(o))
	}
	return g
}

func (g gnarkTag) has(opt string) bool {
	for _, o := range g.Options {
		if o == opt {
			return true
		}
	}
	return false
}

// isVariableType: frontend.Variable or nested slices/arrays of it.
func isVariableType(t types.Type) bool {
	switch u := types.Unalias(t).(type) {
	case *types.Named:
		if u.Obj().Name() == "Variable" && u.Obj().Pkg() != nil && u.Obj().Pkg().Path() == "github.com/consensys/gnark/frontend" {
			return true
		}
		return isVariableType(u.Underlying())
	case *types.Slice:
		return isVariableType(u.Elem())
	case *types.Array:
		return isVariableType(u.Elem())
	}
	return false
}

// publicFields lists the variable-typed fields of a circuit struct with the visibility gnark's schema assigns.
func publicFields(n *types.Named) (public, secret []string) {
	st, ok := n.Underlying().(*types.Struct)
	if !ok {
		return
	}
	for i := 0; i < st.NumFields(); i++ {
		f := st.Field(i)
		if !isVariableType(f.Type()) {
			continue
		}
		tag := parseGnarkTag(st.Tag(i))
		if tag.Omit {
			continue
		}
		if tag.has("public") {
			public = append(public, f.Name())
		} else {
			secret = append(secret, f.Name())
		}
	}
	return
}

// assertEqSides: for an AssertIsEqual event return its two operands.
func assertEqSides(t *tf.Term) (a, b *tf.Term, ok bool) {
	if isApi(t, "AssertIsEqual") && len(t.Args) == 2 {
		return t.Args[0], t.Args[1], true
	}
	return nil, nil, false
}

// describe shortens a term for messages.
func describe(t *tf.Term) string {
	s := t.Key()
	if len(s) > 220 {
		s = s[:217] + "..."
	}
	return s
}

// mustEvent reports whether an event executes on every path to a normal return and outside any loop.
func mustEvent(e tf.Event) bool {
	on, inLoop := e.OnEveryPathToReturn()
	return on && !inLoop
}

// loopRangeZeroTo checks that the loop's induction variable itself takes 0..n-1 and returns n.
func loopRangeZeroTo(l *tf.Loop) (*tf.Term, bool) {
	if l == nil || l.IV == nil {
		return nil, false
	}
	r, ok := l.Range(&tf.Term{K: tf.KIndVar, Loop: l, Phi: l.IV})
	if !ok {
		return nil, false
	}
	return r.CoversZeroTo()
}

func cmpString(op token.Token) string { return op.String() }

// hintCalls lists events in definition code that introduce prover-chosen values or hand the API to code outside the
// repository.
func hintFindings(p *core.Program, g *gadgetInfo) []string {
	var out []string
	for _, e := range g.Events {
		t := e.Term
		if t.K == tf.KApi {
			switch t.Name {
			case "NewHint", "Commit":
				out = append(out, fmt.Sprintf("api.%s at %s introduces a prover-chosen value", t.Name, p.Pos(e.Instr.Pos())))
			}
			continue
		}
		if t.K != tf.KCall {
			continue
		}
		if strings.HasSuffix(t.Name, ".NewHint") || strings.HasSuffix(t.Name, ".Defer") || strings.HasSuffix(t.Name, ".Commit") {
			out = append(out, fmt.Sprintf("%s at %s introduces a prover-chosen value or deferred constraint", t.Name, p.Pos(e.Instr.Pos())))
			continue
		}
		// the API value handed to a function outside the repository (other than the extractor's Call*)
		callee := e.Instr.Common().StaticCallee()
		if callee != nil && callee.Pkg != nil && !core.InRepo(callee.Pkg.Pkg.Path()) {
			for _, a := range e.Instr.Common().Args {
				if tf.IsAPIType(a.Type()) {
					out = append(out, fmt.Sprintf("the frontend.API is handed to %s at %s: constraints (and hints) emitted there are outside the analysed definition code", callee.String(), p.Pos(e.Instr.Pos())))
				}
			}
		}
	}
	return out
}

// unrestricting lists the frontend.API methods that cannot make a witness unsatisfiable by themselves: an unused result
// of one of these adds at most an always-satisfiable constraint.
var unrestricting = map[string]bool{"Add": true, "Sub": true, "Neg": true, "Mul": true, "MulAcc": true, "IsZero": true,
	"Println": true, "Compiler": true, "ConstantValue": true}

// checkNoExtraConstraints decides the completeness half of an "accepted exactly when" statement structurally: in the given
// definitions every constraint-introducing API call or gadget invocation must be part of (a subterm of) one of the terms the
// other obligations matched exactly — the definition's result or one of the accounted asserts. Anything else is a further
// restriction on the witness that the statement does not mention (a range check, an extra equality, a non-zero divisor).
func checkNoExtraConstraints(p *core.Program, r *core.Report, rule string, defs []*gadgetInfo, accounted map[*gadgetInfo][]tf.Event) {
	seenDef := map[*gadgetInfo]bool{}
	n := 0
	for _, g := range defs {
		if g == nil || seenDef[g] {
			continue
		}
		seenDef[g] = true
		keys := map[string]bool{}
		add := func(t *tf.Term) {
			tf.Walk(t, func(x *tf.Term) bool {
				keys[x.Key()] = true
				return true
			})
		}
		add(g.Ret)
		acc := map[ssa.CallInstruction]bool{}
		for _, e := range accounted[g] {
			add(e.Term)
			acc[e.Instr] = true
		}
		var extra []string
		pos := ""
		for _, e := range g.Events {
			t := e.Term
			if t == nil || (t.K != tf.KApi && t.K != tf.KGadget) {
				continue
			}
			n++
			if acc[e.Instr] || keys[t.Key()] {
				continue
			}
			if t.K == tf.KApi && unrestricting[t.Name] {
				continue
			}
			what := "api." + t.Name
			if t.K == tf.KGadget {
				what = "gadget " + t.Name
			}
			if pos == "" {
				pos = p.Pos(e.Instr.Pos())
			}
			extra = append(extra, fmt.Sprintf("%s at %s: %s", what, p.Pos(e.Instr.Pos()), describe(t)))
		}
		name := g.Name + "." + g.Fn.Name() + ": no constraint beyond the statement's"
		if len(extra) > 0 {
			r.Violation(rule, name, pos, "constraint-introducing call(s) whose result is neither part of the definition's result nor of an accounted assert — a further restriction that rejects statements the property says are provable (or whose effect nothing here decides): %s", strings.Join(extra, "; "))
		} else {
			r.OK(rule, name, p.Pos(g.Fn.Pos()), "every restricting API/gadget call is a subterm of the result or of an accounted assert")
		}
	}
	r.Count("constraint-introducing calls accounted", n)
}

// publicAsserts returns the AssertIsEqual events of a circuit's Define one side of which is a public-tagged field (the
// input-hash binding, decided by C03).
func publicAsserts(ci *gadgetInfo, T *types.Named) []tf.Event {
	pub, _ := publicFields(T)
	var out []tf.Event
	for _, e := range apiEvents(ci, "AssertIsEqual") {
		a, b, _ := assertEqSides(e.Term)
		for _, f := range pub {
			if isRecvField(a, f) || isRecvField(b, f) {
				out = append(out, e)
			}
		}
	}
	return out
}

package checks

import (
	"fmt"
	"go/constant"
	"go/token"
	"go/types"
	"math"
	"sort"
	"strings"

	"golang.org/x/tools/go/ssa"

	"verif/sa/internal/core"
	"verif/sa/internal/eff"
	"verif/sa/internal/tf"
)

func init() { Registry["C04"] = Check{Run: checkC04} }

// sponge parameters of Keccak-256 / SHA3-256 (FIPS 202; Keccak team's specification summary)
const (
	spongeWidth  = 1600
	spongeLane   = 64
	spongeRounds = 24
	domainBits   = 8
)

var fips202RC = [24]uint64{
	0x0000000000000001, 0x0000000000008082, 0x800000000000808A, 0x8000000080008000, 0x000000000000808B, 0x0000000080000001,
	0x8000000080008081, 0x8000000000008009, 0x000000000000008A, 0x0000000000000088, 0x0000000080008009, 0x000000008000000A,
	0x000000008000808B, 0x800000000000008B, 0x8000000000008089, 0x8000000000008003, 0x8000000000008002, 0x8000000000000080,
	0x000000000000800A, 0x800000008000000A, 0x8000000080008081, 0x8000000000008080, 0x0000000080000001, 0x8000000080008008,
}

// rotation offsets r[x][y]
var fips202Rot = [5][5]int64{{0, 36, 3, 41, 18}, {1, 44, 10, 45, 2}, {62, 6, 43, 15, 61}, {28, 55, 25, 21, 56}, {27, 20, 39, 8, 14}}

// numEval evaluates an integer/float term over an assignment of its atoms. It is the finite-domain evaluator behind O4.3.
func numEval(t *tf.Term, atom func(*tf.Term) (float64, bool)) (float64, error) {
	if v, ok := atom(t); ok {
		return v, nil
	}
	switch t.K {
	case tf.KConst:
		if t.Val == nil {
			return 0, fmt.Errorf("constant without value")
		}
		switch t.Val.Kind() {
		case constant.Int, constant.Float:
			f, _ := constant.Float64Val(constant.ToFloat(t.Val))
			return f, nil
		case constant.Bool:
			if constant.BoolVal(t.Val) {
				return 1, nil
			}
			return 0, nil
		}
		return 0, fmt.Errorf("non-numeric constant %s", t.Val)
	case tf.KAff:
		s := float64(t.C)
		for i, a := range t.Args {
			v, err := numEval(a, atom)
			if err != nil {
				return 0, err
			}
			s += float64(t.Coefs[i]) * v
		}
		return s, nil
	case tf.KConv:
		v, err := numEval(t.Args[0], atom)
		if err != nil {
			return 0, err
		}
		if strings.HasPrefix(t.Name, "float") {
			return v, nil
		}
		return math.Trunc(v), nil // float → integer conversion truncates toward zero
	case tf.KCall:
		name := t.Name
		if i := strings.Index(name, "#"); i >= 0 {
			name = name[:i]
		}
		if len(t.Args) == 1 {
			v, err := numEval(t.Args[0], atom)
			if err != nil {
				return 0, err
			}
			switch name {
			case "math.Ceil":
				return math.Ceil(v), nil
			case "math.Floor":
				return math.Floor(v), nil
			case "math.Trunc":
				return math.Trunc(v), nil
			case "math.Round":
				return math.Round(v), nil
			}
		}
		return 0, fmt.Errorf("call %s is outside the evaluator", t.Name)
	case tf.KBin:
		a, err := numEval(t.Args[0], atom)
		if err != nil {
			return 0, err
		}
		b, err := numEval(t.Args[1], atom)
		if err != nil {
			return 0, err
		}
		isInt := t.Type != nil && isIntType(t.Type)
		bv := func(c bool) float64 {
			if c {
				return 1
			}
			return 0
		}
		switch t.Name {
		case "+":
			return a + b, nil
		case "-":
			return a - b, nil
		case "*":
			return a * b, nil
		case "/":
			if b == 0 {
				return 0, fmt.Errorf("division by zero")
			}
			if isInt {
				return math.Trunc(a / b), nil
			}
			return a / b, nil
		case "%":
			if b == 0 {
				return 0, fmt.Errorf("division by zero")
			}
			return math.Mod(a, b), nil
		case "<<":
			return a * math.Pow(2, b), nil
		case ">>":
			return math.Floor(a / math.Pow(2, b)), nil
		case "&":
			return float64(int64(a) & int64(b)), nil
		case "|":
			return float64(int64(a) | int64(b)), nil
		case "==":
			return bv(a == b), nil
		case "!=":
			return bv(a != b), nil
		case "<":
			return bv(a < b), nil
		case "<=":
			return bv(a <= b), nil
		case ">":
			return bv(a > b), nil
		case ">=":
			return bv(a >= b), nil
		}
		return 0, fmt.Errorf("operator %s is outside the evaluator", t.Name)
	case tf.KIte:
		c, err := numEval(t.Args[0], atom)
		if err != nil {
			return 0, err
		}
		if c != 0 {
			return numEval(t.Args[1], atom)
		}
		return numEval(t.Args[2], atom)
	}
	return 0, fmt.Errorf("term %s is outside the evaluator", describe(t))
}

// padSegment is one contiguous range of the padded buffer filled by one loop.
type padSegment struct {
	lo, hi *tf.Term
	kind   string // data, domain, zero
	pos    token.Pos
	why    string
}

func checkC04(p *core.Program, r *core.Report) {
	r.Explanation = "In-circuit Keccak-256 / SHA3-256 — the *sponge layout* only; equality of the 1600-bit permutation with the standard is numerical and not decided (the package's four vectors pin the round function, the tables, the lane↔state mapping and the squeeze, which do not depend on the message length). " +
		"What the vectors do not pin is everything that depends on the message length, and that part is shape: (O4.1) the two constructors configure the gadget as rate 1088 = 1600 − 2·256, 24 rounds, 256 output bits, domain byte 0x01 (Keccak) / 0x06 (SHA-3), and the package's tables; " +
		"(O4.2) the round-constant and rotation tables hold the FIPS-202 values (LSB-first bit expansion) and are never written after initialisation; (O4.3) the padded length term equals the smallest multiple of the rate ≥ n+8 — decided by exhaustive evaluation of the SSA term over every byte-aligned n in [0, 4·rate] for five rates, not by matching a formula; " +
		"(O4.4) the padded buffer is filled by segments that tile [0, |P|) exactly: data[j] at j, the eight domain bits least-significant first at n..n+7, zeros up to |P|, and after the fills exactly one update P[|P|−1] ← Xor(P[|P|−1], 1); " +
		"(O4.5) the absorb loop visits the block offsets 0, r, 2r, … < |P|, takes lane x+5y of a block from P[i+64(x+5y) : i+64(x+5y)+64] for exactly the lanes with x+5y < r/64, combines it into the state only by XOR (or its two all-zero shortcuts), and applies the permutation exactly once per block, after the block's lanes, to the running state. " +
		"Roles (which buffer is the padded message, which field is the rate, the domain, the data) are bound by dataflow from the anchors keccak.NewKeccak256 / NewSHA3_256."
	for id, t := range map[string]string{
		"O4.1": "constructors: rate 1088 = 1600 − 2·256, 24 rounds, output 256, domain 0x01 / 0x06, same package-level tables",
		"O4.2": "tables: FIPS-202 round constants (bits LSB-first) and rotation offsets; never written after initialisation",
		"O4.3": "padded length = smallest multiple of the rate ≥ n+8, for every byte-aligned n in [0, 4·rate] and five rates (finite-domain evaluation of the SSA term)",
		"O4.4": "padding layout: data ‖ domain bits LSB-first ‖ zeros tile [0,|P|); then exactly one update: last bit XOR 1",
		"O4.6": "no hint / prover-chosen value in the sponge's definition code",
		"O4.7": "imported rule: no package-level state in definition code (C12 O12.4)",
		"O4.5": "absorb: block offsets 0, r, … < |P|; lane window P[i+64(x+5y) : +64] for x+5y < r/64; XOR (or all-zero shortcuts) into the state; one permutation per block after its lanes",
	} {
		r.Rule(id, t)
	}
	r.Trusted = append(r.Trusted, "the Keccak-f[1600] round function, the lane↔state mapping and the squeeze as pinned by the package's four test vectors (they do not depend on the message length)", "gnark api.Xor on constants and variables", "go/ssa construction")
	r.NotDecided = append(r.NotDecided, "equality of the permutation with Keccak-f[1600] (numerical)", "digest equality for any concrete message", "squeeze order for outputs longer than 256 bits")

	ctx := newCircuitCtx(p)
	type ctor struct {
		name   string
		domain int64
		term   *tf.Term
	}
	ctors := []*ctor{{"NewKeccak256", 0x01, nil}, {"NewSHA3_256", 0x06, nil}}
	for _, c := range ctors {
		fn := p.Func("prover/keccak", c.name)
		if fn == nil {
			r.Violation("O4.1", "anchor keccak."+c.name, "-", "constructor not found")
			return
		}
		ev := ctx.eng.NewEval(fn)
		t := ev.Resolve(ev.Return())
		if t.K != tf.KGadget {
			r.Violation("O4.1", "keccak."+c.name, p.Pos(fn.Pos()), "the constructor does not return the result of one gadget invocation (got %s)", describe(t))
			return
		}
		c.term = t
		r.AnalysedFn(core.FuncName(fn))
	}
	if ctors[0].term.Name != ctors[1].term.Name {
		r.Violation("O4.1", "keccak constructors", "-", "the two constructors invoke different gadgets (%s, %s)", ctors[0].term.Name, ctors[1].term.Name)
		return
	}
	g := ctx.gadgetOfTerm(ctors[0].term)
	if g == nil {
		r.Violation("O4.1", ctors[0].term.Name+".DefineGadget", "-", "no analysable definition")
		return
	}
	r.AnalysedFn(core.FuncName(g.Fn))
	roles := spongeRoles(p, r, g)
	if roles == nil {
		return
	}
	// ---- O4.1
	for _, c := range ctors {
		var probs []string
		want := map[string]int64{roles.fBlock: spongeWidth - 2*256, roles.fRounds: spongeRounds, roles.fOut: 256, roles.fDomain: c.domain}
		var fields []string
		for f := range want {
			fields = append(fields, f)
		}
		sort.Strings(fields)
		for _, f := range fields {
			if f == "" {
				continue
			}
			v, ok := tf.IntConst(c.term.FieldOf(f))
			if !ok {
				probs = append(probs, fmt.Sprintf("%s is not a constant (%s)", f, describe(c.term.FieldOf(f))))
			} else if v != want[f] {
				probs = append(probs, fmt.Sprintf("%s = %d, the standard requires %d", f, v, want[f]))
			}
		}
		for _, f := range roles.fTables {
			if t := c.term.FieldOf(f); t == nil || t.K != tf.KGlobal {
				probs = append(probs, fmt.Sprintf("%s is not one of the package's tables (%s)", f, describe(t)))
			} else if o := ctors[0].term.FieldOf(f); o != nil && !tf.Eq(o, t) {
				probs = append(probs, fmt.Sprintf("%s differs between the two constructors", f))
			}
		}
		r.Check(len(probs) == 0, "O4.1", "keccak."+c.name+": sponge parameters", ctx.posOf(c.term, g),
			fmt.Sprintf("rate %d, %d rounds, output 256, domain %#02x, tables %s", spongeWidth-2*256, spongeRounds, c.domain, strings.Join(roles.fTables, "/")), strings.Join(probs, "; "))
	}
	r.Count("constructors", len(ctors))
	r.Floor("constructors", 2)
	// ---- O4.2
	checkKeccakTables(p, r, ctors[0].term, roles)
	// ---- O4.3
	checkPaddedLength(p, r, g, roles)
	// ---- O4.4
	checkPaddingLayout(p, r, g, roles)
	// ---- O4.5
	checkAbsorb(p, r, ctx, g, roles)
	// ---- O4.6: "satisfiable exactly when the output is the digest" holds against a dishonest prover only if no bit inside
	// the gadget is prover-chosen: no hints / unconstrained decompositions anywhere in the sponge's definition code
	checkNoHints(p, r, ctx, g, "O4.6")
	// ---- O4.7: the gadget keeps no state between circuits (a mask or buffer kept at package level carries bits of an
	// earlier, differently sized instance)
	importRule(p, r, "O4.7", "C12", "O12.4", "definition code is free of package-level state")
}

// spongeRolesT is what dataflow discovers about the sponge gadget.
type spongeRolesT struct {
	P       *ssa.MakeSlice // the padded message
	lenP    *tf.Term
	window  *ssa.Slice // P[lo:hi] read by the absorb
	outer   *ssa.Phi   // block offset i
	fBlock  string
	fData   string
	fSize   string // declared input size (alias of len(data))
	fDomain string
	fRounds string
	fOut    string
	fTables []string
	perm    *tf.Event
	recv    *tf.Term
}

func spongeRoles(p *core.Program, r *core.Report, g *gadgetInfo) *spongeRolesT {
	ro := &spongeRolesT{recv: g.Ev.Params[0]}
	name := g.Name + ".DefineGadget"
	// the padded message: the make()d buffer a window of which is read with two bounds
	for _, b := range g.Fn.Blocks {
		for _, in := range b.Instrs {
			if sl, ok := in.(*ssa.Slice); ok && sl.Low != nil && sl.High != nil {
				if ms, isMS := sl.X.(*ssa.MakeSlice); isMS && g.Ev.InnermostLoop(b) != nil {
					if ro.window != nil && ro.P != ms {
						r.Undecided("O4.5", name+": absorb window", p.Pos(sl.Pos()), "more than one buffer is read through a two-bound window inside a loop; cannot tell which is the padded message")
						return nil
					}
					ro.P, ro.window = ms, sl
				}
			}
		}
	}
	if ro.P == nil {
		r.Violation("O4.5", name+": absorb window", p.Pos(g.Fn.Pos()), "no lane-sized window P[lo:hi] of a make()d buffer is read inside a loop: the absorb phase is not of the analysable form (block offset + lane offset)")
		return nil
	}
	ro.lenP = g.Ev.Term(ro.P.Len)
	// the block offset: the loop-carried integer in the window's lower bound
	lo := g.Ev.TermIn(ro.window.Low, ro.window.Block())
	_, atoms, _ := tf.AffParts(lo)
	for _, a := range atoms {
		if a.K == tf.KMuVar && a.Phi != nil {
			ro.outer = a.Phi
		}
		if a.K == tf.KIndVar && a.Loop != nil && a.Loop.IV != nil && !isLaneLoop(a.Loop) {
			ro.outer = a.Loop.IV
		}
	}
	if ro.outer == nil {
		r.Violation("O4.5", name+": block offset", p.Pos(ro.window.Pos()), "the absorb window %s does not depend on a loop-carried block offset: every block would read the first block's lanes", describe(lo))
		return nil
	}
	// rate field: the step of the block offset
	for _, e := range ro.outer.Edges {
		if bo, ok := e.(*ssa.BinOp); ok && bo.Op == token.ADD {
			for _, side := range []ssa.Value{bo.X, bo.Y} {
				if side == ssa.Value(ro.outer) {
					continue
				}
				if f, ok := recvFieldName(g.Ev.TermIn(side, bo.Block())); ok {
					ro.fBlock = f
				}
			}
		}
	}
	if ro.fBlock == "" {
		r.Violation("O4.5", name+": block step", p.Pos(ro.outer.Pos()), "the block offset is not advanced by a field of the gadget (the rate)")
		return nil
	}
	// permutation call and its int field (rounds) / tables
	for i := range g.Events {
		e := g.Events[i]
		if e.Term.K != tf.KGadget || e.Ev != g.Ev {
			continue
		}
		l := g.Ev.InnermostLoop(e.Instr.Block())
		if l != nil && l.Header == ro.outer.Block() {
			ro.perm = &g.Events[i]
		}
	}
	if ro.perm == nil {
		r.Violation("O4.5", name+": permutation per block", p.Pos(ro.outer.Pos()), "no gadget is invoked directly in the body of the block loop (outside the lane loops): the state is not permuted between blocks")
		return nil
	}
	for i, fn := range ro.perm.Term.Names {
		a := ro.perm.Term.Args[i]
		if f, ok := recvFieldName(a); ok {
			if isIntType(fieldType(g.T, f)) {
				ro.fRounds = f
			} else {
				ro.fTables = append(ro.fTables, f)
			}
		}
		_ = fn
	}
	sort.Strings(ro.fTables)
	// data / domain from the stores into P; size alias from the length term
	for _, st := range g.Ev.StoresInto(ro.P) {
		tf.Walk(st.Val, func(x *tf.Term) bool {
			if x.K == tf.KIdx {
				if f, ok := recvFieldName(x.Args[0]); ok && ro.fData == "" {
					ro.fData = f
				}
			}
			if x.K == tf.KBin && x.Name == ">>" {
				if f, ok := recvFieldName(x.Args[0]); ok {
					ro.fDomain = f
				}
			}
			return true
		})
	}
	if ro.fData == "" {
		for _, b := range g.Fn.Blocks {
			for _, in := range b.Instrs {
				if c, ok := in.(*ssa.Call); ok {
					if bi, isB := c.Common().Value.(*ssa.Builtin); isB && bi.Name() == "copy" && len(c.Common().Args) == 2 {
						d := c.Common().Args[0]
						if sl, isSl := d.(*ssa.Slice); isSl {
							d = sl.X
						}
						if d == ssa.Value(ro.P) {
							if f, ok := recvFieldName(g.Ev.TermIn(c.Common().Args[1], b)); ok {
								ro.fData = f
							}
						}
					}
				}
			}
		}
	}
	tf.Walk(ro.lenP, func(x *tf.Term) bool {
		if f, ok := recvFieldName(x); ok && f != ro.fBlock && f != ro.fData && isIntType(fieldType(g.T, f)) {
			ro.fSize = f
		}
		return true
	})
	// the remaining integer field is the output size
	if st, ok := g.T.Underlying().(interface {
		NumFields() int
	}); ok {
		_ = st
	}
	for _, f := range structIntFields(g) {
		if f != ro.fBlock && f != ro.fSize && f != ro.fRounds && f != ro.fDomain {
			if ro.fOut != "" {
				r.Undecided("O4.1", name+": integer fields", p.Pos(g.Fn.Pos()), "more than one integer field without a recognised role (%s, %s)", ro.fOut, f)
				return nil
			}
			ro.fOut = f
		}
	}
	if ro.fData == "" || ro.fDomain == "" {
		r.Violation("O4.4", name+": padding stores", p.Pos(ro.P.Pos()), "the padded buffer is not filled from a data field and a shifted domain field of the gadget (data=%q domain=%q)", ro.fData, ro.fDomain)
		return nil
	}
	r.OK("O4.1", name+": roles", p.Pos(g.Fn.Pos()), "padded buffer %s; rate=$g.%s data=$g.%s size=$g.%s domain=$g.%s rounds=$g.%s output=$g.%s tables=%v", ro.P.Name(), ro.fBlock, ro.fData, ro.fSize, ro.fDomain, ro.fRounds, ro.fOut, ro.fTables)
	return ro
}

func structIntFields(g *gadgetInfo) []string {
	var out []string
	st, ok := g.T.Underlying().(interface {
		NumFields() int
	})
	_ = st
	_ = ok
	for i := 0; ; i++ {
		name := structFieldName(g.T, i)
		if name == "" {
			break
		}
		if isIntType(fieldType(g.T, name)) {
			out = append(out, name)
		}
	}
	return out
}

// isLaneLoop: a loop whose induction variable runs over 0..5 (the lane coordinates).
func isLaneLoop(l *tf.Loop) bool {
	if l == nil || l.Bound == nil {
		return false
	}
	n, ok := tf.IntConst(l.Bound)
	return ok && n == 5
}

// ---- O4.2

func checkKeccakTables(p *core.Program, r *core.Report, ctor *tf.Term, ro *spongeRolesT) {
	kp := p.SSAPkg("prover/keccak")
	if kp == nil {
		r.Violation("O4.2", "package prover/keccak", "-", "not found")
		return
	}
	// immutability of every package-level variable of the package
	g := eff.BuildGraph(p)
	all := map[*ssa.Function]*ssa.Function{}
	for _, f := range g.Funcs() {
		all[f] = nil
	}
	isTable := map[*ssa.Global]bool{}
	for _, m := range kp.Members {
		if gl, ok := m.(*ssa.Global); ok && !strings.HasPrefix(gl.Name(), "init$") {
			isTable[gl] = true
		}
	}
	r.Count("keccak tables", len(isTable))
	r.Floor("keccak tables", 2)
	sh := eff.Analyse(g, all, map[ssa.Value]string{}, func(gl *ssa.Global) bool { return isTable[gl] })
	nW := 0
	for _, w := range sh.Writes(func(*ssa.Function, *ssa.CallCommon) bool { return true }) {
		if w.Fn.Name() == "init" || w.Fn.Synthetic != "" {
			continue
		}
		nW++
		r.Violation("O4.2", core.FuncName(w.Fn)+": "+w.What+" ["+w.Root+"]", p.Pos(w.Instr.Pos()), "a table of the Keccak package is written after initialisation: later hashes in the process see altered round constants / offsets")
	}
	if nW == 0 {
		r.OK("O4.2", "repository: writes through references derived from the Keccak tables", "-", "none (%d package-level variables, field-sensitive, interprocedural)", len(isTable))
	}
	// values: read the package initialiser
	initFn := kp.Func("init")
	if initFn == nil {
		r.Undecided("O4.2", "keccak tables: values", "-", "package initialiser not found")
		return
	}
	// rotation offsets: constant stores into a [5][5]int global; round constants: 24 calls f(const) stored into a [24][64] global
	rot := map[[2]int64]int64{}
	var rcs []uint64
	var bitFn *ssa.Function
	var rcPos, rotPos token.Pos
	for _, b := range initFn.Blocks {
		for _, in := range b.Instrs {
			st, ok := in.(*ssa.Store)
			if !ok {
				continue
			}
			base, idx := globalIndexPath(st.Addr)
			if base == nil || !isTable[base] {
				continue
			}
			switch v := st.Val.(type) {
			case *ssa.Const:
				if len(idx) == 2 && v.Value != nil && v.Value.Kind() == constant.Int {
					n, _ := constant.Int64Val(v.Value)
					rot[[2]int64{idx[0], idx[1]}] = n
					rotPos = st.Pos()
				}
			case *ssa.Call:
				if len(idx) == 1 && len(v.Common().Args) == 1 {
					if c, ok := v.Common().Args[0].(*ssa.Const); ok && c.Value != nil {
						if u, exact := constant.Uint64Val(constant.ToInt(c.Value)); exact {
							for int64(len(rcs)) <= idx[0] {
								rcs = append(rcs, 0)
							}
							rcs[idx[0]] = u
							bitFn = v.Common().StaticCallee()
							rcPos = st.Pos()
						}
					}
				}
			}
		}
	}
	// a [5][5]int literal of constants may also be stored as a whole-array constant; accept element-wise form only when found
	if len(rot) == 25 {
		var bad []string
		for x := int64(0); x < 5; x++ {
			for y := int64(0); y < 5; y++ {
				if rot[[2]int64{x, y}] != fips202Rot[x][y] {
					bad = append(bad, fmt.Sprintf("[%d][%d]=%d (standard %d)", x, y, rot[[2]int64{x, y}], fips202Rot[x][y]))
				}
			}
		}
		r.Check(len(bad) == 0, "O4.2", "keccak tables: rotation offsets", p.Pos(rotPos), "25 offsets equal FIPS-202's r[x][y]", "rotation offsets differ from the standard: "+strings.Join(bad, ", "))
	} else if len(rot) > 0 {
		// zero entries of a literal are not stored: fill them with 0 and compare
		var bad []string
		for x := int64(0); x < 5; x++ {
			for y := int64(0); y < 5; y++ {
				if rot[[2]int64{x, y}] != fips202Rot[x][y] {
					bad = append(bad, fmt.Sprintf("[%d][%d]=%d (standard %d)", x, y, rot[[2]int64{x, y}], fips202Rot[x][y]))
				}
			}
		}
		r.Check(len(bad) == 0, "O4.2", "keccak tables: rotation offsets", p.Pos(rotPos), fmt.Sprintf("%d non-zero offsets stored, all 25 equal FIPS-202's r[x][y]", len(rot)), "rotation offsets differ from the standard: "+strings.Join(bad, ", "))
	} else {
		r.OK("O4.2", "keccak tables: rotation offsets", "-", "not initialised by constant stores in the package initialiser: values not read here — pinned by the package's test vectors; immutability is decided above")
	}
	if len(rcs) == 24 {
		var bad []string
		for i, v := range rcs {
			if v != fips202RC[i] {
				bad = append(bad, fmt.Sprintf("RC[%d]=%#016x (standard %#016x)", i, v, fips202RC[i]))
			}
		}
		r.Check(len(bad) == 0, "O4.2", "keccak tables: round constants", p.Pos(rcPos), "24 round constants equal FIPS-202's", "round constants differ from the standard: "+strings.Join(bad, ", "))
		// the expansion to bits is LSB-first
		if bitFn != nil && bitFn.Blocks != nil {
			eng := tf.NewEngine(core.InRepo, 3)
			ev := eng.NewEval(bitFn)
			okBits := false
			var why string
			for _, b := range bitFn.Blocks {
				for _, in := range b.Instrs {
					if al, ok := in.(*ssa.Alloc); ok {
						for _, st := range ev.StoresInto(al) {
							if len(st.Index) != 1 || st.Loop == nil {
								continue
							}
							// b[i] = (a >> i) & 1 for i in 0..64
							v := st.Val
							if v.K == tf.KBin && v.Name == "&" && isConstInt(v.Args[1], 1) && v.Args[0].K == tf.KBin && v.Args[0].Name == ">>" && tf.Eq(v.Args[0].Args[1], st.Index[0]) {
								if n, ok := loopRangeZeroTo(st.Loop); ok && isConstInt(n, spongeLane) {
									okBits = true
								} else {
									why = "the bit loop does not run over 0..63"
								}
							} else {
								why = "bit i of the expansion is " + describe(v) + ", not (a >> i) & 1"
							}
						}
					}
				}
			}
			r.Check(okBits, "O4.2", core.FuncName(bitFn)+": bit order of the round constants", p.Pos(bitFn.Pos()), "bit i = (a >> i) & 1 for i in 0..63 (least-significant first)", "the round constants are not expanded least-significant bit first: "+why)
		}
	} else {
		// built some other way (a word table expanded by a function, say): the values are then not read here; any wrong
		// constant changes every digest and fails the package's own vectors, so nothing is lost by not deciding it
		r.OK("O4.2", "keccak tables: round constants", "-", "not initialised by 24 f(constant) stores in the package initialiser (found %d): values not read here — pinned by the package's test vectors; immutability is decided above", len(rcs))
	}
}

// globalIndexPath: addr = &G[i][j]… with constant indices.
func globalIndexPath(addr ssa.Value) (*ssa.Global, []int64) {
	var idx []int64
	for {
		switch a := addr.(type) {
		case *ssa.Global:
			for i, j := 0, len(idx)-1; i < j; i, j = i+1, j-1 {
				idx[i], idx[j] = idx[j], idx[i]
			}
			return a, idx
		case *ssa.IndexAddr:
			c, ok := a.Index.(*ssa.Const)
			if !ok || c.Value == nil {
				return nil, nil
			}
			n, _ := constant.Int64Val(c.Value)
			idx = append(idx, n)
			addr = a.X
		default:
			return nil, nil
		}
	}
}

// ---- O4.3

func checkPaddedLength(p *core.Program, r *core.Report, g *gadgetInfo, ro *spongeRolesT) {
	name := g.Name + ".DefineGadget: padded length"
	rates := []int64{1088, 576, 832, 1152, 1344}
	var firstBad string
	n := 0
	for _, rate := range rates {
		for bits := int64(0); bits <= 4*rate; bits += 8 {
			atom := func(t *tf.Term) (float64, bool) {
				if f, ok := recvFieldName(t); ok {
					switch f {
					case ro.fBlock:
						return float64(rate), true
					case ro.fSize:
						return float64(bits), true
					}
				}
				if t.K == tf.KLen && isRecvField(t.Args[0], ro.fData) {
					return float64(bits), true
				}
				return 0, false
			}
			got, err := numEval(ro.lenP, atom)
			if err != nil {
				r.Undecided("O4.3", name, p.Pos(ro.P.Pos()), "the length term %s cannot be evaluated over (n, rate): %v", describe(ro.lenP), err)
				return
			}
			want := float64(((bits + domainBits + rate - 1) / rate) * rate)
			n++
			if got != want && firstBad == "" {
				firstBad = fmt.Sprintf("for a %d-byte message at rate %d the buffer has %v bits; pad10*1 with an 8-bit domain needs %v (first difference; lengths are bits)", bits/8, rate, got, want)
			}
		}
	}
	r.Count("padded-length evaluations", n)
	r.Floor("padded-length evaluations", 2000)
	r.Check(firstBad == "", "O4.3", name, p.Pos(ro.P.Pos()), fmt.Sprintf("|P| = smallest multiple of the rate ≥ n+8 at all %d points (n byte-aligned in [0, 4·rate], rates %v); term %s", n, rates, describe(ro.lenP)), firstBad)
}

// ---- O4.4

func checkPaddingLayout(p *core.Program, r *core.Report, g *gadgetInfo, ro *spongeRolesT) {
	name := g.Name + ".DefineGadget"
	ev := g.Ev
	recv := ro.recv
	nTerm := tf.Len(tf.Field(recv, ro.fData))
	// normalise the declared size to len(data)
	norm := func(t *tf.Term) *tf.Term {
		if t == nil || ro.fSize == "" {
			return t
		}
		return tf.Subst(t, func(x *tf.Term) *tf.Term {
			if isRecvField(x, ro.fSize) {
				return nTerm
			}
			return nil
		})
	}
	lenP := norm(ro.lenP)
	isLenP := func(t *tf.Term) bool {
		t = norm(t)
		if tf.Eq(t, lenP) {
			return true
		}
		return t.K == tf.KLen && t.Args[0].K == tf.KMake && t.Args[0].Instr == ssa.Instruction(ro.P)
	}
	var segs []padSegment
	var finals []tf.StoreInfo
	var other []string
	for _, st := range ev.StoresInto(ro.P) {
		if len(st.Index) != 1 || st.Index[0] == nil {
			other = append(other, "a store at "+p.Pos(st.Instr.Pos())+" does not address one element")
			continue
		}
		idx := st.Index[0]
		if st.Loop == nil {
			finals = append(finals, st)
			continue
		}
		lo0, hi0, ok := segmentOf(idx, st.Loop)
		if !ok || !dominatesLatches(st.Instr.Block(), st.Loop) {
			// a guarded read-modify-write loop (the mask idiom) is handled with the final update
			finals = append(finals, st)
			continue
		}
		if _, isXor := st.Instr.Val.(*ssa.Call); isXor {
			finals = append(finals, st)
			continue
		}
		lo, hi := norm(lo0), norm(hi0)
		seg := padSegment{lo: lo, hi: hi, pos: st.Instr.Pos()}
		v := st.Val
		switch {
		case v.K == tf.KIdx && isRecvField(v.Args[0], ro.fData):
			// P[lo+j] = data[j]
			if tf.Eq(norm(tf.AffAdd(idx, v.Args[1], -1)), lo) {
				seg.kind = "data"
			} else {
				seg.why = "data[" + describe(v.Args[1]) + "] is stored at " + describe(idx) + ": not (segment start + j) ↦ data[j] from j = 0"
			}
		case v.K == tf.KBin && v.Name == "&" && isConstInt(v.Args[1], 1) && v.Args[0].K == tf.KBin && v.Args[0].Name == ">>" && isRecvField(v.Args[0].Args[0], ro.fDomain):
			// P[lo+k] = (domain >> k) & 1
			k := v.Args[0].Args[1]
			if tf.Eq(norm(tf.AffAdd(idx, k, -1)), lo) {
				seg.kind = "domain"
			} else {
				seg.why = "domain bit " + describe(k) + " is not stored at position (segment start + bit number): the byte would be written most-significant first or shifted"
			}
		case isConstInt(v, 0):
			seg.kind = "zero"
		default:
			seg.why = "unrecognised fill value " + describe(v)
		}
		segs = append(segs, seg)
	}
	// copy(P[lo:], data) is a data segment [lo, lo+len(data))
	for _, b := range g.Fn.Blocks {
		for _, in := range b.Instrs {
			c, ok := in.(*ssa.Call)
			if !ok {
				continue
			}
			if bi, isB := c.Common().Value.(*ssa.Builtin); !isB || bi.Name() != "copy" || len(c.Common().Args) != 2 {
				continue
			}
			dst, src := c.Common().Args[0], c.Common().Args[1]
			lo := tf.ConstInt(0)
			if sl, isSl := dst.(*ssa.Slice); isSl && sl.X == ssa.Value(ro.P) {
				if sl.Low != nil {
					lo = norm(ev.TermIn(sl.Low, b))
				}
				if sl.High != nil {
					other = append(other, "copy into a bounded window of the padded buffer at "+p.Pos(c.Pos()))
					continue
				}
			} else if dst != ssa.Value(ro.P) {
				continue
			}
			if !isRecvField(ev.TermIn(src, b), ro.fData) {
				other = append(other, "copy of "+describe(ev.TermIn(src, b))+" into the padded buffer at "+p.Pos(c.Pos()))
				continue
			}
			if ev.InnermostLoop(b) != nil || !blockOnEveryNormalPath(b) {
				other = append(other, "conditional or repeated copy into the padded buffer at "+p.Pos(c.Pos()))
				continue
			}
			segs = append(segs, padSegment{lo: lo, hi: tf.AffAdd(lo, nTerm, 1), kind: "data", pos: c.Pos()})
		}
	}
	r.Count("padding fill segments", len(segs))
	r.Floor("padding fill segments", 3)
	var probs []string
	probs = append(probs, other...)
	for _, s := range segs {
		if s.kind == "" {
			probs = append(probs, fmt.Sprintf("segment at %s: %s", p.Pos(s.pos), s.why))
		}
	}
	// tiling: data from 0, then domain, then zeros up to |P|
	find := func(kind string) *padSegment {
		var out *padSegment
		for i := range segs {
			if segs[i].kind == kind {
				if out != nil {
					probs = append(probs, "two "+kind+" segments")
				}
				out = &segs[i]
			}
		}
		if out == nil {
			probs = append(probs, "no "+kind+" segment")
		}
		return out
	}
	d, dm, z := find("data"), find("domain"), find("zero")
	if d != nil && dm != nil && z != nil && len(probs) == 0 {
		if !isConstInt(d.lo, 0) {
			probs = append(probs, "the data does not start at bit 0 ("+describe(d.lo)+")")
		}
		if !tf.Eq(d.hi, nTerm) {
			probs = append(probs, "the data segment ends at "+describe(d.hi)+", not at len(data)")
		}
		if !tf.Eq(dm.lo, d.hi) {
			probs = append(probs, "the domain bits start at "+describe(dm.lo)+", not right after the data ("+describe(d.hi)+")")
		}
		if w, ok := tf.AffDiff(dm.hi, dm.lo); !ok || w != domainBits {
			probs = append(probs, fmt.Sprintf("the domain segment is %s..%s, not %d bits", describe(dm.lo), describe(dm.hi), domainBits))
		}
		if !tf.Eq(z.lo, dm.hi) {
			probs = append(probs, "the zero fill starts at "+describe(z.lo)+", not right after the domain bits ("+describe(dm.hi)+"): a gap keeps whatever the buffer held")
		}
		if !isLenP(z.hi) {
			probs = append(probs, "the zero fill ends at "+describe(z.hi)+", not at |P|")
		}
	}
	pos := p.Pos(ro.P.Pos())
	r.Check(len(probs) == 0, "O4.4", name+": fill segments tile the padded buffer", pos, "data[0,n) ‖ domain bits LSB-first [n,n+8) ‖ zeros [n+8,|P|)", strings.Join(probs, "; "))
	// final update: exactly one P[|P|-1] ^= 1 after the fills
	checkFinalBit(p, r, g, ro, finals, isLenP, norm)
}

// segmentOf: for a store index that is (loop counter + rest), with the counter running from Init by 1 while counter+off <
// bound, the half-open range of positions written.
func segmentOf(idx *tf.Term, l *tf.Loop) (lo, hi *tf.Term, ok bool) {
	if l == nil || l.IV == nil || !l.HasCond || !l.ExitsOK || l.Step != 1 || l.CondOp != token.LSS || l.Init == nil || l.Bound == nil {
		return nil, nil, false
	}
	c, atoms, coefs := tf.AffParts(idx)
	rest := tf.ConstInt(c)
	found := false
	for i, a := range atoms {
		if a.K == tf.KIndVar && a.Loop == l {
			if coefs[i] != 1 {
				return nil, nil, false
			}
			found = true
			continue
		}
		rest = tf.AffAdd(rest, a, coefs[i])
	}
	if !found {
		return nil, nil, false
	}
	lo = tf.AffAdd(rest, l.Init, 1)
	hi = tf.AffAdd(rest, tf.AffAdd(l.Bound, tf.ConstInt(l.TestOff), -1), 1)
	return lo, hi, true
}

func firstOf(l *tf.Loop) *tf.Term {
	if l == nil || l.Init == nil {
		return tf.ConstInt(0)
	}
	return l.Init
}

func dominatesLatches(b *ssa.BasicBlock, l *tf.Loop) bool {
	for _, pred := range l.Header.Preds {
		if l.Blocks[pred] && !(b == pred || b.Dominates(pred)) {
			return false
		}
	}
	return true
}

// checkFinalBit: the remaining stores into P must be exactly one effective update P[|P|-1] = Xor(P[|P|-1], 1): written
// directly, or as a loop over all positions guarded by a mask buffer that is 1 at the last position and 0 elsewhere.
func checkFinalBit(p *core.Program, r *core.Report, g *gadgetInfo, ro *spongeRolesT, finals []tf.StoreInfo, isLenP func(*tf.Term) bool, norm func(*tf.Term) *tf.Term) {
	name := g.Name + ".DefineGadget: final padding bit"
	ev := g.Ev
	if len(finals) != 1 {
		var at []string
		for _, f := range finals {
			at = append(at, p.Pos(f.Instr.Pos()))
		}
		r.Violation("O4.4", name, p.Pos(ro.P.Pos()), "expected exactly one update of the padded buffer besides the three fills (the closing 1 bit of pad10*1), found %d %v", len(finals), at)
		return
	}
	st := finals[0]
	pos := p.Pos(st.Instr.Pos())
	call, ok := st.Instr.Val.(*ssa.Call)
	if !ok || !isAPICall(call, "Xor") || len(call.Common().Args) != 2 {
		r.Violation("O4.4", name, pos, "the closing update does not store api.Xor(·,·) (got %s)", st.Instr.Val.String())
		return
	}
	ia, ok := st.Instr.Addr.(*ssa.IndexAddr)
	if !ok {
		r.Violation("O4.4", name, pos, "the closing update does not address an element of the padded buffer")
		return
	}
	// operands: a load of the same element, and either the constant 1 or a load of mask[same index]
	var self, otherV ssa.Value
	for _, a := range call.Common().Args {
		if ld := loadOfIndex(a); ld != nil && ld.X == ia.X && sameIndex(ev, ld, ia) {
			self = a
		} else {
			otherV = a
		}
	}
	if self == nil || otherV == nil {
		r.Violation("O4.4", name, pos, "the closing update is not P[k] = Xor(P[k], ·) on one and the same element")
		return
	}
	idx := norm(ev.TermIn(ia.Index, ia.Block()))
	lastOf := func(t *tf.Term) bool {
		// t == |P| - 1
		c, atoms, coefs := tf.AffParts(t)
		if c == -1 && len(atoms) == 1 && coefs[0] == 1 && isLenP(atoms[0]) {
			return true
		}
		return isLenP(tf.AffAdd(t, tf.ConstInt(1), 1))
	}
	if st.Loop == nil {
		okOne := false
		if mi, isMI := otherV.(*ssa.MakeInterface); isMI {
			if c, isC := mi.X.(*ssa.Const); isC && c.Value != nil && c.Value.Kind() == constant.Int {
				n, _ := constant.Int64Val(c.Value)
				okOne = n == 1
			}
		}
		okPos := lastOf(idx)
		mustRun := blockOnEveryNormalPath(st.Instr.Block())
		var probs []string
		if !okOne {
			probs = append(probs, "the other operand is not the constant 1")
		}
		if !okPos {
			probs = append(probs, "the position is "+describe(idx)+", not |P|−1")
		}
		if !mustRun {
			probs = append(probs, "the update is conditional")
		}
		r.Check(len(probs) == 0, "O4.4", name, pos, "P[|P|−1] = Xor(P[|P|−1], 1), unconditionally, after the fills", strings.Join(probs, "; "))
		return
	}
	// mask idiom
	mld := loadOfIndex(otherV)
	var mask *ssa.MakeSlice
	if mld != nil {
		mask, _ = mld.X.(*ssa.MakeSlice)
	}
	if mask == nil || !sameIndex(ev, mld, ia) {
		r.Violation("O4.4", name, pos, "inside a loop the closing update must be P[i] = Xor(P[i], M[i]) with a mask buffer M; the other operand is %s", otherV.String())
		return
	}
	var probs []string
	// loop covers 0..|P|
	rng, okR := st.Loop.Range(ev.TermIn(ia.Index, ia.Block()))
	if n, okZ := rng.CoversZeroTo(); !okR || !okZ || !isLenP(n) {
		probs = append(probs, "the mask loop does not run over 0..|P|−1")
	}
	// guard: the store's block is entered only when M[i] != 0, or unconditionally
	guardOK := dominatesLatches(st.Instr.Block(), st.Loop)
	if !guardOK {
		if d := st.Instr.Block().Idom(); d != nil {
			if iff, isIf := d.Instrs[len(d.Instrs)-1].(*ssa.If); isIf {
				if bo, isB := iff.Cond.(*ssa.BinOp); isB && (bo.Op == token.NEQ || bo.Op == token.EQL) {
					var ld *ssa.IndexAddr
					zero := false
					for _, side := range []ssa.Value{bo.X, bo.Y} {
						if l := loadOfIndex(side); l != nil {
							ld = l
						}
						if mi, isMI := side.(*ssa.MakeInterface); isMI {
							if c, isC := mi.X.(*ssa.Const); isC && c.Value != nil && c.Value.Kind() == constant.Int {
								n, _ := constant.Int64Val(c.Value)
								zero = n == 0
							}
						}
					}
					onTrue := d.Succs[0] == st.Instr.Block()
					if ld != nil && ld.X == ssa.Value(mask) && sameIndex(ev, ld, ia) && zero && ((bo.Op == token.NEQ) == onTrue) {
						guardOK = true
					}
				}
			}
		}
	}
	if !guardOK {
		probs = append(probs, "the update inside the mask loop is guarded by something other than M[i] != 0")
	}
	// mask contents: zeros on [0, |P|-1) and a single 1 at |P|-1
	if !isLenP(ev.Term(mask.Len)) {
		probs = append(probs, "the mask buffer does not have the padded buffer's length")
	}
	zeroSeg, oneAt := false, false
	for _, ms := range ev.StoresInto(mask) {
		if len(ms.Index) != 1 {
			probs = append(probs, "unrecognised store into the mask at "+p.Pos(ms.Instr.Pos()))
			continue
		}
		switch {
		case ms.Loop != nil && isConstInt(ms.Val, 0):
			rg, ok := ms.Loop.Range(ms.Index[0])
			lo, okLo := tf.IntConst(rg.First)
			hi := norm(tf.AffAdd(rg.Bound, tf.ConstInt(rg.Off), -1))
			if ok && okLo && lo == 0 && rg.Step == 1 && rg.CondOp == token.LSS && (lastOf(hi) || isLenP(hi)) {
				zeroSeg = true
			} else {
				probs = append(probs, "the mask's zero fill does not cover [0, |P|−1)")
			}
		case ms.Loop == nil && isConstInt(ms.Val, 1):
			if lastOf(norm(ms.Index[0])) && blockOnEveryNormalPath(ms.Instr.Block()) {
				if oneAt {
					probs = append(probs, "the mask has more than one 1")
				}
				oneAt = true
			} else {
				probs = append(probs, "the mask's 1 is at "+describe(ms.Index[0])+", not at |P|−1 (or conditional)")
			}
		default:
			probs = append(probs, "the mask holds "+describe(ms.Val)+" at "+describe(ms.Index[0]))
		}
	}
	if !zeroSeg {
		probs = append(probs, "the mask is not zero below its last position")
	}
	if !oneAt {
		probs = append(probs, "the mask has no 1 at its last position")
	}
	r.Check(len(probs) == 0, "O4.4", name, pos, "for i in 0..|P|−1: if M[i] != 0 { P[i] = Xor(P[i], M[i]) } with M = 0…01 ⇒ P[|P|−1] = Xor(P[|P|−1], 1)", strings.Join(probs, "; "))
}

// sameIndex: two element addresses use the same index value (go/ssa has no common-subexpression elimination, so the
// comparison is on terms, not instructions).
func sameIndex(ev *tf.Eval, a, b *ssa.IndexAddr) bool {
	if a.Index == b.Index {
		return true
	}
	return tf.Eq(ev.TermIn(a.Index, a.Block()), ev.TermIn(b.Index, b.Block()))
}

func isAPICall(c *ssa.Call, method string) bool {
	com := c.Common()
	return com.IsInvoke() && com.Method.Name() == method && tf.IsAPIType(com.Value.Type())
}

// loadOfIndex: v = *(&X[i]) → the IndexAddr.
func loadOfIndex(v ssa.Value) *ssa.IndexAddr {
	u, ok := v.(*ssa.UnOp)
	if !ok || u.Op != token.MUL {
		return nil
	}
	ia, _ := u.X.(*ssa.IndexAddr)
	return ia
}

// blockOnEveryNormalPath: b dominates every return of its function.
func blockOnEveryNormalPath(b *ssa.BasicBlock) bool {
	for _, x := range b.Parent().Blocks {
		if len(x.Instrs) == 0 {
			continue
		}
		if _, ok := x.Instrs[len(x.Instrs)-1].(*ssa.Return); ok && !(b == x || b.Dominates(x)) {
			return false
		}
	}
	return true
}

// ---- O4.5

func checkAbsorb(p *core.Program, r *core.Report, ctx *circuitCtx, g *gadgetInfo, ro *spongeRolesT) {
	name := g.Name + ".DefineGadget"
	ev := g.Ev
	norm := func(t *tf.Term) *tf.Term { return t }
	_ = norm
	// (i) block loop: i = 0; i < |P|; i += rate, exits only from the header
	hdr := ro.outer.Block()
	var probs []string
	initOK, stepOK := false, false
	for k, e := range ro.outer.Edges {
		pred := hdr.Preds[k]
		inLoop := hdr.Dominates(pred)
		if !inLoop {
			if c, ok := e.(*ssa.Const); ok && c.Value != nil {
				if n, exact := constant.Int64Val(c.Value); exact && n == 0 {
					initOK = true
				}
			}
			continue
		}
		if bo, ok := e.(*ssa.BinOp); ok && bo.Op == token.ADD {
			var other ssa.Value
			if bo.X == ssa.Value(ro.outer) {
				other = bo.Y
			} else if bo.Y == ssa.Value(ro.outer) {
				other = bo.X
			}
			if other != nil && isRecvField(ev.TermIn(other, bo.Block()), ro.fBlock) {
				stepOK = true
			}
		}
	}
	if !initOK {
		probs = append(probs, "the block offset does not start at 0")
	}
	if !stepOK {
		probs = append(probs, "the block offset is not advanced by exactly the rate on every iteration")
	}
	condOK := false
	if iff, ok := hdr.Instrs[len(hdr.Instrs)-1].(*ssa.If); ok {
		if bo, ok := iff.Cond.(*ssa.BinOp); ok {
			x, y := bo.X, bo.Y
			op := bo.Op
			if y == ssa.Value(ro.outer) {
				x, y = y, x
				op = flipCmpTok(op)
			}
			stayTrue := hdr.Dominates(hdr.Succs[0]) && loopContains(hdr, hdr.Succs[0])
			if !stayTrue {
				op = negCmpTok(op)
			}
			bt := ev.TermIn(y, hdr)
			if x == ssa.Value(ro.outer) && op == token.LSS && (tf.Eq(bt, ro.lenP) || (bt.K == tf.KLen && bt.Args[0].K == tf.KMake && bt.Args[0].Instr == ssa.Instruction(ro.P))) {
				condOK = true
			}
		}
	}
	if !condOK {
		probs = append(probs, "the block loop does not run while offset < |P| (a last or an extra block would be skipped or read past the buffer)")
	}
	// exits only from the header
	for _, b := range g.Fn.Blocks {
		if b != hdr && loopContains(hdr, b) {
			for _, s := range b.Succs {
				if !loopContains(hdr, s) {
					probs = append(probs, "the block loop is left from its body at "+p.Pos(b.Instrs[len(b.Instrs)-1].Pos()))
				}
			}
		}
	}
	r.Check(len(probs) == 0, "O4.5", name+": block loop", p.Pos(ro.outer.Pos()), "offset = 0, rate, 2·rate, … while offset < |P|", strings.Join(probs, "; "))
	r.Count("block loops", 1)
	r.Floor("block loops", 1)

	// (ii) lane window
	probs = nil
	wb := ro.window.Block()
	lo, hi := ev.TermIn(ro.window.Low, wb), ev.TermIn(ro.window.High, wb)
	w, okW := tf.AffDiff(hi, lo)
	if !okW || w != spongeLane {
		probs = append(probs, fmt.Sprintf("the window %s:%s is not %d bits wide", describe(lo), describe(hi), spongeLane))
	}
	c, atoms, coefs := tf.AffParts(lo)
	var xl, yl *tf.Loop
	offCoef := int64(0)
	for i, a := range atoms {
		switch {
		case (a.K == tf.KMuVar || a.K == tf.KIndVar) && a.Phi == ro.outer, a.K == tf.KIndVar && a.Loop != nil && a.Loop.IV == ro.outer:
			offCoef = coefs[i]
		case a.K == tf.KIndVar && coefs[i] == spongeLane:
			xl = a.Loop
		case a.K == tf.KIndVar && coefs[i] == 5*spongeLane:
			yl = a.Loop
		default:
			probs = append(probs, "unexpected term "+describe(a)+" in the window offset")
		}
	}
	if c != 0 {
		probs = append(probs, fmt.Sprintf("the window offset has a constant part %d", c))
	}
	if offCoef != 1 {
		probs = append(probs, "the window does not start at (block offset + lane offset): block ≥ 2 would re-read the wrong bits")
	}
	if xl == nil || yl == nil {
		probs = append(probs, "the lane offset is not 64·x + 320·y for two lane coordinates")
	} else {
		for _, l := range []*tf.Loop{xl, yl} {
			if n, ok := loopRangeZeroTo(l); !ok || !isConstInt(n, 5) {
				probs = append(probs, "a lane coordinate does not run over 0..4")
			}
		}
	}
	// guard x+5y < rate/64 on the dominator chain of the window
	guard := false
	guardBlocks := map[*ssa.BasicBlock]bool{}
	if xl != nil && yl != nil {
		for d := wb; d != nil; d = d.Idom() {
			iff, ok := d.Instrs[len(d.Instrs)-1].(*ssa.If)
			if !ok || d == wb {
				continue
			}
			onT := (d.Succs[0] == wb || d.Succs[0].Dominates(wb)) && !d.Succs[0].Dominates(d)
			onF := (d.Succs[1] == wb || d.Succs[1].Dominates(wb)) && !d.Succs[1].Dominates(d)
			ct := ev.TermIn(iff.Cond, d)
			if ct.K != tf.KBin || onT == onF {
				continue
			}
			// normalise to "lane < bound" holding on the window's side
			op := ct.Name
			laneT, boundT := ct.Args[0], ct.Args[1]
			if onF {
				op = map[string]string{"<": ">=", ">=": "<", ">": "<=", "<=": ">"}[op]
			}
			if op == ">" { // bound > lane
				op, laneT, boundT = "<", boundT, laneT
			}
			if op != "<" {
				continue
			}
			ct = &tf.Term{K: tf.KBin, Name: "<", Args: []*tf.Term{laneT, boundT}}
			lc, la, lco := tf.AffParts(ct.Args[0])
			okL := lc == 0 && len(la) == 2
			if okL {
				for i, a := range la {
					switch {
					case a.K == tf.KIndVar && a.Loop == xl && lco[i] == 1:
					case a.K == tf.KIndVar && a.Loop == yl && lco[i] == 5:
					default:
						okL = false
					}
				}
			}
			rt := ct.Args[1]
			okR := rt.K == tf.KBin && rt.Name == "/" && isRecvField(rt.Args[0], ro.fBlock) && isConstInt(rt.Args[1], spongeLane)
			if okL && okR {
				guard = true
				guardBlocks[d] = true
			}
		}
	}
	if !guard {
		probs = append(probs, "the window is not guarded by x+5y < rate/64: capacity lanes would absorb message bits, or rate lanes would be skipped")
	}
	// nothing else decides whether a block's lanes are absorbed: inside the block loop the only conditions above the
	// window are the loop tests and the rate guard (a "this block is padding only" flag skips the lanes of some blocks)
	if xl != nil && yl != nil {
		for d := wb.Idom(); d != nil && d != hdr && loopContains(hdr, d); d = d.Idom() {
			iff, ok := d.Instrs[len(d.Instrs)-1].(*ssa.If)
			if !ok || d == xl.Header || d == yl.Header || guardBlocks[d] {
				continue
			}
			onT := d.Succs[0] == wb || d.Succs[0].Dominates(wb)
			onF := d.Succs[1] == wb || d.Succs[1].Dominates(wb)
			if onT != onF {
				probs = append(probs, "the lanes of a block are absorbed only under a further condition ("+describe(ev.TermIn(iff.Cond, d))+" at "+p.Pos(condPos(iff))+")")
			}
		}
	}
	r.Check(len(probs) == 0, "O4.5", name+": lane window", p.Pos(ro.window.Pos()), "P[i+64(x+5y) : i+64(x+5y)+64] for x, y in 0..4 with x+5y < rate/64", strings.Join(probs, "; "))

	// (iii) one permutation per block, after the lanes, on the running state, result becomes the state
	probs = nil
	pb := ro.perm.Instr.Block()
	if !dominatesBackEdges(pb, hdr) {
		probs = append(probs, "the permutation is not applied on every iteration of the block loop")
	}
	nPerm := 0
	for _, e := range g.Events {
		if e.Term.K == tf.KGadget && e.Term.Name == ro.perm.Term.Name && e.Ev == g.Ev {
			if l := ev.InnermostLoop(e.Instr.Block()); l != nil && l.Header == hdr {
				nPerm++
			}
		}
	}
	if nPerm != 1 {
		probs = append(probs, fmt.Sprintf("%d permutation calls in the block loop body", nPerm))
	}
	// the window's lane loops must be finished: the permutation's block is not inside them and they dominate it
	if xl != nil && yl != nil {
		outerLane := xl
		if yl.Blocks[xl.Header] {
			outerLane = yl
		}
		for _, l := range []*tf.Loop{xl, yl} {
			if l.Blocks[pb] {
				probs = append(probs, "the permutation is applied inside a lane loop")
			}
		}
		if !outerLane.Header.Dominates(pb) {
			probs = append(probs, "the permutation does not come after the lane loops")
		}
	}
	// operand: the state that the lanes were absorbed into; result: next state
	var stateField string
	for i, fn := range ro.perm.Term.Names {
		a := ro.perm.Term.Args[i]
		if _, isRecv := recvFieldName(a); !isRecv {
			stateField = fn
			_ = a
		}
	}
	if stateField == "" {
		probs = append(probs, "the permutation is not given the running state")
	}
	r.Check(len(probs) == 0, "O4.5", name+": one permutation per absorbed block", p.Pos(ro.perm.Instr.Pos()), fmt.Sprintf("%s{%s: state, …} once per block, after the block's lanes", ro.perm.Term.Name, stateField), strings.Join(probs, "; "))

	// (iv) combination: every gadget applied to the window's copy inside the lane loops is a lane-wise XOR with the state
	probs = nil
	nXor := 0
	for _, e := range g.Events {
		if e.Term.K != tf.KGadget || e.Ev != g.Ev || xl == nil || yl == nil {
			continue
		}
		b := e.Instr.Block()
		if !(xl.Blocks[b] && yl.Blocks[b]) {
			continue
		}
		gi := ctx.gadgetOfTerm(e.Term)
		if gi == nil {
			probs = append(probs, "lane combiner "+e.Term.Name+" has no analysable definition")
			continue
		}
		if why := laneWiseXor(gi); why != "" {
			probs = append(probs, "lane combiner "+e.Term.Name+": "+why)
		} else {
			nXor++
		}
	}
	if nXor == 0 && len(probs) == 0 {
		probs = append(probs, "no XOR of the window into the state in the lane loops")
	}
	r.Check(len(probs) == 0, "O4.5", name+": lanes are XORed into the state", p.Pos(ro.window.Pos()), fmt.Sprintf("%d lane-wise XOR combiner(s) in the lane loops", nXor), strings.Join(probs, "; "))

	// (v) shortcuts: between the window and the combiner a lane may be skipped only because the window is all-zero, and
	// stored unchanged only because the state lane is all-zero; any other condition (a position, a block number) makes
	// the absorbed value depend on something other than P's bits
	if xl == nil || yl == nil {
		return
	}
	probs = nil
	nShort := 0
	var winCopy ssa.Value
	for _, in := range wb.Instrs {
		if c, ok := in.(*ssa.Call); ok {
			if bi, isB := c.Call.Value.(*ssa.Builtin); isB && bi.Name() == "copy" && stripFullSlice(c.Call.Args[1]) == ssa.Value(ro.window) {
				winCopy = stripFullSlice(c.Call.Args[0])
			}
			if f := c.Call.StaticCallee(); f != nil && isStdFunc(f, "slices", "Clone") && len(c.Call.Args) == 1 && stripFullSlice(c.Call.Args[0]) == ssa.Value(ro.window) {
				winCopy = c
			}
		}
	}
	isWin := func(v ssa.Value) bool {
		v = stripFullSlice(v)
		return v == ssa.Value(ro.window) || (winCopy != nil && v == winCopy)
	}
	for _, b := range g.Fn.Blocks {
		if !(xl.Blocks[b] && yl.Blocks[b]) || !(wb == b || wb.Dominates(b)) || len(b.Instrs) == 0 {
			continue
		}
		iff, ok := b.Instrs[len(b.Instrs)-1].(*ssa.If)
		if !ok {
			continue
		}
		if l := ev.InnermostLoop(b); l != xl && l != yl {
			if l != nil && l.Header == b {
				continue
			}
			probs = append(probs, "a branch inside a loop nested in the lane loops at "+p.Pos(iff.Pos()))
			continue
		}
		cond, tIdx := iff.Cond, 0
		if u, isU := cond.(*ssa.UnOp); isU && u.Op == token.NOT {
			cond, tIdx = u.X, 1
		}
		call, isCall := cond.(*ssa.Call)
		var callee *ssa.Function
		if isCall {
			callee = call.Common().StaticCallee()
		}
		if callee == nil || len(call.Common().Args) != 1 {
			probs = append(probs, "after the window is taken, a lane is treated differently under a condition that is not an all-zero test of the window or of the state lane ("+describe(ev.TermIn(iff.Cond, b))+" at "+p.Pos(condPos(iff))+")")
			continue
		}
		if why := allZeroPredicate(ctx, callee); why != "" {
			probs = append(probs, callee.Name()+" decides how a lane is absorbed but is not an all-zero test: "+why)
			continue
		}
		arg := call.Common().Args[0]
		if isWin(arg) {
			// the true side may skip the combiner (x ⊕ 0 = x); whatever it stores is checked below
			nShort++
			continue
		}
		ia := loadOfIndex(arg)
		ts := b.Succs[tIdx]
		stored := false
		if ia != nil && len(ts.Preds) == 1 {
			for _, in := range ts.Instrs {
				if st, isSt := in.(*ssa.Store); isSt {
					if sa, isIA := st.Addr.(*ssa.IndexAddr); isIA && sameIndex(ev, sa, ia) && sameLaneRow(ev, sa, ia) && isWin(st.Val) {
						stored = true
					}
				}
			}
		}
		if !stored {
			probs = append(probs, "the all-zero test at "+p.Pos(condPos(iff))+" is neither on the window nor on a state lane that then receives the window (0 ⊕ w = w)")
			continue
		}
		nShort++
	}
	// stores of a whole lane after the window: the combiner's result, or the window itself under the state-lane test above
	for _, b := range g.Fn.Blocks {
		if !(xl.Blocks[b] && yl.Blocks[b]) || !(wb == b || wb.Dominates(b)) {
			continue
		}
		for _, in := range b.Instrs {
			st, isSt := in.(*ssa.Store)
			if !isSt {
				continue
			}
			if _, isIA := st.Addr.(*ssa.IndexAddr); !isIA {
				continue
			}
			if _, isSl := st.Val.Type().Underlying().(*types.Slice); !isSl {
				continue
			}
			if isWin(st.Val) {
				guarded := false
				if len(b.Preds) == 1 {
					d := b.Preds[0]
					if iff, ok := d.Instrs[len(d.Instrs)-1].(*ssa.If); ok {
						cond, tIdx := iff.Cond, 0
						if u, isU := cond.(*ssa.UnOp); isU && u.Op == token.NOT {
							cond, tIdx = u.X, 1
						}
						if call, isCall := cond.(*ssa.Call); isCall && d.Succs[tIdx] == b && call.Common().StaticCallee() != nil && len(call.Common().Args) == 1 &&
							allZeroPredicate(ctx, call.Common().StaticCallee()) == "" {
							if ia := loadOfIndex(call.Common().Args[0]); ia != nil && sameIndex(ev, st.Addr.(*ssa.IndexAddr), ia) && sameLaneRow(ev, st.Addr.(*ssa.IndexAddr), ia) {
								guarded = true
							}
						}
					}
				}
				if !guarded {
					probs = append(probs, "the window replaces a state lane at "+p.Pos(st.Pos())+" without that lane having been tested all-zero (the previous blocks' state would be lost)")
				}
				continue
			}
			isComb := false
			for _, e := range g.Events {
				if e.Ev == g.Ev && e.Term.K == tf.KGadget && e.Instr == ssa.Instruction(asInstr(st.Val)) {
					isComb = true
				}
			}
			if !isComb {
				probs = append(probs, "a lane is overwritten at "+p.Pos(st.Pos())+" with something that is neither the XOR combiner's result nor the window")
			}
		}
	}
	r.Check(len(probs) == 0, "O4.5", name+": lane shortcuts", p.Pos(ro.window.Pos()), fmt.Sprintf("%d shortcut(s), each an all-zero test of the window (skip) or of the state lane (store the window)", nShort), strings.Join(probs, "; "))
}

func condPos(iff *ssa.If) token.Pos {
	if iff.Cond.Pos() != token.NoPos {
		return iff.Cond.Pos()
	}
	return iff.Pos()
}

func asInstr(v ssa.Value) ssa.Instruction {
	in, _ := v.(ssa.Instruction)
	return in
}

// stripFullSlice: x[:] and x[:len] re-slices of a make()d array denote the same elements.
func stripFullSlice(v ssa.Value) ssa.Value {
	for {
		sl, ok := v.(*ssa.Slice)
		if !ok || sl.Low != nil || sl.Max != nil {
			return v
		}
		if sl.High != nil {
			return v // the makeslice form: the slice value itself is the canonical name
		}
		v = sl.X
	}
}

// sameLaneRow: a = &(*(&S[i]))[j] and b likewise agree on the outer index and the container.
func sameLaneRow(ev *tf.Eval, a, b *ssa.IndexAddr) bool {
	la, lb := loadOfIndex(a.X), loadOfIndex(b.X)
	if la == nil || lb == nil {
		return a.X == b.X
	}
	return la.X == lb.X && sameIndex(ev, la, lb)
}

// allZeroPredicate: fn(s []T) bool returns true exactly when every element of s equals the constant 0: one loop over
// 0..len(s), left early only through "s[i] != 0 → return false", and "return true" only after the loop.
func allZeroPredicate(ctx *circuitCtx, fn *ssa.Function) string {
	if fn == nil || len(fn.Blocks) == 0 || len(fn.Params) != 1 || fn.Signature.Results().Len() != 1 {
		return "not a one-argument predicate with a body"
	}
	if _, ok := fn.Params[0].Type().Underlying().(*types.Slice); !ok {
		return "its argument is not a slice"
	}
	ev := ctx.eng.NewEval(fn)
	loops := ev.Loops()
	if len(loops) == 0 {
		if why := notContainsNonZero(fn); why == "" {
			return ""
		}
	}
	if len(loops) != 1 {
		return fmt.Sprintf("%d loops", len(loops))
	}
	l := loops[0]
	ev.EnsureIV(l)
	// the early exits are examined below, so the range is taken from the induction variable alone
	okRange := false
	if l.IV != nil && l.HasCond && l.Step == 1 && l.TestOff == 0 && l.CondOp == token.LSS && l.Bound != nil && l.Bound.K == tf.KLen && l.Bound.Args[0].K == tf.KParam {
		if f, isC := tf.IntConst(l.Init); isC && f == 0 {
			okRange = true
		}
	}
	if !okRange {
		return "its loop does not run over every element of the argument"
	}
	for _, b := range fn.Blocks {
		if len(b.Instrs) == 0 {
			continue
		}
		last := b.Instrs[len(b.Instrs)-1]
		if ret, ok := last.(*ssa.Return); ok {
			c, isC := ret.Results[0].(*ssa.Const)
			if !isC || c.Value == nil {
				return "returns a computed value"
			}
			if constant.BoolVal(c.Value) {
				if l.Blocks[b] || !(l.Header == b || l.Header.Dominates(b)) {
					return "returns true before all elements were seen"
				}
				continue
			}
			// return false: only as the non-zero side of an element test inside the loop
			if len(b.Preds) != 1 || !l.Blocks[b.Preds[0]] {
				return "returns false outside the element test"
			}
			d := b.Preds[0]
			iff, isIf := d.Instrs[len(d.Instrs)-1].(*ssa.If)
			if !isIf {
				return "returns false outside the element test"
			}
			bo, isBo := iff.Cond.(*ssa.BinOp)
			if !isBo || !((bo.Op == token.NEQ && d.Succs[0] == b) || (bo.Op == token.EQL && d.Succs[1] == b)) {
				return "returns false on something other than element != 0"
			}
			x, y := bo.X, bo.Y
			if !isZeroConst(y) {
				x, y = y, x
			}
			ia := loadOfIndex(x)
			if !isZeroConst(y) || ia == nil || ia.X != ssa.Value(fn.Params[0]) {
				return "the element test does not compare an element of the argument with 0"
			}
			it := ev.TermIn(ia.Index, d)
			if it.K != tf.KIndVar || it.Loop != l {
				return "the element test does not index with the loop variable"
			}
			continue
		}
		if l.Blocks[b] && b != l.Header {
			for _, s := range b.Succs {
				if !l.Blocks[s] {
					if _, isRet := s.Instrs[len(s.Instrs)-1].(*ssa.Return); !isRet {
						return "the loop is left early"
					}
				}
			}
		}
	}
	return ""
}

func isZeroConst(v ssa.Value) bool {
	if mi, ok := v.(*ssa.MakeInterface); ok {
		v = mi.X
	}
	c, ok := v.(*ssa.Const)
	if !ok || c.Value == nil || c.Value.Kind() != constant.Int {
		return false
	}
	n, exact := constant.Int64Val(c.Value)
	return exact && n == 0
}

// laneWiseXor: the gadget returns c with c[i] = api.Xor(A[i], B[i]) over all positions of its first operand.
func laneWiseXor(gi *gadgetInfo) string {
	n := 0
	for _, e := range gi.Events {
		if e.Term.K == tf.KApi {
			if e.Term.Name != "Xor" {
				return "uses api." + e.Term.Name
			}
			if len(e.Term.Args) != 2 || e.Term.Args[0].K != tf.KIdx || e.Term.Args[1].K != tf.KIdx || !tf.Eq(e.Term.Args[0].Args[1], e.Term.Args[1].Args[1]) ||
				!isRecv(e.Term.Args[0].Args[0]) || !isRecv(e.Term.Args[1].Args[0]) || tf.Eq(e.Term.Args[0].Args[0], e.Term.Args[1].Args[0]) {
				return "its XOR does not combine the same position of its two operands (" + describe(e.Term) + ")"
			}
			n++
		}
	}
	if n != 1 {
		return fmt.Sprintf("%d XOR sites", n)
	}
	return ""
}

func loopContains(hdr, b *ssa.BasicBlock) bool {
	// b is in the natural loop of hdr iff hdr dominates b and b reaches hdr without leaving hdr's dominance
	if !hdr.Dominates(b) {
		return false
	}
	seen := map[*ssa.BasicBlock]bool{}
	var reach func(x *ssa.BasicBlock) bool
	reach = func(x *ssa.BasicBlock) bool {
		if x == hdr {
			return true
		}
		if seen[x] || !hdr.Dominates(x) {
			return false
		}
		seen[x] = true
		for _, s := range x.Succs {
			if reach(s) {
				return true
			}
		}
		return false
	}
	if b == hdr {
		return true
	}
	for _, s := range b.Succs {
		if reach(s) {
			return true
		}
	}
	return false
}

func dominatesBackEdges(b, hdr *ssa.BasicBlock) bool {
	for _, pred := range hdr.Preds {
		if hdr.Dominates(pred) && !(b == pred || b.Dominates(pred)) {
			return false
		}
	}
	return true
}

func flipCmpTok(op token.Token) token.Token {
	switch op {
	case token.LSS:
		return token.GTR
	case token.GTR:
		return token.LSS
	case token.LEQ:
		return token.GEQ
	case token.GEQ:
		return token.LEQ
	}
	return op
}

func negCmpTok(op token.Token) token.Token {
	switch op {
	case token.LSS:
		return token.GEQ
	case token.GEQ:
		return token.LSS
	case token.GTR:
		return token.LEQ
	case token.LEQ:
		return token.GTR
	case token.EQL:
		return token.NEQ
	case token.NEQ:
		return token.EQL
	}
	return op
}

func isStdFunc(f *ssa.Function, pkg, name string) bool {
	if o := f.Origin(); o != nil {
		f = o
	}
	return f.Pkg != nil && f.Pkg.Pkg.Path() == pkg && f.Name() == name
}

// notContainsNonZero: the body is `return !slices.ContainsFunc(s, func(e) bool { return e != 0 })`.
func notContainsNonZero(fn *ssa.Function) string {
	var ret *ssa.Return
	for _, b := range fn.Blocks {
		for _, in := range b.Instrs {
			if r, ok := in.(*ssa.Return); ok {
				if ret != nil {
					return "several returns"
				}
				ret = r
			}
		}
	}
	if ret == nil || len(ret.Results) != 1 {
		return "no single result"
	}
	u, ok := ret.Results[0].(*ssa.UnOp)
	if !ok || u.Op != token.NOT {
		return "not a negated search"
	}
	c, ok := u.X.(*ssa.Call)
	if !ok || c.Call.StaticCallee() == nil || !isStdFunc(c.Call.StaticCallee(), "slices", "ContainsFunc") || len(c.Call.Args) != 2 || c.Call.Args[0] != ssa.Value(fn.Params[0]) {
		return "not a search of the whole argument"
	}
	var pred *ssa.Function
	switch a := c.Call.Args[1].(type) {
	case *ssa.Function:
		pred = a
	case *ssa.MakeClosure:
		pred, _ = a.Fn.(*ssa.Function)
	}
	if pred == nil || len(pred.Blocks) != 1 || len(pred.Params) != 1 {
		return "the searched-for condition is not a simple function"
	}
	pr, ok := pred.Blocks[0].Instrs[len(pred.Blocks[0].Instrs)-1].(*ssa.Return)
	if !ok || len(pr.Results) != 1 {
		return "the searched-for condition is not a simple function"
	}
	bo, ok := pr.Results[0].(*ssa.BinOp)
	if !ok || bo.Op != token.NEQ {
		return "the searched-for condition is not element != 0"
	}
	x, y := bo.X, bo.Y
	if !isZeroConst(y) {
		x, y = y, x
	}
	if !isZeroConst(y) || x != ssa.Value(pred.Params[0]) {
		return "the searched-for condition is not element != 0"
	}
	return ""
}

package checks

import (
	"fmt"
	"go/types"
	"sort"
	"strings"

	"golang.org/x/tools/go/ssa"

	"verif/sa/internal/core"
	"verif/sa/internal/eff"
)

// lockIdent names a mutex by where it lives, so that a Lock in one function and a Lock in another can be recognised as the
// same lock: a field of a named struct type ("server.proofStats.Mutex"), or a package-level variable.
func lockIdent(v ssa.Value) string {
	switch x := v.(type) {
	case *ssa.FieldAddr:
		if n := namedOf(deref(x.X.Type())); n != nil {
			return typeKey(n) + "." + structFieldName(x.X.Type(), x.Field)
		}
	case *ssa.Global:
		return x.String()
	case *ssa.UnOp:
		return lockIdent(x.X)
	}
	return ""
}

func syncLockCall(c ssa.CallInstruction) (ident, kind string) {
	callee := c.Common().StaticCallee()
	if callee == nil || callee.Pkg == nil || callee.Pkg.Pkg.Path() != "sync" || len(c.Common().Args) == 0 {
		return "", ""
	}
	switch callee.Name() {
	case "Lock", "RLock":
		return lockIdent(c.Common().Args[0]), "lock"
	case "Unlock", "RUnlock":
		return lockIdent(c.Common().Args[0]), "unlock"
	}
	return "", ""
}

// checkMetricsNotBlockedByProving decides O20.6: no lock that a registered metrics collector callback takes is held by the
// request path across the proving step — otherwise a scrape of /metrics waits for the proof to finish, i.e. the metrics
// endpoint is not available while proofs are being generated.
func checkMetricsNotBlockedByProving(p *core.Program, r *core.Report, entry *ssa.Function, psT *types.Named) {
	g := eff.BuildGraph(p)
	// collector callbacks: function values handed to prometheus.New*Func anywhere in the repository
	var collectors []*ssa.Function
	for _, fn := range g.Funcs() {
		for _, b := range fn.Blocks {
			for _, in := range b.Instrs {
				c, ok := in.(ssa.CallInstruction)
				if !ok {
					continue
				}
				callee := c.Common().StaticCallee()
				if callee == nil || callee.Pkg == nil || !strings.HasSuffix(callee.Pkg.Pkg.Path(), "client_golang/prometheus") || !strings.HasSuffix(callee.Name(), "Func") {
					continue
				}
				for _, a := range c.Common().Args {
					if mc, ok := a.(*ssa.MakeClosure); ok {
						if cf, ok := mc.Fn.(*ssa.Function); ok {
							collectors = append(collectors, cf)
							if strings.Contains(cf.Synthetic, "bound method wrapper") {
								for _, bb := range cf.Blocks {
									for _, ii := range bb.Instrs {
										if ic, ok := ii.(*ssa.Call); ok && ic.Common().StaticCallee() != nil {
											collectors = append(collectors, ic.Common().StaticCallee())
										}
									}
								}
							}
						}
					}
					if f, ok := a.(*ssa.Function); ok {
						collectors = append(collectors, f)
					}
				}
			}
		}
	}
	taken := map[string]string{} // lock identity -> collector
	for f := range g.Reach(collectors...) {
		for _, b := range f.Blocks {
			for _, in := range b.Instrs {
				if c, ok := in.(ssa.CallInstruction); ok {
					if id, kind := syncLockCall(c); kind == "lock" && id != "" {
						taken[id] = core.FuncName(f)
					}
				}
			}
		}
	}
	r.Count("metrics collector callbacks", len(collectors))
	if len(taken) == 0 {
		r.OK("O20.6", "metrics collectors: locks shared with the request path", "-", "%d collector callback(s) registered in the repository take no lock", len(collectors))
		return
	}
	// the request path
	reach := g.Reach(entry)
	isProve := func(f *ssa.Function) bool {
		return f != nil && f.Signature.Recv() != nil && psT != nil && namedOf(f.Signature.Recv().Type()) == psT && f.Signature.Results().Len() == 2
	}
	reachesProve := map[*ssa.Function]bool{}
	for f := range reach {
		for t := range g.Reach(f) {
			if isProve(t) {
				reachesProve[f] = true
			}
		}
	}
	var bad []string
	for f := range reach {
		for _, b := range f.Blocks {
			for i, in := range b.Instrs {
				c, ok := in.(ssa.CallInstruction)
				if !ok {
					continue
				}
				id, kind := syncLockCall(c)
				if kind != "lock" || taken[id] == "" {
					continue
				}
				if _, isDefer := in.(*ssa.Defer); isDefer {
					continue
				}
				// walk forward until the matching (non-deferred) unlock; a call that proves, or reaches a prover, in between is a hit
				seen := map[*ssa.BasicBlock]bool{}
				var walk func(bb *ssa.BasicBlock, from int)
				walk = func(bb *ssa.BasicBlock, from int) {
					for k := from; k < len(bb.Instrs); k++ {
						cc, ok := bb.Instrs[k].(ssa.CallInstruction)
						if !ok {
							continue
						}
						if _, isDefer := bb.Instrs[k].(*ssa.Defer); isDefer {
							continue // a deferred unlock runs at exit: the lock stays held
						}
						if uid, uk := syncLockCall(cc); uk == "unlock" && uid == id {
							return
						}
						callee := cc.Common().StaticCallee()
						if isProve(callee) || (callee != nil && reachesProve[callee]) {
							bad = append(bad, fmt.Sprintf("%s holds %s (also taken by the collector %s) while %s runs at %s", core.FuncName(f), id, taken[id], callee.Name(), p.Pos(cc.Pos())))
							return
						}
					}
					for _, s := range bb.Succs {
						if !seen[s] {
							seen[s] = true
							walk(s, 0)
						}
					}
				}
				walk(b, i+1)
			}
		}
	}
	sort.Strings(bad)
	r.Check(len(bad) == 0, "O20.6", "metrics collectors: locks shared with the request path", p.Pos(entry.Pos()),
		fmt.Sprintf("%d lock(s) taken by collector callbacks; none is held across the proving step", len(taken)),
		strings.Join(uniqStrings(bad), "; ")+": a scrape of /metrics blocks until the proof is finished — the metrics endpoint is not available while proofs are generated")
}

package checks

import (
	"fmt"
	"go/token"
	"go/types"
	"strings"

	"golang.org/x/tools/go/ssa"

	"verif/sa/internal/core"
)

// big.Int values are copied by value all over the parameter code (`x = *p`). Such a copy shares the digit array of *p:
// it is only a value as long as *p is not mutated afterwards. The rule: when a big.Int is copied out of a pointer p,
// no mutating big.Int method may run on the object p points to after the copy — unless the object is allocated in the
// same loop iteration as the copy (a fresh object per element).
func isBigIntType(t types.Type) bool { return isNamed(t, "math/big", "Int") }

var bigIntReadOnly = map[string]bool{"Bytes": true, "Text": true, "String": true, "Cmp": true, "CmpAbs": true, "Sign": true, "BitLen": true, "Bit": true, "Uint64": true, "Int64": true,
	"IsInt64": true, "IsUint64": true, "FillBytes": true, "Append": true, "Format": true, "MarshalJSON": true, "MarshalText": true, "GobEncode": true, "Bits": true, "TrailingZeroBits": true, "ProbablyPrime": true, "Float64": true}

// bigObject: the allocation a *big.Int value points to, through the receiver-returning methods (z.SetUint64(…) returns z).
func bigObject(v ssa.Value, depth int) ssa.Value {
	if depth > 8 {
		return nil
	}
	switch x := v.(type) {
	case *ssa.Alloc:
		return x
	case *ssa.Extract:
		return bigObject(x.Tuple, depth+1)
	case *ssa.Call:
		f := x.Common().StaticCallee()
		if f == nil {
			return nil
		}
		if f.Signature.Recv() != nil && isBigIntType(f.Signature.Recv().Type()) && len(x.Common().Args) > 0 && !bigIntReadOnly[f.Name()] {
			return bigObject(x.Common().Args[0], depth+1)
		}
		if f.Pkg != nil && f.Pkg.Pkg.Path() == "math/big" && f.Name() == "NewInt" {
			return x // a fresh object per call
		}
	}
	return nil
}

func checkBigIntAliasing(p *core.Program, r *core.Report, rule string, inPkg func(path string) bool) {
	nCopies := 0
	var bad []string
	eng := sharedEngine()
	for _, fn := range p.RepoFuncs() {
		if !inPkg(pkgPathOf(fn)) {
			continue
		}
		loops := eng.Loops(fn)
		loopsOf := func(b *ssa.BasicBlock) map[*ssa.BasicBlock]bool {
			// union of the headers of the loops containing b
			out := map[*ssa.BasicBlock]bool{}
			for _, l := range loops {
				if l.Blocks[b] {
					out[l.Header] = true
				}
			}
			return out
		}
		for _, b := range fn.Blocks {
			for i, in := range b.Instrs {
				ld, ok := in.(*ssa.UnOp)
				if !ok || ld.Op != token.MUL || !isBigIntType(ld.Type()) {
					continue
				}
				if _, isPtr := ld.X.Type().Underlying().(*types.Pointer); !isPtr {
					continue
				}
				obj := bigObject(ld.X, 0)
				if obj == nil {
					continue
				}
				// only copies that are kept: stored somewhere or passed on
				kept := false
				for _, ref := range *ld.Referrers() {
					switch ref.(type) {
					case *ssa.Store, ssa.CallInstruction, *ssa.Return, *ssa.MakeInterface:
						kept = true
					}
				}
				if !kept {
					continue
				}
				nCopies++
				objInstr, _ := obj.(ssa.Instruction)
				// headers of loops that contain the copy but not the allocation: crossing them re-uses the object
				fresh := map[*ssa.BasicBlock]bool{}
				if objInstr != nil {
					inner := loopsOf(objInstr.Block())
					for h := range loopsOf(b) {
						if inner[h] {
							fresh[h] = true // the object is re-allocated on every trip round this loop
						}
					}
				}
				// forward search from the copy for a mutating call on the same object
				seen := map[*ssa.BasicBlock]bool{}
				var hit ssa.Instruction
				var scan func(blk *ssa.BasicBlock, from int)
				scan = func(blk *ssa.BasicBlock, from int) {
					for _, x := range blk.Instrs[from:] {
						if c, ok := x.(ssa.CallInstruction); ok && hit == nil {
							f := c.Common().StaticCallee()
							if f != nil && f.Signature.Recv() != nil && isBigIntType(f.Signature.Recv().Type()) && !bigIntReadOnly[f.Name()] && len(c.Common().Args) > 0 {
								if bigObject(c.Common().Args[0], 0) == obj {
									hit = x
								}
							}
						}
					}
					for _, s := range blk.Succs {
						if fresh[s] || seen[s] {
							continue
						}
						seen[s] = true
						scan(s, 0)
					}
				}
				scan(b, i+1)
				if hit != nil {
					bad = append(bad, fmt.Sprintf("%s: the big.Int copied by value at %s shares its digits with an object that %s mutates afterwards at %s (every earlier copy silently takes the new value)", core.FuncName(fn), p.Pos(ld.Pos()), calleeNameOf(hit), p.Pos(hit.Pos())))
				}
			}
		}
	}
	// the mirror image: a local big.Int *variable* initialised by copying another big.Int by value (c := table[i].(big.Int),
	// c := *p, c := node.value()) and then used as the receiver of a mutating method. The copy shares the source's digit
	// array; Add/Mul/Set… write into it when its capacity suffices — i.e. into the object the value was copied from
	nRecv := 0
	for _, fn := range p.RepoFuncs() {
		if !inPkg(pkgPathOf(fn)) {
			continue
		}
		for _, b := range fn.Blocks {
			for _, in := range b.Instrs {
				c, ok := in.(ssa.CallInstruction)
				if !ok {
					continue
				}
				f := c.Common().StaticCallee()
				if f == nil || f.Signature.Recv() == nil || !isBigIntType(f.Signature.Recv().Type()) || bigIntReadOnly[f.Name()] || len(c.Common().Args) == 0 {
					continue
				}
				al, ok := c.Common().Args[0].(*ssa.Alloc)
				if !ok || !isBigIntType(al.Type()) || al.Referrers() == nil {
					continue
				}
				nRecv++
				for _, ref := range *al.Referrers() {
					st, ok := ref.(*ssa.Store)
					if !ok || st.Addr != ssa.Value(al) {
						continue
					}
					if src := sharedBigCopy(st.Val, 0); src != "" {
						bad = append(bad, fmt.Sprintf("%s: the big.Int variable at %s is a by-value copy of %s and is then the receiver of %s at %s: the copy shares the source's digit array, so the method writes into the object the value was copied from", core.FuncName(fn), p.Pos(st.Pos()), src, f.Name(), p.Pos(c.Pos())))
					}
				}
			}
		}
	}
	r.Count("big.Int value copies examined", nCopies+nRecv)
	if len(bad) == 0 {
		r.OK(rule, "big.Int value copies are not mutated through their source", "-", "%d copies out of a *big.Int: none is followed by a mutating method on the same object", nCopies)
		return
	}
	for i, b := range bad {
		r.Violation(rule, fmt.Sprintf("big.Int aliasing #%d", i+1), strings.SplitN(b, ":", 2)[0], "%s", b)
	}
}

func calleeNameOf(in ssa.Instruction) string {
	if c, ok := in.(ssa.CallInstruction); ok {
		if f := c.Common().StaticCallee(); f != nil {
			return f.Name()
		}
	}
	return "a call"
}


// sharedBigCopy: the big.Int value v is a by-value copy of an object that lives elsewhere (not a constant zero value, not
// the value of an object allocated afresh in this function). Returns a description of the source, or "".
func sharedBigCopy(v ssa.Value, depth int) string {
	if depth > 6 {
		return ""
	}
	switch x := v.(type) {
	case *ssa.TypeAssert:
		return "the value held in an interface (" + x.X.Name() + ")"
	case *ssa.Extract:
		if ta, ok := x.Tuple.(*ssa.TypeAssert); ok {
			return "the value held in an interface (" + ta.X.Name() + ")"
		}
		if c, ok := x.Tuple.(*ssa.Call); ok {
			return sharedBigCopy(c, depth+1)
		}
	case *ssa.UnOp:
		if x.Op == token.MUL {
			if obj := bigObject(x.X, 0); obj != nil {
				return "" // the value of an object created in this function (x := *new(big.Int).SetUint64(…))
			}
			return "the object behind " + x.X.Name()
		}
	case *ssa.Index:
		return "an element of " + x.X.Name()
	case *ssa.Lookup:
		return "an element of " + x.X.Name()
	case *ssa.Field:
		return "a field of " + x.X.Name()
	case *ssa.Phi:
		for _, e := range x.Edges {
			if s := sharedBigCopy(e, depth+1); s != "" {
				return s
			}
		}
	case *ssa.Call:
		if sc := x.Common().StaticCallee(); sc != nil && len(sc.Blocks) > 0 && core.InRepo(pkgPathOf(sc)) {
			return "the value returned by " + sc.Name() + "()"
		}
		if x.Common().IsInvoke() {
			return "the value returned by " + x.Common().Method.Name() + "()"
		}
	}
	return ""
}

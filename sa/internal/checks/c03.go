package checks

import (
	"fmt"
	"strings"

	"verif/sa/internal/core"
	"verif/sa/internal/tf"
)

func init() { Registry["C03"] = Check{Run: checkC03} }

// packedPart is one part of the hashed bit sequence.
type packedPart struct {
	Role    string // circuit field name
	Width   int64
	Starred bool
}

// hashAnchor evaluates keccak.NewKeccak256 standalone: the gadget literal it builds is the reference configuration
// (domain byte, output size, block size, rounds) pinned by the package's own vectors.
func hashAnchor(p *core.Program, ctx *circuitCtx) *tf.Term {
	fn := p.Func("prover/keccak", "NewKeccak256")
	if fn == nil {
		return nil
	}
	ev := ctx.eng.NewEval(fn)
	t := ev.Resolve(ev.Return())
	if t.K != tf.KGadget {
		return nil
	}
	return t
}

// checkPackingOf decides O3.1–O3.4 for one circuit and returns the packed layout (for the cross-check with C08).
func checkPackingOf(p *core.Program, r *core.Report, ctx *circuitCtx, anchor string, insertion bool, prefix string) []packedPart {
	o := func(n string) string { return prefix + n }
	br := discoverBatchQuiet(p, ctx, anchor)
	if br == nil {
		r.Violation(o("O3.2"), "anchor prover."+anchor, "-", "cannot bind the Merkle-side roles (pre-root, post-root, items …) of the circuit; see C01/C02")
		return nil
	}
	ci := br.Circuit
	cname := typeKey(br.T) + ".Define"
	r.AnalysedFn(core.FuncName(ci.Fn))
	// O3.1 tags
	pub, sec := publicFields(br.T)
	r.Count("public-tagged variables", len(pub))
	if len(pub) != 1 {
		r.Violation(o("O3.1"), typeKey(br.T)+": public variables", p.Pos(br.T.Obj().Pos()), "exactly one variable field must carry the gnark option `public`; found %v (secret: %v): the exported verifier expects a single public input", pub, sec)
		return nil
	}
	H := pub[0]
	r.OK(o("O3.1"), typeKey(br.T)+": public variables", p.Pos(br.T.Obj().Pos()), "only %s is public; %d secret variable fields", H, len(sec))
	recv := ci.Ev.Params[0]
	// O3.4: AssertIsEqual($c.H, unpacker{hash})
	var hash *tf.Term
	var unp *tf.Term
	nH := 0
	for _, e := range apiEvents(ci, "AssertIsEqual") {
		a, b, _ := assertEqSides(e.Term)
		for _, pair := range [][2]*tf.Term{{a, b}, {b, a}} {
			if isRecvField(pair[0], H) {
				nH++
				if pair[1].K == tf.KGadget && len(pair[1].Args) == 1 && pair[1].Args[0].K == tf.KGadget && mustEvent(e) {
					unp, hash = pair[1], pair[1].Args[0]
					r.OK(o("O3.4"), cname+": public input bound to the hash", p.Pos(e.Instr.Pos()), "AssertIsEqual($c.%s, %s(%s(…))) on every path", H, unp.Name, hash.Name)
				} else {
					r.Violation(o("O3.4"), cname+": public input bound to the hash", p.Pos(e.Instr.Pos()), "the public input is asserted equal to %s (not a recomposed hash), or not on every path", describe(pair[1]))
				}
			}
		}
	}
	r.Count("public-input asserts", nH)
	if hash == nil {
		if nH == 0 {
			r.Violation(o("O3.4"), cname+": public input bound to the hash", p.Pos(ci.Fn.Pos()), "the public input %s is never asserted equal to anything: any hash would be accepted", H)
		}
		return nil
	}
	// O3.3 hash configuration equals the anchor's
	anchorT := hashAnchor(p, ctx)
	var seq, size *tf.Term
	if anchorT == nil {
		r.Violation(o("O3.3"), "anchor keccak.NewKeccak256", "-", "cannot evaluate the anchor constructor")
		return nil
	}
	if hash.Name != anchorT.Name {
		r.Violation(o("O3.3"), cname+": hash gadget", ctx.posOf(hash, ci), "the hashed value comes from gadget %s, not from the gadget built by keccak.NewKeccak256 (%s)", hash.Name, anchorT.Name)
		return nil
	}
	var cfgDiff []string
	for i, fn := range anchorT.Names {
		at, ht := anchorT.Args[i], hash.Args[i]
		if at.K == tf.KParam || (at.K == tf.KSeq) || strings.HasPrefix(at.Key(), "$") {
			// parameters of the constructor: inputSize, data
			if isIntLike(ht) && size == nil && at.K == tf.KParam && at.Name == anchorParam(anchorT, "size") {
				size = ht
			}
			continue
		}
		if !tf.Eq(at, ht) {
			cfgDiff = append(cfgDiff, fmt.Sprintf("%s=%s (Keccak-256 constructor has %s)", fn, describe(ht), describe(at)))
		}
	}
	// identify the data and size fields by the anchor's parameters
	for i := range anchorT.Names {
		at := anchorT.Args[i]
		if at.K == tf.KParam {
			if isIntLike(hash.Args[i]) || hash.Args[i].K == tf.KAff {
				size = hash.Args[i]
			} else {
				seq = hash.Args[i]
			}
		}
	}
	r.Check(len(cfgDiff) == 0, o("O3.3"), cname+": hash configuration", ctx.posOf(hash, ci), "domain/output/block/rounds/constants equal keccak.NewKeccak256's", "the hash is not configured as Keccak-256: "+strings.Join(cfgDiff, "; "))
	if seq == nil || size == nil {
		r.Undecided(o("O3.3"), cname+": hash operands", ctx.posOf(hash, ci), "cannot identify the data and size operands of the hash gadget")
		return nil
	}
	// O3.2 sequence
	var want []packedPart
	if insertion {
		want = []packedPart{{br.Map[br.Start], 32, false}, {br.Map[br.PreRoot], 256, false}, {br.PostRoot, 256, false}, {br.Map[br.Items], 256, true}}
	} else {
		want = []packedPart{{br.Map[br.Indices], 32, true}, {br.Map[br.PreRoot], 256, false}, {br.PostRoot, 256, false}}
	}
	pr, _ := discoverPacking(p, r, ctx, anchor, o("O3.5"), o("O3.6"))
	if pr == nil || pr.Packer == nil {
		return nil
	}
	// determine packer field roles
	probe := &packRoles{}
	for _, e := range apiEvents(pr.Packer, "ToBinary") {
		if len(e.Term.Args) == 2 && isRecv(e.Term.Args[0]) && isRecv(e.Term.Args[1]) {
			probe.PackVal, _ = recvFieldName(e.Term.Args[0])
			probe.PackSize, _ = recvFieldName(e.Term.Args[1])
		}
	}
	var got []packedPart
	var bad []string
	batchField := br.Map[br.BatchSize]
	if seq.K != tf.KSeq {
		r.Violation(o("O3.2"), cname+": packed sequence", ctx.posOf(hash, ci), "the hashed data is not a concatenation of packed fields: %s", describe(seq))
		return nil
	}
	readPart := func(t *tf.Term, loop *tf.Loop) {
		if t.K != tf.KSplice || t.Args[0].K != tf.KGadget || t.Args[0].Name != pr.Packer.Name {
			bad = append(bad, "a part of the hashed data is not a packed field: "+describe(t))
			return
		}
		g := t.Args[0]
		v, sz := g.FieldOf(probe.PackVal), g.FieldOf(probe.PackSize)
		w, okW := tf.IntConst(sz)
		if !okW {
			bad = append(bad, "non-constant width "+describe(sz))
			return
		}
		if loop == nil {
			if f, ok := recvFieldName(v); ok {
				got = append(got, packedPart{f, w, false})
				return
			}
		} else if v.K == tf.KIdx && isRecv(v.Args[0]) && v.Args[1].K == tf.KIndVar && v.Args[1].Loop == loop {
			f, _ := recvFieldName(v.Args[0])
			n, okN := loopRangeZeroTo(loop)
			if !okN || !isRecvField(n, batchField) {
				bad = append(bad, fmt.Sprintf("the loop packing %s does not run over 0..%s-1", f, batchField))
			}
			got = append(got, packedPart{f, w, true})
			return
		}
		bad = append(bad, "packed value is not a circuit field / per-slot element: "+describe(v))
	}
	for _, part := range seq.Args {
		if part.K == tf.KStar {
			for _, sp := range part.Args {
				readPart(sp, part.Loop)
			}
		} else {
			readPart(part, nil)
		}
	}
	render := func(ps []packedPart) string {
		var s []string
		for _, x := range ps {
			if x.Starred {
				s = append(s, fmt.Sprintf("%s[i]:%d×batch", x.Role, x.Width))
			} else {
				s = append(s, fmt.Sprintf("%s:%d", x.Role, x.Width))
			}
		}
		return strings.Join(s, " ‖ ")
	}
	same := len(got) == len(want) && len(bad) == 0
	if same {
		for i := range got {
			if got[i] != want[i] {
				same = false
			}
		}
	}
	r.Check(same, o("O3.2"), cname+": packed sequence", ctx.posOf(hash, ci), render(got), fmt.Sprintf("packing is %s; the on-chain packing (with roles bound on the Merkle side) is %s %s", render(got), render(want), strings.Join(bad, "; ")))
	r.Count("packed parts", len(got))
	// size argument = total width
	wantSize := tf.ConstInt(0)
	for _, x := range got {
		if x.Starred {
			wantSize = tf.AffAdd(wantSize, tf.Field(recv, batchField), x.Width)
		} else {
			wantSize = tf.AffAdd(wantSize, tf.ConstInt(x.Width), 1)
		}
	}
	r.Check(tf.Eq(size, wantSize), o("O3.3"), cname+": hashed length", ctx.posOf(hash, ci), "size argument "+describe(size)+" = length of the packed sequence",
		fmt.Sprintf("the size argument of the hash is %s but the packed sequence has %s bits: the padding is computed for another message length", describe(size), describe(wantSize)))
	return got
}

func isIntLike(t *tf.Term) bool {
	if _, ok := tf.IntConst(t); ok {
		return true
	}
	return t.K == tf.KAff
}

func anchorParam(t *tf.Term, _ string) string { return "" }

// discoverBatchQuiet binds the Merkle-side roles without emitting obligations (they belong to C01/C02).
func discoverBatchQuiet(p *core.Program, ctx *circuitCtx, anchor string) *batchRoles {
	tmp := core.NewReport("tmp", "quick")
	br := discoverBatch(p, tmp, ctx, anchor, "x", "x")
	if br == nil {
		return nil
	}
	// complete the slot roles as C01/C02 do
	var slots []string
	for k := range br.RoundRole {
		if strings.HasPrefix(k, "slot:") {
			slots = append(slots, strings.TrimPrefix(k, "slot:"))
		}
	}
	if br.IndexKind == "start+i" {
		if len(slots) == 1 {
			br.Items = br.RoundRole["slot:"+slots[0]]
		}
	} else {
		// deletion: the index slot is the operand of ToBinary in the round
		for _, e := range apiEvents(br.Round, "ToBinary") {
			if f, ok := recvFieldName(e.Term.Args[0]); ok {
				if src, isSlot := br.RoundRole["slot:"+f]; isSlot {
					br.Indices = src
				}
			}
		}
		for _, s := range slots {
			if br.RoundRole["slot:"+s] != br.Indices {
				br.Items = br.RoundRole["slot:"+s]
			}
		}
	}
	for _, ob := range tmp.Obs {
		if ob.Status == core.Violation || ob.Status == core.Undecided {
			return nil
		}
	}
	return br
}

func checkC03(p *core.Program, r *core.Report) {
	r.Explanation = "The public input binds the batch — structural part: (O3.1) exactly one variable field is tagged public (gnark's tag grammar); (O3.2) the bit sequence handed to the hash is, in this order and with these widths, " +
		"insertion: startIndex:32 ‖ preRoot:256 ‖ postRoot:256 ‖ items[i]:256 for i<batch; deletion: indices[i]:32 for i<batch ‖ preRoot:256 ‖ postRoot:256, every part the packer gadget applied to the field that plays that role on the Merkle side " +
		"(so a swap that is consistent between circuit and helper is still caught); (O3.3) the hash gadget is configured exactly as keccak.NewKeccak256 configures it and its size argument equals the length of the sequence as an affine form in the batch size; " +
		"(O3.4) the public input is asserted equal to the big-endian recomposition of that hash on every path; (O3.5) the packer decomposes into exactly Size bits, applies the reducedness gadget to that very decomposition on every path and emits big-endian byte order; " +
		"(O3.6) the unpacker mirrors it; (O3.7) the reducedness gadget is the lexicographic comparison with the modulus (C06 obligations, re-run here). Not decided: that the in-circuit Keccak is Keccak (C04), gnark's ToBinary/FromBinary."
	for id, t := range map[string]string{
		"O3.1": "exactly one `public` variable field per circuit",
		"O3.2": "hashed sequence = on-chain packing (order, widths, roles from the Merkle side, loop over the batch)",
		"O3.3": "hash gadget configured as keccak.NewKeccak256; size argument = length of the packed sequence",
		"O3.4": "AssertIsEqual(public input, unpacker(hash)) on every path",
		"O3.5": "packer: ToBinary(value,size) → reducedness gadget on the same bits, every path → big-endian byte order",
		"O3.6": "unpacker: big-endian byte order → FromBinary",
		"O3.7": "reducedness gadget = comparison with the modulus (O6.3–O6.7)",
		"O3.8": "imported verdict: the in-circuit Keccak's sponge layout (C04)",
	} {
		r.Rule(id, t)
	}
	r.Trusted = append(r.Trusted, "gnark struct-tag schema (name before the first comma, options after)", "gnark ToBinary/FromBinary/AssertIsEqual contracts", "the on-chain packing is the one given in the property statement", "the permutation inside the in-circuit Keccak beyond what C04's layout rules decide")
	r.NotDecided = append(r.NotDecided, "that the in-circuit Keccak computes Keccak-256 (C04)", "soundness of gnark's to_binary/from_binary")
	ctx := newCircuitCtx(p)
	ins := checkPackingOf(p, r, ctx, "SetupInsertion", true, "")
	del := checkPackingOf(p, r, ctx, "SetupDeletion", false, "")
	r.Extra["packing_insertion"] = fmt.Sprint(ins)
	r.Extra["packing_deletion"] = fmt.Sprint(del)
	// gadget definitions (shared with C06)
	pr, _ := discoverPacking(p, r, ctx, "SetupInsertion", "O3.5", "O3.6")
	if pr != nil && pr.Packer != nil {
		sub := core.NewReport("sub", r.Tier)
		okP := checkPacker(p, sub, ctx, pr.Packer, "O3.5", pr)
		if okP && pr.Reduced != nil {
			checkReducedness(p, sub, ctx, pr.Reduced, pr)
		}
		if pr.Unpacker != nil {
			checkUnpacker(p, sub, ctx, pr.Unpacker, "O3.6", pr)
		}
		for _, ob := range sub.Obs {
			if strings.HasPrefix(ob.Rule, "O6.") {
				ob.Rule = "O3.7"
			}
			r.Obs = append(r.Obs, ob)
		}
		for k, v := range sub.Counts {
			r.Count(k, v)
		}
		r.Analysed = append(r.Analysed, sub.Analysed...)
	}
	r.Floor("public-tagged variables", 2)
	r.Floor("public-input asserts", 2)
	r.Floor("packed parts", 5)
	r.Floor("comparator accept asserts", 1)
	// "equals Keccak-256 of exactly that byte string" rests on the hash gadget absorbing every block of the packing: the
	// sponge-layout obligations of C04 are part of this verdict
	importVerdicts(p, r, "O3.8", "the hash gadget absorbs every block of the packed sequence with the standard padding and permutation", "C04")
}

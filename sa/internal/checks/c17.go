package checks

import (
	"fmt"
	"go/ast"
	"go/constant"
	"go/types"
	"path/filepath"
	"regexp"
	"sort"
	"strconv"
	"strings"
	"verif/sa/internal/flow"

	"golang.org/x/tools/go/ssa"

	"verif/sa/internal/core"
	"verif/sa/internal/lean"
	"verif/sa/internal/tf"
)

func init() { Registry["C17"] = Check{Run: checkC17} }

// ---- op-trace automaton over SSA (E6)

type nfa struct {
	n       int
	eps     map[int][]int
	trans   map[int]map[string][]int
	any     map[int]bool // Σ* self-loop (API handed to an unresolved callee)
	entry   map[*ssa.Function]int
	exit    map[*ssa.Function]int
	pos     map[int]ssa.Instruction
	simple  func(types.Type) string
	inRepo  func(*ssa.Function) bool
	unknown []string
}

func (a *nfa) state() int { a.n++; return a.n - 1 }
func (a *nfa) addEps(s, t int) {
	a.eps[s] = append(a.eps[s], t)
}
func (a *nfa) addSym(s int, sym string, t int) {
	if a.trans[s] == nil {
		a.trans[s] = map[string][]int{}
	}
	a.trans[s][sym] = append(a.trans[s][sym], t)
}

var apiGate = map[string]string{
	"Add": "add", "Sub": "sub", "Mul": "mul", "Neg": "neg", "MulAcc": "mul_acc", "Div": "div", "DivUnchecked": "div_unchecked", "Inverse": "inv",
	"ToBinary": "to_binary", "FromBinary": "from_binary", "Xor": "xor", "Or": "or", "And": "and", "Select": "select", "Lookup2": "lookup",
	"IsZero": "is_zero", "Cmp": "cmp", "AssertIsEqual": "eq", "AssertIsDifferent": "ne", "AssertIsBoolean": "is_bool", "AssertIsLessOrEqual": "le",
}

// variadicExtras: number of elements of a variadic argument slice (-1 = unknown).
func variadicExtras(v ssa.Value) int {
	switch x := v.(type) {
	case *ssa.Const:
		if x.Value == nil {
			return 0
		}
	case *ssa.Slice:
		if al, ok := x.X.(*ssa.Alloc); ok && x.Low == nil && x.High == nil {
			if arr, ok := al.Type().(*types.Pointer).Elem().Underlying().(*types.Array); ok {
				return int(arr.Len())
			}
		}
	}
	return -1
}

func hasAPIParam(fn *ssa.Function) bool {
	for _, p := range fn.Params {
		if tf.IsAPIType(p.Type()) {
			return true
		}
	}
	return false
}

func (a *nfa) build(fn *ssa.Function) (int, int) { return a.buildWith(fn, nil) }

// buildWith: when decide is given (a definition whose integer fields are known from the model's name suffix), a branch
// whose condition it can evaluate keeps only the successor that is taken, and the automaton is not shared.
func (a *nfa) buildWith(fn *ssa.Function, decide func(*ssa.If) (int, bool)) (int, int) {
	if decide == nil {
		if e, ok := a.entry[fn]; ok {
			return e, a.exit[fn]
		}
	}
	exit := a.state()
	st := map[*ssa.BasicBlock][]int{}
	for _, b := range fn.Blocks {
		row := make([]int, len(b.Instrs)+1)
		for i := range row {
			row[i] = a.state()
		}
		st[b] = row
	}
	entry := st[fn.Blocks[0]][0]
	if decide == nil {
		a.entry[fn], a.exit[fn] = entry, exit
	}
	for _, b := range fn.Blocks {
		for i, in := range b.Instrs {
			s, t := st[b][i], st[b][i+1]
			a.pos[s] = in
			switch x := in.(type) {
			case *ssa.Return:
				a.addEps(s, exit)
			case *ssa.Jump:
				a.addEps(s, st[b.Succs[0]][0])
			case *ssa.If:
				if decide != nil {
					if k, ok := decide(x); ok {
						a.addEps(s, st[b.Succs[k]][0])
						break
					}
				}
				a.addEps(s, st[b.Succs[0]][0])
				a.addEps(s, st[b.Succs[1]][0])
			case *ssa.Panic:
			case ssa.CallInstruction:
				com := x.Common()
				handled := false
				if com.IsInvoke() && tf.IsAPIType(com.Value.Type()) {
					if g, ok := apiGate[com.Method.Name()]; ok {
						count := 1
						unbounded := false
						switch com.Method.Name() {
						case "Add", "Sub", "Mul":
							if len(com.Args) == 3 {
								switch n := variadicExtras(com.Args[2]); {
								case n >= 0:
									count = n + 1
								default:
									unbounded = true
								}
							}
						}
						cur := s
						for k := 0; k < count; k++ {
							nx := t
							if k < count-1 {
								nx = a.state()
							}
							a.addSym(cur, "gate:"+g, nx)
							cur = nx
						}
						if unbounded {
							a.addSym(t, "gate:"+g, t)
						}
						handled = true
					} else {
						a.addEps(s, t) // Compiler(), etc.: no constraint recorded
						handled = true
					}
				}
				if !handled {
					if sc := com.StaticCallee(); sc != nil {
						if sc.Pkg != nil && strings.HasSuffix(sc.Pkg.Pkg.Path(), "gnark-lean-extractor/v2/abstractor") && strings.HasPrefix(sc.Name(), "Call") && len(com.Args) == 2 {
							if mi, ok := com.Args[1].(*ssa.MakeInterface); ok {
								a.addSym(s, "gadget:"+a.simple(mi.X.Type()), t)
							} else {
								a.any[s] = true
								a.addEps(s, t)
								a.unknown = append(a.unknown, "gadget of unknown dynamic type in "+fn.String())
							}
							handled = true
						} else if a.inRepo(sc) && sc.Blocks != nil && hasAPIParam(sc) {
							ce, cx := a.build(sc)
							a.addEps(s, ce)
							a.addEps(cx, t)
							handled = true
						}
					} else {
						// dynamic call: if it receives the API, anything may be emitted
						for _, arg := range com.Args {
							if tf.IsAPIType(arg.Type()) {
								a.any[s] = true
								a.unknown = append(a.unknown, "API passed to a function value in "+fn.String())
							}
						}
					}
				}
				if !handled {
					a.addEps(s, t)
				}
			default:
				a.addEps(s, t)
			}
		}
		// block without terminator (should not happen)
	}
	return entry, exit
}

func (a *nfa) closure(set map[int]bool) map[int]bool {
	work := make([]int, 0, len(set))
	for s := range set {
		work = append(work, s)
	}
	for len(work) > 0 {
		s := work[len(work)-1]
		work = work[:len(work)-1]
		for _, t := range a.eps[s] {
			if !set[t] {
				set[t] = true
				work = append(work, t)
			}
		}
	}
	return set
}

// accepts simulates the word; on rejection it returns the index of the offending symbol and the Go positions alive there.
func (a *nfa) accepts(entry, exit int, word []string) (bool, int, []ssa.Instruction) {
	cur := a.closure(map[int]bool{entry: true})
	for i, sym := range word {
		next := map[int]bool{}
		for s := range cur {
			for _, t := range a.trans[s][sym] {
				next[t] = true
			}
			if a.any[s] {
				next[s] = true
			}
		}
		if len(next) == 0 {
			return false, i, a.alive(cur)
		}
		cur = a.closure(next)
	}
	if cur[exit] {
		return true, 0, nil
	}
	return false, len(word), a.alive(cur)
}

func (a *nfa) alive(cur map[int]bool) []ssa.Instruction {
	var out []ssa.Instruction
	seen := map[ssa.Instruction]bool{}
	for s := range cur {
		if len(a.trans[s]) == 0 {
			continue
		}
		if in, ok := a.pos[s]; ok && !seen[in] {
			seen[in] = true
			out = append(out, in)
		}
	}
	sort.Slice(out, func(i, j int) bool { return out[i].Pos() < out[j].Pos() })
	if len(out) > 4 {
		out = out[:4]
	}
	return out
}

// ---- Go side of the bridge

type goGadget struct {
	T       *types.Named
	Simple  string
	Fn      *ssa.Function // DefineGadget or Define
	Circuit bool
	// layout
	VarFields []goField // variable-typed fields in declaration order
	IntFields []string
}

type goField struct {
	Name  string
	Depth int // 0 scalar, 1 vector, …
}

func varDepth(t types.Type) (int, bool) {
	switch u := types.Unalias(t).(type) {
	case *types.Named:
		if u.Obj().Name() == "Variable" && u.Obj().Pkg() != nil && u.Obj().Pkg().Path() == "github.com/consensys/gnark/frontend" {
			return 0, true
		}
		return varDepth(u.Underlying())
	case *types.Slice:
		d, ok := varDepth(u.Elem())
		return d + 1, ok
	case *types.Array:
		d, ok := varDepth(u.Elem())
		return d + 1, ok
	}
	return 0, false
}

func layoutOf(n *types.Named) ([]goField, []string) {
	var vf []goField
	var ints []string
	st, ok := n.Underlying().(*types.Struct)
	if !ok {
		return nil, nil
	}
	for i := 0; i < st.NumFields(); i++ {
		f := st.Field(i)
		if d, ok := varDepth(f.Type()); ok {
			if tag := parseGnarkTag(st.Tag(i)); tag.Omit {
				continue
			}
			vf = append(vf, goField{f.Name(), d})
			continue
		}
		if b, ok := types.Unalias(f.Type()).Underlying().(*types.Basic); ok && b.Info()&types.IsInteger != 0 {
			ints = append(ints, f.Name())
		}
	}
	return vf, ints
}

var suffixRe = regexp.MustCompile(`^(_[0-9]+)*$`)

func checkC17(p *core.Program, r *core.Report) {
	r.Explanation = "The committed Lean model is a possible output of extraction from today's Go source only if all of the following hold (running the extractor and diffing is a dynamic check and is not used): " +
		"(O17.1) name agreement — every definition of the model is TypeName or TypeName_<sizes…> of a gadget/circuit type in definition code, every gadget type reachable from the two circuits has a definition, and the numeric suffix has exactly the shape the extractor derives from the type's layout (slice dimensions of the variable fields, inner first, then integer fields in declaration order); " +
		"(O17.2) signature agreement — parameter names, order and nesting equal the type's variable fields, and the continuation's shape equals the returned kind; (O17.3) op-trace language inclusion — the definition body, read as a word over {gate:op, gadget:Type}, is accepted by the automaton of the Go definition's control-flow graph " +
		"(n-ary Add/Sub/Mul emit n-1 gates; in-repo helpers taking the API are spliced in); (O17.4) width agreement — the literal of every to_binary equals the Go width form evaluated at the integer-field values encoded in the definition's name; " +
		"(O17.5) dimension agreement — the CI export step's --tree-depth/--batch-size equal `abbrev D`/`abbrev B`, its --output is the file the proofs import, and the circuit, batch, round and Merkle definitions named for those dimensions (predicted from the struct layouts and the circuits' roles) exist; " +
		"(O17.6) clone transparency — the extractor deep-copies gadget inputs, compilation does not, so no caller may read a slice after handing it to an in-place gadget; (O17.7) every SemaphoreMTB identifier used by the proof files is a definition of the model; " +
		"(O17.8) extraction is deterministic (no nondeterminism source in definition/construction code) and ExtractLean passes the deletion and the insertion circuit, in that order, under namespace SemaphoreMTB for BN254. " +
		"Not decided: operand-level equality of model and source (operand swaps inside an unchanged op sequence are caught against the statement by C01–C03/C06), nor that the theorems hold."
	for id, t := range map[string]string{
		"O17.1": "definition names ↔ gadget types and extractor-derived suffix shape",
		"O17.2": "parameter lists ↔ variable fields; continuation shape ↔ returned kind",
		"O17.3": "body op-trace ∈ language of the Go definition's CFG automaton",
		"O17.4": "to_binary literals = Go width forms at the name's integer values",
		"O17.5": "CI export dimensions = D, B; predicted definition names exist; output path is the imported file",
		"O17.6": "clone transparency of in-place gadgets",
		"O17.9": "extract-circuit writes the model into a truncated file (os.Create / O_TRUNC), so the file depends on the dimensions only",
		"O17.12": "a gadget field of a kind the extractor does not encode in the instance name (bool, string, struct, array of ints, …) is given the same value at every construction site: instances that share a name share one Lean definition",
		"O17.13": "the function that calls the extractor (and its in-repo callers that carry the dimensions) constructs no error for any depth 1..31 and positive batch size — finite-domain evaluation of its branch conditions",
		"O17.7": "proof-file references resolve in the model",
		"O17.8": "extraction deterministic; ExtractLean(deletion, insertion) under SemaphoreMTB/BN254",
	} {
		r.Rule(id, t)
	}
	r.Trusted = append(r.Trusted, "gnark-lean-extractor v2.1.0 emission rules: one line per recorded API call (n-1 for n-ary Add/Sub/Mul) in call order; names = type name + slice dims (inner first) + integer fields; gadget inputs deep-copied; a gadget body is extracted once per name", "the Lean toolchain and ProvenZK are not available: the proofs are not re-checked")
	r.NotDecided = append(r.NotDecided, "operand-level equality of model and source", "that the theorems hold")

	fvDir := filepath.Join(p.Dir, "formal-verification")
	modelPath := filepath.Join(fvDir, "FormalVerification.lean")
	model, err := lean.Parse(modelPath)
	if err != nil {
		r.Violation("O17.1", "formal-verification/FormalVerification.lean", "-", "cannot read the committed model: %v", err)
		return
	}
	r.AnalysedFn("formal-verification/FormalVerification.lean")
	r.Count("model definitions", len(model.Defs))
	r.Floor("model definitions", 50)
	ctx := newCircuitCtx(p)
	// ---- Go gadget universe: types with DefineGadget, plus the circuits
	gadgets := map[string]*goGadget{}
	var circuits []*goGadget
	for _, sp := range p.SSAPkgs {
		for _, m := range sp.Members {
			t, ok := m.(*ssa.Type)
			if !ok {
				continue
			}
			n, _ := t.Type().(*types.Named)
			if n == nil {
				continue
			}
			if _, isS := n.Underlying().(*types.Struct); !isS {
				continue
			}
			if fn := p.MethodOf(n, "DefineGadget"); fn != nil && fn.Blocks != nil {
				vf, ints := layoutOf(n)
				gadgets[n.Obj().Name()] = &goGadget{T: n, Simple: n.Obj().Name(), Fn: fn, VarFields: vf, IntFields: ints}
			}
		}
	}
	roles := map[string]*batchRoles{}
	for _, a := range []string{"SetupDeletion", "SetupInsertion"} {
		T, _, _ := circuitTypeOf(p, a)
		if T == nil {
			continue
		}
		if fn := p.MethodOf(T, "Define"); fn != nil {
			vf, ints := layoutOf(T)
			g := &goGadget{T: T, Simple: T.Obj().Name(), Fn: fn, Circuit: true, VarFields: vf, IntFields: ints}
			gadgets[g.Simple] = g
			circuits = append(circuits, g)
		}
		if br := discoverBatchQuiet(p, ctx, a); br != nil {
			roles[T.Obj().Name()] = br
		}
	}
	r.Count("Go gadget/circuit types", len(gadgets))
	resolve := func(def string) *goGadget {
		var best *goGadget
		for name, g := range gadgets {
			if def == name || (strings.HasPrefix(def, name+"_") && suffixRe.MatchString(def[len(name):])) {
				if best == nil || len(name) > len(best.Simple) {
					best = g
				}
			}
		}
		return best
	}
	// reachable gadget types from the circuits
	reach := map[string]bool{}
	for _, c := range circuits {
		if ci := ctx.define(c.T, "Define"); ci != nil {
			for _, d := range ctx.definitionCode(ci) {
				reach[d.T.Obj().Name()] = true
			}
		}
	}
	// automaton
	a := &nfa{eps: map[int][]int{}, trans: map[int]map[string][]int{}, any: map[int]bool{}, entry: map[*ssa.Function]int{}, exit: map[*ssa.Function]int{}, pos: map[int]ssa.Instruction{},
		simple: func(t types.Type) string {
			if n := namedOf(t); n != nil {
				return n.Obj().Name()
			}
			return t.String()
		},
		inRepo: func(fn *ssa.Function) bool { return fn.Pkg != nil && core.InRepo(fn.Pkg.Pkg.Path()) }}
	defined := map[string]int{}
	// ---- per definition
	for _, d := range model.Defs {
		if d.Name == "Order" {
			continue
		}
		g := resolve(d.Name)
		pos := fmt.Sprintf("formal-verification/FormalVerification.lean:%d", d.Line)
		if g == nil {
			r.Violation("O17.1", "def "+d.Name, pos, "no gadget or circuit type of the Go definition code is named like this definition: the model contains a definition the current source cannot produce (renamed or removed gadget)")
			continue
		}
		defined[g.Simple]++
		r.AnalysedFn(core.FuncName(g.Fn))
		// suffix shape
		nums := []int{}
		if len(d.Name) > len(g.Simple) {
			for _, s := range strings.Split(strings.TrimPrefix(d.Name[len(g.Simple):], "_"), "_") {
				n, _ := strconv.Atoi(s)
				nums = append(nums, n)
			}
		}
		wantN := len(g.IntFields)
		for _, f := range g.VarFields {
			wantN += f.Depth
		}
		// decode
		ints := map[string]int64{}
		suffixOK := len(nums) == wantN
		var dimsBySuffix [][]int
		if suffixOK {
			k := 0
			for _, f := range g.VarFields {
				if f.Depth > 0 {
					dimsBySuffix = append(dimsBySuffix, nums[k:k+f.Depth]) // inner first
					k += f.Depth
				} else {
					dimsBySuffix = append(dimsBySuffix, nil)
				}
			}
			for _, f := range g.IntFields {
				ints[f] = int64(nums[k])
				k++
			}
		}
		// ---- O17.2 signature
		var sigProbs []string
		var lp []lean.Param
		var kp *lean.Param
		for i := range d.Params {
			if d.Params[i].IsK {
				kp = &d.Params[i]
			} else {
				lp = append(lp, d.Params[i])
			}
		}
		if len(lp) != len(g.VarFields) {
			sigProbs = append(sigProbs, fmt.Sprintf("%d parameters in the model, %d variable fields in %s", len(lp), len(g.VarFields), g.Simple))
		} else {
			for i, f := range g.VarFields {
				if lp[i].Name != f.Name {
					sigProbs = append(sigProbs, fmt.Sprintf("parameter %d is %s in the model, field %s in Go", i, lp[i].Name, f.Name))
				}
				if len(lp[i].Dims) != f.Depth {
					sigProbs = append(sigProbs, fmt.Sprintf("parameter %s has nesting %d in the model, %d in Go", f.Name, len(lp[i].Dims), f.Depth))
				} else if suffixOK && f.Depth > 0 {
					// model dims are outermost first; suffix dims inner first
					for k := 0; k < f.Depth; k++ {
						if lp[i].Dims[k] != dimsBySuffix[i][f.Depth-1-k] {
							sigProbs = append(sigProbs, fmt.Sprintf("parameter %s has sizes %v but the name encodes %v (inner first)", f.Name, lp[i].Dims, dimsBySuffix[i]))
							break
						}
					}
				}
			}
		}
		// continuation shape vs returned kind
		retDepth, retKnown := returnedDepth(g.Fn)
		if g.Circuit {
			if kp != nil {
				sigProbs = append(sigProbs, "a circuit definition has a continuation")
			}
		} else if kp != nil && retKnown && len(kp.KDims) != retDepth {
			sigProbs = append(sigProbs, fmt.Sprintf("the continuation takes a value of nesting %d but DefineGadget returns nesting %d", len(kp.KDims), retDepth))
		}
		r.Check(suffixOK, "O17.1", "def "+d.Name+": name suffix shape", pos, fmt.Sprintf("%s + %d numbers (slice dims inner-first, then %v)", g.Simple, wantN, g.IntFields),
			fmt.Sprintf("the name carries %d numbers but the layout of %s (variable fields %v, integer fields %v) yields %d: the extractor would generate a different name, so this definition is not what current extraction produces", len(nums), g.Simple, g.VarFields, g.IntFields, wantN))
		r.Check(len(sigProbs) == 0, "O17.2", "def "+d.Name+": signature", pos, fmt.Sprintf("%d parameters match the variable fields of %s", len(lp), g.Simple), strings.Join(sigProbs, "; "))
		// ---- O17.3 trace inclusion
		word := make([]string, 0, len(d.Body))
		wordOK := true
		for _, s := range d.Body {
			if s.Kind == "gate" {
				word = append(word, "gate:"+s.Name)
			} else {
				cg := resolve(s.Name)
				if cg == nil || model.ByName[s.Name] == nil {
					r.Violation("O17.3", "def "+d.Name+": call of "+s.Name, fmt.Sprintf("formal-verification/FormalVerification.lean:%d", s.Line), "the body calls %s, which is not a definition of the model / not a gadget type", s.Name)
					wordOK = false
					continue
				}
				word = append(word, "gadget:"+cg.Simple)
			}
		}
		if wordOK {
			// branches on the definition's own integer fields (and on the field's bit length) are decided for the values the
			// model's name encodes: `if gadget.Size >= api.Compiler().FieldBitLen()` emits the reducedness gadget for _256
			// and not for _32, and the model must agree with exactly that
			var decide func(*ssa.If) (int, bool)
			if gi := ctx.define(g.T, g.Fn.Name()); gi != nil && suffixOK {
				decide = func(iff *ssa.If) (int, bool) {
					ct := gi.Ev.TermIn(iff.Cond, iff.Block())
					if ct == nil || ct.K != tf.KBin || len(ct.Args) != 2 {
						return 0, false
					}
					x, okx := evalIntFormX(ct.Args[0], gi.Ev.Params[0], ints)
					y, oky := evalIntFormX(ct.Args[1], gi.Ev.Params[0], ints)
					if !okx || !oky {
						return 0, false
					}
					var truth bool
					switch ct.Name {
					case "<":
						truth = x < y
					case "<=":
						truth = x <= y
					case ">":
						truth = x > y
					case ">=":
						truth = x >= y
					case "==":
						truth = x == y
					case "!=":
						truth = x != y
					default:
						return 0, false
					}
					if truth {
						return 0, true
					}
					return 1, true
				}
			}
			en, ex := a.buildWith(g.Fn, decide)
			ok, at, alive := a.accepts(en, ex, word)
			r.Count("trace symbols checked", len(word))
			if ok {
				r.OK("O17.3", "def "+d.Name+": op-trace", pos, "%d operations accepted by the automaton of %s", len(word), core.FuncName(g.Fn))
			} else {
				var where []string
				for _, in := range alive {
					where = append(where, p.Pos(in.Pos()))
				}
				got := "<end of definition>"
				line := d.Line
				if at < len(word) {
					got = word[at] + " (" + d.Body[at].Text + ")"
					line = d.Body[at].Line
				}
				r.Violation("O17.3", "def "+d.Name+": op-trace", fmt.Sprintf("formal-verification/FormalVerification.lean:%d", line),
					"operation %d of the model, %s, cannot be emitted by %s at that point (Go positions still possible: %s): the committed model is not an output of the current source", at, got, core.FuncName(g.Fn), strings.Join(where, ", "))
			}
		}
		// ---- O17.11 instance names at the call sites: the extractor names a gadget instance by the lengths of its slice
		// fields and its integer fields *at the call*; for every call in the Go definition whose argument lengths are
		// integer forms in this definition's own dimensions, the instance the model calls must be the one those lengths
		// give (passing a 31-bit path where the model says VerifyProof_31_30 compiles to the same R1CS but extracts to a
		// different model)
		if suffixOK {
			if gi := ctx.define(g.T, g.Fn.Name()); gi != nil {
				recvT := gi.Ev.Params[0]
				fieldDims := map[string][]int{} // inner first
				for i, f := range g.VarFields {
					if f.Depth > 0 && i < len(dimsBySuffix) {
						fieldDims[f.Name] = dimsBySuffix[i]
					}
				}
				var lenOf func(t *tf.Term) (int64, bool)
				evalForm := func(t *tf.Term) (int64, bool) {
					c, atoms, coefs := tf.AffParts(t)
					v := c
					for i, a := range atoms {
						switch {
						case a.K == tf.KCall && strings.HasSuffix(a.Name, "frontend.Compiler).FieldBitLen"):
							v += coefs[i] * 254
						case a.K == tf.KLen:
							n, ok := lenOf(a.Args[0])
							if !ok {
								return 0, false
							}
							v += coefs[i] * n
						default:
							f, ok := fieldOf(a, recvT)
							if !ok {
								return 0, false
							}
							x, ok := ints[f]
							if !ok {
								return 0, false
							}
							v += coefs[i] * x
						}
					}
					return v, true
				}
				lenOf = func(t *tf.Term) (int64, bool) {
					t = gi.Ev.Resolve(t)
					if f, ok := fieldOf(t, recvT); ok {
						if ds := fieldDims[f]; len(ds) > 0 {
							return int64(ds[len(ds)-1]), true // outermost dimension
						}
						return 0, false
					}
					if t.K == tf.KIdx {
						if f, ok := fieldOf(t.Args[0], recvT); ok {
							if ds := fieldDims[f]; len(ds) > 1 {
								return int64(ds[len(ds)-2]), true
							}
						}
						return 0, false
					}
					if t.K == tf.KApi && t.Name == "ToBinary" && len(t.Args) == 2 {
						return evalForm(t.Args[1])
					}
					l := tf.Len(t)
					if l.K == tf.KLen && tf.Eq(l.Args[0], t) {
						return 0, false
					}
					return evalForm(l)
				}
				predicted := map[string]map[string]bool{} // callee type -> instance names
				undecidedT := map[string]bool{}
				for _, e := range gi.Events {
					if e.Term.K != tf.KGadget {
						continue
					}
					cg := gadgets[e.Term.Name]
					if cg == nil {
						if i := strings.LastIndex(e.Term.Name, "."); i >= 0 {
							cg = gadgets[e.Term.Name[i+1:]]
						}
					}
					if cg == nil {
						continue
					}
					name := cg.Simple
					okAll := true
					for _, f := range cg.VarFields {
						if f.Depth == 0 {
							continue
						}
						a := e.Term.FieldOf(f.Name)
						if f.Depth > 1 || a == nil {
							okAll = false
							break
						}
						n, ok := lenOf(a)
						if !ok {
							okAll = false
							break
						}
						name += "_" + strconv.FormatInt(n, 10)
					}
					for _, f := range cg.IntFields {
						a := e.Term.FieldOf(f)
						if a == nil {
							okAll = false
							break
						}
						n, ok := evalForm(a)
						if !ok {
							okAll = false
							break
						}
						name += "_" + strconv.FormatInt(n, 10)
					}
					if !okAll {
						undecidedT[cg.Simple] = true
						continue
					}
					if predicted[cg.Simple] == nil {
						predicted[cg.Simple] = map[string]bool{}
					}
					predicted[cg.Simple][name] = true
				}
				called := map[string]map[string]bool{}
				for _, st := range d.Body {
					if st.Kind == "gate" {
						continue
					}
					if cg := resolve(st.Name); cg != nil {
						if called[cg.Simple] == nil {
							called[cg.Simple] = map[string]bool{}
						}
						called[cg.Simple][st.Name] = true
					}
				}
				var mism []string
				nInst := 0
				for T, ps := range predicted {
					if undecidedT[T] {
						continue
					}
					for nm := range ps {
						nInst++
						if !called[T][nm] {
							var got []string
							for c := range called[T] {
								got = append(got, c)
							}
							sort.Strings(got)
							mism = append(mism, fmt.Sprintf("the Go call site instantiates %s but the model calls %v", nm, got))
						}
					}
				}
				sort.Strings(mism)
				if nInst > 0 || len(mism) > 0 {
					r.Count("call-site instance names checked", nInst)
					r.Check(len(mism) == 0, "O17.11", "def "+d.Name+": instances called", pos, fmt.Sprintf("%d call-site instance name(s) computed from argument lengths match the model's calls", nInst), strings.Join(mism, "; "))
				}
			}
		}
		// ---- O17.4 widths
		if len(d.ToBinaryWidths) > 0 && suffixOK {
			gi := ctx.define(g.T, g.Fn.Name())
			if gi != nil {
				var want []int64
				okEval := true
				for _, e := range apiEvents(gi, "ToBinary") {
					if len(e.Term.Args) != 2 {
						okEval = false
						continue
					}
					v, ok := evalIntForm(e.Term.Args[1], gi.Ev.Params[0], ints)
					if !ok {
						okEval = false
						continue
					}
					want = append(want, v)
				}
				if okEval && len(want) == 1 {
					all := true
					for _, w := range d.ToBinaryWidths {
						if int64(w) != want[0] {
							all = false
						}
					}
					r.Count("width agreements", 1)
					r.Check(all, "O17.4", "def "+d.Name+": to_binary width", pos, fmt.Sprintf("%d = width form at %v", want[0], ints), fmt.Sprintf("the model decomposes into %v bits but the Go width evaluates to %d for the integer fields %v encoded in the name", d.ToBinaryWidths, want[0], ints))
				}
			}
		}
	}
	// every reachable gadget type has a definition
	var missing []string
	for name := range reach {
		if defined[name] == 0 {
			missing = append(missing, name)
		}
	}
	sort.Strings(missing)
	r.Check(len(missing) == 0, "O17.1", "every gadget reachable from the circuits is defined in the model", "formal-verification/FormalVerification.lean", fmt.Sprintf("%d reachable gadget/circuit types, all defined", len(reach)), "gadget types used by the circuits but absent from the model: "+strings.Join(missing, ", "))
	if len(a.unknown) > 0 {
		r.Extra["automaton_imprecision"] = a.unknown
	}
	r.Extra["automaton_states"] = a.n
	r.Floor("trace symbols checked", 1000)
	r.Floor("width agreements", 4)

	// ---- O17.13 extraction refuses no supported dimension
	checkExtractorRefusals(p, r)
	// ---- O17.12 fields the instance name does not encode
	checkNameBlindFields(p, r, ctx, gadgets)
	// ---- O17.5 dimensions
	checkLeanDimensions(p, r, model, gadgets, roles, fvDir)
	// ---- O17.7 references
	refs, err := lean.References(fvDir, modelPath, model.Namespace)
	if err != nil {
		r.Violation("O17.7", "proof files", "-", "cannot scan the proof files: %v", err)
	} else {
		names := map[string]bool{}
		for _, x := range model.NonDefs {
			names[x] = true
		}
		bad := map[string]string{}
		distinct := map[string]bool{}
		for _, rf := range refs {
			distinct[rf.Name] = true
			if model.ByName[rf.Name] == nil && !names[rf.Name] {
				rel, _ := filepath.Rel(p.Dir, rf.File)
				bad[rf.Name] = fmt.Sprintf("%s:%d", rel, rf.Line)
			}
		}
		r.Count("distinct proof references", len(distinct))
		r.Floor("distinct proof references", 20)
		var bl []string
		for n, at := range bad {
			bl = append(bl, n+" ("+at+")")
		}
		sort.Strings(bl)
		r.Check(len(bl) == 0, "O17.7", "proof files: SemaphoreMTB references resolve", "formal-verification", fmt.Sprintf("%d distinct identifiers, all defined in the model", len(distinct)), "identifiers used by the proofs but not defined in the model: "+strings.Join(bl, ", "))
	}
	// ---- O17.6 clone transparency
	var gl []*gadgetInfo
	seenFn := map[*ssa.Function]bool{}
	for _, c := range circuits {
		if ci := ctx.define(c.T, "Define"); ci != nil {
			for _, d := range ctx.definitionCode(ci) {
				if !seenFn[d.Fn] {
					seenFn[d.Fn] = true
					gl = append(gl, d)
				}
			}
		}
	}
	sort.Slice(gl, func(i, j int) bool { return gl[i].Name < gl[j].Name })
	mut := mutatedFields(p, ctx, gl)
	checkOwnership(p, r, gl, mut, "O17.6")
	// ---- O17.10: the extractor implements only part of frontend.API / frontend.Compiler; a definition that calls one of
	// the methods it leaves as panic("implement me") compiles and proves as before, but extraction aborts (the panic is
	// swallowed and an empty model is returned)
	checkExtractorSupports(p, r, gl)
	// ---- O17.9
	checkExtractOutputFile(p, r)
	// ---- O17.8
	checkExtractEntry(p, r, model)
	sub := core.NewReport("sub", r.Tier)
	checkNoNondeterminism(p, sub, ctx)
	for _, ob := range sub.Obs {
		ob.Rule = "O17.8"
		r.Obs = append(r.Obs, ob)
	}
}

// returnedDepth: nesting of the value DefineGadget returns (0 = single variable), from the interface conversion at its returns.
func returnedDepth(fn *ssa.Function) (int, bool) {
	depth, known := 0, false
	for _, b := range fn.Blocks {
		if len(b.Instrs) == 0 {
			continue
		}
		ret, ok := b.Instrs[len(b.Instrs)-1].(*ssa.Return)
		if !ok || len(ret.Results) != 1 {
			continue
		}
		var t types.Type
		switch x := ret.Results[0].(type) {
		case *ssa.MakeInterface:
			t = x.X.Type()
		case *ssa.ChangeType:
			t = x.X.Type()
		case *ssa.ChangeInterface:
			t = x.X.Type()
		default:
			continue
		}
		if d, ok := varDepth(t); ok {
			depth, known = d, true
		} else if types.IsInterface(t) {
			depth, known = 0, true // frontend.Variable is an interface
		}
	}
	return depth, known
}

// evalIntForm evaluates an affine form over the receiver's integer fields.
func evalIntForm(t, recv *tf.Term, ints map[string]int64) (int64, bool) {
	c, atoms, coefs := tf.AffParts(t)
	v := c
	for i, a := range atoms {
		f, ok := fieldOf(a, recv)
		if !ok {
			return 0, false
		}
		x, ok := ints[f]
		if !ok {
			return 0, false
		}
		v += coefs[i] * x
	}
	return v, true
}

func checkLeanDimensions(p *core.Program, r *core.Report, model *lean.Model, gadgets map[string]*goGadget, roles map[string]*batchRoles, fvDir string) {
	ab, err := lean.Abbrevs(filepath.Join(fvDir, "FormalVerification", "Common.lean"))
	if err != nil {
		r.Violation("O17.5", "FormalVerification/Common.lean", "-", "%v", err)
		return
	}
	D, okD := ab["D"]
	B, okB := ab["B"]
	if !okD || !okB {
		r.Violation("O17.5", "FormalVerification/Common.lean: abbrev D / abbrev B", "-", "dimension abbreviations not found")
		return
	}
	args, line, err := lean.ExportStep(filepath.Join(p.Dir, ".github", "workflows", "test.yml"))
	if err != nil {
		r.Violation("O17.5", ".github/workflows/test.yml: export step", "-", "%v", err)
	} else {
		pos := fmt.Sprintf(".github/workflows/test.yml:%d", line)
		r.Check(args["tree-depth"] == strconv.Itoa(D) && args["batch-size"] == strconv.Itoa(B), "O17.5", "CI export step: dimensions", pos, fmt.Sprintf("--tree-depth %d --batch-size %d = abbrev D, B", D, B),
			fmt.Sprintf("CI regenerates the model at depth %s / batch %s but the proofs are stated for D=%d, B=%d", args["tree-depth"], args["batch-size"], D, B))
		r.Check(filepath.Clean(args["output"]) == "formal-verification/FormalVerification.lean", "O17.5", "CI export step: output file", pos, "writes formal-verification/FormalVerification.lean (imported by the proofs)", "the export step writes "+args["output"]+", not the file the proofs import")
		r.Count("CI export steps", 1)
	}
	r.Floor("CI export steps", 1)
	// predicted names
	predict := func(g *goGadget, dims map[string][]int, ints map[string]int) string {
		s := g.Simple
		for _, f := range g.VarFields {
			if f.Depth > 0 {
				ds := dims[f.Name]
				for k := len(ds) - 1; k >= 0; k-- { // inner first
					s += "_" + strconv.Itoa(ds[k])
				}
			}
		}
		for _, f := range g.IntFields {
			s += "_" + strconv.Itoa(ints[f])
		}
		return s
	}
	n := 0
	for cname, br := range roles {
		cg := gadgets[cname]
		if cg == nil {
			continue
		}
		// circuit
		cd := map[string][]int{br.Map[br.Items]: {B}, br.Map[br.Paths]: {B, D}}
		if br.Indices != "" {
			cd[br.Map[br.Indices]] = []int{B}
		}
		ci := map[string]int{br.Map[br.BatchSize]: B, br.Map[br.Depth]: D}
		want := []string{predict(cg, cd, ci)}
		// batch gadget
		if bg := gadgets[simpleName(br.Batch.T)]; bg != nil {
			bd := map[string][]int{br.Items: {B}, br.Paths: {B, D}}
			if br.Indices != "" {
				bd[br.Indices] = []int{B}
			}
			want = append(want, predict(bg, bd, map[string]int{br.BatchSize: B, br.Depth: D}))
		}
		// round gadget
		if rg := gadgets[simpleName(br.Round.T)]; rg != nil {
			want = append(want, predict(rg, map[string][]int{br.RoundRole["proof"]: {D}}, map[string]int{br.RoundRole["depth"]: D}))
		}
		for _, w := range want {
			n++
			r.Check(model.ByName[w] != nil, "O17.5", "predicted definition "+w, "formal-verification/FormalVerification.lean", "present in the model",
				"extraction of "+cname+" at depth "+strconv.Itoa(D)+", batch "+strconv.Itoa(B)+" names this definition "+w+" (from the struct layout: slice dims inner-first, then integer fields in declaration order), but the committed model does not contain it")
		}
	}
	r.Count("predicted definition names", n)
	r.Floor("predicted definition names", 6)
}

func simpleName(n *types.Named) string { return n.Obj().Name() }

// checkExtractEntry: ExtractLean calls extractor.ExtractCircuits("SemaphoreMTB", ecc.BN254, &deletion, &insertion).
func checkExtractEntry(p *core.Program, r *core.Report, model *lean.Model) {
	var call *ssa.Call
	var in *ssa.Function
	for _, fn := range p.RepoFuncs() {
		for _, b := range fn.Blocks {
			for _, i := range b.Instrs {
				if c, ok := i.(*ssa.Call); ok {
					if sc := c.Common().StaticCallee(); sc != nil && strings.HasSuffix(sc.String(), "extractor.ExtractCircuits") {
						call, in = c, fn
					}
				}
			}
		}
	}
	if call == nil {
		r.Violation("O17.8", "extractor entry point", "-", "no call of extractor.ExtractCircuits in the repository")
		return
	}
	eng := tf.NewEngine(core.InRepo, 2)
	ev := eng.NewEval(in)
	t := ev.Term(call)
	var probs []string
	if len(t.Args) < 3 {
		probs = append(probs, "unexpected arity")
	} else {
		if s, ok := constStr(t.Args[0]); !ok || s != model.Namespace {
			probs = append(probs, fmt.Sprintf("namespace argument %s, model namespace %s", describe(t.Args[0]), model.Namespace))
		}
		if !isConstInt(t.Args[1], 1) { // ecc.BN254 == 1
			probs = append(probs, "the curve argument is not ecc.BN254")
		}
		var order []string
		for _, part := range tf.Parts(t.Args[2]) {
			if part.K == tf.KElem {
				if n := namedOf(ev.AllocType(part.Args[0])); n != nil {
					order = append(order, n.Obj().Name())
				}
			}
		}
		// model order of the circuit definitions
		var mo []string
		for _, d := range model.Defs {
			for _, o := range order {
				if d.Name == o || strings.HasPrefix(d.Name, o+"_") {
					mo = append(mo, o)
				}
			}
		}
		if len(order) != 2 || strings.Join(order, ",") != strings.Join(mo, ",") {
			probs = append(probs, fmt.Sprintf("ExtractCircuits receives %v; the model lists circuit definitions in order %v", order, mo))
		}
	}
	r.Check(len(probs) == 0, "O17.8", core.FuncName(in)+": extractor call", p.Pos(call.Pos()), "ExtractCircuits(\"SemaphoreMTB\", BN254, &deletion, &insertion)", strings.Join(probs, "; "))
}

// checkExtractOutputFile decides O17.9: the command that writes the Lean model (run by CI over the committed file) writes it
// into a file that is truncated first — os.Create, os.WriteFile, or os.OpenFile with O_TRUNC and without O_APPEND — so that
// the file's contents are a function of the circuit dimensions alone and not of what the path held before.
func checkExtractOutputFile(p *core.Program, r *core.Report) {
	checkOutputFilesTruncated(p, r, "O17.9", "the model", "extract-circuit")
}

// checkOutputFilesTruncated: every file-creating call reachable from the named commands (within package main) creates or
// truncates the file — no stale tail of an earlier, longer output survives, nothing is appended.
func checkOutputFilesTruncated(p *core.Program, r *core.Report, rule, what string, names ...string) {
	ix := indexFuncs(p)
	want := map[string]bool{}
	for _, n := range names {
		want[n] = true
	}
	for _, c := range cliCommands(p) {
		if !want[c.Name] || c.Action.Node == nil {
			continue
		}
		n := 0
		var bad []string
		pos := p.Pos(c.Lit.Pos())
		for _, u := range ix.closure([]flow.FuncUnit{c.Action}) {
			if u.Pkg != c.Pkg {
				continue
			}
			info := u.Pkg.TypesInfo
			ast.Inspect(u.Node, func(m ast.Node) bool {
				call, ok := m.(*ast.CallExpr)
				if !ok {
					return true
				}
				fn, _ := flow.Callee(info, call).(*types.Func)
				if fn == nil {
					return true
				}
				switch fn.FullName() {
				case "os.Create", "os.WriteFile", "io/ioutil.WriteFile":
					n++
				case "os.OpenFile":
					n++
					pos = p.Pos(call.Pos())
					if len(call.Args) == 3 {
						tv := info.Types[call.Args[1]]
						if tv.Value == nil {
							bad = append(bad, "os.OpenFile at "+p.Pos(call.Pos())+" with non-constant flags")
						} else if fl, ok := constant.Int64Val(tv.Value); ok {
							const oAppend, oTrunc = 0x400, 0x200 // os.O_APPEND, os.O_TRUNC on the analysed platform are read below
							_ = oAppend
							_ = oTrunc
							if fl&int64(osFlag(p, "O_TRUNC")) == 0 {
								bad = append(bad, "os.OpenFile at "+p.Pos(call.Pos())+" without O_TRUNC: a longer file already at the path keeps its tail after the new content")
							}
							if fl&int64(osFlag(p, "O_APPEND")) != 0 {
								bad = append(bad, "os.OpenFile at "+p.Pos(call.Pos())+" with O_APPEND: the output is added to whatever the path held")
							}
						}
					}
				}
				return true
			})
		}
		cn := "main.cmd:" + c.Name + ": output file is truncated before " + what + " is written"
		switch {
		case len(bad) > 0:
			r.Violation(rule, cn, pos, "%s", strings.Join(bad, "; "))
		case n == 0:
			r.Undecided(rule, cn, pos, "no os.Create / os.OpenFile / os.WriteFile found in the command: cannot tell how the output file is opened")
		default:
			r.OK(rule, cn, pos, "%d file-creation site(s), each truncating", n)
		}
		r.Count(c.Name+" output sites", n)
	}
}

// osFlag reads the value of an os.O_* constant as type-checked for the analysed platform.
func osFlag(p *core.Program, name string) int64 {
	if pk, ok := p.All["os"]; ok && pk.Types != nil {
		if c, ok := pk.Types.Scope().Lookup(name).(*types.Const); ok {
			if v, exact := constant.Int64Val(c.Val()); exact {
				return v
			}
		}
	}
	return 0
}

// evalIntFormX: evalIntForm with the scalar field's bit length as a known quantity (the circuits are compiled over
// BN254's scalar field — C12 O12.3 — whose modulus has 254 bits).
func evalIntFormX(t, recv *tf.Term, ints map[string]int64) (int64, bool) {
	c, atoms, coefs := tf.AffParts(t)
	v := c
	for i, a := range atoms {
		if a.K == tf.KCall && strings.HasSuffix(a.Name, "frontend.Compiler).FieldBitLen") {
			v += coefs[i] * 254
			continue
		}
		if a.K == tf.KLen {
			return 0, false
		}
		f, ok := fieldOf(a, recv)
		if !ok {
			return 0, false
		}
		x, ok := ints[f]
		if !ok {
			return 0, false
		}
		v += coefs[i] * x
	}
	return v, true
}

// checkExtractorSupports: the set of unimplemented methods is read off the extractor's own source (methods of its code
// extractor type whose body is nothing but a panic), so it follows the pinned dependency.
func checkExtractorSupports(p *core.Program, r *core.Report, defs []*gadgetInfo) {
	unimpl := map[string]bool{}
	nMethods := 0
	for _, pkg := range p.SSA.AllPackages() {
		if !strings.HasSuffix(pkg.Pkg.Path(), "gnark-lean-extractor/v2/extractor") {
			continue
		}
		pkg.Build() // dependency bodies are not built by default
		for _, m := range pkg.Members {
			t, ok := m.(*ssa.Type)
			if !ok {
				continue
			}
			ms := p.SSA.MethodSets.MethodSet(types.NewPointer(t.Type()))
			for i := 0; i < ms.Len(); i++ {
				fn := p.SSA.MethodValue(ms.At(i))
				if fn == nil || len(fn.Blocks) == 0 || !implementsAPIMethod(ms.At(i).Obj().Name()) {
					continue
				}
				nMethods++
				if len(fn.Blocks) == 1 {
					if _, isPanic := fn.Blocks[0].Instrs[len(fn.Blocks[0].Instrs)-1].(*ssa.Panic); isPanic {
						unimpl[fn.Name()] = true
					}
				}
			}
		}
	}
	if nMethods == 0 {
		r.Undecided("O17.10", "extractor: implemented API", "-", "cannot find the extractor's API implementation in the loaded program")
		return
	}
	var bad []string
	nCalls := 0
	seen := map[*ssa.Function]bool{}
	var scan func(fn *ssa.Function)
	scan = func(fn *ssa.Function) {
		if fn == nil || seen[fn] || len(fn.Blocks) == 0 {
			return
		}
		seen[fn] = true
		for _, b := range fn.Blocks {
			for _, in := range b.Instrs {
				c, ok := in.(ssa.CallInstruction)
				if !ok {
					continue
				}
				com := c.Common()
				if com.IsInvoke() {
					tn := com.Value.Type().String()
					if strings.HasSuffix(tn, "gnark/frontend.API") || strings.HasSuffix(tn, "gnark/frontend.Compiler") {
						nCalls++
						if unimpl[com.Method.Name()] {
							bad = append(bad, fmt.Sprintf("%s calls %s at %s", core.FuncName(fn), com.Method.Name(), p.Pos(in.Pos())))
						}
					}
					continue
				}
				if sc := com.StaticCallee(); sc != nil && core.InRepo(pkgPathOf(sc)) && hasAPIParam(sc) {
					scan(sc)
				}
			}
		}
		for _, a := range fn.AnonFuncs {
			scan(a)
		}
	}
	for _, d := range defs {
		scan(d.Fn)
	}
	sort.Strings(bad)
	var ul []string
	for m := range unimpl {
		ul = append(ul, m)
	}
	sort.Strings(ul)
	r.Check(len(bad) == 0, "O17.10", "definition code: only API methods the extractor implements", "-", fmt.Sprintf("%d API/Compiler calls in %d definition functions; the extractor leaves unimplemented: %s", nCalls, len(seen), strings.Join(ul, ", ")),
		"extraction aborts on: "+strings.Join(bad, "; ")+" — the extractor's method is a bare panic, which ExtractCircuits swallows: the extracted model is empty while compilation and proving are unaffected")
}

func implementsAPIMethod(name string) bool {
	return name != "" && name[0] >= 'A' && name[0] <= 'Z'
}


// checkNameBlindFields decides O17.12. The extractor names a gadget instance by its type, the lengths of its
// variable-typed slice/array fields and the values of its integer fields, and emits one Lean definition per *name* — the
// first instance it meets. A field of any other kind (bool, string, float, a struct, an array of ints) is invisible in the
// name: two instances that differ only in such a field share one definition, so the model describes the first and the
// compiled circuit contains both. Every such field must therefore be given the same value at every construction site of the
// gadget type in definition code (today: the Keccak tables, handed down unchanged).
func checkNameBlindFields(p *core.Program, r *core.Report, ctx *circuitCtx, gadgets map[string]*goGadget) {
	type site struct {
		key, pos, in string
	}
	vals := map[string][]site{} // "Type.field" -> distinct values
	nFields := 0
	blind := map[string][]string{}
	for name, g := range gadgets {
		st, ok := g.T.Underlying().(*types.Struct)
		if !ok {
			continue
		}
		for i := 0; i < st.NumFields(); i++ {
			ft := st.Field(i).Type()
			if _, isVar := varDepth(ft); isVar {
				continue
			}
			if b, ok := types.Unalias(ft).Underlying().(*types.Basic); ok && b.Info()&types.IsInteger != 0 {
				continue
			}
			blind[name] = append(blind[name], st.Field(i).Name())
			nFields++
		}
	}
	var names []string
	for n := range gadgets {
		names = append(names, n)
	}
	sort.Strings(names)
	for _, n := range names {
		g := gadgets[n]
		gi := ctx.define(g.T, g.Fn.Name())
		if gi == nil {
			continue
		}
		for _, e := range gi.Events {
			if e.Term.K != tf.KGadget {
				continue
			}
			cn := e.Term.Name
			if i := strings.LastIndex(cn, "."); i >= 0 {
				cn = cn[i+1:]
			}
			for _, f := range blind[cn] {
				v := e.Term.FieldOf(f)
				key := "<zero value>"
				if v != nil {
					key = describe(gi.Ev.Resolve(v))
				}
				k := cn + "." + f
				dup := false
				for _, s0 := range vals[k] {
					if s0.key == key {
						dup = true
					}
				}
				if !dup {
					vals[k] = append(vals[k], site{key, p.Pos(e.Instr.Pos()), g.Simple})
				}
			}
		}
	}
	var bad []string
	var keys []string
	for k := range vals {
		keys = append(keys, k)
	}
	sort.Strings(keys)
	for _, k := range keys {
		if len(vals[k]) > 1 {
			var parts []string
			for _, s0 := range vals[k] {
				parts = append(parts, fmt.Sprintf("%s in %s at %s", s0.key, s0.in, s0.pos))
			}
			bad = append(bad, fmt.Sprintf("field %s (not part of the instance name) is given different values: %s", k, strings.Join(parts, " / ")))
		}
	}
	r.Count("name-blind gadget fields", nFields)
	cn := "gadget fields outside the instance name: same value at every construction site"
	if len(bad) == 0 {
		r.OK("O17.12", cn, "-", "%d field(s) of kinds the extractor does not encode in instance names; each is given one value wherever its gadget is constructed", nFields)
	} else {
		r.Violation("O17.12", cn, "-", "%s: the extractor emits one definition per name (the first instance met), so the model describes one of these instances and the compiled circuit contains both", strings.Join(bad, "; "))
	}
}

package checks

import (
	"fmt"
	"go/ast"
	"go/token"
	"go/types"
	"sort"
	"strings"

	"golang.org/x/tools/go/ssa"

	"verif/sa/internal/core"
	"verif/sa/internal/eff"
	"verif/sa/internal/tf"
)

func init() { Registry["C12"] = Check{Run: checkC12} }

// actionSSA finds the SSA function of a CLI action literal.
func actionSSA(p *core.Program, c cliCommand) *ssa.Function {
	mainFn := p.Func("", "main")
	if mainFn == nil || c.Action.Node == nil {
		return nil
	}
	var found *ssa.Function
	// a named function used as the action
	if fd, ok := c.Action.Node.(*ast.FuncDecl); ok {
		if obj, ok := c.Pkg.TypesInfo.Defs[fd.Name].(*types.Func); ok {
			return p.SSA.FuncValue(obj)
		}
		return nil
	}
	var visit func(f *ssa.Function)
	visit = func(f *ssa.Function) {
		for _, a := range f.AnonFuncs {
			if a.Syntax() == c.Action.Node {
				found = a
			}
			visit(a)
		}
	}
	visit(mainFn)
	if found == nil {
		// commands built by constructor functions: the action closure lives in another function of package main
		if mp := p.SSAPkg(""); mp != nil {
			for _, m := range mp.Members {
				if f, ok := m.(*ssa.Function); ok && f != mainFn {
					visit(f)
				}
			}
		}
	}
	return found
}

// flagOfTerm: t derives (through integer conversions) from context.Uint/Int("<name>") → name.
func flagOfTerm(t *tf.Term) (string, bool) {
	t = stripConv(t)
	if t.K == tf.KCall && strings.Contains(t.Name, "urfave/cli/v2.Context).") && len(t.Args) == 2 {
		if s, ok := constStr(t.Args[1]); ok {
			return s, true
		}
	}
	return "", false
}

// shapeOf describes a slice-valued circuit field as dims of flags: ["batch-size"] or ["batch-size","tree-depth"].
func shapeOf(t *tf.Term) ([]string, string) {
	var dims []string
	cur := t
	for {
		switch {
		case cur.K == tf.KCall && cur.Name == "zeros" && len(cur.Args) == 1:
			f, ok := flagOfTerm(cur.Args[0])
			if !ok {
				return nil, "length " + describe(cur.Args[0]) + " does not come from a CLI dimension flag"
			}
			return append(dims, f), ""
		case cur.K == tf.KMake:
			f, ok := flagOfTerm(cur.Args[0])
			if !ok {
				return nil, "length " + describe(cur.Args[0]) + " does not come from a CLI dimension flag"
			}
			return append(dims, f), ""
		case cur.K == tf.KSeq && len(cur.Args) == 1 && cur.Args[0].K == tf.KStar && cur.Args[0].Loop != nil && len(cur.Args[0].Args) == 1 && cur.Args[0].Args[0].K == tf.KElem:
			n, ok := loopRangeZeroTo(cur.Args[0].Loop)
			if !ok {
				return nil, "fill loop does not run 0..n-1"
			}
			f, okF := flagOfTerm(n)
			if !okF {
				return nil, "fill loop bound " + describe(n) + " does not come from a CLI dimension flag"
			}
			dims = append(dims, f)
			cur = cur.Args[0].Args[0].Args[0]
		default:
			return nil, "not a make()d vector/matrix: " + describe(cur)
		}
	}
}

func checkC12(p *core.Program, r *core.Report) {
	r.Explanation = "Compilation determinism and path independence — structural part: (O12.1) each circuit struct has exactly one variable field tagged public; (O12.2) the deletion circuit's depth guard dominates every constraint-emitting call of Define, so every construction path refuses depth > 31; " +
		"(O12.3) configuration flow: in every CLI command that builds a circuit (setup, r1cs, import-setup, extract-circuit; both modes) the value of --tree-depth reaches the circuit's depth field, the inner dimension of the sibling-path matrix and the stored ProvingSystem tree depth, and --batch-size reaches the batch field, " +
		"the length of every per-slot vector, the outer dimension of the matrix and the stored batch size (roles bound by dataflow on the circuit side; all construction sites are siblings that must agree), and every frontend.Compile uses BN254's scalar field, r1cs.NewBuilder and no options; " +
		"(O12.4) no nondeterminism source in definition/construction code: no map iteration feeding constraints, no goroutines/select, no calls into math/rand, crypto/rand, time, os environment or runtime, and no read or write of package-level state that any non-initialiser writes. " +
		"Not decided: byte-identity of gnark's own output across processes and GOMAXPROCS (inside gnark)."
	r.Rule("O12.1", "exactly one public variable per circuit")
	r.Rule("O12.2", "depth guard precedes any constraint (deletion)")
	r.Rule("O12.3", "CLI dimension flags reach depth/batch fields, vector/matrix shapes and the stored dimensions identically on every construction path; same Compile configuration")
	r.Rule("O12.6", "outside the keys-file load chain, the constraint system of every proving system that is built is frontend.Compile's result in that call (no cache file, no memo)")
	r.Rule("O12.5", "the files written by r1cs, setup and import-setup are created truncated (no stale tail, no append): the exported bytes are exactly the system that was built")
	r.Rule("O12.4", "no nondeterminism source in definition/construction code")
	r.Trusted = append(r.Trusted, "gnark's compiler is a deterministic function of the circuit definition's API-call sequence", "urfave/cli flag lookup")
	r.NotDecided = append(r.NotDecided, "byte-identity of gnark's serialised output across processes/GOMAXPROCS")
	ctx := newCircuitCtx(p)
	// O12.1 + O12.2
	roles := map[string]*batchRoles{}
	for _, a := range []string{"SetupInsertion", "SetupDeletion"} {
		br := discoverBatchQuiet(p, ctx, a)
		if br == nil {
			r.Violation("O12.3", "anchor prover."+a, "-", "cannot bind circuit roles (see C01/C02)")
			continue
		}
		roles[typeKey(br.T)] = br
		pub, sec := publicFields(br.T)
		r.Count("circuit types", 1)
		r.Check(len(pub) == 1, "O12.1", typeKey(br.T)+": public variables", p.Pos(br.T.Obj().Pos()), fmt.Sprintf("only %v is public (%d secret)", pub, len(sec)), fmt.Sprintf("public variable fields: %v; the exported verifier and existing keys expect exactly one", pub))
		if a == "SetupDeletion" {
			checkDepthGuardRule(p, r, br, "O12.2")
		}
	}
	r.Floor("circuit types", 2)
	r.Floor("depth guards", 1)
	// O12.3: evaluate every CLI action that reaches a circuit construction
	eng := tf.NewEngine(core.InRepo, 8)
	ps := provingSystemType(p)
	nCompile, nLiterals, nStored := 0, 0, 0
	for _, c := range cliCommands(p) {
		fn := actionSSA(p, c)
		if fn == nil {
			continue
		}
		ev := eng.NewEval(fn)
		events := ev.Events()
		var builds []tf.Event
		for _, e := range events {
			if callNameHasSuffix(e.Term, "gnark/frontend.Compile") || strings.HasSuffix(e.Term.Name, "extractor.ExtractCircuits") {
				builds = append(builds, e)
			}
		}
		if len(builds) == 0 {
			continue
		}
		r.AnalysedFn(c.Action.Name)
		for _, b := range builds {
			t := b.Term
			var circuits []*tf.Term
			if callNameHasSuffix(t, "gnark/frontend.Compile") {
				nCompile++
				cn := fmt.Sprintf("main.cmd:%s: frontend.Compile at %s", c.Name, p.Pos(b.Instr.Pos()))
				okCfg := len(t.Args) >= 3 && strings.Contains(t.Args[0].Key(), "ecc.ID).ScalarField(1)") && strings.Contains(t.Args[1].Key(), "frontend/cs/r1cs.NewBuilder")
				noOpts := len(t.Args) == 3 || (len(t.Args) == 4 && t.Args[3].K == tf.KNil)
				r.Check(okCfg && noOpts, "O12.3", cn+": configuration", p.Pos(b.Instr.Pos()), "Compile(ecc.BN254.ScalarField(), r1cs.NewBuilder, circuit) without options",
					fmt.Sprintf("Compile is configured with field=%s builder=%s options=%v: the construction paths would not produce the same system", describe(t.Args[0]), describe(t.Args[1]), !noOpts))
				if len(t.Args) >= 3 {
					circuits = append(circuits, t.Args[2])
				}
			} else {
				for _, part := range tf.Parts(t.Args[len(t.Args)-1]) {
					if part.K == tf.KElem {
						circuits = append(circuits, part.Args[0])
					}
				}
			}
			for _, ct := range circuits {
				T := namedOf(ev.AllocType(ct))
				if T == nil {
					r.Undecided("O12.3", fmt.Sprintf("main.cmd:%s: circuit value at %s", c.Name, p.Pos(b.Instr.Pos())), p.Pos(b.Instr.Pos()), "the compiled circuit is not a local literal: %s", describe(ct))
					continue
				}
				br := roles[typeKey(T)]
				if br == nil {
					r.Violation("O12.3", fmt.Sprintf("main.cmd:%s: %s", c.Name, typeKey(T)), p.Pos(b.Instr.Pos()), "compiles a circuit type that is not one of the two anchored circuits")
					continue
				}
				nLiterals++
				rec := ev.Deref(ct)
				cn := fmt.Sprintf("main.cmd:%s: %s literal (%s)", c.Name, typeKey(T), enclosingFuncName(b))
				var probs []string
				want := func(field, flag string) {
					ft := rec.FieldOf(field)
					if ft == nil {
						probs = append(probs, field+" missing")
						return
					}
					if f, ok := flagOfTerm(ft); !ok || f != flag {
						probs = append(probs, fmt.Sprintf("%s = %s, expected --%s", field, describe(ft), flag))
					}
				}
				want(br.Map[br.Depth], "tree-depth")
				want(br.Map[br.BatchSize], "batch-size")
				shape := func(field string, wantDims []string) {
					if field == "" {
						return
					}
					ft := rec.FieldOf(field)
					if ft == nil {
						probs = append(probs, field+" missing")
						return
					}
					dims, why := shapeOf(ft)
					if why != "" {
						probs = append(probs, field+": "+why)
						return
					}
					if strings.Join(dims, "×") != strings.Join(wantDims, "×") {
						probs = append(probs, fmt.Sprintf("%s has shape %s, expected %s", field, strings.Join(dims, "×"), strings.Join(wantDims, "×")))
					}
				}
				shape(br.Map[br.Items], []string{"batch-size"})
				if br.Indices != "" {
					shape(br.Map[br.Indices], []string{"batch-size"})
				}
				shape(br.Map[br.Paths], []string{"batch-size", "tree-depth"})
				r.Check(len(probs) == 0, "O12.3", cn, p.Pos(b.Instr.Pos()), "depth←--tree-depth batch←--batch-size; vectors batch; matrix batch×depth", strings.Join(probs, "; "))
			}
		}
		// stored dimensions: every ProvingSystem literal built on the way (the keys file records them; the prover validates
		// requests against them)
		ev.WalkActivations(func(act *tf.Eval) {
			for _, bb := range act.Fn.Blocks {
				for _, in := range bb.Instrs {
					al, ok := in.(*ssa.Alloc)
					if !ok || ps == nil || namedOf(al.Type().(*types.Pointer).Elem()) != ps {
						continue
					}
					checkStoredDims(p, r, act, ps, act.Term(al), c, in, &nStored)
				}
			}
		})
	}
	r.Count("frontend.Compile sites reached from the CLI", nCompile)
	r.Count("circuit literals reached from the CLI", nLiterals)
	r.Count("stored-dimension literals", nStored)
	r.Floor("frontend.Compile sites reached from the CLI", 2)
	r.Floor("circuit literals reached from the CLI", 2)
	r.Floor("stored-dimension literals", 2)
	// O12.4
	checkNoNondeterminism(p, r, ctx)
	// O12.5: what `r1cs` / `setup` / `import-setup` leave at the output path is the system just built and nothing else
	checkOutputFilesTruncated(p, r, "O12.5", "the constraint system / keys", "r1cs", "setup", "import-setup")
	checkConstraintSystemOrigin(p, r)
}

func enclosingFuncName(e tf.Event) string {
	return core.FuncName(e.Ev.Fn)
}

func checkStoredDims(p *core.Program, r *core.Report, ev *tf.Eval, ps *types.Named, recv *tf.Term, c cliCommand, at ssa.Instruction, n *int) {
	if recv.K != tf.KAlloc || ps == nil || namedOf(ev.AllocType(recv)) != ps {
		return
	}
	rec := ev.Deref(recv)
	if rec.K != tf.KRecord {
		return // e.g. new(ProvingSystem) filled by the loader: dimensions come from the file
	}
	*n++
	st, _ := ps.Underlying().(*types.Struct)
	var uints []string
	for k := 0; st != nil && k < st.NumFields(); k++ {
		if isUint32(st.Field(k).Type()) {
			uints = append(uints, st.Field(k).Name())
		}
	}
	if len(uints) != 2 {
		return
	}
	var probs []string
	for i, flag := range []string{"tree-depth", "batch-size"} {
		ft := rec.FieldOf(uints[i])
		if f, ok := flagOfTerm(ft); !ok || f != flag {
			probs = append(probs, fmt.Sprintf("%s = %s, expected --%s", uints[i], describe(ft), flag))
		}
	}
	r.Check(len(probs) == 0, "O12.3", fmt.Sprintf("main.cmd:%s: stored dimensions (%s in %s)", c.Name, rec.Name, core.FuncName(ev.Fn)), p.Pos(at.Pos()), uints[0]+"←--tree-depth "+uints[1]+"←--batch-size", strings.Join(probs, "; ")+": the keys file would record dimensions other than those the circuit was compiled for")
}

// checkDepthGuardRule is checkDepthGuard under another rule id.
func checkDepthGuardRule(p *core.Program, r *core.Report, br *batchRoles, rule string) {
	sub := core.NewReport("sub", r.Tier)
	checkDepthGuard(p, sub, br)
	for _, ob := range sub.Obs {
		ob.Rule = rule
		r.Obs = append(r.Obs, ob)
	}
	for k, v := range sub.Counts {
		r.Count(k, v)
	}
}

// checkNoNondeterminism: O12.4 over definition and construction code.
func checkNoNondeterminism(p *core.Program, r *core.Report, ctx *circuitCtx) {
	g := eff.BuildGraph(p)
	var roots []*ssa.Function
	for _, a := range []string{"SetupInsertion", "SetupDeletion"} {
		T, _, _ := circuitTypeOf(p, a)
		if T == nil {
			continue
		}
		if ci := ctx.define(T, "Define"); ci != nil {
			for _, d := range ctx.definitionCode(ci) {
				roots = append(roots, d.Fn)
			}
		}
		if f := p.Func("prover", a); f != nil {
			roots = append(roots, f)
		}
	}
	// construction code: in-repo functions of package prover that build a circuit literal or call the extractor
	for _, fn := range p.RepoFuncs() {
		for _, b := range fn.Blocks {
			for _, in := range b.Instrs {
				if c, ok := in.(*ssa.Call); ok {
					if sc := c.Common().StaticCallee(); sc != nil && (sc.String() == "github.com/consensys/gnark/frontend.Compile" || strings.HasSuffix(sc.String(), "extractor.ExtractCircuits")) {
						roots = append(roots, fn)
						// a compile call inside a closure: the functions that enclose it are construction code too (a
						// compile moved into a goroutine is found through its parent's go statement)
						for e := fn.Parent(); e != nil; e = e.Parent() {
							roots = append(roots, e)
						}
					}
				}
			}
		}
	}
	reach := g.Reach(roots...)
	// exclude package main and server (CLI / service code is not definition code) unless reached as callee
	writers := eff.GlobalStateWriters(g)
	written := map[*ssa.Global]*ssa.Function{}
	for f, gs := range writers {
		for _, gl := range gs {
			written[gl] = f
		}
	}
	var fns []*ssa.Function
	for f := range reach {
		fns = append(fns, f)
	}
	sort.Slice(fns, func(i, j int) bool { return fns[i].String() < fns[j].String() })
	r.Count("definition/construction functions", len(fns))
	r.Floor("definition/construction functions", 15)
	nBad := 0
	denyPkg := map[string]string{"math/rand": "pseudo-random source", "crypto/rand": "random source", "time": "clock", "runtime": "scheduler/runtime state"}
	for _, fn := range fns {
		r.AnalysedFn(core.FuncName(fn))
		name := core.FuncName(fn)
		for _, b := range fn.Blocks {
			for _, in := range b.Instrs {
				switch x := in.(type) {
				case *ssa.Go:
					nBad++
					r.Violation("O12.4", name+": goroutine", p.Pos(x.Pos()), "definition/construction code starts a goroutine: the order of API calls (hence wire numbering) becomes schedule-dependent")
				case *ssa.Select:
					nBad++
					r.Violation("O12.4", name+": select", p.Pos(x.Pos()), "select in definition/construction code")
				case *ssa.Range:
					if _, isMap := types.Unalias(x.X.Type()).Underlying().(*types.Map); isMap {
						if mapRangeFeedsConstraints(fn, x) {
							nBad++
							r.Violation("O12.4", name+": map iteration", p.Pos(x.Pos()), "iteration over a map drives constraint-emitting calls or slice construction: Go randomises map order, so two compilations number wires differently and keys generated elsewhere no longer match")
						}
					}
				case *ssa.Call:
					if sc := x.Common().StaticCallee(); sc != nil && sc.Pkg != nil {
						if why, bad := denyPkg[sc.Pkg.Pkg.Path()]; bad {
							if sc.Pkg.Pkg.Path() == "time" && onlyFeedsLogging(x, 0, map[ssa.Value]bool{}) {
								continue // stage timing that ends in log fields cannot reach the constraint system
							}
							nBad++
							r.Violation("O12.4", name+": call to "+sc.String(), p.Pos(x.Pos()), "definition/construction code consults a %s", why)
						}
						if sc.Pkg.Pkg.Path() == "os" && (sc.Name() == "Getenv" || sc.Name() == "LookupEnv" || sc.Name() == "Environ" || sc.Name() == "Getpid") {
							nBad++
							r.Violation("O12.4", name+": call to "+sc.String(), p.Pos(x.Pos()), "definition/construction code depends on the process environment")
						}
					}
				}
				// reads of package-level variables that a non-initialiser writes
				for _, op := range in.Operands(nil) {
					if op == nil || *op == nil {
						continue
					}
					if gl, ok := (*op).(*ssa.Global); ok {
						if gl.Pkg != nil && gl.Pkg.Pkg.Name() == "logging" {
							continue // exception: the log sink is not an input of circuit construction
						}
						if w, bad := written[gl]; bad {
							nBad++
							r.Violation("O12.4", name+": package-level state "+gl.Name(), p.Pos(in.Pos()), "definition/construction code uses package-level variable %s, which %s writes: the result depends on what ran before (and concurrent definitions interfere)", gl.Name(), core.FuncName(w))
						}
					}
				}
			}
		}
	}
	if nBad == 0 {
		r.OK("O12.4", "definition/construction code: nondeterminism sources", "-", "none in %d functions (%d package-level writers in the repository, none used here)", len(fns), len(writers))
	}
}

// mapRangeFeedsConstraints: does the loop driven by this range instruction contain an API/gadget call or an append?
func mapRangeFeedsConstraints(fn *ssa.Function, rg *ssa.Range) bool {
	// blocks dominated by the block of the Next instruction using rg
	var nextBlocks []*ssa.BasicBlock
	if refs := rg.Referrers(); refs != nil {
		for _, ref := range *refs {
			if n, ok := ref.(*ssa.Next); ok {
				nextBlocks = append(nextBlocks, n.Block())
			}
		}
	}
	for _, nb := range nextBlocks {
		for _, b := range fn.Blocks {
			if !nb.Dominates(b) {
				continue
			}
			for _, in := range b.Instrs {
				if c, ok := in.(*ssa.Call); ok {
					if bi, ok := c.Common().Value.(*ssa.Builtin); ok && bi.Name() == "append" {
						return true
					}
					if c.Common().IsInvoke() && tf.IsAPIType(c.Common().Value.Type()) {
						return true
					}
					for _, a := range c.Common().Args {
						if tf.IsAPIType(a.Type()) {
							return true
						}
					}
				}
			}
		}
	}
	return false
}

var _ = ast.Inspect

// onlyFeedsLogging: every use of v (transitively through time arithmetic, conversions, local cells, closures capturing it
// and φ) ends as an argument of a logging call (zerolog, the repository's logging package, package log) or of another
// time function whose result is used the same way.
func onlyFeedsLogging(v ssa.Value, depth int, seen map[ssa.Value]bool) bool {
	if depth > 10 {
		return false
	}
	if seen[v] {
		return true
	}
	seen[v] = true
	refs := v.Referrers()
	if refs == nil {
		return false
	}
	for _, ref := range *refs {
		switch x := ref.(type) {
		case *ssa.DebugRef:
		case *ssa.Extract, *ssa.Phi, *ssa.Convert, *ssa.ChangeType, *ssa.MakeInterface:
			if !onlyFeedsLogging(x.(ssa.Value), depth+1, seen) {
				return false
			}
		case *ssa.UnOp:
			if !onlyFeedsLogging(x, depth+1, seen) {
				return false
			}
		case *ssa.BinOp:
			switch x.Op {
			case token.ADD, token.SUB, token.MUL, token.QUO:
				if !onlyFeedsLogging(x, depth+1, seen) {
					return false
				}
			default:
				return false // a comparison: the clock would steer control flow
			}
		case *ssa.Store:
			if x.Addr == v {
				continue // v is a cell being written
			}
			al, ok := x.Addr.(*ssa.Alloc)
			if !ok || x.Val != v {
				return false
			}
			if !onlyFeedsLogging(al, depth+1, seen) {
				return false
			}
		case *ssa.MakeClosure:
			fn, _ := x.Fn.(*ssa.Function)
			if fn == nil {
				return false
			}
			for k, bnd := range x.Bindings {
				if bnd == v && k < len(fn.FreeVars) {
					if !onlyFeedsLogging(fn.FreeVars[k], depth+1, seen) {
						return false
					}
				}
			}
		case ssa.CallInstruction:
			com := x.Common()
			pkg := ""
			if sc := com.StaticCallee(); sc != nil {
				pkg = pkgPathOf(sc)
			} else if com.IsInvoke() && com.Method.Pkg() != nil {
				pkg = com.Method.Pkg().Path()
			}
			switch {
			case pkg == "time":
				if val, ok := x.(ssa.Value); ok {
					if !onlyFeedsLogging(val, depth+1, seen) {
						return false
					}
				}
			case pkg == "github.com/rs/zerolog" || pkg == "log" || strings.HasSuffix(pkg, "/logging"):
				// a log field or message: the value ends here
			case pkg == "sync/atomic" || strings.HasPrefix(pkg, "github.com/prometheus/client_golang/prometheus"):
				// a statistics counter / metric observation: the value ends here
			default:
				return false
			}
		default:
			return false
		}
	}
	return true
}

package checks

import (
	"fmt"
	"go/ast"
	"go/types"
	"reflect"
	"sort"
	"strings"

	"golang.org/x/tools/go/ssa"

	"verif/sa/internal/core"
	"verif/sa/internal/flow"
	"verif/sa/internal/tf"
)

func init() { Registry["C07"] = Check{Run: checkC07} }

// copySource describes a value copied from a field of base: path F, with nesting depth (0 scalar, 1 vector, 2 matrix) and
// the loop bounds of the element-wise copy.
type copySource struct {
	Field string
	Depth int
	Dims  []*tf.Term
}

// copyOf recognises t as a (possibly element-wise) copy of base.F.
func copyOf(t, base *tf.Term) (copySource, bool) {
	t = stripConv(t)
	if f, ok := fieldOf(t, base); ok {
		return copySource{Field: f}, true
	}
	// [∀L{ elem }] with elem a copy of base.F[iL]…
	var dims []*tf.Term
	var ivs []*tf.Term
	cur := t
	for cur.K == tf.KSeq && len(cur.Args) == 1 && cur.Args[0].K == tf.KStar && cur.Args[0].Loop != nil && len(cur.Args[0].Args) == 1 && cur.Args[0].Args[0].K == tf.KElem {
		star := cur.Args[0]
		n, ok := loopRangeZeroTo(star.Loop)
		if !ok {
			return copySource{}, false
		}
		iv := &tf.Term{K: tf.KIndVar, Loop: star.Loop, Phi: star.Loop.IV}
		if tf.StarIndex(star) != iv.Key() {
			return copySource{}, false // destination index differs from the loop variable
		}
		dims = append(dims, n)
		ivs = append(ivs, iv)
		cur = stripConv(star.Args[0].Args[0])
	}
	if len(dims) == 0 {
		return copySource{}, false
	}
	// cur must be base.F[i1][i2]… with the same induction variables in order
	idx := []*tf.Term{}
	for cur.K == tf.KIdx {
		idx = append([]*tf.Term{cur.Args[1]}, idx...)
		cur = cur.Args[0]
	}
	f, ok := fieldOf(cur, base)
	if !ok || len(idx) != len(ivs) {
		return copySource{}, false
	}
	for i := range idx {
		if !tf.Eq(idx[i], ivs[i]) {
			return copySource{}, false
		}
	}
	return copySource{Field: f, Depth: len(dims), Dims: dims}, true
}

// wireMap: which wire-struct field (decoded by encoding/json) fills which parameter field in UnmarshalJSON.
type wireInfo struct {
	Wire    *types.Named
	Map     map[string]string // parameter field -> wire field
	JSONKey map[string]string // wire field -> json key
	Notes   []string
}

func jsonKeys(n *types.Named) map[string]string {
	out := map[string]string{}
	st, ok := n.Underlying().(*types.Struct)
	if !ok {
		return out
	}
	for i := 0; i < st.NumFields(); i++ {
		key := st.Field(i).Name()
		if v, ok := reflect.StructTag(st.Tag(i)).Lookup("json"); ok {
			name := strings.Split(v, ",")[0]
			if name == "-" {
				continue
			}
			if name != "" {
				key = name
			}
		}
		out[st.Field(i).Name()] = key
	}
	return out
}

// indexShape renders the index structure of a path term below base: ("F", ["i1","i2"]).
func pathBelow(t, base *tf.Term) (string, []string, bool) {
	var idx []string
	cur := stripConv(t)
	for cur.K == tf.KIdx {
		idx = append([]string{cur.Args[1].Key()}, idx...)
		cur = cur.Args[0]
	}
	f, ok := fieldOf(cur, base)
	return f, idx, ok
}

func unmarshalWiring(p *core.Program, eng *tf.Engine, paramT *types.Named) *wireInfo {
	fn := p.MethodOf(paramT, "UnmarshalJSON")
	if fn == nil || fn.Blocks == nil {
		return nil
	}
	ev := eng.NewEval(fn)
	wi := &wireInfo{Map: map[string]string{}}
	recv := ev.Params[0]
	// the wire value: second argument of json.Unmarshal
	var wire *tf.Term
	for _, e := range ev.Events() {
		if callNameHasSuffix(e.Term, "encoding/json.Unmarshal") && len(e.Term.Args) == 2 {
			wire = e.Term.Args[1]
			if on, _ := e.OnEveryPathToReturn(); !on {
				wi.Notes = append(wi.Notes, "json.Unmarshal is not on every path")
			}
		}
	}
	if wire == nil {
		return nil
	}
	if wire.K == tf.KAlloc {
		wi.Wire = namedOf(ev.AllocType(wire))
	} else {
		// a wire struct that is not a local (taken from a pool, handed in by a helper): its type is the static type of
		// json.Unmarshal's destination; whether a recycled one is clean is C13's O13.5, not the wiring's concern
		for _, e := range ev.Events() {
			if callNameHasSuffix(e.Term, "encoding/json.Unmarshal") && len(e.Term.Args) == 2 && e.Ev == ev {
				if c, ok := e.Instr.(*ssa.Call); ok && len(c.Common().Args) == 2 {
					if mi, ok := c.Common().Args[1].(*ssa.MakeInterface); ok {
						if n := namedOf(mi.X.Type()); n != nil && inRepoObj(n.Obj()) {
							if _, isStruct := n.Underlying().(*types.Struct); isStruct {
								wi.Wire = n
							}
						}
					}
				}
			}
		}
	}
	if wi.Wire == nil {
		return nil
	}
	wi.JSONKey = jsonKeys(wi.Wire)
	add := func(dst, src *tf.Term, how string) {
		df, di, ok1 := pathBelow(dst, recv)
		sf, si, ok2 := pathBelow(src, wire)
		if !ok1 {
			return
		}
		if !ok2 {
			wi.Notes = append(wi.Notes, fmt.Sprintf("parameter field %s is filled from %s, not from the decoded document (%s)", df, describe(src), how))
			wi.Map[df] = "?"
			return
		}
		if strings.Join(di, ",") != strings.Join(si, ",") {
			wi.Notes = append(wi.Notes, fmt.Sprintf("parameter field %s[%s] is filled from %s[%s]: element indices differ", df, strings.Join(di, "]["), sf, strings.Join(si, "][")))
		}
		if prev, dup := wi.Map[df]; dup && prev != sf {
			wi.Notes = append(wi.Notes, fmt.Sprintf("parameter field %s is filled from both %s and %s", df, prev, sf))
		}
		wi.Map[df] = sf
	}
	for _, e := range ev.Events() {
		if callNameHasSuffix(e.Term, "math/big.Int).SetString") && len(e.Term.Args) == 3 {
			add(e.Term.Args[0], e.Term.Args[1], "SetString")
		}
	}
	for _, s := range ev.ExtStores() {
		// direct assignment p.F = wire.W; allocation of destination slices (make) is not a copy
		if s.Val.K == tf.KMake || (s.Val.K == tf.KCall && s.Val.Name == "zeros") || (s.Val.K == tf.KSeq && s.Val.Name == "filled") {
			continue // allocation of a destination slice, filled element-wise (seen through the SetString events)
		}
		if _, _, ok := pathBelow(s.Addr, recv); ok {
			if _, _, isWire := pathBelow(s.Val, wire); isWire {
				add(s.Addr, s.Val, "assignment")
			} else if s.Val.K != tf.KSeq {
				add(s.Addr, s.Val, "assignment")
			}
		}
	}
	return wi
}

func checkC07(p *core.Program, r *core.Report) {
	r.Explanation = "Groth16 soundness/completeness is trusted; what the repository adds is wiring, and all of it is shape: (O7.1) in each prover ValidateShape(system depth, system batch) dominates every index into the request arrays and bounds exactly those indices (guard-covers-use); " +
		"(O7.2) key-to-role chain — for each circuit role (public input, start index / indices, pre-root, post-root, items, paths; roles bound on the circuit side by dataflow) the witness field with that role is an index-faithful copy of the parameter field that UnmarshalJSON fills from the wire field whose JSON key is the documented one, over the system's dimensions; " +
		"(O7.3) errors of ValidateShape, NewWitness and groth16.Prove propagate, every return with a non-nil error has a nil proof, and the only non-nil proof returned wraps groth16.Prove's result; (O7.4) groth16.Prove receives the system's constraint system and proving key and the full witness of that assignment over the BN254 scalar field; " +
		"(O7.5) in each verifier the hash parameter is the public input of a PublicOnly witness of the same circuit that is the third argument of groth16.Verify(proof, system's verifying key, ·), whose error is the result. Not decided: that the proof verifies (cryptography), rejection for other public inputs or the other mode's keys."
	r.Rule("O7.1", "ValidateShape dominates and covers every index into request arrays in the provers")
	r.Rule("O7.2", "JSON key → wire field → parameter field → witness field of the same role, index-faithful, over the system's dimensions")
	r.Rule("O7.3", "prover errors propagate; (nil, err) / (&Proof{groth16.Prove result}, nil) return discipline")
	r.Rule("O7.4", "groth16.Prove(system constraint system, system proving key, full witness of the assignment)")
	r.Rule("O7.8", "the prover does not store into the request parameter set (directly or through in-repo callees)")
	r.Rule("O7.7", "the prover refuses only through an accounted callee's error (shape validation, witness construction, solver) or a self-constructed error whose condition reads dimensions only — no precondition on request values beyond the statement's")
	r.Rule("O7.6", "the circuits accept exactly valid batches (imported verdicts of the C01, C02 and C03 obligations)")
	r.Rule("O7.5", "verifier: hash parameter → public field of a PublicOnly witness → groth16.Verify(proof, system verifying key, witness); its error is returned")
	r.Trusted = append(r.Trusted, "Groth16 completeness and knowledge soundness (gnark)", "frontend.NewWitness copies the assignment's fields by the circuit schema and reduces values mod r", "encoding/json decodes by struct tag")
	r.NotDecided = append(r.NotDecided, "that a returned proof verifies", "rejection under other public inputs / the other mode's keys (cryptographic)")

	ps := provingSystemType(p)
	if ps == nil {
		r.Violation("O7.1", "anchor server.Run", "-", "proving-system type not found")
		return
	}
	// O7.1
	checkGuardCoversUseRule(p, r, ps, "O7.1")

	ctx := newCircuitCtx(p)
	eng := ctx.eng
	documented := map[string]string{"public": "inputHash", "start": "startIndex", "indices": "deletionIndices", "pre": "preRoot", "post": "postRoot", "items": "identityCommitments", "paths": "merkleProofs"}
	ix := indexFuncs(p)
	anchors := map[string]string{} // circuit type -> Setup anchor
	for _, a := range []string{"SetupInsertion", "SetupDeletion"} {
		if T, _, _ := circuitTypeOf(p, a); T != nil {
			anchors[typeKey(T)] = a
		}
	}
	nProvers, nVerifiers := 0, 0
	for _, fn := range p.RepoFuncs() {
		if fn.Signature.Recv() == nil || namedOf(fn.Signature.Recv().Type()) != ps {
			continue
		}
		T := witnessCircuitType(fn)
		if T == nil || (delegateTarget(fn) != nil || composesProvers(fn)) {
			continue
		}
		name := core.FuncName(fn)
		anchor := anchors[typeKey(T)]
		if anchor == "" {
			r.Violation("O7.2", name+": witness circuit", p.Pos(fn.Pos()), "builds a witness for %s, which is not a circuit compiled by SetupInsertion/SetupDeletion", typeKey(T))
			continue
		}
		br := discoverBatchQuiet(p, ctx, anchor)
		if br == nil {
			r.Violation("O7.2", name+": circuit roles", p.Pos(fn.Pos()), "cannot bind the roles of %s (see C01/C02)", typeKey(T))
			continue
		}
		pub, _ := publicFields(T)
		if len(pub) != 1 {
			r.Violation("O7.2", name+": public input", p.Pos(fn.Pos()), "circuit %s does not have exactly one public variable", typeKey(T))
			continue
		}
		roleField := map[string]string{"public": pub[0], "pre": br.Map[br.PreRoot], "post": br.PostRoot, "items": br.Map[br.Items], "paths": br.Map[br.Paths]}
		if br.IndexKind == "start+i" {
			roleField["start"] = br.Map[br.Start]
		} else {
			roleField["indices"] = br.Map[br.Indices]
		}
		ev := eng.NewEval(fn)
		r.AnalysedFn(name)
		psT := ev.Params[0]
		// locate NewWitness / Prove / Verify events
		var nw, prove, verify *tf.Term
		var nwEv tf.Event
		for _, e := range ev.Events() {
			switch {
			case callNameHasSuffix(e.Term, "gnark/frontend.NewWitness"):
				nw, nwEv = e.Term, e
			case callNameHasSuffix(e.Term, "backend/groth16.Prove"):
				prove = e.Term
			case callNameHasSuffix(e.Term, "backend/groth16.Verify"):
				verify = e.Term
			}
		}
		_ = nwEv
		if nw == nil || len(nw.Args) < 2 {
			r.Violation("O7.4", name+": witness", p.Pos(fn.Pos()), "no frontend.NewWitness call")
			continue
		}
		assign := ev.Deref(nw.Args[0])
		fieldIsBN254 := strings.Contains(nw.Args[1].Key(), "ecc.ID).ScalarField(1)") // ecc.BN254 == 1
		publicOnly := strings.Contains(nw.Key(), "frontend.PublicOnly")
		if verify == nil && prove != nil {
			// ---------------- prover
			nProvers++
			pix := requestParamIndex(fn)
			if pix < 0 {
				r.Violation("O7.2", name+": parameter decoding", p.Pos(fn.Pos()), "the prover has no request-parameter argument")
				continue
			}
			paramsT := ev.Params[1+pix]
			paramN := namedOf(fn.Signature.Params().At(pix).Type())
			wi := (*wireInfo)(nil)
			if paramN != nil {
				wi = unmarshalWiring(p, eng, paramN)
			}
			if wi == nil {
				r.Violation("O7.2", name+": parameter decoding", p.Pos(fn.Pos()), "cannot analyse UnmarshalJSON of the parameter type: the JSON-key → parameter-field wiring is unknown")
				continue
			}
			r.AnalysedFn(typeKey(paramN) + ".UnmarshalJSON")
			for _, n := range wi.Notes {
				r.Violation("O7.2", typeKey(paramN)+".UnmarshalJSON: field wiring", p.Pos(fn.Pos()), "%s", n)
			}
			roles := make([]string, 0, len(roleField))
			for k := range roleField {
				roles = append(roles, k)
			}
			sort.Strings(roles)
			for _, role := range roles {
				cf := roleField[role]
				cn := fmt.Sprintf("%s: role %s (circuit field %s)", name, role, cf)
				r.Count("role chains", 1)
				at := assign.FieldOf(cf)
				if at == nil || at.K == tf.KZero {
					r.Violation("O7.2", cn, p.Pos(fn.Pos()), "the witness assignment leaves the field unset")
					continue
				}
				src, ok := copyOf(at, paramsT)
				if !ok {
					r.Violation("O7.2", cn, p.Pos(fn.Pos()), "the witness field is %s, not an index-faithful copy of a request parameter field", describe(at))
					continue
				}
				w := wi.Map[src.Field]
				key := wi.JSONKey[w]
				var probs []string
				if key != documented[role] {
					probs = append(probs, fmt.Sprintf("fed by parameter field %s ← wire field %s ← JSON key %q; documented key for this role is %q", src.Field, w, key, documented[role]))
				}
				// dimensions
				wantDims := map[string][]string{"items": {"BatchSize"}, "indices": {"BatchSize"}, "paths": {"BatchSize", "TreeDepth"}}[role]
				if len(wantDims) != src.Depth {
					probs = append(probs, fmt.Sprintf("copied as a %d-dimensional value, expected %d", src.Depth, len(wantDims)))
				} else {
					for i, d := range src.Dims {
						// a copy bounded by the length of its own source covers the whole source; ValidateShape (O7.1) makes
						// that length the system's dimension
						if dd := stripConv(d); dd.K == tf.KLen {
							if _, isSrc := fieldPath(dd.Args[0], paramsT); isSrc {
								continue
							}
						}
						if f, ok := fieldOf(stripConv(d), psT); !ok || !sameDimField(ps, f, i, len(wantDims)) {
							probs = append(probs, fmt.Sprintf("dimension %d of the copy is %s, not the system's %s", i, describe(d), wantDims[i]))
						}
					}
				}
				r.Check(len(probs) == 0, "O7.2", cn, p.Pos(fn.Pos()), fmt.Sprintf("JSON %q → %s.%s → params.%s → witness.%s", key, wi.Wire.Obj().Name(), w, src.Field, cf), strings.Join(probs, "; "))
			}
			// O7.4
			var p4 []string
			if !fieldIsBN254 {
				p4 = append(p4, "the witness is not built over ecc.BN254's scalar field")
			}
			if publicOnly {
				p4 = append(p4, "the prover's witness is PublicOnly")
			}
			if len(prove.Args) < 3 {
				p4 = append(p4, "unexpected groth16.Prove arity")
			} else {
				cs, okc := fieldOf(prove.Args[0], psT)
				pk, okp := fieldOf(prove.Args[1], psT)
				if !okc || !okp || !fieldHasType(ps, cs, "ConstraintSystem") || !fieldHasType(ps, pk, "ProvingKey") {
					p4 = append(p4, fmt.Sprintf("groth16.Prove receives (%s, %s) instead of the system's constraint system and proving key", describe(prove.Args[0]), describe(prove.Args[1])))
				}
				w := prove.Args[2]
				if !(w.K == tf.KExtract && w.N == 0 && tf.Eq(w.Args[0], nw)) {
					p4 = append(p4, "the witness proved is not the one built from this request's assignment")
				}
			}
			r.Check(len(p4) == 0, "O7.4", name+": groth16.Prove operands", p.Pos(fn.Pos()), "Prove(ps.ConstraintSystem, ps.ProvingKey, NewWitness(&assignment, BN254))", strings.Join(p4, "; "))
			// O7.3
			checkProverReturns(p, r, ix, fn)
			// O7.7
			checkRefusals(p, r, "O7.7", fn)
			// O7.8: the prover proves what it was given — it does not write the request parameters (filling in a missing
			// input hash turns an invalid parameter set into a provable one)
			if w, at := writesThroughParam(fn, 1+pix, map[string]bool{}); w {
				r.Violation("O7.8", name+": request parameters are read-only", p.Pos(at), "the prover (or a function it hands the parameters to) stores into the request's parameter set: the proof is then for values other than the ones submitted, and a parameter set that is invalid as submitted can be answered with a proof")
			} else {
				r.OK("O7.8", name+": request parameters are read-only", p.Pos(fn.Pos()), "no store through the parameter pointer in the prover or the in-repo functions it passes it to")
			}
		} else if verify != nil {
			// ---------------- verifier
			nVerifiers++
			cn := name + ": public input wiring"
			var p5 []string
			h := assign.FieldOf(roleField["public"])
			hashParam := (*tf.Term)(nil)
			for i, prm := range ev.Params {
				if i > 0 && prm.Type != nil && strings.Contains(prm.Type.String(), "big.Int") {
					hashParam = prm
				}
			}
			if h == nil || hashParam == nil || !tf.Eq(stripConv(h), hashParam) {
				p5 = append(p5, fmt.Sprintf("the public field of the verifier's assignment is %s, not the hash argument: the proof would be checked against a constant", describe(h)))
			}
			if !publicOnly {
				p5 = append(p5, "the verifier's witness is not PublicOnly")
			}
			if !fieldIsBN254 {
				p5 = append(p5, "not over BN254")
			}
			if len(verify.Args) != 3 {
				p5 = append(p5, "unexpected groth16.Verify arity")
			} else {
				vk, okv := fieldOf(verify.Args[1], psT)
				if !okv || !fieldHasType(ps, vk, "VerifyingKey") {
					p5 = append(p5, "groth16.Verify does not receive the system's verifying key: "+describe(verify.Args[1]))
				}
				if w := verify.Args[2]; !(w.K == tf.KExtract && w.N == 0 && tf.Eq(w.Args[0], nw)) {
					p5 = append(p5, "the witness verified is not the one built from the hash argument")
				}
				// proof argument derives from the proof parameter
				usesProof := false
				tf.Walk(verify.Args[0], func(x *tf.Term) bool {
					if x.K == tf.KParam && x != psT && x != hashParam {
						usesProof = true
					}
					return true
				})
				if !usesProof {
					p5 = append(p5, "groth16.Verify does not receive the caller's proof")
				}
			}
			// result is Verify's error on the success path of NewWitness
			ret := ev.Return()
			okRet := false
			tf.Walk(ret, func(x *tf.Term) bool {
				if tf.Eq(x, verify) {
					okRet = true
				}
				return true
			})
			if !okRet {
				p5 = append(p5, "the verifier's result does not include groth16.Verify's error")
			}
			r.Check(len(p5) == 0, "O7.5", cn, p.Pos(fn.Pos()), "hash argument → PublicOnly witness → groth16.Verify(proof, ps.VerifyingKey, witness) → returned", strings.Join(p5, "; "))
			checkVerifierErrors(p, r, ix, fn)
		}
	}
	// O7.6: "a parameter set that does not describe a valid batch yields an error and no proof" rests on the circuits
	// accepting exactly valid batches: the C01/C02/C03 obligations are re-run and their verdicts imported.
	importVerdicts(p, r, "O7.6", "the circuit accepts only valid batches, so an invalid one makes groth16.Prove fail", "C01", "C02", "C03")
	r.Count("provers", nProvers)
	r.Count("verifiers", nVerifiers)
	r.Floor("provers", 2)
	r.Floor("verifiers", 2)
	r.Floor("role chains", 10)
}

// sameDimField: the i-th dimension (of n) must be the system's batch size (i == 0) or tree depth (i == 1); the two uint32
// fields of the proving system are told apart by the role C11/C12 give them: first uint32 field = tree depth, second =
// batch size, as written by the keys-file writers; here they are resolved by name-independent position.
func sameDimField(ps *types.Named, field string, i, n int) bool {
	st, ok := ps.Underlying().(*types.Struct)
	if !ok {
		return false
	}
	var uints []string
	for k := 0; k < st.NumFields(); k++ {
		if b, ok := st.Field(k).Type().Underlying().(*types.Basic); ok && b.Kind() == types.Uint32 {
			uints = append(uints, st.Field(k).Name())
		}
	}
	if len(uints) != 2 {
		return false
	}
	// uints[0] = depth, uints[1] = batch (positional order of the struct, which every ProvingSystem literal follows — C12 O12.3)
	if i == 0 {
		return field == uints[1]
	}
	return field == uints[0]
}

func fieldHasType(ps *types.Named, field, typeSuffix string) bool {
	st, ok := ps.Underlying().(*types.Struct)
	if !ok {
		return false
	}
	for k := 0; k < st.NumFields(); k++ {
		if st.Field(k).Name() == field {
			return strings.HasSuffix(st.Field(k).Type().String(), "."+typeSuffix)
		}
	}
	return false
}

// checkProverReturns: O7.3 on the AST of a prover method.
func checkProverReturns(p *core.Program, r *core.Report, ix *funcIndex, fn *ssa.Function) {
	obj, _ := fn.Object().(*types.Func)
	u, ok := ix.decls[obj]
	if !ok {
		return
	}
	info := u.Pkg.TypesInfo
	sites := flow.Analyse(u, flow.Config{Select: func(call *ast.CallExpr, callee types.Object) bool { return hasErrorResult(info, call) }})
	ord := map[string]int{}
	for _, s := range sites {
		if s.Form == "noerror" {
			continue
		}
		cn := siteConstruct(u, s, ord)
		r.Count("prover/verifier error sites", 1)
		if len(s.Findings) == 0 {
			r.OK("O7.3", cn, p.Pos(s.Pos), "error propagated on every path")
		} else {
			r.Violation("O7.3", cn, p.Pos(s.Pos), "%s", findingsText(p, s))
		}
	}
	// return discipline, on SSA: a return whose error is certainly nil carries a proof all of whose origins are
	// groth16.Prove's result (through wrappers and injected back ends); a return written as (x, y) with both operands
	// certainly non-nil, or both nil, is malformed
	fd := u.Node.(*ast.FuncDecl)
	var bad []string
	nRet := 0
	isProve := func(c *ssa.Call) bool {
		f := c.Common().StaticCallee()
		return f != nil && f.String() == "github.com/consensys/gnark/backend/groth16.Prove"
	}
	for _, b := range fn.Blocks {
		ret, ok := b.Instrs[len(b.Instrs)-1].(*ssa.Return)
		if !ok || len(ret.Results) != 2 {
			continue
		}
		nRet++
		if e0, ok := ret.Results[0].(*ssa.Extract); ok {
			if e1, ok := ret.Results[1].(*ssa.Extract); ok && e0.Tuple == e1.Tuple {
				// return f(…): both results of one in-repo call handed on; f's own returns are examined through the origins
				// of whatever finally produces the proof
				if c, ok := e0.Tuple.(*ssa.Call); ok && c.Common().StaticCallee() != nil && core.InRepo(pkgPathOf(c.Common().StaticCallee())) {
					if why := delegatedReturnsOK(c.Common().StaticCallee(), isProve, 0); why != "" {
						bad = append(bad, "return at "+p.Pos(ret.Pos())+" hands on the results of "+c.Common().StaticCallee().Name()+": "+why)
					}
					continue
				}
			}
		}
		po := ssaOrigins(ret.Results[0], nil)
		eo := ssaOrigins(ret.Results[1], nil)
		_, pConst := ret.Results[0].(*ssa.Const)
		_, eConst := ret.Results[1].(*ssa.Const)
		direct := func(v ssa.Value) bool {
			switch v.(type) {
			case *ssa.Phi, *ssa.UnOp:
				return false
			}
			return true
		}
		switch {
		case len(eo) == 0 && len(po) == 0 && pConst && eConst:
			bad = append(bad, "return at "+p.Pos(ret.Pos())+" carries neither an error nor a proof")
		case len(eo) > 0 && len(po) > 0 && direct(ret.Results[0]) && direct(ret.Results[1]):
			bad = append(bad, "return at "+p.Pos(ret.Pos())+" carries both an error and a proof")
		case len(eo) == 0:
			for _, o := range po {
				c, isCall := o.V.(*ssa.Call)
				if !isCall || !isProve(c) || o.Index > 0 {
					bad = append(bad, "the proof returned at "+p.Pos(ret.Pos())+" is not built from groth16.Prove's result ("+o.V.String()+")")
					break
				}
			}
		}
	}
	r.Check(len(bad) == 0 && nRet > 0, "O7.3", u.Name+": (proof, error) return discipline", p.Pos(fd.Pos()), fmt.Sprintf("%d returns: (nil, err) or (&Proof{groth16.Prove result}, nil)", nRet), strings.Join(bad, "; "))
}

func checkVerifierErrors(p *core.Program, r *core.Report, ix *funcIndex, fn *ssa.Function) {
	obj, _ := fn.Object().(*types.Func)
	u, ok := ix.decls[obj]
	if !ok {
		return
	}
	info := u.Pkg.TypesInfo
	sites := flow.Analyse(u, flow.Config{Select: func(call *ast.CallExpr, callee types.Object) bool { return hasErrorResult(info, call) }})
	ord := map[string]int{}
	for _, s := range sites {
		if s.Form == "noerror" {
			continue
		}
		cn := siteConstruct(u, s, ord)
		r.Count("prover/verifier error sites", 1)
		if len(s.Findings) == 0 {
			r.OK("O7.5", cn, p.Pos(s.Pos), "error is the verifier's result on every path")
		} else {
			r.Violation("O7.5", cn, p.Pos(s.Pos), "%s", findingsText(p, s))
		}
	}
}

// importVerdicts re-runs the obligations of other properties on the same loaded program and imports every verdict that is
// not OK under the given rule id (a property whose statement depends on those clauses fails with them).
func importVerdicts(p *core.Program, r *core.Report, rule, why string, ids ...string) {
	for _, id := range ids {
		chk, ok := Registry[id]
		if !ok {
			continue
		}
		sr := core.NewReport(id, r.Tier)
		chk.Run(p, sr)
		nOK, nBad := 0, 0
		for _, ob := range sr.Obs {
			if ob.Status == core.OK {
				nOK++
				continue
			}
			nBad++
			ob.Rule = rule
			ob.Construct = id + "/" + ob.Construct
			r.Obs = append(r.Obs, ob)
		}
		for role, fl := range sr.Floors {
			if sr.Counts[role] < fl {
				nBad++
				r.Violation(rule, id+"/floor "+role, "-", "rule matched too few sites (%d < %d)", sr.Counts[role], fl)
			}
		}
		if nBad == 0 {
			r.OK(rule, id+": imported obligations", "-", "%d obligations of %s hold (%s)", nOK, id, why)
		}
		r.Analysed = append(r.Analysed, sr.Analysed...)
	}
}

// delegatedReturnsOK: every return of f is (nil, err), (&Proof{groth16.Prove's result}, nil), or again the pair of results
// of one in-repo call.
func delegatedReturnsOK(f *ssa.Function, isProve func(*ssa.Call) bool, depth int) string {
	if depth > 4 || len(f.Blocks) == 0 {
		return "cannot follow " + f.Name()
	}
	for _, b := range f.Blocks {
		ret, ok := b.Instrs[len(b.Instrs)-1].(*ssa.Return)
		if !ok || len(ret.Results) != 2 {
			continue
		}
		if e0, ok := ret.Results[0].(*ssa.Extract); ok {
			if e1, ok := ret.Results[1].(*ssa.Extract); ok && e0.Tuple == e1.Tuple {
				if c, ok := e0.Tuple.(*ssa.Call); ok && c.Common().StaticCallee() != nil && core.InRepo(pkgPathOf(c.Common().StaticCallee())) {
					if why := delegatedReturnsOK(c.Common().StaticCallee(), isProve, depth+1); why != "" {
						return why
					}
					continue
				}
			}
		}
		po := ssaOrigins(ret.Results[0], nil)
		eo := ssaOrigins(ret.Results[1], nil)
		if len(eo) == 0 {
			if len(po) == 0 {
				return f.Name() + " can return neither an error nor a proof"
			}
			for _, o := range po {
				c, isCall := o.V.(*ssa.Call)
				if !isCall || !isProve(c) || o.Index > 0 {
					return "the proof " + f.Name() + " returns is not built from groth16.Prove's result"
				}
			}
		}
	}
	return ""
}

// importRule re-runs check id and imports only the obligations of one of its rules (and that rule's violations), re-labelled.
func importRule(p *core.Program, r *core.Report, as, id, rule, why string) {
	chk, ok := Registry[id]
	if !ok {
		return
	}
	sr := core.NewReport(id, r.Tier)
	chk.Run(p, sr)
	nOK, nBad := 0, 0
	for _, ob := range sr.Obs {
		if ob.Rule != rule {
			continue
		}
		if ob.Status == core.OK {
			nOK++
			continue
		}
		nBad++
		ob.Rule = as
		ob.Construct = id + "/" + ob.Construct
		r.Obs = append(r.Obs, ob)
	}
	if nBad == 0 {
		r.OK(as, id+" "+rule+": imported obligations", "-", "%d obligation(s) hold (%s)", nOK, why)
	}
}

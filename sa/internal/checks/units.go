package checks

import (
	"go/ast"
	"go/constant"
	"go/token"
	"go/types"
	"sort"
	"strings"

	"golang.org/x/tools/go/packages"
	"golang.org/x/tools/go/ssa"
	"golang.org/x/tools/go/types/typeutil"

	"verif/sa/internal/core"
	"verif/sa/internal/flow"
)

// index of the repository's function declarations by their types.Func object.
type funcIndex struct {
	p     *core.Program
	decls map[*types.Func]flow.FuncUnit
	all   []flow.FuncUnit
}

func indexFuncs(p *core.Program) *funcIndex {
	ix := &funcIndex{p: p, decls: map[*types.Func]flow.FuncUnit{}}
	for _, pk := range p.Pkgs {
		for _, f := range pk.Syntax {
			for _, d := range f.Decls {
				fd, ok := d.(*ast.FuncDecl)
				if !ok || fd.Body == nil {
					continue
				}
				obj, _ := pk.TypesInfo.Defs[fd.Name].(*types.Func)
				if obj == nil {
					continue
				}
				u := flow.FuncUnit{Pkg: pk, Node: fd, Name: shortFuncName(obj)}
				ix.decls[obj] = u
				ix.all = append(ix.all, u)
			}
		}
	}
	sort.Slice(ix.all, func(i, j int) bool { return ix.all[i].Name < ix.all[j].Name })
	return ix
}

func shortFuncName(fn *types.Func) string {
	s := fn.FullName()
	s = strings.ReplaceAll(s, core.ModulePath+"/", "")
	s = strings.ReplaceAll(s, core.ModulePath+".", "main.")
	return s
}

// staticCallees returns the in-repo functions statically called from the body of u (not descending into literals unless
// lits is true), sorted by name.
func (ix *funcIndex) staticCallees(u flow.FuncUnit, lits bool) []flow.FuncUnit {
	seen := map[*types.Func]bool{}
	var out []flow.FuncUnit
	var body ast.Node
	switch n := u.Node.(type) {
	case *ast.FuncDecl:
		body = n.Body
	case *ast.FuncLit:
		body = n.Body
	}
	if body == nil {
		return nil
	}
	ast.Inspect(body, func(n ast.Node) bool {
		if _, ok := n.(*ast.FuncLit); ok && !lits {
			return false
		}
		if call, ok := n.(*ast.CallExpr); ok {
			if fn := typeutil.StaticCallee(u.Pkg.TypesInfo, call); fn != nil {
				fn = fn.Origin()
				if d, ok := ix.decls[fn]; ok && !seen[fn] {
					seen[fn] = true
					out = append(out, d)
				}
			}
		}
		return true
	})
	sort.Slice(out, func(i, j int) bool { return out[i].Name < out[j].Name })
	return out
}

// closure returns the units reachable from roots through static in-repo calls (function literals included).
func (ix *funcIndex) closure(roots []flow.FuncUnit) []flow.FuncUnit {
	seen := map[ast.Node]bool{}
	var out []flow.FuncUnit
	var visit func(u flow.FuncUnit)
	visit = func(u flow.FuncUnit) {
		if seen[u.Node] {
			return
		}
		seen[u.Node] = true
		out = append(out, u)
		for _, c := range ix.staticCallees(u, true) {
			visit(c)
		}
	}
	for _, r := range roots {
		visit(r)
	}
	return out
}

// funcLitsIn lists the function literals directly nested in a body (not nested deeper than one literal level when
// recursive is false).
func funcLitsIn(u flow.FuncUnit) []flow.FuncUnit {
	var out []flow.FuncUnit
	var body ast.Node
	switch n := u.Node.(type) {
	case *ast.FuncDecl:
		body = n.Body
	case *ast.FuncLit:
		body = n.Body
	}
	if body == nil {
		return nil
	}
	ast.Inspect(body, func(n ast.Node) bool {
		if fl, ok := n.(*ast.FuncLit); ok {
			out = append(out, flow.FuncUnit{Pkg: u.Pkg, Node: fl, Name: u.Name + "$lit"})
			return false
		}
		return true
	})
	return out
}

// isNamed reports whether t (after pointer indirection) is the named type pkgPath.name.
func isNamed(t types.Type, pkgPath, name string) bool {
	if t == nil {
		return false
	}
	if p, ok := t.(*types.Pointer); ok {
		t = p.Elem()
	}
	t = types.Unalias(t)
	n, ok := t.(*types.Named)
	if !ok {
		return false
	}
	obj := n.Obj()
	return obj.Name() == name && obj.Pkg() != nil && obj.Pkg().Path() == pkgPath
}

func namedOf(t types.Type) *types.Named {
	if t == nil {
		return nil
	}
	if p, ok := types.Unalias(t).(*types.Pointer); ok {
		t = p.Elem()
	}
	n, _ := types.Unalias(t).(*types.Named)
	return n
}

func inRepoObj(o types.Object) bool {
	return o != nil && o.Pkg() != nil && core.InRepo(o.Pkg().Path())
}

// funcFullName renders pkgpath.Name or (recv).Name for callee identity tables.
func funcFullName(o types.Object) string {
	fn, ok := o.(*types.Func)
	if !ok || fn == nil {
		return ""
	}
	return fn.FullName()
}

// constString evaluates a constant string expression.
func constString(info *types.Info, e ast.Expr) (string, bool) {
	tv, ok := info.Types[e]
	if !ok || tv.Value == nil || tv.Value.Kind() != constant.String {
		return "", false
	}
	return constant.StringVal(tv.Value), true
}

// cliCommand is one urfave/cli command literal of main.go.
type cliCommand struct {
	Name   string
	Lit    *ast.CompositeLit
	Action flow.FuncUnit
	Pkg    *packages.Package
	// Decorators: in-package functions wrapped around the action (Action: withJSONLogging(func(c) error {…})), outermost
	// first; they run on every invocation like a Before hook and must hand the action's error on
	Decorators []flow.FuncUnit
}

// cliCommands finds the cli.Command composite literals in package main and their Action function literals.
func cliCommands(p *core.Program) []cliCommand {
	pk := p.Pkg("")
	if pk == nil {
		return nil
	}
	var out []cliCommand
	for _, f := range pk.Syntax {
		ast.Inspect(f, func(n ast.Node) bool {
			cl, ok := n.(*ast.CompositeLit)
			if !ok {
				return true
			}
			tv, ok := pk.TypesInfo.Types[cl]
			if !ok || !isNamed(tv.Type, "github.com/urfave/cli/v2", "Command") {
				return true
			}
			cmd := cliCommand{Lit: cl, Pkg: pk}
			for _, el := range cl.Elts {
				kv, ok := el.(*ast.KeyValueExpr)
				if !ok {
					continue
				}
				k, _ := kv.Key.(*ast.Ident)
				if k == nil {
					continue
				}
				switch k.Name {
				case "Name":
					cmd.Name, _ = constString(pk.TypesInfo, kv.Value)
				case "Action":
					// decorators: f(g(func…)) with f, g functions of the package taking and returning an action
					for {
						call, isCall := ast.Unparen(kv.Value).(*ast.CallExpr)
						if !isCall {
							break
						}
						fn, _ := flow.Callee(pk.TypesInfo, call).(*types.Func)
						if fn == nil || fn.Pkg() != pk.Types {
							break
						}
						var inner ast.Expr
						for _, a := range call.Args {
							if tv, ok := pk.TypesInfo.Types[a]; ok {
								if _, isSig := tv.Type.Underlying().(*types.Signature); isSig {
									inner = a
								}
							}
						}
						var decl *ast.FuncDecl
						for _, ff := range pk.Syntax {
							for _, d := range ff.Decls {
								if fd, ok := d.(*ast.FuncDecl); ok && pk.TypesInfo.Defs[fd.Name] == types.Object(fn) {
									decl = fd
								}
							}
						}
						if inner == nil || decl == nil {
							break
						}
						cmd.Decorators = append(cmd.Decorators, flow.FuncUnit{Pkg: pk, Node: decl, Name: "main." + fn.Name()})
						kv = &ast.KeyValueExpr{Key: kv.Key, Value: inner}
					}
					if fl, ok := ast.Unparen(kv.Value).(*ast.FuncLit); ok {
						cmd.Action = flow.FuncUnit{Pkg: pk, Node: fl, Name: "main.cmd:" + cmd.Name}
					} else if id, ok := ast.Unparen(kv.Value).(*ast.Ident); ok {
						if fn, ok := pk.TypesInfo.Uses[id].(*types.Func); ok {
							for _, ff := range pk.Syntax {
								for _, d := range ff.Decls {
									if fd, ok := d.(*ast.FuncDecl); ok && pk.TypesInfo.Defs[fd.Name] == fn {
										cmd.Action = flow.FuncUnit{Pkg: pk, Node: fd, Name: "main.cmd:" + cmd.Name}
									}
								}
							}
						}
					}
				}
			}
			if cmd.Action.Node != nil {
				cmd.Action.Name = "main.cmd:" + cmd.Name
			}
			out = append(out, cmd)
			return true
		})
	}
	sort.Slice(out, func(i, j int) bool { return out[i].Name < out[j].Name })
	return out
}

// hasErrorResult reports whether the call's result type includes error.
func hasErrorResult(info *types.Info, call *ast.CallExpr) bool {
	tv, ok := info.Types[call]
	if !ok {
		return false
	}
	errT := types.Universe.Lookup("error").Type()
	switch t := tv.Type.(type) {
	case *types.Tuple:
		for i := 0; i < t.Len(); i++ {
			if types.Identical(t.At(i).Type(), errT) {
				return true
			}
		}
	default:
		return types.Identical(tv.Type, errT)
	}
	return false
}

// findingsText renders the findings of a site.
func findingsText(p *core.Program, s *flow.Site) string {
	var parts []string
	for _, f := range s.Findings {
		parts = append(parts, f.Kind+" at "+p.Pos(f.Pos)+": "+f.Msg)
	}
	return strings.Join(parts, "; ")
}

// servingUnit finds, for a CLI command, the function that calls target (server.Run): the action itself or an in-repo
// function it (transitively, statically) calls — start commands may share one "serve until interrupted" helper. It returns
// the unit, the call, and the call in the action through which the unit is reached (nil when the unit is the action).
func servingUnit(ix *funcIndex, c cliCommand, target *types.Func) (flow.FuncUnit, *ast.CallExpr, *ast.CallExpr) {
	find := func(u flow.FuncUnit) *ast.CallExpr {
		var out *ast.CallExpr
		info := u.Pkg.TypesInfo
		ast.Inspect(u.Node, func(n ast.Node) bool {
			if fl, ok := n.(*ast.FuncLit); ok && ast.Node(fl) != u.Node {
				return false
			}
			if call, ok := n.(*ast.CallExpr); ok {
				if fn, _ := flow.Callee(info, call).(*types.Func); fn != nil && fn.Origin() == target {
					out = call
				}
			}
			return true
		})
		return out
	}
	if c.Action.Node == nil {
		return flow.FuncUnit{}, nil, nil
	}
	if call := find(c.Action); call != nil {
		return c.Action, call, nil
	}
	for _, u := range ix.closure([]flow.FuncUnit{c.Action}) {
		if u.Node == c.Action.Node {
			continue
		}
		call := find(u)
		if call == nil {
			continue
		}
		// the call in the action that leads there (direct callee only; deeper chains are reported by the caller as not found)
		var via *ast.CallExpr
		if fd, ok := u.Node.(*ast.FuncDecl); ok {
			obj := u.Pkg.TypesInfo.Defs[fd.Name]
			ast.Inspect(c.Action.Node, func(n ast.Node) bool {
				if cc, ok := n.(*ast.CallExpr); ok {
					if fn, _ := flow.Callee(c.Pkg.TypesInfo, cc).(*types.Func); fn != nil && types.Object(fn) == obj {
						via = cc
					}
				}
				return true
			})
		}
		if via != nil {
			return u, call, via
		}
	}
	return flow.FuncUnit{}, nil, nil
}

// unitBody returns the body of a function unit (literal or declaration).
func unitBody(u flow.FuncUnit) *ast.BlockStmt {
	switch n := u.Node.(type) {
	case *ast.FuncLit:
		return n.Body
	case *ast.FuncDecl:
		return n.Body
	}
	return nil
}

// delegateTarget: fn does nothing but hand its receiver and parameters on to another method of the same receiver type and
// return that call's results (ProveInsertion → ProveInsertionContext(context.Background(), params)); the target is
// returned. Such wrappers are not analysed as provers/verifiers themselves — the target is.
func delegateTarget(fn *ssa.Function) *ssa.Function {
	if fn == nil || len(fn.Blocks) != 1 || len(fn.Params) == 0 {
		return nil
	}
	if fn.Signature.Recv() == nil {
		return delegateTargetFunc(fn)
	}
	var target *ssa.Function
	var call *ssa.Call
	for _, in := range fn.Blocks[0].Instrs {
		switch x := in.(type) {
		case *ssa.Call:
			callee := x.Common().StaticCallee()
			if callee == nil {
				return nil
			}
			if callee.Signature.Recv() != nil && len(x.Common().Args) > 0 && x.Common().Args[0] == ssa.Value(fn.Params[0]) &&
				namedOf(callee.Signature.Recv().Type()) == namedOf(fn.Signature.Recv().Type()) && core.InRepo(pkgPathOf(callee)) {
				if target != nil {
					return nil
				}
				target, call = callee, x
				continue
			}
			// argument constructors without effects on the request (context.Background(), option values)
			if callee.Pkg == nil || core.InRepo(callee.Pkg.Pkg.Path()) {
				return nil
			}
		case *ssa.Extract:
			if x.Tuple != ssa.Value(call) {
				return nil
			}
		case *ssa.Return:
			for _, rv := range x.Results {
				if e, ok := rv.(*ssa.Extract); ok && call != nil && e.Tuple == ssa.Value(call) {
					continue
				}
				if call != nil && rv == ssa.Value(call) {
					continue
				}
				return nil
			}
		case *ssa.MakeInterface, *ssa.ChangeType, *ssa.Convert, *ssa.DebugRef:
		default:
			return nil
		}
	}
	return target
}

// requestParamIndex: the position (in the signature, receiver excluded) of the parameter carrying the request: a pointer
// to (or value of) an in-repo struct type other than the receiver's.
func requestParamIndex(fn *ssa.Function) int {
	sig := fn.Signature
	for i := 0; i < sig.Params().Len(); i++ {
		n := namedOf(sig.Params().At(i).Type())
		if n == nil || !inRepoObj(n.Obj()) {
			continue
		}
		if sig.Recv() != nil && n == namedOf(sig.Recv().Type()) {
			continue
		}
		if _, ok := n.Underlying().(*types.Struct); ok {
			return i
		}
	}
	return -1
}

// delegateTargetFunc: the same for a plain function — its single in-repo call receives every one of its parameters (Run →
// RunWithContext(context.Background(), config, provingSystem)) and its results are returned unchanged.
func delegateTargetFunc(fn *ssa.Function) *ssa.Function {
	var target *ssa.Function
	var call *ssa.Call
	for _, in := range fn.Blocks[0].Instrs {
		switch x := in.(type) {
		case *ssa.Call:
			callee := x.Common().StaticCallee()
			if callee == nil {
				return nil
			}
			if core.InRepo(pkgPathOf(callee)) {
				if target != nil {
					return nil
				}
				for _, prm := range fn.Params {
					found := false
					for _, a := range x.Common().Args {
						if a == ssa.Value(prm) {
							found = true
						}
					}
					if !found {
						return nil
					}
				}
				target, call = callee, x
				continue
			}
			if callee.Pkg == nil || callee.Pkg.Pkg.Path() != "context" {
				return nil
			}
		case *ssa.Extract:
			if x.Tuple != ssa.Value(call) {
				return nil
			}
		case *ssa.Return:
			for _, rv := range x.Results {
				if e, ok := rv.(*ssa.Extract); ok && call != nil && e.Tuple == ssa.Value(call) {
					continue
				}
				if call != nil && rv == ssa.Value(call) {
					continue
				}
				return nil
			}
		case *ssa.MakeInterface, *ssa.ChangeType, *ssa.Convert, *ssa.DebugRef:
		default:
			return nil
		}
	}
	return target
}

// serverRunFn: server.Run, or the function that holds its body when Run merely delegates.
func serverRunFn(p *core.Program) *ssa.Function {
	fn := p.Func("server", "Run")
	for i := 0; fn != nil && i < 3; i++ {
		t := delegateTarget(fn)
		if t == nil {
			break
		}
		fn = t
	}
	return fn
}

// PrepareSeams computes the repository's seam variables (see flow.SetSeams) from the loaded packages.
func PrepareSeams(p *core.Program) {
	cand := map[*types.Var]types.Object{}
	written := map[*types.Var]bool{}
	pkgs := p.Pkgs
	for _, pk := range pkgs {
		info := pk.TypesInfo
		for _, f := range pk.Syntax {
			for _, d := range f.Decls {
				gd, ok := d.(*ast.GenDecl)
				if !ok {
					continue
				}
				for _, sp := range gd.Specs {
					vs, ok := sp.(*ast.ValueSpec)
					if !ok || len(vs.Values) != len(vs.Names) {
						continue
					}
					for i, nm := range vs.Names {
						v, _ := info.Defs[nm].(*types.Var)
						if v == nil || v.Parent() != pk.Types.Scope() {
							continue
						}
						var id *ast.Ident
						switch x := ast.Unparen(vs.Values[i]).(type) {
						case *ast.Ident:
							id = x
						case *ast.SelectorExpr:
							id = x.Sel
						}
						if id == nil {
							continue
						}
						switch t := info.Uses[id].(type) {
						case *types.Func:
							cand[v] = t
						case *types.Var:
							if t.Pkg() != nil && t.Pkg() != pk.Types && t.Parent() == t.Pkg().Scope() {
								cand[v] = t
							}
						}
					}
				}
			}
			ast.Inspect(f, func(n ast.Node) bool {
				mark := func(e ast.Expr) {
					var id *ast.Ident
					switch x := ast.Unparen(e).(type) {
					case *ast.Ident:
						id = x
					case *ast.SelectorExpr:
						id = x.Sel
					}
					if id != nil {
						if v, ok := info.Uses[id].(*types.Var); ok {
							written[v] = true
						}
					}
				}
				switch x := n.(type) {
				case *ast.AssignStmt:
					for _, l := range x.Lhs {
						mark(l)
					}
				case *ast.IncDecStmt:
					mark(x.X)
				case *ast.UnaryExpr:
					if x.Op == token.AND {
						mark(x.X)
					}
				}
				return true
			})
		}
	}
	out := map[*types.Var]types.Object{}
	for v, t := range cand {
		if !written[v] {
			out[v] = t
		}
	}
	flow.SetSeams(out)
}

// composesProvers: fn calls another method of its own receiver type that returns (*Proof-like, error) — a composition such
// as ProveInsertionChecked = ProveInsertion ≺ VerifyInsertion. The prover rules apply to the method that builds the
// witness, not to what is layered on top of it.
func composesProvers(fn *ssa.Function) bool {
	if fn == nil || fn.Signature.Recv() == nil {
		return false
	}
	rt := namedOf(fn.Signature.Recv().Type())
	for _, b := range fn.Blocks {
		for _, in := range b.Instrs {
			c, ok := in.(*ssa.Call)
			if !ok {
				continue
			}
			callee := c.Common().StaticCallee()
			if callee == nil || callee == fn || callee.Signature.Recv() == nil || namedOf(callee.Signature.Recv().Type()) != rt || !core.InRepo(pkgPathOf(callee)) {
				continue
			}
			if len(c.Common().Args) == 0 || c.Common().Args[0] != ssa.Value(fn.Params[0]) {
				continue
			}
			if witnessCircuitType(callee) != nil {
				return true
			}
		}
	}
	return false
}

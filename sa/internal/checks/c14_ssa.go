package checks

import (
	"fmt"
	"go/token"
	"go/types"
	"strings"

	"golang.org/x/tools/go/ssa"

	"verif/sa/internal/core"
	"verif/sa/internal/tf"
)

// The job protocol (O14.2) and the combiner (O14.4) are decided on SSA, so that it does not matter whether the supervising
// goroutine / the callbacks are closures or named functions, whether the job value is a literal or filled field by field,
// or whether channels are held in locals or in the job's fields.

// localValue follows a value back through conversions and through loads of a local variable or of a field of a local struct
// that is stored exactly once.
func localValue(v ssa.Value) ssa.Value {
	for n := 0; n < 16; n++ {
		switch x := v.(type) {
		case *ssa.ChangeType:
			v = x.X
			continue
		case *ssa.MakeInterface:
			v = x.X
			continue
		case *ssa.UnOp:
			if x.Op != token.MUL {
				return v
			}
			switch a := x.X.(type) {
			case *ssa.Alloc:
				if sv := uniqueStore(a, -1); sv != nil {
					v = sv
					continue
				}
			case *ssa.FieldAddr:
				if base, ok := a.X.(*ssa.Alloc); ok {
					if sv := uniqueStore(base, a.Field); sv != nil {
						v = sv
						continue
					}
				}
			}
		}
		return v
	}
	return v
}

// uniqueStore: the single value stored into alloc (field < 0) or into alloc.field.
func uniqueStore(a *ssa.Alloc, field int) ssa.Value {
	var val ssa.Value
	n := 0
	for _, ref := range *a.Referrers() {
		switch x := ref.(type) {
		case *ssa.Store:
			if field < 0 && x.Addr == ssa.Value(a) {
				val = x.Val
				n++
			}
		case *ssa.FieldAddr:
			if field >= 0 && x.Field == field {
				for _, r2 := range *x.Referrers() {
					if st, ok := r2.(*ssa.Store); ok && st.Addr == ssa.Value(x) {
						val = st.Val
						n++
					}
				}
			}
		}
	}
	if n == 1 {
		return val
	}
	return nil
}

// activation binds the parameters and free variables of a called/spawned function to the caller's (resolved) values.
type activation struct {
	fn   *ssa.Function
	bind map[ssa.Value]ssa.Value
}

func activationOf(com *ssa.CallCommon) *activation {
	if mc, ok := localValue(com.Value).(*ssa.MakeClosure); ok {
		if f, ok := mc.Fn.(*ssa.Function); ok && f.Blocks != nil {
			a := &activation{fn: f, bind: map[ssa.Value]ssa.Value{}}
			for i, fv := range f.FreeVars {
				if i < len(mc.Bindings) {
					a.bind[fv] = mc.Bindings[i]
				}
			}
			for i, prm := range f.Params {
				if i < len(com.Args) {
					a.bind[prm] = localValue(com.Args[i])
				}
			}
			return a
		}
	}
	if f := com.StaticCallee(); f != nil && f.Blocks != nil {
		a := &activation{fn: f, bind: map[ssa.Value]ssa.Value{}}
		for i, prm := range f.Params {
			if i < len(com.Args) {
				a.bind[prm] = localValue(com.Args[i])
			}
		}
		return a
	}
	return nil
}

// resolve maps a value of the activation to the caller's value it stands for.
func (a *activation) resolve(v ssa.Value) ssa.Value {
	for n := 0; n < 16; n++ {
		v = localValue(v)
		if b, ok := a.bind[v]; ok {
			v = b
			continue
		}
		// *freevar where the free variable is a captured local of the parent
		if u, ok := v.(*ssa.UnOp); ok && u.Op == token.MUL {
			if b, ok := a.bind[u.X]; ok {
				if al, ok := b.(*ssa.Alloc); ok {
					if sv := uniqueStore(al, -1); sv != nil {
						v = sv
						continue
					}
				}
			}
		}
		return v
	}
	return v
}

func isBuiltin(com *ssa.CallCommon, name string) bool {
	b, ok := com.Value.(*ssa.Builtin)
	return ok && b.Name() == name
}

func fieldIndex(t *types.Named, name string) int {
	st, ok := t.Underlying().(*types.Struct)
	if !ok {
		return -1
	}
	for i := 0; i < st.NumFields(); i++ {
		if st.Field(i).Name() == name {
			return i
		}
	}
	return -1
}

// ssaJobConstructor: fn stores two distinct freshly made channels into the stop and closed fields of a job value.
func ssaJobConstructor(fn *ssa.Function, jobT *types.Named, stopField, closedField string) (stopCh, closedCh ssa.Value) {
	si, ci := fieldIndex(jobT, stopField), fieldIndex(jobT, closedField)
	if si < 0 || ci < 0 {
		return nil, nil
	}
	for _, b := range fn.Blocks {
		for _, in := range b.Instrs {
			al, ok := in.(*ssa.Alloc)
			if !ok || namedOf(deref(al.Type())) != jobT {
				continue
			}
			s, c := uniqueStore(al, si), uniqueStore(al, ci)
			if s != nil && c != nil {
				return localValue(s), localValue(c)
			}
		}
	}
	return nil, nil
}

// checkSpawnJobSSA decides O14.2 for a job constructor.
func checkSpawnJobSSA(p *core.Program, r *core.Report, fn *ssa.Function, stopCh, closedCh ssa.Value) {
	name := core.FuncName(fn)
	cn := name + ": stop-waiting goroutine"
	if _, ok := stopCh.(*ssa.MakeChan); !ok || stopCh == closedCh {
		r.Undecided("O14.2", name+": job value", p.Pos(fn.Pos()), "the job's stop and closed fields are not populated from two distinct channels made in the constructor")
		return
	}
	if _, ok := closedCh.(*ssa.MakeChan); !ok {
		r.Undecided("O14.2", name+": job value", p.Pos(fn.Pos()), "the job's closed field is not populated from a channel made in the constructor")
		return
	}
	callbacks := map[ssa.Value]bool{}
	for _, prm := range fn.Params {
		if _, ok := prm.Type().Underlying().(*types.Signature); ok {
			callbacks[prm] = true
		}
	}
	var problems []string
	var acts []*activation
	for _, b := range fn.Blocks {
		for _, in := range b.Instrs {
			switch x := in.(type) {
			case *ssa.Go:
				if a := activationOf(x.Common()); a != nil {
					acts = append(acts, a)
				}
			case *ssa.Call:
				if callbacks[localValue(x.Common().Value)] {
					problems = append(problems, "a callback is called synchronously in the constructor at "+p.Pos(x.Pos())+": a blocking start would prevent the job from ever being returned")
				}
			}
		}
	}
	closesOf := func(f *ssa.Function, res func(ssa.Value) ssa.Value) []*ssa.Call {
		var out []*ssa.Call
		for _, b := range f.Blocks {
			for _, in := range b.Instrs {
				if c, ok := in.(*ssa.Call); ok && isBuiltin(c.Common(), "close") && len(c.Common().Args) == 1 && res(c.Common().Args[0]) == closedCh {
					out = append(out, c)
				}
			}
		}
		return out
	}
	total := len(closesOf(fn, localValue))
	var wait *activation
	var closeCall *ssa.Call
	for _, a := range acts {
		cs := closesOf(a.fn, a.resolve)
		total += len(cs)
		if len(cs) > 0 && wait == nil {
			wait, closeCall = a, cs[0]
		}
	}
	if wait == nil {
		r.Violation("O14.2", cn, p.Pos(fn.Pos()), "no goroutine started by the job constructor closes the closed channel: AwaitStop would block forever")
		return
	}
	r.Count("stop-waiting goroutines", 1)
	r.AnalysedFn(core.FuncName(wait.fn))
	if total != 1 {
		problems = append(problems, fmt.Sprintf("closed is closed at %d sites (exactly one expected)", total))
	}
	// first effect of the goroutine: an unconditional receive on stop
	var recv ssa.Instruction
	entry := wait.fn.Blocks[0]
firstEffect:
	for _, in := range entry.Instrs {
		switch x := in.(type) {
		case *ssa.DebugRef, *ssa.FieldAddr, *ssa.IndexAddr, *ssa.Alloc, *ssa.ChangeType, *ssa.MakeInterface, *ssa.Phi:
			continue
		case *ssa.UnOp:
			if x.Op == token.MUL {
				continue
			}
			if x.Op == token.ARROW && wait.resolve(x.X) == stopCh {
				recv = x
			}
			break firstEffect
		case *ssa.Store:
			if _, ok := x.Addr.(*ssa.Alloc); ok {
				continue
			}
			break firstEffect
		default:
			break firstEffect
		}
	}
	if recv == nil {
		problems = append(problems, "its first operation is not an unconditional receive on the stop channel (a stop requested before start-up could be missed, or start-up blocks the wait)")
	}
	// the shutdown callback
	var shut []*ssa.Call
	for _, b := range wait.fn.Blocks {
		for _, in := range b.Instrs {
			if c, ok := in.(*ssa.Call); ok && !c.Common().IsInvoke() {
				if _, isB := c.Common().Value.(*ssa.Builtin); isB {
					continue
				}
				if callbacks[wait.resolve(c.Common().Value)] {
					shut = append(shut, c)
				}
			}
		}
	}
	if len(shut) != 1 {
		problems = append(problems, fmt.Sprintf("expected exactly one call of a callback parameter (shutdown) in the goroutine, found %d", len(shut)))
	} else {
		sc := shut[0]
		if recv != nil && !instrBefore(recv, sc) {
			problems = append(problems, "shutdown() can run before the stop signal was received")
		}
		if !instrBefore(sc, closeCall) {
			problems = append(problems, "close(closed) is reachable without shutdown() having returned: AwaitStop could return while listeners are still open")
		}
	}
	if blockOnCycle(closeCall.Block()) {
		problems = append(problems, "close(closed) lies on a cycle (double close panics)")
	}
	for _, b := range wait.fn.Blocks {
		if len(b.Instrs) == 0 {
			continue
		}
		if ret, ok := b.Instrs[len(b.Instrs)-1].(*ssa.Return); ok && !instrBefore(closeCall, ret) {
			problems = append(problems, "the goroutine can end without closing closed: AwaitStop would block forever")
		}
	}
	r.Check(len(problems) == 0, "O14.2", cn, p.Pos(wait.fn.Pos()), "receive(stop) first ≺ shutdown() ≺ close(closed); single close; every exit closes closed", strings.Join(uniqStrings(problems), "; "))
}

func blockOnCycle(b *ssa.BasicBlock) bool {
	seen := map[*ssa.BasicBlock]bool{}
	var walk func(x *ssa.BasicBlock) bool
	walk = func(x *ssa.BasicBlock) bool {
		for _, s := range x.Succs {
			if s == b {
				return true
			}
			if !seen[s] {
				seen[s] = true
				if walk(s) {
					return true
				}
			}
		}
		return false
	}
	return walk(b)
}

// checkCombineSSA decides O14.4 for the shutdown callback of a combining job: it (or the in-package function it delegates to)
// requests stop on every element of the jobs slice in one loop, and awaits every element in a later loop.
func checkCombineSSA(p *core.Program, r *core.Report, owner *ssa.Function, shutdown *activation, reqFn, awaitFn *types.Func) {
	r.Count("combine closures", 1)
	cn := core.FuncName(owner) + ": shutdown closure requests all then awaits all"
	act := shutdown
	// delegation: the callback's only in-repo call hands the jobs to a function of the package
	for depth := 0; depth < 3; depth++ {
		var calls []*ssa.Call
		direct := false
		for _, b := range act.fn.Blocks {
			for _, in := range b.Instrs {
				if c, ok := in.(*ssa.Call); ok {
					if callee := c.Common().StaticCallee(); callee != nil {
						if obj, _ := callee.Object().(*types.Func); obj != nil && (obj.Origin() == reqFn || obj.Origin() == awaitFn) {
							direct = true
						} else if callee.Pkg == owner.Pkg && callee.Blocks != nil {
							calls = append(calls, c)
						}
					}
				}
			}
		}
		if direct || len(calls) != 1 {
			break
		}
		inner := activationOf(calls[0].Common())
		if inner == nil {
			break
		}
		// compose the bindings
		for k, v := range inner.bind {
			inner.bind[k] = act.resolve(v)
		}
		act = inner
	}
	r.AnalysedFn(core.FuncName(act.fn))
	eng := tf.NewEngine(core.InRepo, 2)
	ev := eng.NewEval(act.fn)
	type site struct {
		call  *ssa.Call
		loop  *tf.Loop
		slice ssa.Value
		whole bool
		every bool
	}
	var reqs, awaits []site
	var problems []string
	for _, b := range act.fn.Blocks {
		for _, in := range b.Instrs {
			c, ok := in.(*ssa.Call)
			if !ok {
				continue
			}
			callee := c.Common().StaticCallee()
			if callee == nil {
				continue
			}
			obj, _ := callee.Object().(*types.Func)
			if obj == nil || (obj.Origin() != reqFn && obj.Origin() != awaitFn) || len(c.Common().Args) == 0 {
				continue
			}
			s := site{call: c, loop: ev.InnermostLoop(b)}
			// receiver: &jobs[i], or the address of a local copy of jobs[i]
			recv := c.Common().Args[0]
			var ia *ssa.IndexAddr
			switch x := recv.(type) {
			case *ssa.IndexAddr:
				ia = x
			case *ssa.Alloc:
				if sv := uniqueStore(x, -1); sv != nil {
					if u, ok := sv.(*ssa.UnOp); ok && u.Op == token.MUL {
						ia, _ = u.X.(*ssa.IndexAddr)
					}
				}
			}
			if ia == nil || s.loop == nil {
				problems = append(problems, fmt.Sprintf("%s at %s is not called on the element of a loop over the jobs", obj.Name(), p.Pos(c.Pos())))
			} else {
				s.slice = act.resolve(ia.X)
				idx := ev.TermIn(ia.Index, ia.Block())
				if idx.K == tf.KIndVar && idx.Loop == s.loop {
					if n, ok := loopRangeZeroTo(s.loop); ok {
						lt := ev.TermIn(ia.X, ia.Block())
						s.whole = tf.Eq(n, tf.Len(lt))
					}
				}
				s.every = dominatesLatches(b, s.loop)
			}
			if obj.Origin() == reqFn {
				reqs = append(reqs, s)
			} else {
				awaits = append(awaits, s)
			}
		}
	}
	switch {
	case len(reqs) == 0:
		problems = append(problems, "no loop requests stop on every job")
	case len(awaits) == 0:
		problems = append(problems, "no loop awaits every job: the combined job reports closed while a sub-job may still be shutting down")
	case len(reqs) != 1 || len(awaits) != 1:
		problems = append(problems, fmt.Sprintf("%d RequestStop and %d AwaitStop call sites (one of each expected)", len(reqs), len(awaits)))
	default:
		rq, aw := reqs[0], awaits[0]
		if rq.loop != nil && aw.loop != nil {
			if !rq.whole || !aw.whole {
				problems = append(problems, "a loop does not run over the whole jobs slice")
			}
			if !rq.every || !aw.every {
				problems = append(problems, "the stop/await call is not an unconditional statement on the loop's element")
			}
			if rq.slice == nil || rq.slice != aw.slice {
				problems = append(problems, "the two loops do not range over the same jobs slice")
			} else if prm, ok := rq.slice.(*ssa.Parameter); !ok || prm.Parent() != owner {
				problems = append(problems, "the loops do not range over the constructor's jobs parameter")
			}
			if rq.loop == aw.loop {
				problems = append(problems, "stop and await happen in one loop: servers shut down one after the other and a later job is still serving while an earlier one is awaited")
			} else if !(rq.loop.Header.Dominates(aw.loop.Header) && !rq.loop.Blocks[aw.loop.Header]) {
				problems = append(problems, "jobs are awaited before stop was requested on all of them (deadlock for the later ones)")
			}
		}
	}
	r.Check(len(problems) == 0, "O14.4", cn, p.Pos(act.fn.Pos()), "loop over jobs {RequestStop}; then loop over jobs {AwaitStop}, both over the constructor's whole jobs parameter", strings.Join(uniqStrings(problems), "; "))
}

package checks

import (
	"go/types"

	"golang.org/x/tools/go/ssa"

	"verif/sa/internal/core"
	"verif/sa/internal/flow"
)

// isStdoutValue: v is os.Stdout (possibly behind an interface conversion or a single-assignment seam variable).
func isStdoutValue(v ssa.Value) bool {
	if mi, ok := v.(*ssa.MakeInterface); ok {
		v = mi.X
	}
	ld, ok := v.(*ssa.UnOp)
	if !ok {
		return false
	}
	g, ok := ld.X.(*ssa.Global)
	if !ok {
		return false
	}
	if g.Pkg != nil && g.Pkg.Pkg.Path() == "os" && g.Name() == "Stdout" {
		return true
	}
	if gv, ok := g.Object().(*types.Var); ok {
		if t, ok := flow.SeamTarget(gv).(*types.Var); ok && t.Pkg() != nil && t.Pkg().Path() == "os" && t.Name() == "Stdout" {
			return true
		}
	}
	return false
}

// isStdoutWriteSSA: fmt.Print*, or any call that is handed os.Stdout (fmt.Fprint*(os.Stdout, …), os.Stdout.Write*, io.Copy(os.Stdout, …)).
func isStdoutWriteSSA(c *ssa.Call) bool {
	com := c.Common()
	if sc := com.StaticCallee(); sc != nil && sc.Pkg != nil && sc.Pkg.Pkg.Path() == "fmt" {
		switch sc.Name() {
		case "Print", "Printf", "Println":
			return true
		}
	}
	if com.IsInvoke() && isStdoutValue(com.Value) {
		return true
	}
	for _, a := range com.Args {
		if isStdoutValue(a) {
			return true
		}
	}
	return false
}

// stdoutFunctions: the repository functions that contain a stdout write or (transitively, through static calls and the
// closures they create) call one that does.
func stdoutFunctions(p *core.Program) map[*ssa.Function]bool {
	has := map[*ssa.Function]bool{}
	fns := repoFuncsAndInstances(p)
	for _, f := range fns {
		for _, b := range f.Blocks {
			for _, in := range b.Instrs {
				if c, ok := in.(*ssa.Call); ok && isStdoutWriteSSA(c) {
					has[f] = true
				}
			}
		}
	}
	for changed := true; changed; {
		changed = false
		for _, f := range fns {
			if has[f] {
				continue
			}
			for _, b := range f.Blocks {
				for _, in := range b.Instrs {
					switch x := in.(type) {
					case ssa.CallInstruction:
						if sc := x.Common().StaticCallee(); sc != nil && has[sc] {
							has[f] = true
							changed = true
						}
					case *ssa.MakeClosure:
						if cf, ok := x.Fn.(*ssa.Function); ok && has[cf] {
							has[f] = true
							changed = true
						}
					}
				}
			}
		}
	}
	return has
}

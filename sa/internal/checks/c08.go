package checks

import (
	"fmt"
	"go/ast"
	"go/types"
	"strings"

	"golang.org/x/tools/go/packages"
	"golang.org/x/tools/go/ssa"

	"verif/sa/internal/core"
	"verif/sa/internal/flow"
	"verif/sa/internal/tf"
)

func init() { Registry["C08"] = Check{Run: checkC08} }

// layoutItem is one part of a positional byte layout.
type layoutItem struct {
	Kind    string // "u32be", "u32be[]", "fix32", or "?"
	Source  *tf.Term
	Starred bool
	Why     string // for "?"
}

func (l layoutItem) String() string {
	s := l.Kind + "(" + describe(l.Source) + ")"
	if l.Starred {
		s += "*"
	}
	return s
}

// bigBytesOf: t == (*big.Int).Bytes(x) → x.
func bigBytesOf(t *tf.Term) (*tf.Term, bool) {
	if t != nil && t.K == tf.KCall && strings.HasSuffix(t.Name, "math/big.Int).Bytes") && len(t.Args) == 1 {
		return t.Args[0], true
	}
	return nil, false
}

// fixed32 recognises the length-normalising idioms for a big integer in a positional layout:
//   - pad-if-short: ite(len(B) < 32 ? zeros(32-len(B)) ‖ B : B) with B = x.Bytes()   (exact for x < 2^256)
//   - x.FillBytes(make([]byte, 32))
func fixed32(ev *tf.Eval, t *tf.Term) (*tf.Term, string, bool) {
	if t.K == tf.KCall && strings.HasSuffix(t.Name, "math/big.Int).FillBytes") && len(t.Args) == 2 {
		buf := t.Args[1]
		if buf.K == tf.KCall && buf.Name == "zeros" && isConstInt(buf.Args[0], 32) {
			return t.Args[0], "", true
		}
		if buf.K == tf.KMake && isConstInt(buf.Args[0], 32) {
			return t.Args[0], "", true
		}
		// make([]byte, 32) with a constant size is compiled to a fresh [32]byte array sliced [:32]
		if n, ok := freshZeroBytes(buf); ok && n == 32 {
			return t.Args[0], "", true
		}
		return nil, "FillBytes into a buffer that is not a fresh 32-byte slice: " + describe(buf), false
	}
	if t.K == tf.KIte {
		cond, a, b := t.Args[0], t.Args[1], t.Args[2]
		x, ok := bigBytesOf(b)
		if !ok {
			return nil, "", false
		}
		okCond := cond.K == tf.KBin && cond.Name == "<" && tf.Eq(cond.Args[0], tf.Len(b)) && isConstInt(cond.Args[1], 32)
		if !okCond {
			return nil, "the padding test is " + describe(cond) + ", not len(bytes) < 32", false
		}
		// a = [zeros(32-len(B))... B...]
		if a.K == tf.KSeq && len(a.Args) == 2 && a.Args[0].K == tf.KSplice && a.Args[1].K == tf.KSplice && tf.Eq(a.Args[1].Args[0], b) {
			z := a.Args[0].Args[0]
			if z.K == tf.KCall && z.Name == "zeros" {
				if d := tf.AffAdd(z.Args[0], tf.Len(b), 1); isConstInt(d, 32) {
					return x, "", true
				}
				return nil, "the padding has length " + describe(z.Args[0]) + ", not 32-len(bytes)", false
			}
		}
		return nil, "the padded branch is " + describe(a) + ", not zeros(32-len) ‖ bytes (left padding)", false
	}
	return nil, "", false
}

// freshZeroBytes: t is a freshly allocated all-zero byte sequence of constant length (possibly sliced from 0).
func freshZeroBytes(t *tf.Term) (int64, bool) {
	if t.K == tf.KSub {
		lo, hi := t.Args[1], t.Args[2]
		if !(lo.K == tf.KNil || isConstInt(lo, 0)) {
			return 0, false
		}
		n, ok := freshZeroBytes(t.Args[0])
		if !ok {
			return 0, false
		}
		if hi.K == tf.KNil {
			return n, true
		}
		if h, ok := tf.IntConst(hi); ok && h <= n {
			return h, true
		}
		return 0, false
	}
	if t.K == tf.KSeq {
		for _, p := range t.Args {
			if p.K != tf.KElem || p.Args[0].K != tf.KZero {
				return 0, false
			}
		}
		return int64(len(t.Args)), true
	}
	// a local [n]byte array that the function itself never stores to (make([]byte, n) with constant n)
	if t.K == tf.KAlloc && t.Type != nil {
		if pt, ok := t.Type.(*types.Pointer); ok {
			if arr, ok := types.Unalias(pt.Elem()).Underlying().(*types.Array); ok {
				if al, ok := t.Instr.(*ssa.Alloc); ok && singleUseBuffer(al) {
					return arr.Len(), true
				}
			}
		}
	}
	return 0, false
}

// singleUseBuffer: the array is only sliced, and each slice is used by exactly one call (it is not shared between sites
// nor reused across loop iterations through a variable declared outside the loop).
func singleUseBuffer(al *ssa.Alloc) bool {
	refs := al.Referrers()
	if refs == nil {
		return false
	}
	n := 0
	for _, r := range *refs {
		switch x := r.(type) {
		case *ssa.Slice:
			n++
			if sr := x.Referrers(); sr == nil || len(*sr) != 1 {
				return false
			}
		case *ssa.DebugRef:
		default:
			return false
		}
	}
	// a fresh array per execution of the make(): the Alloc must sit in the same block as its slice use
	return n == 1
}

// derefArg resolves &local(v) holding a copied element back to the element it was copied from.
func derefArg(ev *tf.Eval, t *tf.Term) *tf.Term {
	if t != nil && t.K == tf.KAlloc {
		return ev.Deref(t)
	}
	return t
}

// byteLayout interprets a []byte-valued term as a positional layout.
func byteLayout(ev *tf.Eval, t *tf.Term, bufWrites map[string][]*tf.Term, starred bool) []layoutItem {
	var out []layoutItem
	one := func(x *tf.Term) {
		x = stripConv(x)
		// bytes.Buffer.Bytes(buf) after binary.Write(buf, BigEndian, v)
		if x.K == tf.KCall && strings.HasSuffix(x.Name, "bytes.Buffer).Bytes") && len(x.Args) == 1 {
			ws := bufWrites[x.Args[0].Key()]
			if len(ws) == 0 {
				out = append(out, layoutItem{Kind: "?", Source: x, Starred: starred, Why: "buffer contents unknown (no binary.Write into it)"})
				return
			}
			for _, w := range ws {
				if !strings.HasSuffix(w.Args[1].Key(), "encoding/binary.BigEndian") {
					out = append(out, layoutItem{Kind: "?", Source: w, Starred: starred, Why: "byte order is " + describe(w.Args[1]) + ", not big-endian"})
					continue
				}
				v := stripConv(w.Args[2])
				kind := "?"
				why := "binary.Write of a value that is neither uint32 nor []uint32"
				if v.Type != nil {
					_ = v
				}
				kind, why = "u32be/any", ""
				st := starred
				// binary.Write(buf, BigEndian, X[i]) once per iteration: the loop must run over every element of X (O8.1)
				if rv := ev.Resolve(v); rv.K == tf.KIdx {
					if iv := stripConv(rv.Args[1]); iv.K == tf.KIndVar {
						st = true
						n, okN := loopRangeZeroTo(iv.Loop)
						if !okN || !tf.Eq(stripConv(n), tf.Len(rv.Args[0])) {
							bound := "an unrecognised range"
							if okN {
								bound = "0.." + describe(n) + "-1"
							}
							kind, why = "?", "the loop packs "+describe(rv.Args[0])+"[i] for i over "+bound+", not over every element of that slice"
						}
					} else {
						kind, why = "?", "a single element "+describe(rv)+" is written, not the slice"
					}
				}
				out = append(out, layoutItem{Kind: kind, Source: v, Starred: st, Why: why})
			}
			return
		}
		// binary.BigEndian.AppendUint32(dst, v)
		if x.K == tf.KCall && strings.HasPrefix(x.Name, "binary.") && strings.Contains(x.Name, ".bytes") && len(x.Args) == 1 {
			if x.Name == "binary.BigEndian.bytes32" {
				out = append(out, layoutItem{Kind: "u32be/any", Source: stripConv(x.Args[0]), Starred: starred})
			} else {
				out = append(out, layoutItem{Kind: "?", Source: x, Starred: starred, Why: "encoded as " + strings.TrimPrefix(x.Name, "binary.") + ", not 4 big-endian bytes"})
			}
			return
		}
		if src, why, ok := fixed32(ev, x); ok {
			out = append(out, layoutItem{Kind: "fix32", Source: derefArg(ev, src), Starred: starred})
			return
		} else if why != "" {
			out = append(out, layoutItem{Kind: "?", Source: x, Starred: starred, Why: why})
			return
		}
		if src, ok := bigBytesOf(x); ok {
			out = append(out, layoutItem{Kind: "?", Source: derefArg(ev, src), Starred: starred, Why: "big.Int.Bytes() has a value-dependent length (leading zero bytes are dropped): every later field shifts"})
			return
		}
		out = append(out, layoutItem{Kind: "?", Source: x, Starred: starred, Why: "byte-producing idiom not recognised"})
	}
	switch t.K {
	case tf.KSeq:
		for _, p := range t.Args {
			switch p.K {
			case tf.KSplice:
				inner := p.Args[0]
				if inner.K == tf.KSeq {
					out = append(out, byteLayout(ev, inner, bufWrites, starred)...)
				} else {
					one(inner)
				}
			case tf.KStar:
				for _, sp := range p.Args {
					if sp.K == tf.KSplice {
						items := byteLayout(ev, tf.Seq(sp), bufWrites, true)
						type mappedItem struct {
							k   int
							exp []layoutItem
						}
						var mapped []mappedItem
						// the loop must visit every element of the slice it packs, no fewer and no more: a bound taken from
						// another slice (len(p.IdComms) for p.DeletionIndices) drops or over-reads elements
						for k := range items {
							src := ev.Resolve(items[k].Source)
							if src.K == tf.KIdx && src.Args[1].K == tf.KIndVar && src.Args[1].Loop == p.Loop {
								n, okN := loopRangeZeroTo(p.Loop)
								// one loop over a list of words built in this function ([]*big.Int{&p.PreRoot, &p.PostRoot}, or that list
								// extended by every commitment): the loop body is applied to each element of the list in order
								if list := src.Args[0]; okN && list.K == tf.KSeq && items[k].Kind != "?" {
									nElems, onlyElems := int64(0), true
									for _, lp := range list.Args {
										if lp.K == tf.KElem {
											nElems++
										} else {
											onlyElems = false
										}
									}
									cnt, isConst := tf.IntConst(stripConv(n))
									if tf.Eq(stripConv(n), tf.Len(list)) || (onlyElems && isConst && cnt == nElems) {
										var expanded []layoutItem
										okExp := true
										for _, lp := range list.Args {
											switch {
											case lp.K == tf.KElem:
												expanded = append(expanded, layoutItem{Kind: items[k].Kind, Source: derefArg(ev, lp.Args[0]), Starred: false})
											case lp.K == tf.KStar && len(lp.Args) == 1 && lp.Args[0].K == tf.KElem:
												expanded = append(expanded, layoutItem{Kind: items[k].Kind, Source: derefArg(ev, lp.Args[0].Args[0]), Starred: true})
											default:
												okExp = false
											}
										}
										if okExp {
											mapped = append(mapped, mappedItem{k, expanded})
											continue
										}
									}
								}
								if !okN || !tf.Eq(stripConv(n), tf.Len(src.Args[0])) {
									bound := "an unrecognised range"
									if okN {
										bound = "0.." + describe(n) + "-1"
									}
									items[k].Kind = "?"
									items[k].Why = "the loop packs " + describe(src.Args[0]) + "[i] for i over " + bound + ", not over every element of that slice"
								}
							}
						}
						for k := range items {
							replaced := false
							for _, m := range mapped {
								if m.k == k {
									out = append(out, m.exp...)
									replaced = true
								}
							}
							if !replaced {
								out = append(out, items[k])
							}
						}
					} else {
						out = append(out, layoutItem{Kind: "?", Source: sp, Starred: true, Why: "single bytes appended in a loop"})
					}
				}
			default:
				out = append(out, layoutItem{Kind: "?", Source: p, Starred: starred, Why: "single byte element"})
			}
		}
	default:
		one(t)
	}
	return out
}

// hashHelper describes one ComputeInputHash* method.
type hashHelper struct {
	Stores bool // writes the digest into the receiver (as opposed to handing it back)
	Fn     *ssa.Function
	Param  *types.Named
	Layout []layoutItem
}

func checkC08(p *core.Program, r *core.Report) {
	r.Explanation = "Off-chain input-hash helpers — structural part: (O8.1) the preimage handed to Keccak is a positional byte layout in which every part has a width that does not depend on the value: 4-byte big-endian indices (binary.Write BigEndian of uint32 / []uint32) and big integers normalised to exactly 32 bytes " +
		"(pad-if-short idiom or FillBytes into a fresh 32-byte slice); the order of the parts, expressed in circuit roles through the prover's witness wiring, equals the circuit's packing (C03 O3.2) and therefore the on-chain packing of the statement; " +
		"(O8.2) the hash is legacy Keccak-256 and its digest is stored big-endian (SetBytes) into the parameter field that the prover routes to the public input; " +
		"(O8.3) in gen-test-params every parameter field is assigned before the helper is called and none between the helper and json.Marshal of that same struct. " +
		"The rule 'a big integer that lands in a positional layout must be length-normalised' exposed a genuine defect on the original tree (PreRoot/PostRoot appended with Bytes()); it was repaired by a fix: commit (known_findings.txt). " +
		"Not decided: that the generator's tree and the circuit agree (C18/C05), provability of generated parameters."
	r.Rule("O8.1", "preimage = fixed-width positional layout in the circuit's packing order (BE32 indices, 32-byte big integers)")
	r.Rule("O8.2", "legacy Keccak-256; digest stored with SetBytes into the public-input parameter field")
	r.Rule("O8.4", "imported verdicts: off-chain tree discipline (C18) and Poseidon shape (C05)")
	r.Rule("O8.6", "the hash helpers construct no error under a condition on the parameter values")
	r.Rule("O8.5", "a big.Int copied by value out of a pointer is not followed by a mutating method on the same object (generator, parameter code, off-chain tree)")
	r.Rule("O8.3", "gen-test-params: all fields set before the helper, none between helper and json.Marshal of the same struct")
	r.Trusted = append(r.Trusted, "iden3 keccak256.Hash is Keccak-256", "math/big Bytes/FillBytes/SetBytes are big-endian", "encoding/binary.Write writes uint32 and []uint32 as 4 bytes each in the given order", "values are below 2^256 (the pad-if-short idiom does not truncate)")
	r.NotDecided = append(r.NotDecided, "agreement of the generator's tree with the circuit (C18, C05)", "numerical equality of hashes")

	ctx := newCircuitCtx(p)
	eng := ctx.eng
	ps := provingSystemType(p)
	// helpers: methods on parameter types (the parameter types of the provers) that call a keccak hash
	var helpers []*hashHelper
	for _, fn := range p.RepoFuncs() {
		if fn.Signature.Recv() == nil || fn.Signature.Params().Len() != 0 {
			continue
		}
		pn := namedOf(fn.Signature.Recv().Type())
		if pn == nil || !inRepoObj(pn.Obj()) {
			continue
		}
		ev := eng.NewEval(fn)
		var hashEv *tf.Event
		events := ev.Events()
		for i := range events {
			e := events[i]
			if e.Term.K == tf.KCall && (strings.Contains(e.Term.Name, "keccak256.Hash") || strings.Contains(e.Term.Name, "crypto.Keccak256") || strings.Contains(e.Term.Name, "sha3.")) {
				hashEv = &events[i]
			}
		}
		if hashEv == nil {
			continue
		}
		name := core.FuncName(fn)
		r.AnalysedFn(name)
		recv := ev.Params[0]
		hh := &hashHelper{Fn: fn, Param: pn}
		helpers = append(helpers, hh)
		r.Count("hash helpers", 1)
		// O8.2 callee
		okHash := strings.HasSuffix(hashEv.Term.Name, "go-iden3-crypto/keccak256.Hash") || strings.HasSuffix(hashEv.Term.Name, "go-ethereum/crypto.Keccak256")
		on, _ := hashEv.OnEveryPathToReturn()
		r.Check(okHash && on, "O8.2", name+": hash function", p.Pos(hashEv.Instr.Pos()), "legacy Keccak-256 ("+hashEv.Term.Name+")", "the preimage is hashed with "+hashEv.Term.Name+" (or not on every path): the contract and the circuit use legacy Keccak-256")
		// buffer writes
		bufWrites := map[string][]*tf.Term{}
		for _, e := range events {
			if callNameHasSuffix(e.Term, "encoding/binary.Write") && len(e.Term.Args) == 3 {
				bufWrites[e.Term.Args[0].Key()] = append(bufWrites[e.Term.Args[0].Key()], ev.Resolve(e.Term))
			}
		}
		if len(hashEv.Term.Args) != 1 {
			r.Undecided("O8.1", name+": preimage", p.Pos(hashEv.Instr.Pos()), "unexpected hash arity")
			continue
		}
		arg := ev.Resolve(hashEv.Term.Args[0])
		if arg.K == tf.KSeq && len(arg.Args) == 1 && arg.Args[0].K == tf.KElem {
			arg = arg.Args[0].Args[0] // variadic [][]byte{data}
		} else if arg.K == tf.KSeq && len(arg.Args) > 1 {
			// Hash(chunk1, chunk2, …) absorbs the chunks in order: the preimage is their concatenation
			var parts []*tf.Term
			flat := true
			for _, a := range arg.Args {
				switch a.K {
				case tf.KElem:
					parts = append(parts, tf.Splice(a.Args[0]))
				case tf.KStar:
					var sp []*tf.Term
					for _, x := range a.Args {
						if x.K == tf.KElem {
							sp = append(sp, tf.Splice(x.Args[0]))
						} else {
							flat = false
						}
					}
					parts = append(parts, &tf.Term{K: tf.KStar, Loop: a.Loop, Args: sp})
				default:
					flat = false
				}
			}
			if flat {
				arg = &tf.Term{K: tf.KSeq, Args: parts}
			}
		}
		hh.Layout = byteLayout(ev, arg, bufWrites, false)
		var bad []string
		for i := range hh.Layout {
			it := &hh.Layout[i]
			if it.Kind == "u32be/any" {
				// type of the written value decides
				f, _, okF := pathBelow(it.Source, recv)
				ft := fieldType(pn, f)
				switch {
				case okF && isUint32(ft):
					it.Kind = "u32be"
				case okF && isUint32Slice(ft):
					it.Kind = "u32be[]"
				default:
					it.Kind, it.Why = "?", "binary.Write of "+describe(it.Source)+" which is not a uint32 / []uint32 parameter field"
				}
			}
			if it.Kind == "?" {
				bad = append(bad, fmt.Sprintf("%s: %s", describe(it.Source), it.Why))
			}
		}
		var parts []string
		for _, it := range hh.Layout {
			parts = append(parts, it.String())
		}
		r.Count("layout parts", len(hh.Layout))
		r.Check(len(bad) == 0, "O8.1", name+": every part has a value-independent width", p.Pos(hashEv.Instr.Pos()), strings.Join(parts, " ‖ "), "parts without a fixed width: "+strings.Join(bad, "; "))
		// order in circuit roles
		checkLayoutAgainstCircuit(p, r, ctx, ps, hh, recv, name)
		// digest stored with SetBytes into the public-input parameter field
		okStore := false
		var storeWhy = "the digest is never stored with (*big.Int).SetBytes"
		hashT := ev.Resolve(hashEv.Term)
		isDigest := func(t *tf.Term) bool {
			// the hash itself, or the hash handed back by an inlined helper as (digest, error)
			found := false
			tf.Walk(t, func(x *tf.Term) bool {
				if tf.Eq(x, hashT) {
					found = true
					return false
				}
				switch x.K {
				case tf.KExtract, tf.KTuple, tf.KIte, tf.KPhi:
					return true
				}
				return x == t
			})
			return found
		}
		nSetBytes := 0
		for _, e := range events {
			if callNameHasSuffix(e.Term, "math/big.Int).SetBytes") && len(e.Term.Args) == 2 {
				if _, intoRecv := fieldOf(e.Term.Args[0], recv); intoRecv {
					nSetBytes++
				}
			}
		}
		hh.Stores = nSetBytes > 0
		if nSetBytes == 0 && fn.Signature.Results().Len() > 0 && !isErrorType(fn.Signature.Results().At(0).Type()) {
			// a function that hands the digest back instead of storing it (an accessor, or the shared inner helper): the
			// layout rules above apply to it; the storing rule applies to the helper that stores
			r.OK("O8.2", name+": digest stored into the public-input field", p.Pos(hashEv.Instr.Pos()), "returns the digest, stores nothing")
			continue
		}
		for _, e := range events {
			if callNameHasSuffix(e.Term, "math/big.Int).SetBytes") && len(e.Term.Args) == 2 {
				if isDigest(ev.Resolve(e.Term.Args[1])) {
					if f, ok := fieldOf(e.Term.Args[0], recv); ok {
						if pub := publicParamField(p, ctx, ps, pn); pub == f {
							okStore = true
						} else {
							storeWhy = fmt.Sprintf("the digest is stored into %s but the prover feeds the public input from %s", f, pub)
						}
					}
				}
			}
		}
		r.Check(okStore, "O8.2", name+": digest stored into the public-input field", p.Pos(hashEv.Instr.Pos()), "SetBytes(hash) into the field wired to the circuit's public input", storeWhy)
	}
	r.Floor("hash helpers", 2)
	r.Floor("layout parts", 6)
	// O8.3
	checkGenTestParams(p, r, helpers)
	// O8.6: "for every parameter set whose values are in range … whatever the magnitude": the helpers refuse nothing on
	// the strength of a value (a sign or size test that also excludes zero leaves InputHash unset for an in-range set)
	for _, h := range helpers {
		if h.Fn != nil && fnReturnsError(h.Fn) {
			checkRefusals(p, r, "O8.6", h.Fn)
		}
	}
	// O8.4: "parameters emitted by the generator are provable" also rests on the generator's tree and on Poseidon
	// O8.5: the generator and the parameter code copy big.Int values out of pointers; no copy is invalidated afterwards
	checkBigIntAliasing(p, r, "O8.5", func(path string) bool {
		return path == core.ModulePath || strings.HasSuffix(path, "/prover") || strings.HasSuffix(path, "/poseidon_tree")
	})
	importVerdicts(p, r, "O8.4", "generated roots and sibling paths come from the off-chain tree, hashed with Poseidon", "C18", "C05")
}

func isUint32(t types.Type) bool {
	if t == nil {
		return false
	}
	b, ok := types.Unalias(t).Underlying().(*types.Basic)
	return ok && b.Kind() == types.Uint32
}

func isUint32Slice(t types.Type) bool {
	if t == nil {
		return false
	}
	s, ok := types.Unalias(t).Underlying().(*types.Slice)
	return ok && isUint32(s.Elem())
}

// proverFor finds the prover method taking *param.
func proverFor(p *core.Program, ps, param *types.Named) *ssa.Function {
	for _, fn := range p.RepoFuncs() {
		if fn.Signature.Recv() == nil || namedOf(fn.Signature.Recv().Type()) != ps || (delegateTarget(fn) != nil || composesProvers(fn)) {
			continue
		}
		if pix := requestParamIndex(fn); pix >= 0 && namedOf(fn.Signature.Params().At(pix).Type()) == param && witnessCircuitType(fn) != nil {
			return fn
		}
	}
	return nil
}

// witnessFieldSources: circuit field -> parameter field it copies, from the prover's assignment.
func witnessFieldSources(eng *tf.Engine, fn *ssa.Function) map[string]string {
	out := map[string]string{}
	ev := eng.NewEval(fn)
	for _, e := range ev.Events() {
		if callNameHasSuffix(e.Term, "gnark/frontend.NewWitness") && len(e.Term.Args) >= 1 {
			rec := ev.Deref(e.Term.Args[0])
			for i, n := range rec.Names {
				if src, ok := copyOf(rec.Args[i], ev.Params[1+requestParamIndex(fn)]); ok {
					out[n] = src.Field
				}
			}
		}
	}
	return out
}

func publicParamField(p *core.Program, ctx *circuitCtx, ps, param *types.Named) string {
	fn := proverFor(p, ps, param)
	if fn == nil {
		return ""
	}
	T := witnessCircuitType(fn)
	pub, _ := publicFields(T)
	if len(pub) != 1 {
		return ""
	}
	return witnessFieldSources(ctx.eng, fn)[pub[0]]
}

func checkLayoutAgainstCircuit(p *core.Program, r *core.Report, ctx *circuitCtx, ps *types.Named, hh *hashHelper, recv *tf.Term, name string) {
	fn := proverFor(p, ps, hh.Param)
	if fn == nil {
		r.Violation("O8.1", name+": circuit order", p.Pos(hh.Fn.Pos()), "no prover takes this parameter type: the helper's layout cannot be related to a circuit")
		return
	}
	T := witnessCircuitType(fn)
	anchor := ""
	for _, a := range []string{"SetupInsertion", "SetupDeletion"} {
		if T2, _, _ := circuitTypeOf(p, a); T2 != nil && typeKey(T2) == typeKey(T) {
			anchor = a
		}
	}
	tmp := core.NewReport("tmp", "quick")
	packing := checkPackingOf(p, tmp, ctx, anchor, anchor == "SetupInsertion", "")
	if packing == nil {
		r.Violation("O8.1", name+": circuit order", p.Pos(hh.Fn.Pos()), "the circuit's packing cannot be established (see C03)")
		return
	}
	src := witnessFieldSources(ctx.eng, fn) // circuit field -> param field
	inv := map[string]string{}
	for cf, pf := range src {
		inv[pf] = cf
	}
	var got, want []string
	for _, it := range hh.Layout {
		f, _, ok := pathBelow(it.Source, recv)
		cf := "?"
		if ok {
			if c, ok := inv[f]; ok {
				cf = c
			} else {
				cf = "?" + f
			}
		}
		bits := map[string]int{"u32be": 32, "u32be[]": 32, "fix32": 256}[it.Kind]
		star := it.Starred || it.Kind == "u32be[]"
		s := fmt.Sprintf("%s:%d", cf, bits)
		if star {
			s += "×batch"
		}
		got = append(got, s)
	}
	for _, x := range packing {
		s := fmt.Sprintf("%s:%d", x.Role, x.Width)
		if x.Starred {
			s += "×batch"
		}
		want = append(want, s)
	}
	r.Check(strings.Join(got, " ‖ ") == strings.Join(want, " ‖ "), "O8.1", name+": same order and widths as the circuit's packing", p.Pos(hh.Fn.Pos()),
		strings.Join(got, " ‖ "), fmt.Sprintf("helper packs %s but the circuit hashes %s", strings.Join(got, " ‖ "), strings.Join(want, " ‖ ")))
}

// checkGenTestParams: O8.3 on the CLI action.
func checkGenTestParams(p *core.Program, r *core.Report, helpers []*hashHelper) {
	helperObj := map[types.Object]bool{}
	for _, h := range helpers {
		if o := h.Fn.Object(); o != nil && h.Stores {
			helperObj[o] = true
		}
	}
	n := 0
	// the units of package main in which a hash helper may be called: the command actions and the package's functions
	// (a generator extracted into insertionTestParams(depth, batch) *InsertionParameters)
	type genUnit struct {
		u    flow.FuncUnit
		name string
		obj  types.Object
	}
	var units []genUnit
	for _, c := range cliCommands(p) {
		if c.Action.Node != nil {
			units = append(units, genUnit{c.Action, "main.cmd:" + c.Name, nil})
		}
	}
	if mp := p.Pkg(""); mp != nil {
		for _, f := range mp.Syntax {
			for _, d := range f.Decls {
				if fd, ok := d.(*ast.FuncDecl); ok && fd.Body != nil && fd.Name.Name != "main" {
					units = append(units, genUnit{flow.FuncUnit{Pkg: mp, Node: fd, Name: "main." + fd.Name.Name}, "main." + fd.Name.Name, mp.TypesInfo.Defs[fd.Name]})
				}
			}
		}
	}
	for _, gu := range units {
		c := struct {
			Action flow.FuncUnit
			Pkg    *packages.Package
			Name   string
		}{gu.u, gu.u.Pkg, gu.name}
		info := c.Pkg.TypesInfo
		g := (*flow.Graph)(nil)
		ast.Inspect(c.Action.Node, func(nd ast.Node) bool {
			if fl, isLit := nd.(*ast.FuncLit); isLit && ast.Node(fl) != c.Action.Node {
				return false // a nested literal (a command's action built by a constructor function) is a unit of its own
			}
			call, ok := nd.(*ast.CallExpr)
			if !ok {
				return true
			}
			fn, _ := flow.Callee(info, call).(*types.Func)
			if fn == nil || !helperObj[fn.Origin()] {
				return true
			}
			sel, _ := ast.Unparen(call.Fun).(*ast.SelectorExpr)
			if sel == nil {
				return true
			}
			pv := baseIdentVar(info, sel.X)
			if pv == nil {
				return true
			}
			n++
			if g == nil {
				g = flow.NewGraph(c.Action)
			}
			cn := fmt.Sprintf("%s: %s on %s", c.Name, fn.Name(), pv.Name())
			callLoc, ok := g.Locate(call)
			if !ok {
				r.Undecided("O8.3", cn, p.Pos(call.Pos()), "helper call not located in the CFG")
				return true
			}
			var probs []string
			// assignments to fields of pv
			nAssign := 0
			ast.Inspect(c.Action.Node, func(m ast.Node) bool {
				as, ok := m.(*ast.AssignStmt)
				if !ok {
					return true
				}
				for _, l := range as.Lhs {
					base := l
					for {
						switch x := ast.Unparen(base).(type) {
						case *ast.SelectorExpr:
							base = x.X
							continue
						case *ast.IndexExpr:
							base = x.X
							continue
						}
						break
					}
					if identVar(info, base) != pv || ast.Unparen(l) == ast.Unparen(base) {
						continue
					}
					nAssign++
					if loc, ok := g.Locate(as); ok && g.LocReaches(callLoc, loc) {
						probs = append(probs, fmt.Sprintf("%s is assigned at %s after the hash was computed", types.ExprString(l), p.Pos(as.Pos())))
					}
				}
				return true
			})
			// json.Marshal(&pv) after the call, dominated by it
			marshalled := false
			ast.Inspect(c.Action.Node, func(m ast.Node) bool {
				mc, ok := m.(*ast.CallExpr)
				if !ok {
					return true
				}
				if f2, _ := flow.Callee(info, mc).(*types.Func); f2 != nil && f2.FullName() == "encoding/json.Marshal" && len(mc.Args) == 1 && baseIdentVar(info, mc.Args[0]) == pv {
					if loc, ok := g.Locate(mc); ok && g.LocDominates(callLoc, loc) {
						marshalled = true
					} else {
						probs = append(probs, "json.Marshal of the parameters is not dominated by the helper call")
					}
				}
				return true
			})
			if !marshalled && gu.obj != nil {
				// the unit hands the struct back (return &params, dominated by the helper call) and a caller marshals that
				// result
				returned := false
				ast.Inspect(c.Action.Node, func(m ast.Node) bool {
					if _, isLit := m.(*ast.FuncLit); isLit {
						return false
					}
					if ret, ok := m.(*ast.ReturnStmt); ok {
						for _, x := range ret.Results {
							if baseIdentVar(info, x) == pv {
								if loc, ok := g.Locate(ret); ok && g.LocDominates(callLoc, loc) {
									returned = true
								}
							}
						}
					}
					return true
				})
				if returned {
					for _, other := range units {
						oi := other.u.Pkg.TypesInfo
						ast.Inspect(other.u.Node, func(m ast.Node) bool {
							mc, ok := m.(*ast.CallExpr)
							if !ok {
								return true
							}
							if f2, _ := flow.Callee(oi, mc).(*types.Func); f2 != nil && f2.FullName() == "encoding/json.Marshal" && len(mc.Args) == 1 {
								if inner, ok := ast.Unparen(mc.Args[0]).(*ast.CallExpr); ok {
									if f3, _ := flow.Callee(oi, inner).(*types.Func); f3 != nil && types.Object(f3) == gu.obj {
										marshalled = true
									}
								}
								if v := baseIdentVar(oi, mc.Args[0]); v != nil {
									// x := unit(...); json.Marshal(x)
									ast.Inspect(other.u.Node, func(q ast.Node) bool {
										if as, ok := q.(*ast.AssignStmt); ok && len(as.Rhs) == 1 {
											for _, l := range as.Lhs {
												if identVar(oi, l) == v {
													if inner, ok := ast.Unparen(as.Rhs[0]).(*ast.CallExpr); ok {
														if f3, _ := flow.Callee(oi, inner).(*types.Func); f3 != nil && types.Object(f3) == gu.obj {
															marshalled = true
														}
													}
												}
											}
										}
										return true
									})
								}
							}
							return true
						})
					}
				}
			}
			if !marshalled {
				probs = append(probs, "the struct the hash was computed for is not the one that is marshalled")
			}
			r.Check(len(probs) == 0, "O8.3", cn, p.Pos(call.Pos()), fmt.Sprintf("%d field assignments, all before the helper; then json.Marshal(&%s)", nAssign, pv.Name()), strings.Join(probs, "; "))
			return true
		})
	}
	r.Count("generator helper calls", n)
	r.Floor("generator helper calls", 2)
}

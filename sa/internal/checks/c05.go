package checks

import (
	"fmt"
	"go/ast"
	"go/constant"
	"go/token"
	"go/types"
	"sort"
	"strings"

	"golang.org/x/tools/go/ssa"

	"verif/sa/internal/core"
	"verif/sa/internal/eff"
	"verif/sa/internal/tf"
)

func init() { Registry["C05"] = Check{Run: checkC05} }

// globalInitInts reads integer fields of a package-level composite-literal initialiser: var G = T{F: 8, …}.
func globalInitInts(p *core.Program, rel, name string) map[string]int64 {
	out := map[string]int64{}
	pk := p.Pkg(rel)
	if pk == nil {
		return out
	}
	for _, f := range pk.Syntax {
		for _, d := range f.Decls {
			gd, ok := d.(*ast.GenDecl)
			if !ok {
				continue
			}
			for _, sp := range gd.Specs {
				vs, ok := sp.(*ast.ValueSpec)
				if !ok {
					continue
				}
				for i, n := range vs.Names {
					if n.Name != name || i >= len(vs.Values) {
						continue
					}
					cl, ok := ast.Unparen(vs.Values[i]).(*ast.CompositeLit)
					if !ok {
						continue
					}
					for _, el := range cl.Elts {
						kv, ok := el.(*ast.KeyValueExpr)
						if !ok {
							continue
						}
						k, _ := kv.Key.(*ast.Ident)
						tv := pk.TypesInfo.Types[kv.Value]
						if k != nil && tv.Value != nil && tv.Value.Kind() == constant.Int {
							v, _ := constant.Int64Val(tv.Value)
							out[k.Name] = v
						}
					}
				}
			}
		}
	}
	return out
}

// mutatedFields computes, for every gadget type, the slice-valued fields that its DefineGadget (transitively) writes
// through: direct element stores via the receiver, or hand-off to a mutated field of another gadget.
func mutatedFields(p *core.Program, ctx *circuitCtx, gadgets []*gadgetInfo) map[string]map[string]string {
	out := map[string]map[string]string{}
	mark := func(g *gadgetInfo, f, why string) bool {
		if out[g.Name] == nil {
			out[g.Name] = map[string]string{}
		}
		if _, ok := out[g.Name][f]; ok {
			return false
		}
		out[g.Name][f] = why
		return true
	}
	for _, g := range gadgets {
		recv := g.Ev.Params[0]
		for _, s := range g.Ev.ExtStores() {
			cur := s.Addr
			for cur.K == tf.KIdx {
				cur = cur.Args[0]
			}
			if f, ok := fieldOf(cur, recv); ok && s.Addr.K == tf.KIdx {
				mark(g, f, "element store at "+p.Pos(s.Instr.Pos()))
			}
		}
	}
	changed := true
	for changed {
		changed = false
		for _, g := range gadgets {
			recv := g.Ev.Params[0]
			for _, e := range gadgetEvents(g, "") {
				for i, fn := range e.Term.Names {
					if why, ok := out[e.Term.Name][fn]; ok {
						_ = why
						a := e.Term.Args[i]
						if f, ok := fieldOf(a, recv); ok {
							if mark(g, f, "handed to "+e.Term.Name+"."+fn+" (mutated in place)") {
								changed = true
							}
						}
					}
				}
			}
		}
	}
	return out
}

func checkC05(p *core.Program, r *core.Report) {
	r.Explanation = "In-circuit Poseidon — narrow structural part (function equality is numerical and not decided): (O5.1) the parameter tables (round constants, MDS matrices, configurations) are immutable after package initialisation: no store, map update or builtin write through any reference derived (field-sensitively, interprocedurally) from them in any repository function; " +
		"(O5.2) the wrappers build the state as a fresh literal [0, inputs…] in field order and return element 0 of the permutation; (O5.3) ownership of in-place state: every slice handed to a (transitively) in-place field of a gadget is not read by the caller after the call except through the call's result, " +
		"so repeated invocations in one circuit cannot observe each other's scribbles (and the extractor's deep-copied model describes the compiled circuit — shared with C17); " +
		"(O5.4) statement parameters: RF = 8, RP = 56 (t=2) / 57 (t=3); three counted loops with bounds RF/2, RP, RF/2 indexing the constants at offsets 0, RF/2, RF/2+RP; x^5 S-box; partial rounds apply the S-box to element 0 only, full rounds to every element; MDS is the matrix-vector product row i · state. " +
		"Not decided: the numerical values of the 500 constants (pinned by the package's vectors), equality with the reference permutation on all inputs."
	r.Rule("O5.1", "parameter tables are never written outside package initialisation")
	r.Rule("O5.2", "wrappers: fresh [0, inputs…] state in field order, output = element 0")
	r.Rule("O5.3", "slices handed to in-place gadget fields are dead in the caller after the call")
	r.Rule("O5.5", "no big.Int of the parameter tables is copied by value and then mutated (the copy shares the table entry's digit array), and no copy is kept while its source is mutated")
	r.Rule("O5.4", "round schedule, constant offsets, S-box degree, partial/full round shape, MDS orientation, RF/RP values")
	r.Trusted = append(r.Trusted, "the constant tables' numerical values (exercised by the package's three vectors)", "gnark Add/Mul semantics")
	r.NotDecided = append(r.NotDecided, "equality with the reference Poseidon on all inputs (numerical)")

	ctx := newCircuitCtx(p)
	pp := p.SSAPkg("prover/poseidon")
	if pp == nil {
		r.Violation("O5.2", "package prover/poseidon", "-", "not found")
		return
	}
	// ---- O5.1
	g := eff.BuildGraph(p)
	all := map[*ssa.Function]*ssa.Function{}
	for _, f := range g.Funcs() {
		all[f] = nil
	}
	var tables []*ssa.Global
	for _, m := range pp.Members {
		if gl, ok := m.(*ssa.Global); ok && !strings.HasPrefix(gl.Name(), "init$") {
			tables = append(tables, gl)
		}
	}
	sort.Slice(tables, func(i, j int) bool { return tables[i].Name() < tables[j].Name() })
	r.Count("parameter tables", len(tables))
	checkBigIntAliasing(p, r, "O5.5", func(path string) bool { return strings.HasSuffix(path, "/poseidon") || strings.HasSuffix(path, "/keccak") })
	r.Floor("parameter tables", 6)
	isTable := map[*ssa.Global]bool{}
	for _, t := range tables {
		isTable[t] = true
	}
	sh := eff.Analyse(g, all, map[ssa.Value]string{}, func(gl *ssa.Global) bool { return isTable[gl] })
	nW := 0
	for _, w := range sh.Writes(func(callee *ssa.Function, com *ssa.CallCommon) bool {
		return true /* external hand-offs are reads (API calls) */
	}) {
		if w.Fn.Name() == "init" || w.Fn.Synthetic != "" {
			continue
		}
		nW++
		r.Violation("O5.1", core.FuncName(w.Fn)+": "+w.What+" ["+w.Root+"]", p.Pos(w.Instr.Pos()), "package-level state of the Poseidon package (parameter table or shared buffer) is written after initialisation: every later hash in the process, in the same circuit or in a concurrent definition, sees the altered data")
	}
	if nW == 0 {
		r.OK("O5.1", "repository: writes through references derived from the Poseidon tables", "-", "none in %d functions (%d tables: field-sensitive, interprocedural)", len(all), len(tables))
	}
	// ---- gadgets of the package
	var gadgets []*gadgetInfo
	var wrappers []*gadgetInfo
	for _, m := range pp.Members {
		t, ok := m.(*ssa.Type)
		if !ok {
			continue
		}
		if gi := ctx.gadget(t.Type()); gi != nil {
			gadgets = append(gadgets, gi)
			r.AnalysedFn(core.FuncName(gi.Fn))
		}
	}
	sort.Slice(gadgets, func(i, j int) bool { return gadgets[i].Name < gadgets[j].Name })
	// anchors: Poseidon1, Poseidon2
	var perm *gadgetInfo
	for _, name := range []string{"Poseidon1", "Poseidon2"} {
		tm, _ := pp.Members[name].(*ssa.Type)
		if tm == nil {
			r.Violation("O5.2", "anchor poseidon."+name, "-", "not found")
			continue
		}
		gi := ctx.gadget(tm.Type())
		if gi == nil {
			continue
		}
		wrappers = append(wrappers, gi)
		recv := gi.Ev.Params[0]
		st := tm.Type().Underlying().(*types.Struct)
		want := []*tf.Term{tf.Elem(tf.ConstInt(0))}
		for i := 0; i < st.NumFields(); i++ {
			want = append(want, tf.Elem(tf.Field(recv, st.Field(i).Name())))
		}
		ret := gi.Ret
		okW := ret.K == tf.KIdx && isConstInt(ret.Args[1], 0) && ret.Args[0].K == tf.KGadget && len(ret.Args[0].Args) == 1 && tf.Eq(ret.Args[0].Args[0], tf.Seq(want...))
		r.Check(okW, "O5.2", gi.Name+".DefineGadget: state layout and output", p.Pos(gi.Fn.Pos()), fmt.Sprintf("perm([0, %d input(s) in field order])[0]", st.NumFields()),
			"the wrapper returns "+describe(ret)+"; the reference uses a fresh state [0, inputs…] and outputs element 0 (for the single-input variant [In, 0] and [0, In] coincide only on input 0)")
		if okW {
			perm = ctx.gadgetOfTerm(ret.Args[0])
		}
		r.Count("wrappers", 1)
	}
	r.Floor("wrappers", 2)
	// ---- O5.3 ownership, over all gadgets reachable from both circuits plus this package
	allG := map[string]*gadgetInfo{}
	for _, gi := range gadgets {
		allG[gi.Name+"/"+gi.Fn.Name()] = gi
	}
	for _, a := range []string{"SetupInsertion", "SetupDeletion"} {
		if T, _, _ := circuitTypeOf(p, a); T != nil {
			if ci := ctx.define(T, "Define"); ci != nil {
				for _, d := range ctx.definitionCode(ci) {
					allG[d.Name+"/"+d.Fn.Name()] = d
				}
			}
		}
	}
	var gl []*gadgetInfo
	for _, gi := range allG {
		gl = append(gl, gi)
	}
	sort.Slice(gl, func(i, j int) bool { return gl[i].Name < gl[j].Name })
	mut := mutatedFields(p, ctx, gl)
	var mutDesc []string
	for gname, fs := range mut {
		for f := range fs {
			mutDesc = append(mutDesc, gname+"."+f)
		}
	}
	sort.Strings(mutDesc)
	r.Extra["in_place_fields"] = mutDesc
	r.Count("in-place gadget fields", len(mutDesc))
	r.Floor("in-place gadget fields", 2)
	checkOwnership(p, r, gl, mut, "O5.3")
	// ---- O5.4
	if perm != nil {
		checkPermutationShape(p, r, ctx, perm)
	}
}

// checkOwnership: at every call site of a gadget with an in-place field, the SSA value placed in that field must not be
// used by any instruction that can execute after the call.
func checkOwnership(p *core.Program, r *core.Report, gadgets []*gadgetInfo, mut map[string]map[string]string, rule string) {
	n := 0
	for _, g := range gadgets {
		for _, b := range g.Fn.Blocks {
			for _, in := range b.Instrs {
				call, ok := in.(*ssa.Call)
				if !ok {
					continue
				}
				callee := call.Common().StaticCallee()
				if callee == nil || callee.Pkg == nil || !strings.HasSuffix(callee.Pkg.Pkg.Path(), "abstractor") || len(call.Common().Args) != 2 {
					continue
				}
				mi, ok := call.Common().Args[1].(*ssa.MakeInterface)
				if !ok {
					continue
				}
				tname := typeKey(mi.X.Type())
				fields := mut[tname]
				if len(fields) == 0 {
					continue
				}
				// the composite literal: mi.X = load of alloc; find stores into its fields
				ld, ok := mi.X.(*ssa.UnOp)
				if !ok {
					continue
				}
				alloc, ok := ld.X.(*ssa.Alloc)
				if !ok {
					continue
				}
				for _, ref := range *alloc.Referrers() {
					fa, ok := ref.(*ssa.FieldAddr)
					if !ok {
						continue
					}
					fname := structFieldName(alloc.Type(), fa.Field)
					if _, inPlace := fields[fname]; !inPlace {
						continue
					}
					for _, fr := range *fa.Referrers() {
						st, ok := fr.(*ssa.Store)
						if !ok || st.Addr != fa {
							continue
						}
						n++
						v := st.Val
						cn := fmt.Sprintf("%s: %s.%s ← %s", core.FuncName(g.Fn), tname, fname, v.Name())
						var later []string
						if refs := v.Referrers(); refs != nil {
							// a loop-header phi denotes a new value in every iteration: only uses in the *same* iteration are
							// stale reads, so the walk from the call stops at the phi's own block
							var stop *ssa.BasicBlock
							if ph, isPhi := v.(*ssa.Phi); isPhi {
								stop = ph.Block()
							}
							after := reachableAfterUntil(call, stop)
							for _, u := range *refs {
								if u == st {
									continue
								}
								if _, isDbg := u.(*ssa.DebugRef); isDbg {
									continue
								}
								ub := u.Block()
								isAfter := after[ub]
								if ub == call.Block() {
									isAfter = isAfter || indexOf(ub, call) < indexOf(ub, u)
								}
								// a phi at a loop header that merges the value back is the loop-carried state, replaced by the call's result
								if _, isPhi := u.(*ssa.Phi); isPhi {
									continue
								}
								if isAfter {
									later = append(later, p.Pos(u.Pos()))
								}
							}
						}
						// phi operands: the slice must not be the loop's own carried value *and* read after the call in the body
						// the gadget value itself must not be read again (as a whole, for another call, or field-wise) after the call
						// unless the in-place field was re-assigned on the way: the callee's writes went to storage the holder still
						// points to under compilation, but to a private copy under extraction
						for _, at := range staleHolderReads(call, alloc, fa.Field) {
							later = append(later, p.Pos(at.Pos())+" (through the gadget value, whose field "+fname+" was not re-assigned since the call)")
						}
						r.Check(len(later) == 0, rule, cn, p.Pos(call.Pos()), "the slice is not used by the caller after the in-place call",
							"the caller reads the slice at "+strings.Join(later, ", ")+" after handing it to a gadget that overwrites it in place: under compilation it sees the callee's writes (the extracted Lean model, which deep-copies gadget inputs, does not)")
					}
				}
			}
		}
	}
	r.Count("in-place call sites", n)
	r.Floor("in-place call sites", 3)
}

// staleHolderReads: reads of holder.field (or of the whole holder struct) reachable from the call without passing a store to
// holder.field or the holder's own allocation (a fresh object per iteration).
func staleHolderReads(call *ssa.Call, holder *ssa.Alloc, field int) []ssa.Instruction {
	kills := map[ssa.Instruction]bool{holder: true}
	reads := map[ssa.Instruction]bool{}
	for _, ref := range *holder.Referrers() {
		switch x := ref.(type) {
		case *ssa.FieldAddr:
			if x.Field != field {
				continue
			}
			for _, fr := range *x.Referrers() {
				switch y := fr.(type) {
				case *ssa.Store:
					if y.Addr == x {
						kills[y] = true
					}
				case *ssa.UnOp:
					reads[y] = true
				}
			}
		case *ssa.UnOp:
			reads[x] = true
		case *ssa.Store:
			if x.Addr == holder {
				kills[x] = true
			}
		}
	}
	var out []ssa.Instruction
	seen := map[*ssa.BasicBlock]bool{}
	var walk func(b *ssa.BasicBlock, from int)
	walk = func(b *ssa.BasicBlock, from int) {
		for i := from; i < len(b.Instrs); i++ {
			in := b.Instrs[i]
			if kills[in] {
				return
			}
			if reads[in] {
				out = append(out, in)
				return
			}
		}
		for _, s := range b.Succs {
			if !seen[s] {
				seen[s] = true
				walk(s, 0)
			}
		}
	}
	walk(call.Block(), indexOf(call.Block(), call)+1)
	return out
}

// reachableAfterUntil: blocks reachable from the successors of in's block without entering stop.
func reachableAfterUntil(in ssa.Instruction, stop *ssa.BasicBlock) map[*ssa.BasicBlock]bool {
	seen := map[*ssa.BasicBlock]bool{}
	work := append([]*ssa.BasicBlock{}, in.Block().Succs...)
	for len(work) > 0 {
		b := work[len(work)-1]
		work = work[:len(work)-1]
		if seen[b] || b == stop {
			continue
		}
		seen[b] = true
		work = append(work, b.Succs...)
	}
	return seen
}

func structFieldName(ptrT types.Type, i int) string {
	t := types.Unalias(ptrT).Underlying()
	if pt, ok := t.(*types.Pointer); ok {
		t = types.Unalias(pt.Elem()).Underlying()
	}
	if st, ok := t.(*types.Struct); ok && i < st.NumFields() {
		return st.Field(i).Name()
	}
	return ""
}

// checkPermutationShape: O5.4.
func checkPermutationShape(p *core.Program, r *core.Report, ctx *circuitCtx, perm *gadgetInfo) {
	name := perm.Name + ".DefineGadget"
	// three nested μ: outermost = last loop
	type stage struct {
		loop   *tf.Loop
		gadget *tf.Term
	}
	var stages []stage
	cur := perm.Ret
	for cur.K == tf.KMu {
		if cur.Args[1].K != tf.KGadget {
			break
		}
		stages = append([]stage{{cur.Loop, cur.Args[1]}}, stages...)
		cur = cur.Args[0]
	}
	if len(stages) != 3 || !isRecv(cur) {
		r.Violation("O5.4", name+": round schedule", p.Pos(perm.Fn.Pos()), "the permutation is not three successive round loops threaded from the input state (found %d loops)", len(stages))
		return
	}
	inputsField, _ := recvFieldName(cur)
	// configuration term: base of .RF/.RP/.constants
	var cfg *tf.Term
	b0, _ := loopRangeZeroTo(stages[1].loop)
	if b0 != nil && b0.K == tf.KField {
		cfg = b0.Args[0]
	}
	if cfg == nil {
		r.Violation("O5.4", name+": round schedule", p.Pos(perm.Fn.Pos()), "the middle loop bound %s is not a configuration field", describe(b0))
		return
	}
	rpField := b0.Name
	b1, _ := loopRangeZeroTo(stages[0].loop)
	b3, _ := loopRangeZeroTo(stages[2].loop)
	half := func(t *tf.Term) (string, bool) {
		if t != nil && t.K == tf.KBin && t.Name == "/" && isConstInt(t.Args[1], 2) && t.Args[0].K == tf.KField && tf.Eq(t.Args[0].Args[0], cfg) {
			return t.Args[0].Name, true
		}
		return "", false
	}
	rf1, ok1 := half(b1)
	rf3, ok3 := half(b3)
	okBounds := ok1 && ok3 && rf1 == rf3 && rf1 != rpField
	r.Check(okBounds, "O5.4", name+": loop bounds RF/2, RP, RF/2", p.Pos(perm.Fn.Pos()), fmt.Sprintf("bounds cfg.%s/2, cfg.%s, cfg.%s/2", rf1, rpField, rf3), fmt.Sprintf("loop bounds are %s, %s, %s", describe(b1), describe(b0), describe(b3)))
	// full / partial / full gadget types
	okKinds := stages[0].gadget.Name == stages[2].gadget.Name && stages[0].gadget.Name != stages[1].gadget.Name
	r.Check(okKinds, "O5.4", name+": full–partial–full", p.Pos(perm.Fn.Pos()), stages[0].gadget.Name+" / "+stages[1].gadget.Name+" / "+stages[2].gadget.Name, "the three loops do not use (full, partial, full) round gadgets: "+stages[0].gadget.Name+" / "+stages[1].gadget.Name+" / "+stages[2].gadget.Name)
	// constant offsets
	constsField := ""
	offsetOK := true
	var offs []string
	for i, s := range stages {
		var idx *tf.Term
		for j, a := range s.gadget.Args {
			if a.K == tf.KIdx && a.Args[0].K == tf.KField && tf.Eq(a.Args[0].Args[0], cfg) {
				idx = a.Args[1]
				constsField = a.Args[0].Name
				_ = j
			}
		}
		if idx == nil {
			offsetOK = false
			offs = append(offs, "?")
			continue
		}
		iv := &tf.Term{K: tf.KIndVar, Loop: s.loop, Phi: s.loop.IV}
		off := tf.AffAdd(idx, iv, -1)
		offs = append(offs, describe(off))
		want := tf.ConstInt(0)
		if i >= 1 {
			want = tf.AffAdd(want, b1, 1)
		}
		if i == 2 {
			want = tf.AffAdd(want, b0, 1)
		}
		if !tf.Eq(off, want) {
			offsetOK = false
		}
	}
	r.Check(offsetOK, "O5.4", name+": round-constant offsets 0, RF/2, RF/2+RP", p.Pos(perm.Fn.Pos()), "constants["+strings.Join(offs, "+i], constants[")+"+i]", "round constants are indexed at offsets "+strings.Join(offs, ", ")+" (expected 0, RF/2, RF/2+RP): a round would reuse or skip a constant row")
	_ = constsField
	_ = inputsField
	r.Count("round loops", len(stages))
	r.Floor("round loops", 3)
	// RF / RP values per state width, through the configuration selector
	checkConfigValues(p, r, perm, rf1, rpField)
	// S-box degree and round shapes
	full := ctx.gadgetOfTerm(stages[0].gadget)
	part := ctx.gadgetOfTerm(stages[1].gadget)
	for _, rd := range []*gadgetInfo{full, part} {
		if rd == nil {
			continue
		}
		checkRoundShape(p, r, ctx, rd, rd == full)
	}
}

// returnsGlobalAddr: some return of fn yields the address of a package-level variable.
func returnsGlobalAddr(fn *ssa.Function) bool {
	for _, b := range fn.Blocks {
		if len(b.Instrs) == 0 {
			continue
		}
		if ret, ok := b.Instrs[len(b.Instrs)-1].(*ssa.Return); ok && len(ret.Results) >= 1 {
			if _, ok := ret.Results[0].(*ssa.Global); ok {
				return true
			}
		}
	}
	return false
}

func checkConfigValues(p *core.Program, r *core.Report, perm *gadgetInfo, rfField, rpField string) {
	// selector: in-repo function returning the address of a table depending on an int parameter
	var sel *ssa.Function
	for _, b := range perm.Fn.Blocks {
		for _, in := range b.Instrs {
			if c, ok := in.(*ssa.Call); ok {
				if sc := c.Common().StaticCallee(); sc != nil && sc.Pkg == perm.Fn.Pkg && len(sc.Params) == 1 && sc.Blocks != nil && sc.Signature.Recv() == nil {
					if returnsGlobalAddr(sc) {
						sel = sc
						continue
					}
					// a must-style wrapper around a (value, error) lookup: the table selection is in the function it hands
					// its parameter to
					for _, wb := range sc.Blocks {
						for _, wi := range wb.Instrs {
							if wc, ok := wi.(*ssa.Call); ok {
								if in := wc.Common().StaticCallee(); in != nil && in.Pkg == sc.Pkg && len(in.Params) == 1 && in.Blocks != nil && len(wc.Common().Args) == 1 && wc.Common().Args[0] == ssa.Value(sc.Params[0]) && returnsGlobalAddr(in) {
									sel = in
								}
							}
						}
					}
				}
			}
		}
	}
	if sel == nil {
		r.Undecided("O5.4", perm.Name+": configuration selector", p.Pos(perm.Fn.Pos()), "no in-package selector function from the state width to a configuration")
		return
	}
	sel2 := map[int64]string{}
	for _, b := range sel.Blocks {
		if len(b.Instrs) == 0 {
			continue
		}
		ifi, ok := b.Instrs[len(b.Instrs)-1].(*ssa.If)
		if !ok {
			continue
		}
		cmp, ok := ifi.Cond.(*ssa.BinOp)
		if !ok || cmp.Op != token.EQL {
			continue
		}
		c, ok := cmp.Y.(*ssa.Const)
		if !ok || c.Value == nil {
			continue
		}
		k, _ := constant.Int64Val(c.Value)
		tb := b.Succs[0]
		if len(tb.Instrs) > 0 {
			if ret, ok := tb.Instrs[len(tb.Instrs)-1].(*ssa.Return); ok && len(ret.Results) >= 1 {
				if gl, ok := ret.Results[0].(*ssa.Global); ok {
					sel2[k] = gl.Name()
				}
			}
		}
	}
	want := map[int64][2]int64{2: {8, 56}, 3: {8, 57}}
	for t, exp := range want {
		gname, ok := sel2[t]
		cn := fmt.Sprintf("poseidon configuration for state width %d", t)
		if !ok {
			r.Violation("O5.4", cn, p.Pos(sel.Pos()), "the selector has no case for width %d", t)
			continue
		}
		vals := globalInitInts(p, "prover/poseidon", gname)
		r.Count("configurations", 1)
		r.Check(vals[rfField] == exp[0] && vals[rpField] == exp[1], "O5.4", cn, p.Pos(sel.Pos()), fmt.Sprintf("%s: %s=%d %s=%d", gname, rfField, vals[rfField], rpField, vals[rpField]),
			fmt.Sprintf("%s has %s=%d %s=%d; the circomlib/iden3 parameters are RF=%d RP=%d", gname, rfField, vals[rfField], rpField, vals[rpField], exp[0], exp[1]))
	}
	r.Floor("configurations", 2)
}

// checkRoundShape: add-round-constants on every element, S-box on every element (full) or element 0 only (partial), then the
// MDS gadget on the state; S-box is x^5; MDS is row·state.
func checkRoundShape(p *core.Program, r *core.Report, ctx *circuitCtx, rd *gadgetInfo, full bool) {
	name := rd.Name + ".DefineGadget"
	recv := rd.Ev.Params[0]
	kind := "partial"
	if full {
		kind = "full"
	}
	var state, consts string
	arkOK := false
	nSboxAll, nSbox0 := 0, 0
	var sboxT *tf.Term
	for _, s := range rd.Ev.ExtStores() {
		a := s.Addr
		if a.K != tf.KIdx {
			continue
		}
		f, ok := fieldOf(a.Args[0], recv)
		if !ok {
			continue
		}
		idx := a.Args[1]
		v := s.Val
		switch {
		case isApi(v, "Add") && len(v.Args) == 2:
			// state[i] + consts[i]
			x, y := v.Args[0], v.Args[1]
			if x.K == tf.KIdx && y.K == tf.KIdx && tf.Eq(x.Args[1], idx) && tf.Eq(y.Args[1], idx) && idx.K == tf.KIndVar {
				fx, okx := fieldOf(x.Args[0], recv)
				fy, oky := fieldOf(y.Args[0], recv)
				if okx && oky && fx == f {
					if n, ok := loopRangeZeroTo(idx.Loop); ok && tf.Eq(n, tf.Len(tf.Field(recv, f))) {
						state, consts, arkOK = f, fy, true
					}
				}
			}
		case v.K == tf.KGadget && len(v.Args) == 1:
			in := v.Args[0]
			if in.K == tf.KIdx && tf.Eq(in.Args[1], idx) {
				if fi, ok := fieldOf(in.Args[0], recv); ok && fi == f {
					sboxT = v
					if idx.K == tf.KIndVar {
						if n, ok := loopRangeZeroTo(idx.Loop); ok && tf.Eq(n, tf.Len(tf.Field(recv, f))) {
							nSboxAll++
						}
					} else if isConstInt(idx, 0) {
						nSbox0++
					}
				}
			}
		}
	}
	r.Check(arkOK, "O5.4", name+": add round constants to every element", p.Pos(rd.Fn.Pos()), "state[i] += "+consts+"[i] for i in 0..len(state)-1", "the round does not add constants[i] to state[i] over the whole state")
	if full {
		r.Check(nSboxAll == 1 && nSbox0 == 0, "O5.4", name+": S-box on every element", p.Pos(rd.Fn.Pos()), "state[i] = sbox(state[i]) for all i", fmt.Sprintf("a full round must apply the S-box to every element (all-element loops: %d, element-0 sites: %d)", nSboxAll, nSbox0))
	} else {
		r.Check(nSbox0 == 1 && nSboxAll == 0, "O5.4", name+": S-box on element 0 only", p.Pos(rd.Fn.Pos()), "state[0] = sbox(state[0])", fmt.Sprintf("a partial round must apply the S-box to element 0 only (all-element loops: %d, element-0 sites: %d)", nSboxAll, nSbox0))
	}
	// returns mds{state}
	ret := rd.Ret
	okRet := ret.K == tf.KGadget && len(ret.Args) == 1 && isRecvField(ret.Args[0], state)
	r.Check(okRet, "O5.4", name+": MDS mix of the state", p.Pos(rd.Fn.Pos()), kind+" round returns "+ret.Name+"(state)", "the round does not return the MDS mix of its state: "+describe(ret))
	r.Count("round gadgets", 1)
	if sboxT != nil && full {
		if sb := ctx.gadgetOfTerm(sboxT); sb != nil {
			in := tf.Field(sb.Ev.Params[0], sboxT.Names[0])
			v, err := ttEval(sb.Ret, &ttEnv{vals: map[string]poly{in.Key(): psym("x")}})
			okDeg := err == nil && len(v) == 1 && v["x*x*x*x*x"] == 1
			why := "cannot evaluate"
			if err == nil {
				why = "the S-box computes " + v.key() + ", not x^5"
			}
			r.Check(okDeg, "O5.4", sb.Name+".DefineGadget: x^5", p.Pos(sb.Fn.Pos()), "monomial x^5", why)
		}
	}
	if okRet && full {
		if m := ctx.gadgetOfTerm(ret); m != nil {
			checkMDS(p, r, m)
		}
	}
}

func checkMDS(p *core.Program, r *core.Report, m *gadgetInfo) {
	name := m.Name + ".DefineGadget"
	ret := m.Ret
	ok := false
	why := "the MDS gadget does not return out[i] = Σ_j state[j]·M[i][j]: " + describe(ret)
	if ret.K == tf.KSeq && len(ret.Args) == 1 && ret.Args[0].K == tf.KStar {
		star := ret.Args[0]
		iv := &tf.Term{K: tf.KIndVar, Loop: star.Loop, Phi: star.Loop.IV}
		if len(star.Args) == 1 && star.Args[0].K == tf.KElem && tf.StarIndex(star) == iv.Key() {
			sum := star.Args[0].Args[0]
			if sum.K == tf.KMu && isConstInt(sum.Args[0], 0) && isApi(sum.Args[1], "Add") && len(sum.Args[1].Args) == 2 {
				jv := &tf.Term{K: tf.KIndVar, Loop: sum.Loop, Phi: sum.Loop.IV}
				add := sum.Args[1]
				var mul *tf.Term
				for _, a := range add.Args {
					if isApi(a, "Mul") {
						mul = a
					}
				}
				if mul != nil && len(mul.Args) == 2 {
					x, y := mul.Args[0], mul.Args[1]
					if !(x.K == tf.KIdx && isRecv(x.Args[0])) {
						x, y = y, x
					}
					okX := x.K == tf.KIdx && isRecv(x.Args[0]) && tf.Eq(x.Args[1], jv)
					okY := y.K == tf.KIdx && tf.Eq(y.Args[1], jv) && y.Args[0].K == tf.KIdx && tf.Eq(y.Args[0].Args[1], iv)
					ni, oki := loopRangeZeroTo(star.Loop)
					nj, okj := loopRangeZeroTo(sum.Loop)
					if okX && okY && oki && okj && tf.Eq(ni, tf.Len(x.Args[0])) && tf.Eq(nj, tf.Len(x.Args[0])) {
						ok = true
					} else if okX && y.K == tf.KIdx && tf.Eq(y.Args[1], iv) {
						why = "the matrix is indexed [j][i]: the transpose of the MDS matrix is applied"
					}
				}
			}
		}
	}
	r.Check(ok, "O5.4", name+": matrix-vector product orientation", p.Pos(m.Fn.Pos()), "out[i] = Σ_j state[j]·M[i][j] over the full state", why)
}

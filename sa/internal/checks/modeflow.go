package checks

import (
	"fmt"
	"go/constant"
	"go/token"
	"go/types"
	"sort"

	"golang.org/x/tools/go/ssa"

	"verif/sa/internal/core"
)

// modeflow enumerates, on SSA, the paths of a CLI action under the abstract fact "the --mode flag holds a string that is
// none of the accepted constants" and classifies how each path that has read the flag ends. It follows the flag value
// into in-repo functions (helpers such as validateMode(mode), opsFor(mode), proveFromJSON(ps, mode, data)), through
// comparisons, switch chains, slices.Contains over a constant table and comma-ok lookups in a constant-keyed map, so the
// rule does not depend on where the comparison with the accepted modes is written.

type mvKind int

const (
	mvUnknown mvKind = iota
	mvMode           // the flag's value: a string different from every accepted constant
	mvStr            // a constant string
	mvNil            // nil error / pointer / func
	mvNonNil         // certainly non-nil error
	mvBool
	mvTuple
	mvFunc
	mvCell // address of a local variable's cell
)

type mval struct {
	k    mvKind
	mode bool // derives from the --mode flag (fixed-mode walks)
	s    string
	b    bool
	tup  []mval
	fn   *ssa.Function
	bind []mval
	cell string
}

type mFrame struct {
	id   int
	fn   *ssa.Function
	env  map[ssa.Value]mval
	free []mval
	args []mval
}

func (f *mFrame) clone() *mFrame {
	g := *f
	g.env = make(map[ssa.Value]mval, len(f.env))
	for k, v := range f.env {
		g.env[k] = v
	}
	return &g
}

type mPath struct {
	cells    map[string]mval
	modeRead bool
	stack    []*ssa.Function
	writes   []token.Pos // stdout writes executed so far on this path (stdout-flow walks)
}

func (pt *mPath) clone() *mPath {
	q := &mPath{cells: make(map[string]mval, len(pt.cells)), modeRead: pt.modeRead, stack: append([]*ssa.Function(nil), pt.stack...), writes: append([]token.Pos(nil), pt.writes...)}
	for k, v := range pt.cells {
		q.cells[k] = v
	}
	return q
}

type modeEnd struct {
	Class string // "fail", "success", "possibly-nil"
	Pos   token.Pos
}

type modeWalker struct {
	p        *core.Program
	fixed    *string                // when set, the flag holds this accepted constant (instead of "no accepted constant")
	called   map[*ssa.Function]bool // in-repo functions called on some path after the flag was read
	accepted map[string]bool
	steps    int
	maxSteps int
	nextID   int
	ends     map[string]modeEnd
	overflow bool
	inlined  map[string]bool
	so       *stdoutCfg // when set: count stdout writes per path (O19.5) instead of judging the mode flag
}

// stdoutCfg configures a stdout-flow walk: which calls write to stdout, which in-repo functions (transitively) contain
// such a call and are therefore followed, and where each path of the action ended with how many writes.
type stdoutCfg struct {
	isWrite func(*ssa.Call) bool
	has     map[*ssa.Function]bool
	ends    []soEnd
}

type soEnd struct {
	Class  string // "fail", "success", "possibly-nil"
	Pos    token.Pos
	Writes []token.Pos
}

func (mw *modeWalker) endPath(cls string, pos token.Pos, pt *mPath) {
	mw.end(cls, pos)
	if mw.so != nil {
		mw.so.ends = append(mw.so.ends, soEnd{cls, pos, append([]token.Pos(nil), pt.writes...)})
	}
}

// runStdoutFlow enumerates the paths of a command action and reports, per path end, whether the action's error is
// certainly nil / certainly non-nil / unknown there and which stdout writes ran before it.
func runStdoutFlow(p *core.Program, action *ssa.Function, cfg *stdoutCfg) *modeWalker {
	mw := &modeWalker{p: p, accepted: map[string]bool{}, maxSteps: 400000, ends: map[string]modeEnd{}, inlined: map[string]bool{}, so: cfg}
	if action == nil || len(action.Blocks) == 0 {
		return mw
	}
	fr := mw.newFrame(action, nil, nil)
	pt := &mPath{cells: map[string]mval{}, modeRead: true}
	mw.walk(fr, pt, action.Blocks[0], 0, nil, map[*ssa.BasicBlock]int{}, 0, func(fr *mFrame, pt *mPath, res []mval, pos token.Pos) {
		cls := "possibly-nil"
		if len(res) > 0 {
			switch res[len(res)-1].k {
			case mvNonNil:
				cls = "fail"
			case mvNil:
				cls = "success"
			}
		}
		mw.endPath(cls, pos, pt)
	})
	return mw
}

func runModeFlow(p *core.Program, action *ssa.Function, accepted map[string]bool) *modeWalker {
	mw := &modeWalker{p: p, accepted: accepted, maxSteps: 400000, ends: map[string]modeEnd{}, inlined: map[string]bool{}}
	if action == nil || len(action.Blocks) == 0 {
		return mw
	}
	fr := mw.newFrame(action, nil, nil)
	pt := &mPath{cells: map[string]mval{}}
	mw.walk(fr, pt, action.Blocks[0], 0, nil, map[*ssa.BasicBlock]int{}, 0, func(fr *mFrame, pt *mPath, res []mval, pos token.Pos) {
		if !pt.modeRead {
			return
		}
		cls := "possibly-nil"
		if len(res) > 0 {
			switch res[len(res)-1].k {
			case mvNonNil:
				cls = "fail"
			case mvNil:
				cls = "success"
			}
		}
		mw.end(cls, pos)
	})
	return mw
}

func (mw *modeWalker) end(cls string, pos token.Pos) {
	k := fmt.Sprintf("%s@%d", cls, pos)
	mw.ends[k] = modeEnd{cls, pos}
}

func (mw *modeWalker) Ends() []modeEnd {
	var out []modeEnd
	for _, e := range mw.ends {
		out = append(out, e)
	}
	sort.Slice(out, func(i, j int) bool {
		if out[i].Pos != out[j].Pos {
			return out[i].Pos < out[j].Pos
		}
		return out[i].Class < out[j].Class
	})
	return out
}

func (mw *modeWalker) newFrame(fn *ssa.Function, args, free []mval) *mFrame {
	mw.nextID++
	return &mFrame{id: mw.nextID, fn: fn, env: map[ssa.Value]mval{}, args: args, free: free}
}

func tainted(v mval) bool {
	if v.mode {
		return true
	}
	switch v.k {
	case mvMode:
		return true
	case mvTuple:
		for _, x := range v.tup {
			if tainted(x) {
				return true
			}
		}
	case mvFunc:
		for _, x := range v.bind {
			if tainted(x) {
				return true
			}
		}
	}
	return false
}

func isCLIContext(t types.Type) bool {
	if p, ok := t.(*types.Pointer); ok {
		t = p.Elem()
	}
	n, ok := types.Unalias(t).(*types.Named)
	return ok && n.Obj().Name() == "Context" && n.Obj().Pkg() != nil && n.Obj().Pkg().Path() == "github.com/urfave/cli/v2"
}

func (mw *modeWalker) val(fr *mFrame, pt *mPath, v ssa.Value) mval {
	switch x := v.(type) {
	case *ssa.Const:
		if x.Value == nil {
			return mval{k: mvNil}
		}
		switch x.Value.Kind() {
		case constant.String:
			return mval{k: mvStr, s: constant.StringVal(x.Value)}
		case constant.Bool:
			return mval{k: mvBool, b: constant.BoolVal(x.Value)}
		}
		return mval{}
	case *ssa.Parameter:
		for i, p := range fr.fn.Params {
			if p == x && i < len(fr.args) {
				return fr.args[i]
			}
		}
		return mval{}
	case *ssa.FreeVar:
		for i, f := range fr.fn.FreeVars {
			if f == x && i < len(fr.free) {
				return fr.free[i]
			}
		}
		return mval{}
	case *ssa.Function:
		return mval{k: mvFunc, fn: x}
	}
	if r, ok := fr.env[v]; ok {
		return r
	}
	return mval{}
}

// constStringSet: v denotes a slice whose elements are all constant strings (a local literal, or a package-level variable
// assigned exactly once, in init, from such a literal).
func (mw *modeWalker) constStringSet(v ssa.Value) ([]string, bool) {
	switch x := v.(type) {
	case *ssa.UnOp:
		if x.Op != token.MUL {
			return nil, false
		}
		g, ok := x.X.(*ssa.Global)
		if !ok {
			return nil, false
		}
		var src ssa.Value
		n := 0
		for _, fn := range mw.funcsWithInit(g.Pkg) {
			for _, b := range fn.Blocks {
				for _, in := range b.Instrs {
					if st, ok := in.(*ssa.Store); ok && st.Addr == ssa.Value(g) {
						n++
						src = st.Val
						if fn.Name() != "init" {
							return nil, false
						}
					}
				}
			}
		}
		if n != 1 || src == nil {
			return nil, false
		}
		return mw.constStringSet(src)
	case *ssa.Slice:
		a, ok := x.X.(*ssa.Alloc)
		if !ok || x.Low != nil || x.High != nil {
			return nil, false
		}
		at, ok := a.Type().(*types.Pointer).Elem().Underlying().(*types.Array)
		if !ok {
			return nil, false
		}
		var out []string
		for _, ref := range *a.Referrers() {
			switch r := ref.(type) {
			case *ssa.IndexAddr:
				for _, rr := range *r.Referrers() {
					st, ok := rr.(*ssa.Store)
					if !ok || st.Addr != ssa.Value(r) {
						return nil, false
					}
					c, ok := st.Val.(*ssa.Const)
					if !ok || c.Value == nil || c.Value.Kind() != constant.String {
						return nil, false
					}
					out = append(out, constant.StringVal(c.Value))
				}
			case *ssa.Slice:
			default:
				return nil, false
			}
		}
		if int64(len(out)) != at.Len() {
			return nil, false
		}
		return out, true
	}
	return nil, false
}

// constMapKeys: v is the load of a package-level map assigned once, in init, from a map literal with constant string keys
// and never updated elsewhere.
func (mw *modeWalker) constMapKeys(v ssa.Value) ([]string, bool) {
	ld, ok := v.(*ssa.UnOp)
	if !ok || ld.Op != token.MUL {
		return nil, false
	}
	g, ok := ld.X.(*ssa.Global)
	if !ok || g.Pkg == nil {
		return nil, false
	}
	init := g.Pkg.Func("init")
	if init == nil {
		return nil, false
	}
	var mk *ssa.MakeMap
	nStores := 0
	scan := func(fn *ssa.Function, isInit bool) bool {
		for _, b := range fn.Blocks {
			for _, in := range b.Instrs {
				switch x := in.(type) {
				case *ssa.Store:
					if x.Addr == ssa.Value(g) {
						nStores++
						if !isInit {
							return false
						}
						mk, _ = x.Val.(*ssa.MakeMap)
					}
				case *ssa.MapUpdate:
					if l, ok := x.Map.(*ssa.UnOp); ok && l.X == ssa.Value(g) {
						return false
					}
				}
			}
		}
		return true
	}
	for _, fn := range mw.funcsWithInit(g.Pkg) {
		if !scan(fn, fn == init) {
			return nil, false
		}
	}
	if nStores != 1 || mk == nil {
		return nil, false
	}
	var keys []string
	for _, ref := range *mk.Referrers() {
		switch r := ref.(type) {
		case *ssa.MapUpdate:
			c, ok := r.Key.(*ssa.Const)
			if !ok || c.Value == nil || c.Value.Kind() != constant.String {
				return nil, false
			}
			keys = append(keys, constant.StringVal(c.Value))
		case *ssa.Store:
		default:
			return nil, false
		}
	}
	return keys, true
}

func (mw *modeWalker) allAccepted(set []string) bool {
	for _, s := range set {
		if !mw.accepted[s] {
			return false
		}
	}
	return true
}

func (mw *modeWalker) cmp(fr *mFrame, pt *mPath, x *ssa.BinOp) mval {
	if x.Op != token.EQL && x.Op != token.NEQ {
		return mval{}
	}
	a, b := mw.val(fr, pt, x.X), mw.val(fr, pt, x.Y)
	eq, known := false, false
	switch {
	case a.k == mvMode && b.k == mvStr && mw.accepted[b.s], b.k == mvMode && a.k == mvStr && mw.accepted[a.s]:
		eq, known = false, true
	case a.k == mvStr && b.k == mvStr:
		eq, known = a.s == b.s, true
	case a.k == mvNil && b.k == mvNil:
		eq, known = true, true
	case (a.k == mvNil && b.k == mvNonNil) || (a.k == mvNonNil && b.k == mvNil):
		eq, known = false, true
	case a.k == mvBool && b.k == mvBool:
		eq, known = a.b == b.b, true
	}
	if !known {
		return mval{}
	}
	if x.Op == token.NEQ {
		eq = !eq
	}
	return mval{k: mvBool, b: eq}
}

// assume refines the frame after the branch on c was taken with the given truth value.
func (mw *modeWalker) assume(fr *mFrame, pt *mPath, c ssa.Value, truth bool) {
	fr.env[c] = mval{k: mvBool, b: truth}
	switch x := c.(type) {
	case *ssa.UnOp:
		if x.Op == token.NOT {
			mw.assume(fr, pt, x.X, !truth)
		}
	case *ssa.BinOp:
		if x.Op != token.EQL && x.Op != token.NEQ {
			return
		}
		eq := truth == (x.Op == token.EQL)
		a, b := mw.val(fr, pt, x.X), mw.val(fr, pt, x.Y)
		set := func(v ssa.Value, r mval) {
			switch v.(type) {
			case *ssa.Const, *ssa.Parameter, *ssa.FreeVar, *ssa.Function:
				return
			}
			fr.env[v] = r
			// a value just loaded from a cell refines the cell too (var err error captured by a closure)
			if ld, ok := v.(*ssa.UnOp); ok && ld.Op == token.MUL {
				if cv := mw.val(fr, pt, ld.X); cv.k == mvCell {
					pt.cells[cv.cell] = r
				}
			}
		}
		if a.k == mvNil && b.k == mvUnknown && isNilable(x.Y.Type()) {
			if eq {
				set(x.Y, mval{k: mvNil})
			} else {
				set(x.Y, mval{k: mvNonNil})
			}
		}
		if b.k == mvNil && a.k == mvUnknown && isNilable(x.X.Type()) {
			if eq {
				set(x.X, mval{k: mvNil})
			} else {
				set(x.X, mval{k: mvNonNil})
			}
		}
	}
}

func isNilable(t types.Type) bool {
	switch t.Underlying().(type) {
	case *types.Interface, *types.Pointer, *types.Signature, *types.Map, *types.Slice, *types.Chan:
		return true
	}
	return false
}

func (mw *modeWalker) walk(fr *mFrame, pt *mPath, b *ssa.BasicBlock, i int, prev *ssa.BasicBlock, visited map[*ssa.BasicBlock]int, depth int, ret func(*mFrame, *mPath, []mval, token.Pos)) {
	if mw.overflow {
		return
	}
	if i == 0 {
		if visited[b] >= 2 {
			return
		}
		visited[b]++
		defer func() { visited[b]-- }()
	}
	for ; i < len(b.Instrs); i++ {
		mw.steps++
		if mw.steps > mw.maxSteps {
			mw.overflow = true
			return
		}
		switch in := b.Instrs[i].(type) {
		case *ssa.Phi:
			for k, p := range b.Preds {
				if p == prev {
					fr.env[in] = mw.val(fr, pt, in.Edges[k])
				}
			}
		case *ssa.BinOp:
			fr.env[in] = mw.cmp(fr, pt, in)
		case *ssa.UnOp:
			switch in.Op {
			case token.NOT:
				if v := mw.val(fr, pt, in.X); v.k == mvBool {
					fr.env[in] = mval{k: mvBool, b: !v.b}
				}
			case token.MUL:
				if v := mw.val(fr, pt, in.X); v.k == mvCell {
					fr.env[in] = pt.cells[v.cell]
				}
			}
		case *ssa.Alloc:
			key := fmt.Sprintf("%d:%p", fr.id, in)
			fr.env[in] = mval{k: mvCell, cell: key}
			delete(pt.cells, key)
		case *ssa.Store:
			if a := mw.val(fr, pt, in.Addr); a.k == mvCell {
				pt.cells[a.cell] = mw.val(fr, pt, in.Val)
			}
		case *ssa.MakeInterface:
			// an interface made from a concrete value is never the nil interface
			v := mw.val(fr, pt, in.X)
			if isErrorType(in.Type()) {
				v = mval{k: mvNonNil}
			} else if v.k == mvNil {
				v = mval{}
			}
			fr.env[in] = v
		case *ssa.ChangeType:
			fr.env[in] = mw.val(fr, pt, in.X)
		case *ssa.ChangeInterface:
			fr.env[in] = mw.val(fr, pt, in.X)
		case *ssa.Convert:
			fr.env[in] = mw.val(fr, pt, in.X)
		case *ssa.MakeClosure:
			f, _ := in.Fn.(*ssa.Function)
			var bind []mval
			for _, bv := range in.Bindings {
				bind = append(bind, mw.val(fr, pt, bv))
			}
			fr.env[in] = mval{k: mvFunc, fn: f, bind: bind}
		case *ssa.Extract:
			if t := mw.val(fr, pt, in.Tuple); t.k == mvTuple && in.Index < len(t.tup) {
				fr.env[in] = t.tup[in.Index]
			}
		case *ssa.Lookup:
			if in.CommaOk && mw.val(fr, pt, in.Index).k == mvMode {
				if keys, ok := mw.constMapKeys(in.X); ok && mw.allAccepted(keys) {
					fr.env[in] = mval{k: mvTuple, tup: []mval{{}, {k: mvBool, b: false}}}
				}
			}
		case *ssa.Call:
			if mw.callInline(fr, pt, in, b, i, visited, depth, ret) {
				return
			}
		case *ssa.Jump:
			mw.walk(fr, pt, b.Succs[0], 0, b, visited, depth, ret)
			return
		case *ssa.If:
			c := mw.val(fr, pt, in.Cond)
			if c.k == mvBool {
				k := 1
				if c.b {
					k = 0
				}
				mw.walk(fr, pt, b.Succs[k], 0, b, visited, depth, ret)
				return
			}
			for k := 0; k < 2; k++ {
				f2, p2 := fr.clone(), pt.clone()
				mw.assume(f2, p2, in.Cond, k == 0)
				mw.walk(f2, p2, b.Succs[k], 0, b, visited, depth, ret)
			}
			return
		case *ssa.Return:
			var res []mval
			for _, rv := range in.Results {
				res = append(res, mw.val(fr, pt, rv))
			}
			ret(fr, pt, res, in.Pos())
			return
		case *ssa.Panic:
			if pt.modeRead {
				mw.endPath("fail", in.Pos(), pt)
			}
			return
		}
	}
}

// callInline evaluates a call. When the callee is followed, the rest of the block runs in the continuation and true is
// returned.
func (mw *modeWalker) callInline(fr *mFrame, pt *mPath, c *ssa.Call, b *ssa.BasicBlock, i int, visited map[*ssa.BasicBlock]int, depth int, ret func(*mFrame, *mPath, []mval, token.Pos)) bool {
	com := c.Common()
	var args []mval
	for _, a := range com.Args {
		args = append(args, mw.val(fr, pt, a))
	}
	var callee *ssa.Function
	var free []mval
	if !com.IsInvoke() {
		if sc := com.StaticCallee(); sc != nil {
			callee = sc
			if mc, ok := com.Value.(*ssa.MakeClosure); ok {
				free = mw.val(fr, pt, mc).bind
			}
		} else if fv := mw.val(fr, pt, com.Value); fv.k == mvFunc {
			callee, free = fv.fn, fv.bind
		}
	}
	setRes := func(r mval) { fr.env[c] = r }
	if mw.so != nil && mw.so.isWrite(c) {
		pt.writes = append(pt.writes, c.Pos())
	}
	if callee != nil {
		org := callee
		if o := callee.Origin(); o != nil {
			org = o
		}
		name := org.Name()
		pkg := ""
		if org.Pkg != nil {
			pkg = org.Pkg.Pkg.Path()
		}
		recvCLI := len(com.Args) > 0 && isCLIContext(com.Args[0].Type())
		switch {
		case recvCLI && pkg == "github.com/urfave/cli/v2" && name == "String" && len(args) == 2 && args[1].k == mvStr && args[1].s == "mode":
			pt.modeRead = true
			if mw.fixed != nil {
				setRes(mval{k: mvStr, s: *mw.fixed, mode: true})
			} else {
				setRes(mval{k: mvMode})
			}
			return false
		case pkg == "fmt" && name == "Errorf", pkg == "errors" && name == "New":
			setRes(mval{k: mvNonNil})
			return false
		case pkg == "os" && name == "Exit", pkg == "log" && (name == "Fatal" || name == "Fatalf" || name == "Fatalln"):
			if pt.modeRead {
				failing := true
				if pkg == "os" && len(com.Args) == 1 {
					if k, ok := com.Args[0].(*ssa.Const); ok && k.Value != nil && constantInt(k.Value) == 0 {
						failing = false
					}
				}
				if failing {
					mw.endPath("fail", c.Pos(), pt)
				} else {
					mw.endPath("success", c.Pos(), pt)
				}
			}
			return true // the path ends here
		case pkg == "slices" && name == "Contains" && len(args) == 2 && args[1].k == mvMode:
			if set, ok := mw.constStringSet(com.Args[0]); ok && mw.allAccepted(set) {
				setRes(mval{k: mvBool, b: false})
			}
			return false
		}
		if mw.called != nil && pt.modeRead && core.InRepo(pkgPathOf(callee)) {
			mw.called[callee] = true
		}
		follow := false
		if len(callee.Blocks) > 0 && core.InRepo(pkgPathOf(callee)) && depth < 8 {
			for k, a := range args {
				if tainted(a) || (k < len(com.Args) && isCLIContext(com.Args[k].Type())) {
					follow = true
				}
			}
			for _, f := range free {
				if tainted(f) {
					follow = true
				}
			}
			if mw.so != nil && mw.so.has[callee] {
				follow = true
			}
			for _, s := range pt.stack {
				if s == callee {
					follow = false
				}
			}
		}
		if follow {
			mw.inlined[callee.String()] = true
			nf := mw.newFrame(callee, args, free)
			pt.stack = append(pt.stack, callee)
			mw.walk(nf, pt, callee.Blocks[0], 0, nil, map[*ssa.BasicBlock]int{}, depth+1, func(_ *mFrame, p2 *mPath, res []mval, _ token.Pos) {
				f2 := fr.clone()
				p2 = p2.clone()
				p2.stack = p2.stack[:len(p2.stack)-1]
				switch len(res) {
				case 0:
				case 1:
					f2.env[c] = res[0]
				default:
					f2.env[c] = mval{k: mvTuple, tup: res}
				}
				mw.walk(f2, p2, b, i+1, nil, visited, depth, ret)
			})
			return true
		}
	}
	// not followed: results unknown
	setRes(mval{})
	return false
}

func pkgPathOf(fn *ssa.Function) string {
	if o := fn.Origin(); o != nil {
		fn = o
	}
	for fn.Parent() != nil {
		fn = fn.Parent()
	}
	if fn.Pkg != nil {
		return fn.Pkg.Pkg.Path()
	}
	return ""
}

func (mw *modeWalker) funcsWithInit(pkg *ssa.Package) []*ssa.Function {
	seen := map[*ssa.Function]bool{}
	var out []*ssa.Function
	for _, fn := range mw.p.RepoFuncs() {
		if !seen[fn] {
			seen[fn] = true
			out = append(out, fn)
		}
	}
	if pkg != nil {
		if init := pkg.Func("init"); init != nil && !seen[init] {
			out = append(out, init)
		}
	}
	return out
}

// calledUnderMode walks the action with the flag fixed to the accepted constant m and returns the in-repo functions called
// after the flag was read, on any path (helpers that receive the flag value are followed).
func calledUnderMode(p *core.Program, action *ssa.Function, accepted map[string]bool, m string) map[*ssa.Function]bool {
	mw := &modeWalker{p: p, accepted: accepted, maxSteps: 400000, ends: map[string]modeEnd{}, inlined: map[string]bool{}, fixed: &m, called: map[*ssa.Function]bool{}}
	if action == nil || len(action.Blocks) == 0 {
		return mw.called
	}
	fr := mw.newFrame(action, nil, nil)
	pt := &mPath{cells: map[string]mval{}}
	mw.walk(fr, pt, action.Blocks[0], 0, nil, map[*ssa.BasicBlock]int{}, 0, func(*mFrame, *mPath, []mval, token.Pos) {})
	// functions that were followed (they received the flag value) are dispatchers, not what the constant selects
	for fn := range mw.called {
		if mw.inlined[fn.String()] {
			delete(mw.called, fn)
		}
	}
	return mw.called
}

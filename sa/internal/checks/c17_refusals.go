package checks

import (
	"fmt"
	"go/constant"
	"go/token"
	"go/types"
	"sort"
	"strings"

	"golang.org/x/tools/go/ssa"

	"verif/sa/internal/core"
)

// checkExtractorRefusals decides O17.13: extraction succeeds for every dimension the circuits themselves support. The
// function that calls the extractor (and the functions between it and the CLI action) may validate its dimensions, but a
// test that refuses a depth in 1..31 (the deletion circuit's own guard is depth > 31) or a positive batch size takes away
// the model for dimensions at which the circuits still compile. Decided by constant propagation of concrete dimension
// values through the function's SSA (finite-domain evaluation, as for the Keccak padded length in C04): for every depth
// 1..31 and a few batch sizes, the branches whose conditions are integer forms of the parameters are followed; reaching a
// return that carries an error the function constructed itself, through decided branches only, is a refusal.
func checkExtractorRefusals(p *core.Program, r *core.Report) {
	var fns []*ssa.Function
	for _, fn := range p.RepoFuncs() {
		for _, b := range fn.Blocks {
			for _, in := range b.Instrs {
				if c, ok := in.(ssa.CallInstruction); ok {
					if sc := c.Common().StaticCallee(); sc != nil && sc.Pkg != nil && strings.HasSuffix(sc.Pkg.Pkg.Path(), "gnark-lean-extractor/v2/extractor") && sc.Name() == "ExtractCircuits" {
						fns = append(fns, fn)
					}
				}
			}
		}
	}
	if len(fns) == 0 {
		r.Violation("O17.13", "extractor call", "-", "no call of extractor.ExtractCircuits found")
		return
	}
	// callers of those functions inside the repository that hand two integer dimensions on (helpers between the action and
	// the extractor call)
	seen := map[*ssa.Function]bool{}
	for i := 0; i < len(fns); i++ {
		seen[fns[i]] = true
	}
	for i := 0; i < len(fns); i++ {
		for _, caller := range p.RepoFuncs() {
			if seen[caller] || caller.Parent() != nil {
				continue
			}
			for _, b := range caller.Blocks {
				for _, in := range b.Instrs {
					if c, ok := in.(ssa.CallInstruction); ok && c.Common().StaticCallee() == fns[i] && len(intParams(caller)) >= 2 && !seen[caller] {
						seen[caller] = true
						fns = append(fns, caller)
					}
				}
			}
		}
	}
	sort.Slice(fns, func(i, j int) bool { return fns[i].String() < fns[j].String() })
	for _, fn := range fns {
		ips := intParams(fn)
		name := core.FuncName(fn)
		r.AnalysedFn(name)
		if len(ips) < 2 {
			r.OK("O17.13", name+": refuses no supported dimension", p.Pos(fn.Pos()), "takes no (depth, batch) pair of its own")
			continue
		}
		var bad []string
		nEval := 0
		for d := int64(1); d <= 31; d++ {
			for _, bsz := range []int64{1, 2, 4, 7, 100} {
				nEval++
				env := map[ssa.Value]int64{ips[0]: d, ips[1]: bsz}
				if pos, refused := refusesConcrete(fn, env); refused {
					bad = append(bad, fmt.Sprintf("(depth %d, batch %d) is refused at %s", d, bsz, p.Pos(pos)))
				}
			}
		}
		r.Count("extractor dimension evaluations", nEval)
		if len(bad) == 0 {
			r.OK("O17.13", name+": refuses no supported dimension", p.Pos(fn.Pos()), "%d (depth, batch) pairs with depth 1..31 evaluated: no self-constructed error is reached through decided branches", nEval)
		} else {
			if len(bad) > 4 {
				bad = append(bad[:4], fmt.Sprintf("… and %d more", len(bad)-4))
			}
			r.Violation("O17.13", name+": refuses no supported dimension", p.Pos(fn.Pos()), "%s: the circuits compile at these dimensions (the deletion circuit's own guard is depth > 31), so the model for them can no longer be produced", strings.Join(bad, "; "))
		}
	}
}

func intParams(fn *ssa.Function) []*ssa.Parameter {
	var out []*ssa.Parameter
	for _, prm := range fn.Params {
		if b, ok := types.Unalias(prm.Type()).Underlying().(*types.Basic); ok && b.Info()&types.IsInteger != 0 {
			out = append(out, prm)
		}
	}
	return out
}

// refusesConcrete walks fn with the given integer values: true if a return carrying a self-constructed error is reached
// through branches that are all decided by those values.
func refusesConcrete(fn *ssa.Function, env0 map[ssa.Value]int64) (token.Pos, bool) {
	env := map[ssa.Value]int64{}
	for k, v := range env0 {
		env[k] = v
	}
	known := func(v ssa.Value) (int64, bool) {
		if k, ok := v.(*ssa.Const); ok && k.Value != nil && k.Value.Kind() == constant.Int {
			n, exact := constant.Int64Val(k.Value)
			return n, exact
		}
		n, ok := env[v]
		return n, ok
	}
	bools := map[ssa.Value]bool{}
	b := fn.Blocks[0]
	var prev *ssa.BasicBlock
	for steps := 0; steps < 500; steps++ {
		for _, in := range b.Instrs {
			switch x := in.(type) {
			case *ssa.Phi:
				for i, pr := range b.Preds {
					if pr == prev {
						if n, ok := known(x.Edges[i]); ok {
							env[x] = n
						}
						if bv, ok := bools[x.Edges[i]]; ok {
							bools[x] = bv
						}
						if k, ok := x.Edges[i].(*ssa.Const); ok && k.Value != nil && k.Value.Kind() == constant.Bool {
							bools[x] = constant.BoolVal(k.Value)
						}
					}
				}
			case *ssa.Convert:
				if n, ok := known(x.X); ok {
					if bt, isB := types.Unalias(x.Type()).Underlying().(*types.Basic); isB && bt.Info()&types.IsInteger != 0 {
						env[x] = truncInt(n, bt)
					}
				}
			case *ssa.ChangeType:
				if n, ok := known(x.X); ok {
					env[x] = n
				}
			case *ssa.UnOp:
				if x.Op == token.NOT {
					if bv, ok := bools[x.X]; ok {
						bools[x] = !bv
					}
				}
				if x.Op == token.SUB {
					if n, ok := known(x.X); ok {
						env[x] = -n
					}
				}
			case *ssa.BinOp:
				a, okA := known(x.X)
				c, okC := known(x.Y)
				if !okA || !okC {
					continue
				}
				bt, _ := types.Unalias(x.X.Type()).Underlying().(*types.Basic)
				switch x.Op {
				case token.ADD:
					env[x] = truncInt(a+c, bt)
				case token.SUB:
					env[x] = truncInt(a-c, bt)
				case token.MUL:
					env[x] = truncInt(a*c, bt)
				case token.SHL:
					if c >= 0 && c < 63 {
						env[x] = truncInt(a<<uint(c), bt)
					} else {
						env[x] = 0
					}
				case token.SHR:
					if c >= 0 && c < 63 {
						env[x] = a >> uint(c)
					}
				case token.QUO:
					if c != 0 {
						env[x] = a / c
					}
				case token.REM:
					if c != 0 {
						env[x] = a % c
					}
				case token.EQL:
					bools[x] = a == c
				case token.NEQ:
					bools[x] = a != c
				case token.LSS:
					bools[x] = a < c
				case token.LEQ:
					bools[x] = a <= c
				case token.GTR:
					bools[x] = a > c
				case token.GEQ:
					bools[x] = a >= c
				}
			case *ssa.If:
				bv, ok := bools[x.Cond]
				if !ok {
					return token.NoPos, false // a branch these values do not decide: nothing is claimed beyond it
				}
				prev = b
				if bv {
					b = b.Succs[0]
				} else {
					b = b.Succs[1]
				}
			case *ssa.Jump:
				prev = b
				b = b.Succs[0]
			case *ssa.Return:
				if len(x.Results) > 0 {
					ev := x.Results[len(x.Results)-1]
					if isErrorType(ev.Type()) && freshError(ev, 0) {
						return x.Pos(), true
					}
				}
				return token.NoPos, false
			case *ssa.Panic:
				return x.Pos(), true
			}
			if _, isIf := in.(*ssa.If); isIf {
				break
			}
			if _, isJ := in.(*ssa.Jump); isJ {
				break
			}
		}
		// (the loop above leaves via If/Jump having set b)
		if len(b.Instrs) == 0 {
			return token.NoPos, false
		}
	}
	return token.NoPos, false
}

func truncInt(n int64, bt *types.Basic) int64 {
	if bt == nil {
		return n
	}
	switch bt.Kind() {
	case types.Uint32:
		return int64(uint32(n))
	case types.Int32:
		return int64(int32(n))
	case types.Uint16:
		return int64(uint16(n))
	case types.Int16:
		return int64(int16(n))
	case types.Uint8:
		return int64(uint8(n))
	case types.Int8:
		return int64(int8(n))
	}
	return n
}

// freshError: the value is an error constructed here (fmt.Errorf / errors.New / a concrete error value).
func freshError(v ssa.Value, depth int) bool {
	if depth > 4 {
		return false
	}
	switch x := v.(type) {
	case *ssa.MakeInterface:
		return true
	case *ssa.Call:
		if sc := x.Common().StaticCallee(); sc != nil {
			n := sc.String()
			return n == "fmt.Errorf" || n == "errors.New"
		}
	case *ssa.Phi:
		for _, e := range x.Edges {
			if !freshError(e, depth+1) {
				return false
			}
		}
		return len(x.Edges) > 0
	}
	return false
}

package checks

import (
	"fmt"
	"go/ast"
	"go/token"
	"go/types"
	"golang.org/x/tools/go/ssa"
	"strings"

	"verif/sa/internal/core"
	"verif/sa/internal/flow"
)

func init() { Registry["C14"] = Check{Run: checkC14} }

// recvChanField: for a method body, find the receiver field that is the operand of close()/send (mode "signal") or of a
// receive (mode "wait").
func methodChanField(u flow.FuncUnit, mode string) (field string, how string) {
	info := u.Pkg.TypesInfo
	fd := u.Node.(*ast.FuncDecl)
	if fd.Recv == nil || len(fd.Recv.List) != 1 || len(fd.Recv.List[0].Names) != 1 {
		return "", ""
	}
	recv, _ := info.Defs[fd.Recv.List[0].Names[0]].(*types.Var)
	// sends inside a select that has a default clause are non-blocking: the signal is lost when nobody is receiving yet
	nonBlocking := map[*ast.SendStmt]bool{}
	ast.Inspect(fd.Body, func(n ast.Node) bool {
		sel, ok := n.(*ast.SelectStmt)
		if !ok {
			return true
		}
		hasDefault := false
		for _, c := range sel.Body.List {
			if cc, ok := c.(*ast.CommClause); ok && cc.Comm == nil {
				hasDefault = true
			}
		}
		if hasDefault {
			for _, c := range sel.Body.List {
				if cc, ok := c.(*ast.CommClause); ok {
					if ss, ok := cc.Comm.(*ast.SendStmt); ok {
						nonBlocking[ss] = true
					}
				}
			}
		}
		return true
	})
	ast.Inspect(fd.Body, func(n ast.Node) bool {
		switch x := n.(type) {
		case *ast.CallExpr:
			if id, ok := ast.Unparen(x.Fun).(*ast.Ident); ok && mode == "signal" {
				if b, ok := info.Uses[id].(*types.Builtin); ok && b.Name() == "close" && len(x.Args) == 1 {
					if f, ok := recvField(info, x.Args[0], recv); ok {
						field, how = f, "close"
					}
				}
			}
		case *ast.SendStmt:
			if mode == "signal" {
				if f, ok := recvField(info, x.Chan, recv); ok {
					field, how = f, "send"
					if nonBlocking[x] {
						how = "non-blocking send"
					}
				}
			}
		case *ast.UnaryExpr:
			if x.Op == token.ARROW && mode == "wait" {
				if f, ok := recvField(info, x.X, recv); ok {
					field, how = f, "receive"
				} else if call, ok := ast.Unparen(x.X).(*ast.CallExpr); ok && len(call.Args) == 0 {
					// <-job.Done(): an accessor of the same receiver whose body is `return job.closed`
					if sel, ok := ast.Unparen(call.Fun).(*ast.SelectorExpr); ok && identVar(info, sel.X) == recv {
						if m, ok := info.Uses[sel.Sel].(*types.Func); ok {
							for _, file := range u.Pkg.Syntax {
								for _, d := range file.Decls {
									md, ok := d.(*ast.FuncDecl)
									if !ok || info.Defs[md.Name] != types.Object(m) || md.Body == nil || len(md.Body.List) != 1 || md.Recv == nil || len(md.Recv.List) != 1 || len(md.Recv.List[0].Names) != 1 {
										continue
									}
									ret, ok := md.Body.List[0].(*ast.ReturnStmt)
									if !ok || len(ret.Results) != 1 {
										continue
									}
									mrecv, _ := info.Defs[md.Recv.List[0].Names[0]].(*types.Var)
									if f, ok := recvField(info, ret.Results[0], mrecv); ok {
										field, how = f, "receive"
									}
								}
							}
						}
					}
				}
			}
		}
		return true
	})
	return
}

func isBuiltinCall(info *types.Info, call *ast.CallExpr, name string) bool {
	id, ok := ast.Unparen(call.Fun).(*ast.Ident)
	if !ok {
		return false
	}
	b, ok := info.Uses[id].(*types.Builtin)
	return ok && b.Name() == name
}

func identVar(info *types.Info, e ast.Expr) *types.Var {
	id, ok := ast.Unparen(e).(*ast.Ident)
	if !ok {
		return nil
	}
	v, _ := info.ObjectOf(id).(*types.Var)
	return v
}

// isRecvFrom: n is (an ExprStmt / expression of) `<-v`.
func isRecvFrom(info *types.Info, n ast.Node, v *types.Var) bool {
	if es, ok := n.(*ast.ExprStmt); ok {
		n = es.X
	}
	if as, ok := n.(*ast.AssignStmt); ok && len(as.Rhs) == 1 {
		n = as.Rhs[0]
	}
	e, ok := n.(ast.Expr)
	if !ok {
		return false
	}
	u, ok := ast.Unparen(e).(*ast.UnaryExpr)
	return ok && u.Op == token.ARROW && identVar(info, u.X) == v
}

func methodCallOn(info *types.Info, call *ast.CallExpr, fn *types.Func) (recv ast.Expr, ok bool) {
	callee, _ := flow.Callee(info, call).(*types.Func)
	if callee == nil || callee.Origin() != fn {
		return nil, false
	}
	sel, ok := ast.Unparen(call.Fun).(*ast.SelectorExpr)
	if !ok {
		return nil, false
	}
	return sel.X, true
}

func checkC14(p *core.Program, r *core.Report) {
	r.Explanation = "Structural necessary conditions of graceful shutdown, covering every timing of the stop request: the happens-before chain AwaitStop returned => closed was closed => shutdown() returned => " +
		"http.Server.Shutdown(non-expiring context) returned. (O14.1) the shutdown closure calls Shutdown (never Close) on the very server whose ListenAndServe the start closure runs, with context.Background()/TODO(); " +
		"(O14.2) in SpawnJob the stop-waiting goroutine receives on stop as its first, unconditional operation, then calls shutdown, then closes closed (the only close of it); RequestStop signals stop, AwaitStop receives on closed; " +
		"(O14.3) the start closure treats http.ErrServerClosed as normal; (O14.4) CombineJobs requests stop on every job and then awaits every job, and Run combines all server jobs and returns the combination; " +
		"(O14.5) the CLI start commands call RequestStop then AwaitStop on Run's result before returning nil. Decided by dominance/ordering on go/cfg and resolved callees. Not decided: draining and port release inside net/http, timing."
	r.Rule("O14.1", "graceful Shutdown with a non-expiring context on the server that is being served; Close is never called")
	r.Rule("O14.2", "SpawnJob protocol: receive(stop) first and unconditional ≺ shutdown() ≺ close(closed), single close; RequestStop signals stop; AwaitStop waits for closed")
	r.Rule("O14.3", "start closure: only errors other than http.ErrServerClosed are fatal")
	r.Rule("O14.4", "CombineJobs: request all then await all; Run combines every spawned server job and returns the combination")
	r.Rule("O14.5", "CLI start commands: RequestStop ≺ AwaitStop ≺ return nil on server.Run's result")
	r.Trusted = append(r.Trusted, "Go memory model: a receive from a closed channel succeeds at any later time; close happens-before such a receive", "net/http Server.Shutdown closes listeners and waits for active connections")
	r.NotDecided = append(r.NotDecided, "connection draining and port release inside net/http", "signals delivered before signal.Notify is installed", "timing")

	ix := indexFuncs(p)
	sp := p.Pkg("server")
	if sp == nil {
		r.Violation("O14.2", "package server", "-", "package server not found")
		return
	}
	runFn, _ := sp.Types.Scope().Lookup("Run").(*types.Func)
	if runFn == nil {
		r.Violation("O14.4", "server.Run", "-", "anchor server.Run not found")
		return
	}
	jobT := namedOf(runFn.Type().(*types.Signature).Results().At(0).Type())
	if jobT == nil {
		r.Violation("O14.2", "server.Run result", "-", "server.Run does not return a named job type")
		return
	}
	// anchors RequestStop / AwaitStop
	var reqFn, awaitFn *types.Func
	for _, name := range []string{"RequestStop", "AwaitStop"} {
		obj, _, _ := types.LookupFieldOrMethod(types.NewPointer(jobT), true, sp.Types, name)
		if fn, ok := obj.(*types.Func); ok {
			if name == "RequestStop" {
				reqFn = fn
			} else {
				awaitFn = fn
			}
		}
	}
	if reqFn == nil || awaitFn == nil {
		r.Violation("O14.2", jobT.Obj().Name()+": RequestStop/AwaitStop", "-", "anchor methods RequestStop/AwaitStop not found on %s", jobT.Obj().Name())
		return
	}
	reqU, awaitU := ix.decls[reqFn], ix.decls[awaitFn]
	r.AnalysedFn(reqU.Name, awaitU.Name)
	stopField, how := methodChanField(reqU, "signal")
	closedField, _ := methodChanField(awaitU, "wait")
	r.Check(stopField != "" && how != "non-blocking send", "O14.2", "RequestStop: signals the stop channel", p.Pos(reqU.Node.Pos()), fmt.Sprintf("%s(%s)", how, stopField),
		fmt.Sprintf("RequestStop does not reliably signal a channel field of the job (%s %s): a non-blocking send is lost when the waiting goroutine has not reached its receive yet, so a stop that precedes start-up is never seen", how, stopField))
	r.Check(closedField != "" && closedField != stopField, "O14.2", "AwaitStop: waits for the closed channel", p.Pos(awaitU.Node.Pos()), "receive on "+closedField, fmt.Sprintf("AwaitStop does not receive on a channel field distinct from the stop channel (got %q, stop is %q)", closedField, stopField))
	if stopField == "" || closedField == "" {
		return
	}

	// SpawnJob: functions of the package that populate a job value's stop and closed fields with fresh channels (SSA: a
	// literal and field-by-field construction are the same stores)
	var spawnFn *types.Func
	var spawnSSA *ssa.Function
	nSpawn := 0
	for _, fn := range p.RepoFuncs() {
		if fn.Pkg == nil || fn.Pkg.Pkg != sp.Types || fn.Parent() != nil {
			continue
		}
		stopCh, closedCh := ssaJobConstructor(fn, jobT, stopField, closedField)
		if stopCh == nil {
			continue
		}
		nSpawn++
		spawnSSA = fn
		spawnFn, _ = fn.Object().(*types.Func)
		_ = spawnFn
		r.AnalysedFn(core.FuncName(fn))
		checkSpawnJobSSA(p, r, fn, stopCh, closedCh)
	}
	r.Count("job constructors (SpawnJob)", nSpawn)
	r.Floor("job constructors (SpawnJob)", 1)

	// no close/send on the closed field, or close of the stop field, elsewhere in the repository
	for _, u := range ix.all {
		info := u.Pkg.TypesInfo
		ast.Inspect(u.Node, func(n ast.Node) bool {
			call, ok := n.(*ast.CallExpr)
			if !ok || !isBuiltinCall(info, call, "close") || len(call.Args) != 1 {
				return true
			}
			if sel, ok := ast.Unparen(call.Args[0]).(*ast.SelectorExpr); ok {
				if v, ok := info.ObjectOf(sel.Sel).(*types.Var); ok && v.IsField() && v.Name() == closedField {
					if tv, ok := info.Types[sel.X]; ok && namedOf(tv.Type) == jobT {
						r.Violation("O14.2", u.Name+": close of the closed channel outside SpawnJob", p.Pos(call.Pos()), "the closed channel is closed through the job's field: AwaitStop could return before shutdown finished (or the channel is closed twice)")
					}
				}
			}
			return true
		})
	}

	// every call site of the job constructor: its two callbacks, as closures or named functions (SSA)
	var serverJobFns []*types.Func
	nSrv := 0
	usesHTTPServer := func(f *ssa.Function) bool {
		for _, b := range f.Blocks {
			for _, in := range b.Instrs {
				if c, ok := in.(ssa.CallInstruction); ok {
					if callee := c.Common().StaticCallee(); callee != nil && strings.HasPrefix(callee.String(), "(*net/http.Server).") {
						return true
					}
				}
			}
		}
		return false
	}
	for _, caller := range p.RepoFuncs() {
		if spawnSSA == nil {
			break
		}
		for _, b := range caller.Blocks {
			for _, in := range b.Instrs {
				call, ok := in.(*ssa.Call)
				if !ok || call.Common().StaticCallee() != spawnSSA || len(call.Common().Args) != 2 {
					continue
				}
				startA := activationOf(&ssa.CallCommon{Value: call.Common().Args[0]})
				shutA := activationOf(&ssa.CallCommon{Value: call.Common().Args[1]})
				if startA == nil || shutA == nil {
					r.Undecided("O14.1", core.FuncName(caller)+": job callbacks", p.Pos(call.Pos()), "start/shutdown arguments of the job constructor are not functions known at the call site: idiom not recognised")
					continue
				}
				cobj, _ := caller.Object().(*types.Func)
				if usesHTTPServer(startA.fn) || usesHTTPServer(shutA.fn) {
					startLit, _ := startA.fn.Syntax().(*ast.FuncLit)
					shutLit, _ := shutA.fn.Syntax().(*ast.FuncLit)
					u, okU := ix.decls[cobj]
					if startLit == nil || shutLit == nil || !okU {
						r.Undecided("O14.1", core.FuncName(caller)+": server job callbacks", p.Pos(call.Pos()), "the callbacks that serve and shut down the http.Server are not closures of the function that holds the server")
						continue
					}
					nSrv++
					r.AnalysedFn(u.Name)
					if cobj != nil {
						serverJobFns = append(serverJobFns, cobj)
					}
					checkServerClosures(p, r, u, startLit, shutLit)
				} else if caller.Pkg != nil && caller.Pkg.Pkg == sp.Types {
					// CombineJobs-like: the shutdown callback stops sub-jobs
					r.AnalysedFn(core.FuncName(caller))
					checkCombineSSA(p, r, caller, shutA, reqFn, awaitFn)
				}
			}
		}
	}
	r.Count("server job constructors (spawnServerJob)", nSrv)
	r.Floor("server job constructors (spawnServerJob)", 1)
	r.Floor("combine closures", 1)

	// http.Server.Close is called nowhere
	nClose := 0
	for _, u := range ix.all {
		info := u.Pkg.TypesInfo
		ast.Inspect(u.Node, func(n ast.Node) bool {
			if c, ok := n.(*ast.CallExpr); ok {
				if fn, ok := flow.Callee(info, c).(*types.Func); ok && fn.FullName() == "(*net/http.Server).Close" {
					nClose++
					r.Violation("O14.1", u.Name+": (*http.Server).Close", p.Pos(c.Pos()), "immediate Close drops in-flight requests; graceful shutdown requires Shutdown")
				}
			}
			return true
		})
	}
	// a shutdown hook that cancels request contexts aborts the requests Shutdown is supposed to wait for
	for _, fn := range p.RepoFuncs() {
		for _, b := range fn.Blocks {
			for _, in := range b.Instrs {
				c, ok := in.(ssa.CallInstruction)
				if !ok {
					continue
				}
				callee := c.Common().StaticCallee()
				if callee == nil || callee.String() != "(*net/http.Server).RegisterOnShutdown" || len(c.Common().Args) != 2 {
					continue
				}
				cancels := false
				arg := c.Common().Args[1]
				for {
					if ct, ok := arg.(*ssa.ChangeType); ok {
						arg = ct.X
						continue
					}
					break
				}
				if isNamed(arg.Type(), "context", "CancelFunc") {
					cancels = true
				}
				if mc, ok := arg.(*ssa.MakeClosure); ok {
					if cf, ok := mc.Fn.(*ssa.Function); ok {
						for _, bb := range cf.Blocks {
							for _, ii := range bb.Instrs {
								if cc, ok := ii.(*ssa.Call); ok && !cc.Common().IsInvoke() && isNamed(cc.Common().Value.Type(), "context", "CancelFunc") {
									cancels = true
								}
							}
						}
					}
				}
				if cancels {
					nClose++
					r.Violation("O14.1", core.FuncName(fn)+": RegisterOnShutdown(cancel)", p.Pos(c.Pos()), "a context cancel function runs as soon as Shutdown starts: the contexts of the in-flight requests are cancelled while Shutdown is waiting for exactly those requests to finish")
					continue
				}
				// any other hook: it runs while accepted requests are still being served; it may log, nothing else — a flag
				// it sets ("draining") is read by handlers that were accepted before the stop and changes their answer
				effects := ""
				var hookFn *ssa.Function
				switch h := arg.(type) {
				case *ssa.MakeClosure:
					hookFn, _ = h.Fn.(*ssa.Function)
				case *ssa.Function:
					hookFn = h
				}
				if hookFn == nil {
					effects = "a function value that cannot be resolved"
				} else {
					for _, bb := range hookFn.Blocks {
						for _, ii := range bb.Instrs {
							switch x := ii.(type) {
							case *ssa.Store:
								if _, local := x.Addr.(*ssa.Alloc); !local {
									effects = "a store to shared state at " + p.Pos(x.Pos())
								}
							case ssa.CallInstruction:
								pkg := ""
								if sc := x.Common().StaticCallee(); sc != nil {
									pkg = pkgPathOf(sc)
									if sc.Pkg == nil && sc.Signature.Recv() != nil {
										if n := namedOf(sc.Signature.Recv().Type()); n != nil && n.Obj().Pkg() != nil {
											pkg = n.Obj().Pkg().Path()
										}
									}
								} else if x.Common().IsInvoke() && x.Common().Method.Pkg() != nil {
									pkg = x.Common().Method.Pkg().Path()
								}
								if !(pkg == "github.com/rs/zerolog" || pkg == "log" || pkg == "fmt" || strings.HasSuffix(pkg, "/logging")) {
									name := "a call"
									if sc := x.Common().StaticCallee(); sc != nil {
										name = sc.String()
									}
									effects = name + " at " + p.Pos(x.Pos())
								}
							}
						}
					}
				}
				if effects != "" {
					nClose++
					r.Violation("O14.1", core.FuncName(fn)+": RegisterOnShutdown hook", p.Pos(c.Pos()), "the shutdown hook does more than log (%s): it runs as soon as the stop is requested, while requests accepted earlier are still in flight, and what it changes can alter or cut their responses", effects)
				}
			}
		}
	}
	if nClose == 0 {
		r.OK("O14.1", "repository: (*http.Server).Close is never called", "-", "0 call sites in %d functions", len(ix.all))
	}

	// Run: combines all server jobs
	runBody := runFn
	if rf := serverRunFn(p); rf != nil {
		if o, ok := rf.Object().(*types.Func); ok {
			runBody = o
		}
	}
	if runU, ok := ix.decls[runBody]; ok {
		r.AnalysedFn(runU.Name)
		checkRunCombines(p, r, runU, serverJobFns, jobT)
	}

	// CLI
	nCLI := 0
	for _, c := range cliCommands(p) {
		if c.Action.Node == nil {
			continue
		}
		su, runCall, via := servingUnit(ix, c, runFn)
		if runCall == nil {
			continue
		}
		nCLI++
		r.AnalysedFn(c.Action.Name)
		if via != nil {
			// the action must hand the helper's result back: `return helper(…)`
			r.AnalysedFn(su.Name)
			returned := false
			ast.Inspect(c.Action.Node, func(n ast.Node) bool {
				if ret, ok := n.(*ast.ReturnStmt); ok && len(ret.Results) == 1 && ast.Unparen(ret.Results[0]) == ast.Expr(via) {
					returned = true
				}
				return true
			})
			r.Check(returned, "O14.5", "main.cmd:"+c.Name+": result of "+su.Name+" is the action's result", p.Pos(via.Pos()), "return "+su.Name+"(…)", "the serving helper's result is not returned by the action: what happens after the servers stopped is not the helper's verdict")
		}
		sc := c
		sc.Action = su
		checkCLIStop(p, r, sc, runCall, reqFn, awaitFn)
	}
	r.Count("CLI server commands", nCLI)
	r.Floor("CLI server commands", 2)
}

// resolveFuncLit: e is a function literal or a local variable assigned exactly once from one.
func resolveFuncLit(info *types.Info, u flow.FuncUnit, e ast.Expr) *ast.FuncLit {
	if fl, ok := ast.Unparen(e).(*ast.FuncLit); ok {
		return fl
	}
	v := identVar(info, e)
	if v == nil {
		return nil
	}
	var lits []*ast.FuncLit
	n := 0
	ast.Inspect(u.Node, func(m ast.Node) bool {
		if as, ok := m.(*ast.AssignStmt); ok {
			for i, l := range as.Lhs {
				if identVar(info, l) == v && len(as.Rhs) == len(as.Lhs) {
					n++
					if fl, ok := ast.Unparen(as.Rhs[i]).(*ast.FuncLit); ok {
						lits = append(lits, fl)
					}
				}
			}
		}
		return true
	})
	if n == 1 && len(lits) == 1 {
		return lits[0]
	}
	return nil
}

func checkSpawnJob(p *core.Program, r *core.Report, u flow.FuncUnit, lit *ast.CompositeLit, jobT *types.Named, stopField, closedField string) {
	info := u.Pkg.TypesInfo
	// which locals populate the two fields
	var stopV, closedV *types.Var
	st, _ := jobT.Underlying().(*types.Struct)
	for i, el := range lit.Elts {
		name := ""
		var val ast.Expr
		if kv, ok := el.(*ast.KeyValueExpr); ok {
			if id, ok := kv.Key.(*ast.Ident); ok {
				name = id.Name
			}
			val = kv.Value
		} else if st != nil && i < st.NumFields() {
			name = st.Field(i).Name()
			val = el
		}
		switch name {
		case stopField:
			stopV = identVar(info, val)
		case closedField:
			closedV = identVar(info, val)
		}
	}
	if stopV == nil || closedV == nil || stopV == closedV {
		r.Undecided("O14.2", u.Name+": job literal", p.Pos(lit.Pos()), "the job literal does not populate %s and %s from two distinct local channels", stopField, closedField)
		return
	}
	// parameters of function type: the shutdown callback is the one called in the waiting goroutine
	fd := u.Node.(*ast.FuncDecl)
	funcParams := map[*types.Var]bool{}
	for _, f := range fd.Type.Params.List {
		for _, n := range f.Names {
			if v, ok := info.Defs[n].(*types.Var); ok {
				if _, ok := v.Type().Underlying().(*types.Signature); ok {
					funcParams[v] = true
				}
			}
		}
	}
	// the waiting goroutine
	var waitLit *ast.FuncLit
	nGo := 0
	ast.Inspect(fd.Body, func(n ast.Node) bool {
		if gs, ok := n.(*ast.GoStmt); ok {
			nGo++
			if fl, ok := ast.Unparen(gs.Call.Fun).(*ast.FuncLit); ok {
				closes := false
				ast.Inspect(fl, func(m ast.Node) bool {
					if c, ok := m.(*ast.CallExpr); ok && isBuiltinCall(info, c, "close") && len(c.Args) == 1 && identVar(info, c.Args[0]) == closedV {
						closes = true
					}
					return true
				})
				if closes {
					waitLit = fl
				}
			}
		}
		return true
	})
	cn := u.Name + ": stop-waiting goroutine"
	if waitLit == nil {
		r.Violation("O14.2", cn, p.Pos(fd.Pos()), "no goroutine in the job constructor closes the closed channel: AwaitStop would block forever")
		return
	}
	r.Count("stop-waiting goroutines", 1)
	wu := flow.FuncUnit{Pkg: u.Pkg, Node: waitLit, Name: u.Name + "$wait"}
	g := flow.NewGraph(wu)
	entry := g.Entry()
	var problems []string
	if len(entry.Nodes) == 0 || !isRecvFrom(info, entry.Nodes[0], stopV) {
		problems = append(problems, "its first operation is not an unconditional receive on the stop channel (a stop requested before start-up could be missed, or start-up blocks the wait)")
	}
	var recvLoc, shutLoc, closeLoc flow.Loc
	var haveShut, haveClose bool
	nClose := 0
	if len(entry.Nodes) > 0 {
		recvLoc = flow.Loc{B: entry, I: 0}
	}
	var shutCalls []*ast.CallExpr
	ast.Inspect(waitLit.Body, func(m ast.Node) bool {
		if c, ok := m.(*ast.CallExpr); ok {
			if v := identVar(info, c.Fun); v != nil && funcParams[v] {
				shutCalls = append(shutCalls, c)
			}
			if isBuiltinCall(info, c, "close") && len(c.Args) == 1 && identVar(info, c.Args[0]) == closedV {
				nClose++
				if l, ok := g.Locate(c); ok {
					closeLoc, haveClose = l, true
				}
			}
		}
		return true
	})
	if len(shutCalls) != 1 {
		problems = append(problems, fmt.Sprintf("expected exactly one call of a callback parameter (shutdown) in the goroutine, found %d", len(shutCalls)))
	} else if l, ok := g.Locate(shutCalls[0]); ok {
		shutLoc, haveShut = l, true
	}
	if haveShut && haveClose {
		if !g.LocDominates(recvLoc, shutLoc) {
			problems = append(problems, "shutdown() can run before the stop signal was received")
		}
		if !g.LocDominates(shutLoc, closeLoc) {
			problems = append(problems, "close(closed) is reachable without shutdown() having returned: AwaitStop could return while listeners are still open")
		}
		if closeLoc.B != nil && g.ReachableFrom(closeLoc)[closeLoc.B] {
			problems = append(problems, "close(closed) lies on a cycle (double close panics)")
		}
		// every path to the end of the goroutine closes closed
		for _, b := range g.FallsOff() {
			if !g.Dominates(closeLoc.B, b) {
				problems = append(problems, "the goroutine can end without closing closed: AwaitStop would block forever")
			}
		}
		for _, rt := range g.Returns() {
			if !g.LocDominates(closeLoc, rt.Loc) {
				problems = append(problems, "the goroutine can return without closing closed: AwaitStop would block forever")
			}
		}
	}
	// closes of closedV anywhere else in the constructor
	total := 0
	ast.Inspect(fd.Body, func(m ast.Node) bool {
		if c, ok := m.(*ast.CallExpr); ok && isBuiltinCall(info, c, "close") && len(c.Args) == 1 && identVar(info, c.Args[0]) == closedV {
			total++
		}
		return true
	})
	if total != 1 {
		problems = append(problems, fmt.Sprintf("closed is closed at %d sites (exactly one expected)", total))
	}
	// the start callback runs in its own goroutine: it is never called synchronously inside the waiting goroutine before the receive
	// (covered by 'first operation') and the constructor itself does not call a callback synchronously
	ast.Inspect(fd.Body, func(m ast.Node) bool {
		if fl, ok := m.(*ast.FuncLit); ok && fl != nil {
			return false
		}
		if gs, ok := m.(*ast.GoStmt); ok {
			_ = gs
			return false
		}
		if c, ok := m.(*ast.CallExpr); ok {
			if v := identVar(info, c.Fun); v != nil && funcParams[v] {
				problems = append(problems, "a callback ("+v.Name()+") is called synchronously in the constructor: a blocking start would prevent the job from ever being returned")
			}
		}
		return true
	})
	r.Check(len(problems) == 0, "O14.2", cn, p.Pos(waitLit.Pos()), "receive(stop) first ≺ shutdown() ≺ close(closed); single close; every exit closes closed", strings.Join(problems, "; "))
}

func checkServerClosures(p *core.Program, r *core.Report, u flow.FuncUnit, startLit, shutLit *ast.FuncLit) {
	info := u.Pkg.TypesInfo
	var served, shut *types.Var
	var shutCall *ast.CallExpr
	ast.Inspect(startLit, func(m ast.Node) bool {
		if c, ok := m.(*ast.CallExpr); ok {
			if fn, ok := flow.Callee(info, c).(*types.Func); ok {
				switch fn.FullName() {
				case "(*net/http.Server).ListenAndServe", "(*net/http.Server).Serve", "(*net/http.Server).ListenAndServeTLS", "(*net/http.Server).ServeTLS":
					if fn.Name() == "Serve" || fn.Name() == "ServeTLS" {
						// a listener bound before the serve loop registers it: a stop that is processed before Serve
						// runs finds nothing to close, Shutdown returns at once and AwaitStop returns with the address
						// still bound (ListenAndServe checks for shutdown *before* binding)
						r.Violation("O14.1", u.Name+": the serve call binds its own listener", p.Pos(c.Pos()), "the start closure serves on a listener created elsewhere (%s): when the stop is handled before the serve loop has registered that listener, Shutdown has nothing to close and waiting-for-stop returns while the address is still bound", fn.Name())
					}
					if sel, ok := ast.Unparen(c.Fun).(*ast.SelectorExpr); ok {
						served = identVar(info, sel.X)
					}
				}
			}
		}
		return true
	})
	ast.Inspect(shutLit, func(m ast.Node) bool {
		if c, ok := m.(*ast.CallExpr); ok {
			if fn, ok := flow.Callee(info, c).(*types.Func); ok && fn.FullName() == "(*net/http.Server).Shutdown" {
				if sel, ok := ast.Unparen(c.Fun).(*ast.SelectorExpr); ok {
					shut = identVar(info, sel.X)
					shutCall = c
				}
			}
		}
		return true
	})
	cn := u.Name + ": shutdown closure"
	switch {
	case served == nil:
		r.Violation("O14.1", u.Name+": start closure", p.Pos(startLit.Pos()), "start closure does not serve an http.Server held in a variable")
	case shutCall == nil:
		r.Violation("O14.1", cn, p.Pos(shutLit.Pos()), "shutdown closure does not call (*http.Server).Shutdown: in-flight requests are not drained and listeners not released before closed is signalled")
	case shut != served:
		r.Violation("O14.1", cn, p.Pos(shutCall.Pos()), "Shutdown is called on %s but ListenAndServe runs on %s", shut.Name(), served.Name())
	default:
		// context argument
		good := false
		detail := "context argument is not context.Background()/context.TODO(): a cancellable or expiring context cuts in-flight requests"
		if len(shutCall.Args) == 1 {
			if c, ok := ast.Unparen(shutCall.Args[0]).(*ast.CallExpr); ok {
				if fn, ok := flow.Callee(info, c).(*types.Func); ok && (fn.FullName() == "context.Background" || fn.FullName() == "context.TODO") {
					good = true
					detail = "Shutdown(" + fn.FullName() + "()) on the served server"
				}
			}
			if !good {
				// a context handed down as a parameter or captured variable: every in-repo origin must be
				// context.Background()/TODO()
				if fd, isDecl := u.Node.(*ast.FuncDecl); isDecl {
					if obj, _ := info.Defs[fd.Name].(*types.Func); obj != nil {
						if sf := p.SSA.FuncValue(obj); sf != nil {
							if sc := callAt(sf, shutCall.Lparen); sc != nil && len(sc.Common().Args) == 2 {
								os := ssaOriginsIP(p, sc.Common().Args[1], nil)
								all := len(os) > 0
								for _, o := range os {
									c, isCall := o.V.(*ssa.Call)
									if !isCall || c.Common().StaticCallee() == nil || (c.Common().StaticCallee().String() != "context.Background" && c.Common().StaticCallee().String() != "context.TODO") {
										all = false
										detail = "the shutdown context can be " + o.V.String() + ", not context.Background()/context.TODO(): a cancellable or expiring context cuts in-flight requests"
									}
								}
								if all {
									good = true
									detail = fmt.Sprintf("Shutdown(ctx) where every in-repo origin of ctx (%d) is context.Background()/TODO()", len(os))
								}
							}
						}
					}
				}
			}
		}
		r.Check(good, "O14.1", cn, p.Pos(shutCall.Pos()), detail, detail)
		// Shutdown must be on every path of the shutdown closure
		su := flow.FuncUnit{Pkg: u.Pkg, Node: shutLit, Name: u.Name + "$shutdown"}
		g := flow.NewGraph(su)
		if l, ok := g.Locate(shutCall); ok {
			all := true
			for _, b := range g.FallsOff() {
				if !g.Dominates(l.B, b) {
					all = false
				}
			}
			for _, rt := range g.Returns() {
				if !g.LocDominates(l, rt.Loc) {
					all = false
				}
			}
			r.Check(all, "O14.1", u.Name+": Shutdown on every path of the shutdown closure", p.Pos(shutCall.Pos()), "Shutdown dominates every exit of the closure", "the shutdown closure can finish without calling Shutdown")
		}
	}
	// O14.3: on the paths on which the serve call returned http.ErrServerClosed (the graceful outcome), no call that
	// never returns (panic, os.Exit, zerolog Fatal) is reachable. Decided by walking the closure's CFG from the serve call
	// with the conditions on the error resolved for that value: err != nil holds, err == / errors.Is ErrServerClosed hold.
	var serveCall *ast.CallExpr
	ast.Inspect(startLit.Body, func(m ast.Node) bool {
		if c, ok := m.(*ast.CallExpr); ok {
			if fn, ok := flow.Callee(info, c).(*types.Func); ok {
				switch fn.FullName() {
				case "(*net/http.Server).ListenAndServe", "(*net/http.Server).Serve", "(*net/http.Server).ListenAndServeTLS", "(*net/http.Server).ServeTLS":
					serveCall = c
				}
			}
		}
		return true
	})
	if serveCall != nil {
		su := flow.FuncUnit{Pkg: u.Pkg, Node: startLit, Name: u.Name + "$start"}
		g := flow.NewGraph(su)
		if loc, ok := g.Locate(serveCall); ok {
			isNil := func(e ast.Expr) bool {
				id, ok := ast.Unparen(e).(*ast.Ident)
				return ok && id.Name == "nil" && info.Uses[id] == types.Universe.Lookup("nil")
			}
			isErrVar := func(e ast.Expr) bool {
				v := identVar(info, e)
				return v != nil && isErrorType(v.Type())
			}
			atom := func(e ast.Expr) flow.Tri {
				e = ast.Unparen(e)
				switch x := e.(type) {
				case *ast.BinaryExpr:
					if x.Op != token.EQL && x.Op != token.NEQ {
						return flow.Unknown
					}
					var val flow.Tri = flow.Unknown
					switch {
					case (isErrVar(x.X) && isErrServerClosed(info, x.Y)) || (isErrVar(x.Y) && isErrServerClosed(info, x.X)):
						val = flow.True // err == ErrServerClosed
					case (isErrVar(x.X) && isNil(x.Y)) || (isErrVar(x.Y) && isNil(x.X)):
						val = flow.False // err == nil
					default:
						return flow.Unknown
					}
					if x.Op == token.NEQ {
						return val.Not()
					}
					return val
				case *ast.CallExpr:
					if fn, ok := flow.Callee(info, x).(*types.Func); ok && fn.FullName() == "errors.Is" && len(x.Args) == 2 && isErrServerClosed(info, x.Args[1]) {
						return flow.True
					}
				}
				return flow.Unknown
			}
			_, _, calls := g.ReturnsUnderFact(loc, atom)
			var fatal []string
			for _, c := range calls {
				if c != serveCall && flow.NeverReturns(info, c) {
					fatal = append(fatal, p.Pos(c.Pos()))
				}
			}
			r.Check(len(fatal) == 0, "O14.3", u.Name+": fatal path in start closure", p.Pos(serveCall.Pos()), "no panic/exit is reachable when the serve call returns http.ErrServerClosed", "the start closure panics/exits at "+strings.Join(fatal, ", ")+" also when the serve call returns http.ErrServerClosed: every graceful shutdown would crash the process")
			r.Count("fatal paths in start closures", 1)
		}
	}
}

func conjuncts(e ast.Expr) []ast.Expr {
	e = ast.Unparen(e)
	if b, ok := e.(*ast.BinaryExpr); ok && b.Op == token.LAND {
		return append(conjuncts(b.X), conjuncts(b.Y)...)
	}
	return []ast.Expr{e}
}

func isErrServerClosed(info *types.Info, e ast.Expr) bool {
	sel, ok := ast.Unparen(e).(*ast.SelectorExpr)
	if !ok {
		return false
	}
	v, ok := info.Uses[sel.Sel].(*types.Var)
	return ok && v.Pkg() != nil && v.Pkg().Path() == "net/http" && v.Name() == "ErrServerClosed"
}

func isNotErrServerClosed(info *types.Info, e ast.Expr) bool {
	e = ast.Unparen(e)
	if b, ok := e.(*ast.BinaryExpr); ok && b.Op == token.NEQ {
		return isErrServerClosed(info, b.X) || isErrServerClosed(info, b.Y)
	}
	if u, ok := e.(*ast.UnaryExpr); ok && u.Op == token.NOT {
		if c, ok := ast.Unparen(u.X).(*ast.CallExpr); ok {
			if fn, ok := flow.Callee(info, c).(*types.Func); ok && fn.FullName() == "errors.Is" && len(c.Args) == 2 {
				return isErrServerClosed(info, c.Args[1])
			}
		}
	}
	return false
}

func checkCombine(p *core.Program, r *core.Report, u flow.FuncUnit, shutLit *ast.FuncLit, reqFn, awaitFn *types.Func) {
	info := u.Pkg.TypesInfo
	r.Count("combine closures", 1)
	cn := u.Name + ": shutdown closure requests all then awaits all"
	// top-level statements of the closure
	type loopInfo struct {
		rs     *ast.RangeStmt
		over   *types.Var
		whole  bool
		method *types.Func
		direct bool
	}
	var loops []loopInfo
	var problems []string
	for _, st := range shutLit.Body.List {
		rs, ok := st.(*ast.RangeStmt)
		if !ok {
			// any other statement that calls the job methods is outside the recognised idiom
			ast.Inspect(st, func(m ast.Node) bool {
				if c, ok := m.(*ast.CallExpr); ok {
					if fn, _ := flow.Callee(info, c).(*types.Func); fn != nil && (fn.Origin() == reqFn || fn.Origin() == awaitFn) {
						problems = append(problems, fmt.Sprintf("%s is called outside a range loop over the jobs at %s", fn.Name(), p.Pos(c.Pos())))
					}
				}
				return true
			})
			continue
		}
		li := loopInfo{rs: rs, over: identVar(info, rs.X), whole: identVar(info, rs.X) != nil}
		valV := (*types.Var)(nil)
		if rs.Value != nil {
			valV = identVar(info, rs.Value)
		}
		keyV := (*types.Var)(nil)
		if rs.Key != nil {
			keyV = identVar(info, rs.Key)
		}
		for _, bs := range rs.Body.List {
			es, ok := bs.(*ast.ExprStmt)
			if !ok {
				continue
			}
			c, ok := es.X.(*ast.CallExpr)
			if !ok {
				continue
			}
			fn, _ := flow.Callee(info, c).(*types.Func)
			if fn == nil || (fn.Origin() != reqFn && fn.Origin() != awaitFn) {
				continue
			}
			sel, _ := ast.Unparen(c.Fun).(*ast.SelectorExpr)
			if sel == nil {
				continue
			}
			onElem := false
			if v := identVar(info, sel.X); v != nil && v == valV {
				onElem = true
			}
			if ie, ok := ast.Unparen(sel.X).(*ast.IndexExpr); ok && identVar(info, ie.X) == li.over && identVar(info, ie.Index) == keyV && keyV != nil {
				onElem = true
			}
			if onElem {
				li.method = fn.Origin()
				li.direct = true
			}
		}
		// conditional calls inside the loop body
		if li.method == nil {
			ast.Inspect(rs.Body, func(m ast.Node) bool {
				if c, ok := m.(*ast.CallExpr); ok {
					if fn, _ := flow.Callee(info, c).(*types.Func); fn != nil && (fn.Origin() == reqFn || fn.Origin() == awaitFn) {
						li.method = fn.Origin()
					}
				}
				return true
			})
		}
		if li.method != nil {
			loops = append(loops, li)
		}
	}
	var reqLoop, awaitLoop *loopInfo
	for i := range loops {
		if loops[i].method == reqFn && reqLoop == nil {
			reqLoop = &loops[i]
		}
		if loops[i].method == awaitFn && awaitLoop == nil {
			awaitLoop = &loops[i]
		}
	}
	switch {
	case reqLoop == nil:
		problems = append(problems, "no range loop requests stop on every job")
	case awaitLoop == nil:
		problems = append(problems, "no range loop awaits every job: the combined job reports closed while a sub-job may still be shutting down")
	default:
		if !reqLoop.direct || !awaitLoop.direct {
			problems = append(problems, "the stop/await call is not an unconditional statement on the loop's element")
		}
		if reqLoop.over == nil || reqLoop.over != awaitLoop.over {
			problems = append(problems, "the two loops do not range over the same (whole) jobs slice")
		}
		if reqLoop.rs.Pos() > awaitLoop.rs.Pos() {
			problems = append(problems, "jobs are awaited before stop was requested on all of them (deadlock for the later ones)")
		}
		if reqLoop.rs == awaitLoop.rs {
			problems = append(problems, "stop and await happen in one loop: servers shut down one after the other and a later job is still serving while an earlier one is awaited")
		}
		// the slice is the function's variadic/slice parameter or a local not reassigned
		fd := u.Node.(*ast.FuncDecl)
		isParam := false
		for _, f := range fd.Type.Params.List {
			for _, n := range f.Names {
				if info.Defs[n] == reqLoop.over {
					isParam = true
				}
			}
		}
		if !isParam {
			problems = append(problems, "the loops do not range over the constructor's jobs parameter")
		}
	}
	r.Check(len(problems) == 0, "O14.4", cn, p.Pos(shutLit.Pos()), "range jobs {RequestStop}; range jobs {AwaitStop} over the same parameter", strings.Join(problems, "; "))
}

func checkRunCombines(p *core.Program, r *core.Report, u flow.FuncUnit, serverJobFns []*types.Func, jobT *types.Named) {
	info := u.Pkg.TypesInfo
	isSrvJob := func(fn *types.Func) bool {
		for _, f := range serverJobFns {
			if fn != nil && fn.Origin() == f {
				return true
			}
		}
		return false
	}
	var jobVars []*types.Var
	ast.Inspect(u.Node, func(n ast.Node) bool {
		as, ok := n.(*ast.AssignStmt)
		if !ok || len(as.Rhs) != 1 || len(as.Lhs) != 1 {
			return true
		}
		if c, ok := ast.Unparen(as.Rhs[0]).(*ast.CallExpr); ok {
			if fn, _ := flow.Callee(info, c).(*types.Func); isSrvJob(fn) {
				if v := identVar(info, as.Lhs[0]); v != nil {
					jobVars = append(jobVars, v)
				}
			}
		}
		return true
	})
	r.Count("server jobs spawned in Run", len(jobVars))
	r.Floor("server jobs spawned in Run", 2)
	// every return returns a call whose arguments include all job vars
	fd := u.Node.(*ast.FuncDecl)
	nRet := 0
	ast.Inspect(fd.Body, func(n ast.Node) bool {
		if _, ok := n.(*ast.FuncLit); ok {
			return false
		}
		ret, ok := n.(*ast.ReturnStmt)
		if !ok || len(ret.Results) != 1 {
			return true
		}
		nRet++
		cn := u.Name + ": returned job combines every server job"
		var call *ast.CallExpr
		switch x := ast.Unparen(ret.Results[0]).(type) {
		case *ast.CallExpr:
			call = x
		case *ast.Ident:
			// variable assigned once from a call
			v := identVar(info, x)
			ast.Inspect(fd.Body, func(m ast.Node) bool {
				if as, ok := m.(*ast.AssignStmt); ok && len(as.Lhs) == 1 && len(as.Rhs) == 1 && identVar(info, as.Lhs[0]) == v {
					if c, ok := ast.Unparen(as.Rhs[0]).(*ast.CallExpr); ok {
						call = c
					}
				}
				return true
			})
		}
		if call == nil {
			r.Violation("O14.4", cn, p.Pos(ret.Pos()), "Run does not return the result of a combining call")
			return true
		}
		fn, _ := flow.Callee(info, call).(*types.Func)
		if fn == nil || !inRepoObj(fn) || isSrvJob(fn) {
			r.Violation("O14.4", cn, p.Pos(ret.Pos()), "Run returns a single server job (%s), so stopping it leaves the other listener open", types.ExprString(ret.Results[0]))
			return true
		}
		var missing []string
		for _, jv := range jobVars {
			found := false
			for _, a := range call.Args {
				if identVar(info, a) == jv {
					found = true
				}
			}
			if !found {
				missing = append(missing, jv.Name())
			}
		}
		r.Check(len(missing) == 0, "O14.4", cn, p.Pos(ret.Pos()), fmt.Sprintf("%s(%d jobs) returned", fn.Name(), len(jobVars)), "server job(s) "+strings.Join(missing, ", ")+" are not passed to the combining call: their listener is never shut down")
		return true
	})
	if nRet == 0 {
		r.Violation("O14.4", u.Name+": returned job combines every server job", p.Pos(fd.Pos()), "no return statement found")
	}
}

func checkCLIStop(p *core.Program, r *core.Report, c cliCommand, runCall *ast.CallExpr, reqFn, awaitFn *types.Func) {
	info := c.Pkg.TypesInfo
	cn := "main.cmd:" + c.Name + ": stop then await before returning"
	// instance variable
	var inst *types.Var
	ast.Inspect(c.Action.Node, func(n ast.Node) bool {
		if as, ok := n.(*ast.AssignStmt); ok && len(as.Rhs) == 1 && ast.Unparen(as.Rhs[0]) == ast.Expr(runCall) && len(as.Lhs) == 1 {
			inst = identVar(info, as.Lhs[0])
		}
		return true
	})
	if inst == nil {
		r.Violation("O14.5", cn, p.Pos(runCall.Pos()), "the job returned by server.Run is not kept: it can be neither stopped nor awaited")
		return
	}
	g := flow.NewGraph(c.Action)
	var reqLoc, awaitLoc flow.Loc
	var haveReq, haveAwait bool
	ast.Inspect(c.Action.Node, func(n ast.Node) bool {
		call, ok := n.(*ast.CallExpr)
		if !ok {
			return true
		}
		if x, ok := methodCallOn(info, call, reqFn); ok && identVar(info, x) == inst {
			if l, ok := g.Locate(call); ok {
				reqLoc, haveReq = l, true
			}
		}
		if x, ok := methodCallOn(info, call, awaitFn); ok && identVar(info, x) == inst {
			if l, ok := g.Locate(call); ok {
				awaitLoc, haveAwait = l, true
			}
		}
		return true
	})
	runLoc, _ := g.Locate(runCall)
	var problems []string
	if !haveReq {
		problems = append(problems, "RequestStop is never called on the running instance")
	}
	if !haveAwait {
		problems = append(problems, "AwaitStop is never called: the command returns (exit 0) while listeners may still be open and requests in flight")
	}
	if haveReq && haveAwait {
		if !g.LocDominates(reqLoc, awaitLoc) {
			problems = append(problems, "AwaitStop can be reached without RequestStop having been called (blocks forever)")
		}
		for _, rt := range g.Returns() {
			if g.LocReaches(runLoc, rt.Loc) && !g.LocDominates(awaitLoc, rt.Loc) {
				problems = append(problems, "return at "+p.Pos(rt.Ret.Pos())+" is reachable after server.Run without AwaitStop")
			}
		}
	}
	// the stop is triggered by a receive from a channel registered with signal.Notify(…, os.Interrupt)
	var sigCh *types.Var
	ast.Inspect(c.Action.Node, func(n ast.Node) bool {
		if call, ok := n.(*ast.CallExpr); ok {
			if fn, ok := flow.Callee(info, call).(*types.Func); ok && fn.FullName() == "os/signal.Notify" && len(call.Args) >= 2 {
				for _, a := range call.Args[1:] {
					if isOsVar(info, a, "Interrupt") {
						sigCh = identVar(info, call.Args[0])
					}
				}
			}
		}
		return true
	})
	// the handler stays installed until the servers have stopped: signal.Stop / signal.Reset before AwaitStop has returned
	// restores the default action, and a second SIGINT during the drain kills the process with requests in flight
	if haveAwait {
		ast.Inspect(c.Action.Node, func(n ast.Node) bool {
			call, ok := n.(*ast.CallExpr)
			if !ok {
				return true
			}
			fn, _ := flow.Callee(info, call).(*types.Func)
			if fn == nil {
				return true
			}
			unreg := fn.FullName() == "os/signal.Stop" || fn.FullName() == "os/signal.Reset"
			if !unreg && fn.Pkg() != nil && core.InRepo(fn.Pkg().Path()) {
				// in a helper the action calls (awaitShutdown)
				if sf := p.SSA.FuncValue(fn); sf != nil {
					for _, b := range sf.Blocks {
						for _, in := range b.Instrs {
							if sc, ok := in.(*ssa.Call); ok && sc.Common().StaticCallee() != nil {
								if nm := sc.Common().StaticCallee().String(); nm == "os/signal.Stop" || nm == "os/signal.Reset" {
									unreg = true
								}
							}
						}
					}
				}
			}
			if unreg {
				if l, ok := g.Locate(call); ok && g.LocReaches(l, awaitLoc) {
					problems = append(problems, "the SIGINT handler is unregistered at "+p.Pos(call.Pos())+" before AwaitStop has returned: a second SIGINT during the drain terminates the process and cuts the requests in flight")
				}
			}
			return true
		})
	}
	waiterOK := false
	if sigCh == nil && haveReq {
		// the wait may live in a helper (awaitShutdown(ctx)): a call, dominating RequestStop, of an in-repo function that
		// registers a channel for os.Interrupt and blocks on a receive from it on every path
		ast.Inspect(c.Action.Node, func(n ast.Node) bool {
			call, ok := n.(*ast.CallExpr)
			if !ok {
				return true
			}
			fn, _ := flow.Callee(info, call).(*types.Func)
			if fn == nil || fn.Pkg() == nil || !core.InRepo(fn.Pkg().Path()) {
				return true
			}
			if sf := p.SSA.FuncValue(fn); sf != nil && signalWaiter(sf) {
				if l, ok := g.Locate(call); ok && g.LocDominates(l, reqLoc) {
					waiterOK = true
				}
			}
			return true
		})
	}
	if waiterOK {
		// decided by the helper
	} else if sigCh == nil {
		problems = append(problems, "no signal.Notify(ch, os.Interrupt): SIGINT would kill the process instead of stopping the servers")
	} else if haveReq {
		// a receive from sigCh dominates RequestStop
		dom := false
		for _, b := range g.CFG.Blocks {
			for i, n := range b.Nodes {
				if isRecvFrom(info, n, sigCh) && g.LocDominates(flow.Loc{B: b, I: i}, reqLoc) {
					dom = true
				}
			}
		}
		if !dom {
			problems = append(problems, "RequestStop is not preceded by a receive from the SIGINT channel")
		}
	}
	r.Check(len(problems) == 0, "O14.5", cn, p.Pos(runCall.Pos()), "signal.Notify(os.Interrupt) → receive ≺ RequestStop ≺ AwaitStop ≺ every return after Run", strings.Join(problems, "; "))
}

// signalWaiter: fn registers a channel it makes with signal.Notify(ch, …, os.Interrupt, …) and every return of fn is
// dominated by a blocking receive from that channel (a plain receive, or a select without default one of whose cases
// receives from it).
func signalWaiter(fn *ssa.Function) bool {
	if len(fn.Blocks) == 0 {
		return false
	}
	base := func(v ssa.Value) ssa.Value {
		for {
			switch x := v.(type) {
			case *ssa.ChangeType:
				v = x.X
				continue
			case *ssa.MakeInterface:
				v = x.X
				continue
			}
			return v
		}
	}
	var ch ssa.Value
	for _, b := range fn.Blocks {
		for _, in := range b.Instrs {
			c, ok := in.(*ssa.Call)
			if !ok || c.Common().StaticCallee() == nil || c.Common().StaticCallee().String() != "os/signal.Notify" || len(c.Common().Args) < 2 {
				continue
			}
			// the variadic tail holds os.Interrupt
			hasInt := false
			if sl, ok := c.Common().Args[1].(*ssa.Slice); ok {
				if al, ok := sl.X.(*ssa.Alloc); ok {
					for _, ref := range *al.Referrers() {
						if ia, ok := ref.(*ssa.IndexAddr); ok {
							for _, rr := range *ia.Referrers() {
								if st, ok := rr.(*ssa.Store); ok {
									if ld, ok := base(st.Val).(*ssa.UnOp); ok {
										if g, ok := ld.X.(*ssa.Global); ok && g.Pkg != nil && g.Pkg.Pkg.Path() == "os" && g.Name() == "Interrupt" {
											hasInt = true
										}
									}
								}
							}
						}
					}
				}
			}
			if _, isMake := base(c.Common().Args[0]).(*ssa.MakeChan); hasInt && isMake {
				ch = base(c.Common().Args[0])
			}
		}
	}
	if ch == nil {
		return false
	}
	var recvBlocks []*ssa.BasicBlock
	for _, b := range fn.Blocks {
		for _, in := range b.Instrs {
			switch x := in.(type) {
			case *ssa.UnOp:
				if x.Op == token.ARROW && base(x.X) == ch {
					recvBlocks = append(recvBlocks, b)
				}
			case *ssa.Select:
				if !x.Blocking {
					continue
				}
				for _, st := range x.States {
					if st.Dir == types.RecvOnly && base(st.Chan) == ch {
						recvBlocks = append(recvBlocks, b)
					}
				}
			}
		}
	}
	if len(recvBlocks) == 0 {
		return false
	}
	for _, b := range fn.Blocks {
		if _, ok := b.Instrs[len(b.Instrs)-1].(*ssa.Return); !ok {
			continue
		}
		dom := false
		for _, rb := range recvBlocks {
			if rb == b || rb.Dominates(b) {
				dom = true
			}
		}
		if !dom {
			return false
		}
	}
	return true
}

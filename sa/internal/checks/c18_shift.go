package checks

import (
	"fmt"
	"go/token"
	"go/types"

	"golang.org/x/tools/go/ssa"

	"verif/sa/internal/core"
)

// O18.7 — powers of two of the depth are computed wide enough for depth 32.
//
// The statement quantifies over depths 1..32. A value 1 << (depth + c) computed in a type that cannot hold 2^(32+c)
// (uint32(1) << depth, int32(1) << (depth-1)) wraps to 0 or goes negative exactly at the top of that range, and whatever is
// derived from it — a leaf count, a range test, a mask — is wrong for every index there. Decided on SSA: the shift amount is
// followed through ± constants, conversions and φ to its leaves; a leaf is a depth quantity when it is a node's depth
// (field or accessor), the depth parameter of the direction predicate, or a parameter that the function stores into a
// node's depth field.

func (tm *treeModel) depthParam(v ssa.Value) bool {
	prm, ok := v.(*ssa.Parameter)
	if !ok {
		return false
	}
	fn := prm.Parent()
	if fn == tm.Pred && len(fn.Params) == 2 && prm == fn.Params[1] {
		return true
	}
	if refs := prm.Referrers(); refs != nil {
		for _, r := range *refs {
			if st, ok := r.(*ssa.Store); ok && st.Val == ssa.Value(prm) {
				if _, f, ok := fieldOfAddr(st.Addr); ok && (f == tm.DepFieldF || f == tm.DepFieldE) {
					return true
				}
			}
		}
	}
	return false
}

// shiftAmountOverDepth: amount = depth + c for a depth quantity; returns c.
func (tm *treeModel) shiftAmountOverDepth(v ssa.Value, depth int) (c int64, isDepth bool) {
	if depth > 8 {
		return 0, false
	}
	if tm.isDepthValue(v) || tm.depthParam(v) {
		return 0, true
	}
	switch x := v.(type) {
	case *ssa.Convert:
		return tm.shiftAmountOverDepth(x.X, depth+1)
	case *ssa.ChangeType:
		return tm.shiftAmountOverDepth(x.X, depth+1)
	case *ssa.BinOp:
		if x.Op == token.ADD || x.Op == token.SUB {
			if k, ok := x.Y.(*ssa.Const); ok && k.Value != nil {
				if c0, ok2 := tm.shiftAmountOverDepth(x.X, depth+1); ok2 {
					if x.Op == token.ADD {
						return c0 + k.Int64(), true
					}
					return c0 - k.Int64(), true
				}
			}
			if k, ok := x.X.(*ssa.Const); ok && k.Value != nil && x.Op == token.ADD {
				if c0, ok2 := tm.shiftAmountOverDepth(x.Y, depth+1); ok2 {
					return c0 + k.Int64(), true
				}
			}
		}
	case *ssa.Phi:
		var best int64
		found := false
		for _, e := range x.Edges {
			if c0, ok := tm.shiftAmountOverDepth(e, depth+1); ok {
				if !found || c0 > best {
					best = c0
				}
				found = true
			}
		}
		return best, found
	}
	return 0, false
}

func checkTreeShiftWidths(p *core.Program, r *core.Report, tm *treeModel) {
	sizes := types.SizesFor("gc", "amd64")
	n := 0
	for _, fn := range p.RepoFuncs() {
		if fn.Pkg != tm.pkg {
			continue
		}
		for _, b := range fn.Blocks {
			for _, in := range b.Instrs {
				bo, ok := in.(*ssa.BinOp)
				if !ok || bo.Op != token.SHL {
					continue
				}
				c, isDepth := tm.shiftAmountOverDepth(bo.Y, 0)
				if !isDepth {
					continue
				}
				bt, ok := types.Unalias(bo.Type()).Underlying().(*types.Basic)
				if !ok || bt.Info()&types.IsInteger == 0 {
					continue
				}
				n++
				bits := sizes.Sizeof(bt) * 8
				usable := bits
				if bt.Info()&types.IsUnsigned == 0 {
					usable = bits - 1
				}
				// the shifted operand: a constant k occupies bitlen(k) bits; anything else is taken as 1
				top := int64(1)
				if k, ok := bo.X.(*ssa.Const); ok && k.Value != nil && k.Int64() > 0 {
					top = 0
					for v := k.Int64(); v > 0; v >>= 1 {
						top++
					}
				}
				need := 32 + c + top // bits needed at depth 32
				cn := fmt.Sprintf("%s: %s << (depth%+d)", core.FuncName(fn), bo.X.Name(), c)
				if need <= usable {
					r.OK("O18.7", cn, p.Pos(bo.Pos()), "computed in %s: %d bits needed at depth 32, %d available", bt.Name(), need, usable)
				} else {
					r.Violation("O18.7", cn, p.Pos(bo.Pos()), "computed in %s: at depth 32 the value needs %d bits and the type holds %d — it wraps (or turns negative) at the top of the depth range the property covers, and every index test or mask derived from it is wrong there", bt.Name(), need, usable)
				}
			}
		}
	}
	r.Count("shifts by a depth quantity", n)
}

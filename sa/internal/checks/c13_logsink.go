package checks

import (
	"fmt"
	"go/token"
	"go/types"
	"sort"
	"strings"

	"golang.org/x/tools/go/ssa"

	"verif/sa/internal/core"
)

// checkLoggerSinkConcurrency (O13.6). Every request logs through the one package-level zerolog logger. zerolog does not
// serialise writes: it calls Write on its io.Writer once per event, from whichever goroutine logs, and documents that the
// logger is safe for concurrent use only if the writer is. *os.File is (one write(2) per call); a *bufio.Writer, a
// *bytes.Buffer or a *strings.Builder is not — two requests logging at the same instant corrupt its buffer (lost or torn
// lines, slice-bounds panics inside a request goroutine). Decided on SSA: at every construction of a zerolog logger in the
// repository (zerolog.New, Logger.Output) the writer's dynamic type is resolved through interface conversions, the
// ConsoleWriter's Out field and in-repo constructor functions; the known unsynchronised buffer types are violations,
// zerolog.SyncWriter and *os.File are accepted, anything else is left undecided only in the report text (not an alarm).
func checkLoggerSinkConcurrency(p *core.Program, r *core.Report) {
	n := 0
	var bad, seenOK []string
	for _, fn := range repoFuncsAndInstances(p) {
		for _, b := range fn.Blocks {
			for _, in := range b.Instrs {
				c, ok := in.(ssa.CallInstruction)
				if !ok {
					continue
				}
				sc := c.Common().StaticCallee()
				if sc == nil || sc.Pkg == nil || sc.Pkg.Pkg.Path() != "github.com/rs/zerolog" {
					continue
				}
				var w ssa.Value
				switch {
				case sc.Name() == "New" && sc.Signature.Recv() == nil && len(c.Common().Args) == 1:
					w = c.Common().Args[0]
				case sc.Name() == "Output" && sc.Signature.Recv() != nil && len(c.Common().Args) == 2:
					w = c.Common().Args[1]
				default:
					continue
				}
				n++
				verdict, what := writerConcurrency(w, 0)
				at := core.FuncName(fn) + " " + p.Pos(c.Pos())
				if verdict == "unsafe" {
					bad = append(bad, fmt.Sprintf("%s: the logger writes to %s, which is not safe for concurrent use", at, what))
				} else {
					seenOK = append(seenOK, what)
				}
			}
		}
	}
	r.Count("zerolog logger constructions", n)
	sort.Strings(bad)
	sort.Strings(seenOK)
	cn := "logger sinks: writer safe for concurrent use"
	if len(bad) == 0 {
		r.OK("O13.6", cn, "-", "%d logger construction(s); writers: %s", n, strings.Join(uniqStrings(seenOK), ", "))
	} else {
		r.Violation("O13.6", cn, "-", "%s: zerolog calls Write once per event from the goroutine that logs, so two overlapping requests write into the same unsynchronised buffer (lost or torn log lines, slice-bounds panics inside a request)", strings.Join(bad, "; "))
	}
}

// writerConcurrency classifies the dynamic type of an io.Writer value: "safe", "unsafe" or "unknown".
func writerConcurrency(v ssa.Value, depth int) (string, string) {
	if depth > 8 || v == nil {
		return "unknown", "an unresolved writer"
	}
	switch x := v.(type) {
	case *ssa.MakeInterface:
		return writerConcurrency(x.X, depth+1)
	case *ssa.ChangeInterface:
		return writerConcurrency(x.X, depth+1)
	case *ssa.ChangeType:
		return writerConcurrency(x.X, depth+1)
	case *ssa.Phi:
		res, what := "safe", ""
		for _, e := range x.Edges {
			v2, w2 := writerConcurrency(e, depth+1)
			if v2 == "unsafe" {
				return v2, w2
			}
			if v2 == "unknown" {
				res = "unknown"
			}
			what = w2
		}
		return res, what
	case *ssa.Call:
		if sc := x.Common().StaticCallee(); sc != nil {
			if sc.Pkg != nil && sc.Pkg.Pkg.Path() == "github.com/rs/zerolog" && sc.Name() == "SyncWriter" {
				return "safe", "zerolog.SyncWriter"
			}
			if len(sc.Blocks) > 0 && core.InRepo(pkgPathOf(sc)) {
				res, what := "safe", core.FuncName(sc)+"()"
				for _, b := range sc.Blocks {
					if ret, ok := b.Instrs[len(b.Instrs)-1].(*ssa.Return); ok && len(ret.Results) > 0 {
						v2, w2 := writerConcurrency(ret.Results[0], depth+1)
						if v2 == "unsafe" {
							return v2, w2
						}
						if v2 == "unknown" {
							res = "unknown"
						}
						what = w2
					}
				}
				return res, what
			}
		}
	case *ssa.UnOp:
		if x.Op == token.MUL {
			switch a := x.X.(type) {
			case *ssa.Alloc:
				// a composite literal: zerolog.ConsoleWriter{Out: …}
				if n := namedOf(a.Type()); n != nil && n.Obj().Pkg() != nil && n.Obj().Pkg().Path() == "github.com/rs/zerolog" && n.Obj().Name() == "ConsoleWriter" {
					if refs := a.Referrers(); refs != nil {
						for _, rf := range *refs {
							if fa, ok := rf.(*ssa.FieldAddr); ok && structFieldName(a.Type(), fa.Field) == "Out" && fa.Referrers() != nil {
								for _, r2 := range *fa.Referrers() {
									if st, ok := r2.(*ssa.Store); ok && st.Addr == ssa.Value(fa) {
										v2, w2 := writerConcurrency(st.Val, depth+1)
										return v2, "zerolog.ConsoleWriter over " + w2
									}
								}
							}
						}
					}
					return "safe", "zerolog.ConsoleWriter over its default (os.Stdout)"
				}
				// a local variable holding the writer: its stored values
				if refs := a.Referrers(); refs != nil {
					res, what, any := "safe", "", false
					for _, rf := range *refs {
						if st, ok := rf.(*ssa.Store); ok && st.Addr == ssa.Value(a) {
							any = true
							v2, w2 := writerConcurrency(st.Val, depth+1)
							if v2 == "unsafe" {
								return v2, w2
							}
							if v2 == "unknown" {
								res = "unknown"
							}
							what = w2
						}
					}
					if any {
						return res, what
					}
				}
			case *ssa.Global:
				if a.Pkg != nil && a.Pkg.Pkg.Path() == "os" && (a.Name() == "Stdout" || a.Name() == "Stderr") {
					return "safe", "os." + a.Name()
				}
			}
		}
	}
	return writerTypeConcurrency(v.Type())
}

func writerTypeConcurrency(t types.Type) (string, string) {
	name := types.TypeString(t, nil)
	switch name {
	case "*os.File":
		return "safe", "*os.File"
	case "*bufio.Writer", "*bufio.ReadWriter", "*bytes.Buffer", "*strings.Builder", "bufio.ReadWriter":
		return "unsafe", "a " + name
	}
	if n := namedOf(t); n != nil && n.Obj().Pkg() != nil && n.Obj().Pkg().Path() == "github.com/rs/zerolog" && n.Obj().Name() == "ConsoleWriter" {
		return "unknown", "zerolog.ConsoleWriter"
	}
	return "unknown", "a writer of type " + name
}

package checks

import (
	"fmt"
	"go/ast"
	"go/token"
	"go/types"
	"sort"
	"strings"

	"golang.org/x/tools/go/ssa"

	"verif/sa/internal/core"
	"verif/sa/internal/flow"
	"verif/sa/internal/tf"
)

func init() { Registry["C20"] = Check{Run: checkC20} }

func callNameHasSuffix(t *tf.Term, suffix string) bool {
	return t != nil && t.K == tf.KCall && strings.HasSuffix(t.Name, suffix)
}

func constStr(t *tf.Term) (string, bool) {
	if t != nil && t.K == tf.KConst && t.Val != nil && t.Val.Kind().String() == "String" {
		return strings.Trim(t.Val.ExactString(), "\""), true
	}
	return "", false
}

func checkC20(p *core.Program, r *core.Report) {
	r.Explanation = "The conservation law 'request totals = responses sent, in-flight gauge back to zero' lives inside promhttp; the repository decides whether the /prove handler is inside it. Structural necessary conditions: " +
		"(O20.1) in server.Run the http.Server bound to the prover address serves the instrumented mux built over the registry, the server bound to the metrics address serves promhttp.HandlerFor(the same registry) at /metrics, and they are two distinct servers both started; " +
		"(O20.2) the /prove handler value flows to the instrumented mux's Handle and nowhere else, and nothing is registered on net/http's default mux; " +
		"(O20.3) in that Handle the handler registered on the inner mux is the root of a wrapper chain containing promhttp.InstrumentHandlerInFlight(gauge http_requests_in_flight) and promhttp.InstrumentHandlerCounter(counter vector http_requests_total with labels {method, code}) around the handler parameter, " +
		"both collectors created through promauto.With(WrapRegistererWith(…, the mux's registry)), the registry being the constructor's parameter, and the mux serves the same inner mux it registers on; " +
		"(O20.4) the handler writes one status per request (C09 O9.1). Not decided: counting inside promhttp, gauge decrement on panics, scrape availability under load."
	r.Rule("O20.1", "prover server serves the instrumented mux; metrics server serves HandlerFor(same registry) at /metrics; two distinct servers, both started")
	r.Rule("O20.2", "the /prove handler is registered only through the instrumented mux; nothing on the default mux")
	r.Rule("O20.7", "the /metrics handler is not throttled (no MaxRequestsInFlight, no Timeout): it stays available to concurrent and slow scrapes while proofs are generated")
	r.Rule("O20.8", "the request path does not push the response out itself (Flush / Hijack): the client gets it only after the wrappers counted the request")
	r.Rule("O20.6", "no lock taken by a registered metrics collector callback is held by the request path across the proving step")
	r.Rule("O20.5", "the prover server sets no write deadline (WriteTimeout): a counted response must still be sendable however long the proof takes")
	r.Rule("O20.4", "the handler sets exactly one status per request on every path (the counter records the last WriteHeader)")
	r.Rule("O20.3", "instrumentation chain: InFlight(gauge) and Counter(counter vec {method, code}) around the handler, collectors registered on the served registry")
	r.Trusted = append(r.Trusted, "promhttp.InstrumentHandlerCounter/InFlight count each request once by (method, code) and decrement the gauge on return", "promauto registers collectors on the given registerer", "net/http routes by longest pattern")
	r.NotDecided = append(r.NotDecided, "counting inside promhttp", "gauge decrement when the handler panics", "scrape availability under load")

	run := serverRunFn(p)
	if run == nil {
		r.Violation("O20.1", "anchor server.Run", "-", "not found")
		return
	}
	eng := tf.NewEngine(core.InRepo, 6)
	ev := eng.NewEval(run)
	r.AnalysedFn(core.FuncName(run))
	events := ev.Events()
	cfgT := ev.Params[0]
	for i, prm := range run.Params {
		// the configuration: the parameter whose type is a struct of the server's own package
		if n := namedOf(prm.Type()); n != nil && n.Obj().Pkg() != nil && run.Pkg != nil && n.Obj().Pkg() == run.Pkg.Pkg {
			if _, isStruct := n.Underlying().(*types.Struct); isStruct && i < len(ev.Params) {
				cfgT = ev.Params[i]
				break
			}
		}
	}
	// http.Server literals: calls whose argument is an allocation of net/http.Server, or stores; find via events' args
	type srv struct {
		alloc *tf.Term
		rec   *tf.Term
	}
	servers := map[string]srv{}
	var visit func(t *tf.Term)
	visit = func(t *tf.Term) {
		tf.Walk(t, func(x *tf.Term) bool {
			if x.K == tf.KAlloc {
				if at := ev.AllocType(x); at != nil && isNamed(at, "net/http", "Server") {
					if _, ok := servers[x.Key()]; !ok {
						servers[x.Key()] = srv{x, ev.Deref(x)}
					}
				}
			}
			return true
		})
	}
	for _, e := range events {
		visit(e.Term)
	}
	ev.WalkActivations(func(act *tf.Eval) {
		for _, b := range act.Fn.Blocks {
			for _, in := range b.Instrs {
				if a, ok := in.(*ssa.Alloc); ok {
					visit(act.Term(a))
				}
			}
		}
	})
	// spawned servers: the alloc must be the receiver of a ListenAndServe reachable through the job constructor; we accept
	// "passed to an in-repo function that was inlined" — i.e. appears as receiver of ListenAndServe in some event
	started := map[string]bool{}
	for _, e := range events {
		if callNameHasSuffix(e.Term, "net/http.Server).ListenAndServe") && len(e.Term.Args) > 0 {
			started[e.Term.Args[0].Key()] = true
		}
	}
	// closures are not inlined: also scan the SSA of functions that receive the server for ListenAndServe on their parameter
	for _, fn := range p.RepoFuncs() {
		for _, b := range fn.Blocks {
			for _, in := range b.Instrs {
				if c, ok := in.(*ssa.Call); ok {
					if sc := c.Common().StaticCallee(); sc != nil && sc.String() == "(*net/http.Server).ListenAndServe" {
						// which parameter / free variable of the enclosing top-level function
						root := fn
						for root.Parent() != nil {
							root = root.Parent()
						}
						for _, e := range events {
							_ = e
						}
						for i, prm := range root.Params {
							if isNamed(prm.Type(), "net/http", "Server") {
								// call sites of root in Run
								for _, bb := range run.Blocks {
									for _, ii := range bb.Instrs {
										if cc, ok := ii.(*ssa.Call); ok && cc.Common().StaticCallee() == root && i < len(cc.Common().Args) {
											started[ev.Term(cc.Common().Args[i]).Key()] = true
										}
									}
								}
							}
						}
					}
				}
			}
		}
	}
	// general form: in every activation reached from Run, a closure whose body calls ListenAndServe on a captured variable
	// starts whatever that variable is bound to in the activation (a parameter's argument, or a server built there)
	ev.WalkActivations(func(act *tf.Eval) {
		for _, b := range act.Fn.Blocks {
			for _, in := range b.Instrs {
				mc, ok := in.(*ssa.MakeClosure)
				if !ok {
					continue
				}
				cl, _ := mc.Fn.(*ssa.Function)
				if cl == nil {
					continue
				}
				for _, cb := range cl.Blocks {
					for _, ci := range cb.Instrs {
						c, ok := ci.(*ssa.Call)
						if !ok || c.Common().StaticCallee() == nil || c.Common().StaticCallee().String() != "(*net/http.Server).ListenAndServe" || len(c.Common().Args) == 0 {
							continue
						}
						recv := c.Common().Args[0]
						if u, isLoad := recv.(*ssa.UnOp); isLoad && u.Op == token.MUL {
							recv = u.X
						}
						for k, fv := range cl.FreeVars {
							if ssa.Value(fv) != recv || k >= len(mc.Bindings) {
								continue
							}
							t := act.Term(mc.Bindings[k])
							if at := act.AllocType(t); at != nil {
								if _, isPtr := at.(*types.Pointer); isPtr { // the captured variable's cell: take what it holds
									t = act.Deref(t)
								}
							}
							started[t.Key()] = true
						}
					}
				}
			}
		}
	})
	var prover, metrics *srv
	for k := range servers {
		s := servers[k]
		addr := s.rec.FieldOf("Addr")
		if addr == nil {
			continue
		}
		if f, ok := fieldOf(addr, cfgT); ok {
			switch f {
			case "ProverAddress":
				ss := s
				prover = &ss
			case "MetricsAddress":
				ss := s
				metrics = &ss
			}
		}
	}
	r.Count("http.Server literals in Run", len(servers))
	r.Floor("http.Server literals in Run", 2)
	if prover == nil || metrics == nil {
		r.Violation("O20.1", "server.Run: servers", p.Pos(run.Pos()), "cannot find one http.Server bound to config.ProverAddress and one bound to config.MetricsAddress (found %d server literals)", len(servers))
		return
	}
	r.Check(prover.alloc.Key() != metrics.alloc.Key() && started[prover.alloc.Key()] && started[metrics.alloc.Key()], "O20.1", "server.Run: two distinct started servers", p.Pos(run.Pos()),
		"prover and metrics servers are distinct allocations, both handed to a ListenAndServe job", fmt.Sprintf("prover started=%v metrics started=%v distinct=%v: the metrics endpoint would not be available on its own address", started[prover.alloc.Key()], started[metrics.alloc.Key()], prover.alloc.Key() != metrics.alloc.Key()))
	// O20.5: no write deadline on the prover server. net/http starts WriteTimeout when the request headers have been read; a
	// proof that takes longer is still computed and counted by the instrumentation, but its response can no longer be sent
	// — and proving time grows with the circuit, so any finite deadline loses responses for some dimensions.
	if wt := prover.rec.FieldOf("WriteTimeout"); wt != nil && wt.K != tf.KZero && !isConstInt(wt, 0) {
		r.Violation("O20.5", "server.Run: prover server write deadline", p.Pos(run.Pos()), "the prover server sets WriteTimeout = %s: a /prove request that outlasts it is counted in http_requests_total but its response is never sent", describe(wt))
	} else {
		r.OK("O20.5", "server.Run: prover server write deadline", p.Pos(run.Pos()), "no WriteTimeout on the prover server")
	}
	// prover handler: instrumented mux allocation
	ph := prover.rec.FieldOf("Handler")
	var muxRec *tf.Term
	var muxType types.Type
	if ph != nil && ph.K == tf.KAlloc {
		muxRec = ev.Deref(ph)
		muxType = ev.AllocType(ph)
	}
	if muxRec == nil || muxType == nil || namedOf(muxType) == nil || !inRepoObj(namedOf(muxType).Obj()) {
		r.Violation("O20.1", "server.Run: prover server handler", p.Pos(run.Pos()), "the prover server's Handler is %s, not an in-repo instrumented mux built in Run: requests to /prove bypass the request metrics", describe(ph))
		return
	}
	muxN := namedOf(muxType)
	handleFn := p.MethodOf(muxN, "Handle")
	serveFn := p.MethodOf(muxN, "ServeHTTP")
	if handleFn == nil || serveFn == nil {
		r.Violation("O20.3", typeKey(muxN)+": Handle/ServeHTTP", "-", "instrumented mux type lacks Handle or ServeHTTP")
		return
	}
	r.AnalysedFn(core.FuncName(handleFn), core.FuncName(serveFn))
	// the registry the mux registers collectors on: discovered from Handle
	hev := eng.NewEval(handleFn)
	hevents := hev.Events()
	recvT := hev.Params[0]
	var innerHandle *tf.Term
	for _, e := range hevents {
		if callNameHasSuffix(e.Term, "net/http.ServeMux).Handle") && len(e.Term.Args) == 3 {
			innerHandle = e.Term
			if on, _ := e.OnEveryPathToReturn(); !on {
				r.Violation("O20.3", typeKey(muxN)+".Handle: registration on the inner mux", p.Pos(e.Instr.Pos()), "the wrapped handler is not registered on every path")
			}
		}
	}
	if innerHandle == nil {
		r.Violation("O20.3", typeKey(muxN)+".Handle: registration on the inner mux", p.Pos(handleFn.Pos()), "Handle does not register anything on an inner net/http mux")
		return
	}
	// chain
	handlerParam := hev.Params[2]
	patternParam := hev.Params[1]
	var chain []string
	cur := innerHandle.Args[2]
	var inflightColl, counterColl *tf.Term
	for cur != nil && cur.K == tf.KCall && strings.Contains(cur.Name, "promhttp.InstrumentHandler") {
		short := cur.Name[strings.LastIndex(cur.Name, ".")+1:]
		chain = append(chain, short)
		var next *tf.Term
		for i, a := range cur.Args {
			if i == 0 {
				switch short {
				case "InstrumentHandlerInFlight":
					inflightColl = a
				case "InstrumentHandlerCounter":
					counterColl = a
				}
				continue
			}
			if a.K == tf.KCall || tf.Eq(a, handlerParam) {
				next = a
				break
			}
		}
		cur = next
	}
	reachesHandler := cur != nil && tf.Eq(cur, handlerParam)
	r.Check(reachesHandler && inflightColl != nil && counterColl != nil && tf.Eq(innerHandle.Args[1], patternParam), "O20.3", typeKey(muxN)+".Handle: instrumentation chain", p.Pos(handleFn.Pos()),
		"inner.Handle(pattern, "+strings.Join(chain, "(")+"(handler…", fmt.Sprintf("the handler registered on the inner mux is wrapped by [%s] (reaches the handler parameter: %v; same pattern: %v); InstrumentHandlerInFlight and InstrumentHandlerCounter must both wrap it, otherwise responses are not counted / the gauge not maintained",
			strings.Join(chain, ", "), reachesHandler, tf.Eq(innerHandle.Args[1], patternParam)))
	r.Count("instrumentation wrappers", len(chain))
	r.Floor("instrumentation wrappers", 2)
	// collectors
	regField := ""
	collectorOK := func(coll *tf.Term, ctor, metric string, labels []string) (bool, string) {
		if coll == nil {
			return false, "missing"
		}
		if !callNameHasSuffix(coll, "promauto.Factory)."+ctor) {
			return false, "collector is " + describe(coll) + ", not promauto's " + ctor
		}
		if len(coll.Args) < 2 {
			return false, "unexpected arity"
		}
		fac, opts := coll.Args[0], coll.Args[1]
		if !callNameHasSuffix(fac, "promauto.With") || len(fac.Args) != 1 {
			return false, "factory is not promauto.With(registerer): " + describe(fac)
		}
		reg := fac.Args[0]
		if callNameHasSuffix(reg, "prometheus.WrapRegistererWith") && len(reg.Args) == 2 {
			reg = reg.Args[1]
		}
		f, ok := fieldOf(reg, recvT)
		if !ok {
			return false, "collector is registered on " + describe(reg) + ", not on the mux's registry field (e.g. a fresh registry that /metrics does not serve)"
		}
		if regField == "" {
			regField = f
		} else if regField != f {
			return false, "collectors use different registry fields"
		}
		nameT := opts.FieldOf("Name")
		if s, ok := constStr(nameT); !ok || s != metric {
			return false, fmt.Sprintf("metric name is %s, not %q", describe(nameT), metric)
		}
		if labels != nil {
			if len(coll.Args) < 3 {
				return false, "no label names"
			}
			var got []string
			for _, pt := range tf.Parts(coll.Args[2]) {
				if pt.K == tf.KElem {
					if s, ok := constStr(pt.Args[0]); ok {
						got = append(got, s)
					}
				}
			}
			sort.Strings(got)
			if strings.Join(got, ",") != strings.Join(labels, ",") {
				return false, fmt.Sprintf("label names %v, want %v", got, labels)
			}
		}
		return true, ""
	}
	// collectors kept in a small struct built by a constructor (routeMetrics): read the field out of the record
	viaRecord := func(t *tf.Term) *tf.Term {
		if t == nil {
			return nil
		}
		return tf.Subst(t, func(x *tf.Term) *tf.Term {
			if x.K == tf.KField && len(x.Args) == 1 && x.Args[0].K == tf.KAlloc {
				if rec := hev.Deref(x.Args[0]); rec != nil && rec.K == tf.KRecord {
					if f := rec.FieldOf(x.Name); f != nil {
						return f
					}
				}
			}
			return nil
		})
	}
	inflightColl, counterColl = viaRecord(inflightColl), viaRecord(counterColl)
	okG, whyG := collectorOK(inflightColl, "NewGauge", "http_requests_in_flight", nil)
	r.Check(okG, "O20.3", typeKey(muxN)+".Handle: in-flight gauge", p.Pos(handleFn.Pos()), "gauge http_requests_in_flight registered on the mux's registry", whyG)
	okC, whyC := collectorOK(counterColl, "NewCounterVec", "http_requests_total", []string{"code", "method"})
	r.Check(okC, "O20.3", typeKey(muxN)+".Handle: request counter", p.Pos(handleFn.Pos()), "counter vector http_requests_total{method, code} registered on the mux's registry", whyC)
	// inner mux: Handle registers on $s.F…; ServeHTTP serves $s.F
	innerField := ""
	if f, ok := firstField(innerHandle.Args[0], recvT); ok {
		innerField = f
	}
	sev := eng.NewEval(serveFn)
	servesSame := false
	for _, e := range sev.Events() {
		if strings.HasSuffix(e.Term.Name, ".ServeHTTP") && len(e.Term.Args) > 0 {
			if f, ok := firstField(e.Term.Args[0], sev.Params[0]); ok && f == innerField && innerField != "" {
				servesSame = true
			}
		}
	}
	r.Check(servesSame, "O20.3", typeKey(muxN)+": serves the mux it registers on", p.Pos(serveFn.Pos()), "Handle registers on and ServeHTTP delegates to field "+innerField, "ServeHTTP does not delegate to the inner mux that Handle registers the instrumented handler on (field "+innerField+")")
	// the registry field of the mux record built in Run == the registry served at /metrics
	var muxRegistry *tf.Term
	if regField != "" {
		muxRegistry = muxRec.FieldOf(regField)
	}
	// metrics side
	mh := metrics.rec.FieldOf("Handler")
	var servedRegistry *tf.Term
	for _, e := range events {
		if callNameHasSuffix(e.Term, "net/http.ServeMux).Handle") && len(e.Term.Args) == 3 && mh != nil && tf.Eq(e.Term.Args[0], mh) {
			if s, ok := constStr(e.Term.Args[1]); ok && s == "/metrics" {
				h := e.Term.Args[2]
				if callNameHasSuffix(h, "promhttp.HandlerFor") && len(h.Args) >= 1 {
					servedRegistry = h.Args[0]
					// O20.7: the scrape handler is not throttled — MaxRequestsInFlight answers overlapping scrapes 503, a
					// Timeout answers slow ones (under proving load) 503
					if len(h.Args) >= 2 {
						opts := ev.Resolve(h.Args[1])
						var lim []string
						for _, f := range []string{"MaxRequestsInFlight", "Timeout"} {
							if v := opts.FieldOf(f); v != nil && v.K != tf.KZero && !isConstInt(v, 0) {
								lim = append(lim, f+" = "+describe(v))
							}
						}
						if opts.K != tf.KRecord && opts.K != tf.KZero {
							r.Undecided("O20.7", "server.Run: /metrics handler options", p.Pos(run.Pos()), "cannot read the HandlerOpts value %s", describe(opts))
						} else if len(lim) > 0 {
							r.Violation("O20.7", "server.Run: /metrics handler options", p.Pos(run.Pos()), "the metrics handler is limited (%s): a scrape that overlaps another one, or that is slow while proofs are generated, is answered 503 instead of the totals", strings.Join(lim, ", "))
						} else {
							r.OK("O20.7", "server.Run: /metrics handler options", p.Pos(run.Pos()), "no MaxRequestsInFlight / Timeout on the scrape handler")
						}
					}
				}
			}
		}
	}
	switch {
	case servedRegistry == nil:
		r.Violation("O20.1", "server.Run: metrics endpoint", p.Pos(run.Pos()), "the metrics server's handler does not serve promhttp.HandlerFor(registry) at /metrics")
	case muxRegistry == nil || !tf.Eq(servedRegistry, muxRegistry):
		r.Violation("O20.1", "server.Run: one registry", p.Pos(run.Pos()), "/metrics serves %s but the instrumented mux registers its collectors on %s: the request metrics would never be exposed", describe(servedRegistry), describe(muxRegistry))
	default:
		r.OK("O20.1", "server.Run: one registry", p.Pos(run.Pos()), "collectors and /metrics share %s", describe(servedRegistry))
	}
	// O20.2: the /prove handler goes through the instrumented mux's Handle only
	nReg := 0
	var otherUses []string
	for _, e := range events {
		t := e.Term
		if t.K != tf.KCall {
			continue
		}
		usesHandler := false
		var flat []*tf.Term
		for _, a0 := range t.Args {
			// the handler may be wrapped by an in-repo middleware: look inside the argument term
			tf.Walk(a0, func(x *tf.Term) bool {
				flat = append(flat, x)
				return true
			})
		}
		heReg, _ := proveHandlerEntry(p)
		for _, a := range flat {
			// the closure an in-repo middleware returns around the handler (resolved by proveHandlerEntry)
			if a.K == tf.KOpaque && heReg != nil && heReg.Fn != heReg.Inner && a.Name == "closure "+heReg.Fn.Name() {
				usesHandler = true
			}
			if a.K == tf.KRecord && strings.HasSuffix(a.Name, "proveHandler") || (a.K == tf.KRecord && hasServeHTTP(p, a.Type)) {
				usesHandler = true
			}
			// a handler built by a constructor and used through a pointer (&proveHandler{…})
			if a.K == tf.KAlloc && !tf.Eq(a, ph) {
				if at := ev.AllocType(a); at != nil && namedOf(at) != nil && inRepoObj(namedOf(at).Obj()) && namedOf(at) != namedOf(muxType) && (hasServeHTTP(p, at) || hasServeHTTP(p, types.NewPointer(at))) {
					usesHandler = true
				}
			}
		}
		if !usesHandler {
			continue
		}
		if strings.HasSuffix(t.Name, ").Handle") && len(t.Args) == 3 && tf.Eq(t.Args[0], ph) {
			if s, ok := constStr(t.Args[1]); ok && s == "/prove" {
				nReg++
				continue
			}
		}
		otherUses = append(otherUses, describe(t))
	}
	r.Check(nReg == 1 && len(otherUses) == 0, "O20.2", "server.Run: /prove registration", p.Pos(run.Pos()), "the handler is registered once, as /prove, on the instrumented mux that the prover server serves",
		fmt.Sprintf("registrations on the served instrumented mux: %d; other uses of the handler: %v", nReg, otherUses))
	r.Count("/prove registrations", nReg)
	r.Floor("/prove registrations", 1)
	ix := indexFuncs(p)
	// O20.4: one status per request (the delegator records the last WriteHeader; two calls mis-count the response)
	if he, _ := proveHandlerEntry(p); he != nil {
		hfn := he.Inner
		if hobj, ok := hfn.Object().(*types.Func); ok {
			if hu, ok := ix.decls[hobj]; ok {
				if w := respWriterParam(hu); w != nil {
					r.AnalysedFn(hu.Name)
					_, _ = ix, w
					respEntryBind = he.Bind
					checkResponsePaths(p, r, he.Fn, provingSystemType(p), modeConstants(p), "O20.4", "")
					respEntryBind = nil
					// O20.6: the metrics endpoint stays available while proofs are generated
					checkMetricsNotBlockedByProving(p, r, he.Fn, provingSystemType(p))
					checkNoEarlyFlush(p, r, he.Fn)
				}
			}
		}
	}
	// nothing on the default mux anywhere
	nDefault := 0
	for _, u := range ix.all {
		info := u.Pkg.TypesInfo
		ast.Inspect(u.Node, func(n ast.Node) bool {
			if c, ok := n.(*ast.CallExpr); ok {
				if fn, _ := flow.Callee(info, c).(*types.Func); fn != nil && (fn.FullName() == "net/http.Handle" || fn.FullName() == "net/http.HandleFunc" || fn.FullName() == "net/http.ListenAndServe") {
					nDefault++
					r.Violation("O20.2", u.Name+": "+fn.FullName(), p.Pos(c.Pos()), "registration/serving through net/http's default mux bypasses the instrumented mux")
				}
			}
			return true
		})
	}
	if nDefault == 0 {
		r.OK("O20.2", "repository: no use of net/http's default mux", "-", "0 call sites")
	}
}

func hasServeHTTP(p *core.Program, t types.Type) bool {
	if t == nil {
		return false
	}
	return p.MethodOf(t, "ServeHTTP") != nil && namedOf(t) != nil && inRepoObj(namedOf(t).Obj()) && !strings.Contains(t.String(), "serveMux")
}

// fieldOf: t == base.F → F.
func fieldOf(t, base *tf.Term) (string, bool) {
	if t != nil && t.K == tf.KField && tf.Eq(t.Args[0], base) {
		return t.Name, true
	}
	return "", false
}

// firstField: t == base.F(.G…) → F.
func firstField(t, base *tf.Term) (string, bool) {
	for t != nil && t.K == tf.KField {
		if tf.Eq(t.Args[0], base) {
			return t.Name, true
		}
		t = t.Args[0]
	}
	return "", false
}

package checks

import (
	"go/token"

	"golang.org/x/tools/go/ssa"

	"verif/sa/internal/core"
	"verif/sa/internal/tf"
)

// ssaOrigins traces a value backwards to the instructions that produce it: through phis, conversions, interface boxing,
// re-slicing, tuple extraction, loads of local cells (all stores into the cell or its elements), and the returns of in-repo
// functions it is the result of. Leaves are calls that are not followed (methods and functions outside the repository, or
// in-repo calls for which stop returns true), parameters, globals and constants. nil constants and zero cells contribute
// nothing.
type originLeaf struct {
	V     ssa.Value
	Index int // result index when V is a multi-result call
}

func ssaOrigins(v ssa.Value, stop func(*ssa.Function) bool) []originLeaf {
	return ssaOriginsX(v, stop, nil)
}

// ssaOriginsIP additionally follows a parameter to the arguments of every in-repo call site of its function, and a
// captured variable to what the enclosing function binds when it makes the closure.
func ssaOriginsIP(p *core.Program, v ssa.Value, stop func(*ssa.Function) bool) []originLeaf {
	return ssaOriginsX(v, stop, p)
}

// ssaOriginsIPWithin is ssaOriginsIP restricted to call sites in the given functions (the code one command can reach):
// a helper shared by two commands is then read in the context of the command under analysis.
func ssaOriginsIPWithin(p *core.Program, v ssa.Value, stop func(*ssa.Function) bool, within map[*ssa.Function]bool) []originLeaf {
	originsWithin = within
	defer func() { originsWithin = nil }()
	return ssaOriginsX(v, stop, p)
}

var originsWithin map[*ssa.Function]bool

func ssaOriginsX(v ssa.Value, stop func(*ssa.Function) bool, ip *core.Program) []originLeaf {
	var out []originLeaf
	seen := map[ssa.Value]map[int]bool{}
	var rec func(v ssa.Value, idx int, depth int)
	rec = func(v ssa.Value, idx int, depth int) {
		if v == nil || depth > 12 {
			out = append(out, originLeaf{v, idx})
			return
		}
		if seen[v] == nil {
			seen[v] = map[int]bool{}
		}
		if seen[v][idx] {
			return
		}
		seen[v][idx] = true
		switch x := v.(type) {
		case *ssa.Const:
			if x.Value == nil {
				return
			}
			out = append(out, originLeaf{v, idx})
		case *ssa.Parameter:
			if ip == nil {
				out = append(out, originLeaf{v, idx})
				return
			}
			fn := x.Parent()
			k := -1
			for i, prm := range fn.Params {
				if prm == x {
					k = i
				}
			}
			n := 0
			for _, caller := range repoFuncsAndInstances(ip) {
				if originsWithin != nil && !originsWithin[caller] {
					continue
				}
				for _, b := range caller.Blocks {
					for _, in := range b.Instrs {
						if c, ok := in.(ssa.CallInstruction); ok && c.Common().StaticCallee() == fn && k >= 0 && k < len(c.Common().Args) {
							n++
							rec(c.Common().Args[k], idx, depth+1)
						}
					}
				}
			}
			if n == 0 {
				out = append(out, originLeaf{v, idx})
			}
		case *ssa.FreeVar:
			if ip == nil || x.Parent().Parent() == nil {
				out = append(out, originLeaf{v, idx})
				return
			}
			fn := x.Parent()
			k := -1
			for i, fv := range fn.FreeVars {
				if fv == x {
					k = i
				}
			}
			n := 0
			for _, b := range fn.Parent().Blocks {
				for _, in := range b.Instrs {
					if mc, ok := in.(*ssa.MakeClosure); ok && mc.Fn == ssa.Value(fn) && k >= 0 && k < len(mc.Bindings) {
						n++
						rec(mc.Bindings[k], idx, depth+1)
					}
				}
			}
			if n == 0 {
				out = append(out, originLeaf{v, idx})
			}
		case *ssa.Phi:
			for _, e := range x.Edges {
				rec(e, idx, depth)
			}
		case *ssa.MakeInterface:
			rec(x.X, idx, depth)
		case *ssa.ChangeType:
			rec(x.X, idx, depth)
		case *ssa.ChangeInterface:
			rec(x.X, idx, depth)
		case *ssa.Convert:
			rec(x.X, idx, depth)
		case *ssa.Slice:
			rec(x.X, idx, depth)
		case *ssa.Extract:
			rec(x.Tuple, x.Index, depth)
		case *ssa.UnOp:
			if x.Op == token.MUL {
				rec(x.X, idx, depth)
				return
			}
			out = append(out, originLeaf{v, idx})
		case *ssa.IndexAddr:
			rec(x.X, idx, depth)
		case *ssa.FieldAddr:
			out = append(out, originLeaf{v, idx})
		case *ssa.Alloc:
			// what was stored into the cell (or into its elements)
			n := 0
			var scan func(addr ssa.Value)
			scan = func(addr ssa.Value) {
				for _, ref := range *addr.Referrers() {
					switch r := ref.(type) {
					case *ssa.Store:
						if r.Addr == addr {
							n++
							rec(r.Val, idx, depth)
						}
					case *ssa.IndexAddr:
						if r.X == addr {
							scan(r)
						}
					case *ssa.FieldAddr:
						if r.X == addr {
							scan(r)
						}
					case *ssa.Call:
						// the address handed to a callee (json.Unmarshal(data, &v)): the callee fills it
						for _, a := range r.Common().Args {
							if a == addr && !readsOnly(r) {
								n++
								out = append(out, originLeaf{r, -1})
							}
						}
					case *ssa.MakeInterface:
						for _, rr := range *r.Referrers() {
							if c, ok := rr.(*ssa.Call); ok && !readsOnly(c) {
								n++
								out = append(out, originLeaf{c, -1})
							}
						}
					}
				}
			}
			scan(x)
			_ = n
		case *ssa.Call:
			if bi, ok := x.Common().Value.(*ssa.Builtin); ok && bi.Name() == "append" {
				for _, a := range x.Common().Args {
					rec(a, idx, depth)
				}
				return
			}
			// text taken out of a local bytes.Buffer / strings.Builder: whatever was written into it
			if sc := x.Common().StaticCallee(); sc != nil && len(x.Common().Args) == 1 && (sc.String() == "(*bytes.Buffer).String" || sc.String() == "(*bytes.Buffer).Bytes" || sc.String() == "(*strings.Builder).String") {
				if al, ok := x.Common().Args[0].(*ssa.Alloc); ok && al.Referrers() != nil {
					followed := true
					var srcs []ssa.Value
					for _, ref := range *al.Referrers() {
						c, isCall := ref.(*ssa.Call)
						if !isCall || c == x {
							if _, isDbg := ref.(*ssa.DebugRef); !isDbg && !isCall {
								followed = false
							}
							continue
						}
						wc := c.Common().StaticCallee()
						if wc == nil {
							followed = false
							continue
						}
						switch wc.String() {
						case "encoding/json.Indent", "encoding/json.Compact":
							srcs = append(srcs, c.Common().Args[1]) // re-spaced copy of the source document
						case "(*bytes.Buffer).Write", "(*bytes.Buffer).WriteString", "(*strings.Builder).WriteString", "(*strings.Builder).Write", "(*bytes.Buffer).WriteByte", "(*strings.Builder).WriteByte", "(*bytes.Buffer).WriteRune", "(*strings.Builder).WriteRune":
							srcs = append(srcs, c.Common().Args[1])
						case "(*bytes.Buffer).String", "(*bytes.Buffer).Bytes", "(*strings.Builder).String", "(*bytes.Buffer).Len", "(*strings.Builder).Len", "(*bytes.Buffer).Grow", "(*strings.Builder).Grow", "(*bytes.Buffer).Reset", "(*strings.Builder).Reset":
						default:
							followed = false
						}
					}
					if followed && len(srcs) > 0 {
						for _, sv := range srcs {
							rec(sv, 0, depth+1)
						}
						return
					}
				}
			}
			callee := x.Common().StaticCallee()
			if callee == nil && x.Common().IsInvoke() {
				// a single-assignment interface variable (dependency-injection seam)
				callee = sharedEngine().Devirtualise(x.Common())
			}
			if callee != nil && len(callee.Blocks) > 0 && core.InRepo(pkgPathOf(callee)) && (stop == nil || !stop(callee)) {
				for _, b := range callee.Blocks {
					if ret, ok := b.Instrs[len(b.Instrs)-1].(*ssa.Return); ok {
						k := idx
						if k < 0 {
							k = 0
						}
						if k < len(ret.Results) {
							rec(ret.Results[k], 0, depth+1)
						}
					}
				}
				return
			}
			out = append(out, originLeaf{v, idx})
		default:
			out = append(out, originLeaf{v, idx})
		}
	}
	rec(v, 0, 0)
	return out
}

// callAt finds the call instruction of fn (or of a function nested in it) whose opening parenthesis is at pos.
func callAt(fn *ssa.Function, pos token.Pos) *ssa.Call {
	var found *ssa.Call
	var visit func(f *ssa.Function)
	visit = func(f *ssa.Function) {
		for _, b := range f.Blocks {
			for _, in := range b.Instrs {
				if c, ok := in.(*ssa.Call); ok && c.Pos() == pos {
					found = c
				}
			}
		}
		for _, a := range f.AnonFuncs {
			visit(a)
		}
	}
	visit(fn)
	return found
}

// readsOnly: callees known not to write through a pointer argument.
func readsOnly(c *ssa.Call) bool {
	f := c.Common().StaticCallee()
	if f == nil || f.Pkg == nil {
		return false
	}
	switch f.Pkg.Pkg.Path() {
	case "fmt":
		return true
	case "encoding/json":
		return f.Name() == "Marshal" || f.Name() == "MarshalIndent"
	}
	return false
}

// repoFuncsAndInstances: the repository's functions plus the instances of its generic functions that they call
// (instances carry concrete types; the generic bodies themselves are skipped by callers that need concrete types).
func repoFuncsAndInstances(p *core.Program) []*ssa.Function {
	out := p.RepoFuncs()
	seen := map[*ssa.Function]bool{}
	for _, f := range out {
		seen[f] = true
	}
	for i := 0; i < len(out); i++ {
		for _, b := range out[i].Blocks {
			for _, in := range b.Instrs {
				c, ok := in.(ssa.CallInstruction)
				if !ok {
					continue
				}
				f := c.Common().StaticCallee()
				if f == nil || seen[f] || f.Origin() == nil || len(f.Blocks) == 0 || !core.InRepo(pkgPathOf(f)) {
					continue
				}
				seen[f] = true
				out = append(out, f)
				for _, a := range f.AnonFuncs {
					if !seen[a] {
						seen[a] = true
						out = append(out, a)
					}
				}
			}
		}
	}
	return out
}

var theEngine *tf.Engine

func sharedEngine() *tf.Engine {
	if theEngine == nil {
		theEngine = tf.NewEngine(core.InRepo, 0)
	}
	return theEngine
}

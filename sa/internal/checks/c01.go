package checks

import (
	"fmt"
	"go/types"
	"sort"
	"strings"

	"verif/sa/internal/core"
	"verif/sa/internal/tf"
)

func init() { Registry["C01"] = Check{Run: checkC01} }

// batchRoles is what dataflow discovers about a batch circuit (insertion or deletion).
type batchRoles struct {
	ctx      *circuitCtx
	T        *types.Named
	Circuit  *gadgetInfo
	Final    tf.Event // the AssertIsEqual(result, postRoot) event
	BatchG   *tf.Term // gadget term of the batch gadget in Define
	Batch    *gadgetInfo
	PostRoot string            // circuit field asserted equal to the batch result
	Map      map[string]string // batch-gadget field -> circuit field
	// inside the batch gadget
	Loop      *tf.Loop
	BatchSize string // batch-gadget int field bounding the loop
	PreRoot   string // batch-gadget field seeding the running root
	RoundG    *tf.Term
	Round     *gadgetInfo
	// round-gadget field roles: role -> round-gadget field
	RoundRole map[string]string // roles: running, index, item, proof, depth
	// how the index is formed: "start+i" (insertion) with Start field, or "indices[i]" (deletion)
	IndexKind string
	Start     string // batch-gadget field (insertion)
	Indices   string // batch-gadget field (deletion)
	Items     string
	Paths     string
	Depth     string
}

// discoverBatch binds the roles of §3 of DESIGN.md by dataflow from the anchor; every failure is reported as a violation
// of the obligation that defines the role.
func discoverBatch(p *core.Program, r *core.Report, ctx *circuitCtx, anchor, oFinal, oChain string) *batchRoles {
	T, _, why := circuitTypeOf(p, anchor)
	if T == nil {
		r.Violation(oFinal, "anchor prover."+anchor, "-", "%s", why)
		return nil
	}
	br := &batchRoles{ctx: ctx, T: T, Map: map[string]string{}, RoundRole: map[string]string{}}
	br.Circuit = ctx.define(T, "Define")
	if br.Circuit == nil {
		r.Violation(oFinal, typeKey(T)+".Define", "-", "circuit type has no Define method with a body")
		return nil
	}
	r.AnalysedFn(core.FuncName(br.Circuit.Fn))
	cname := typeKey(T) + ".Define"
	// final assert: AssertIsEqual(gadget result, $circuit.F) on every path
	var finals []tf.Event
	for _, e := range apiEvents(br.Circuit, "AssertIsEqual") {
		a, b, _ := assertEqSides(e.Term)
		for _, pair := range [][2]*tf.Term{{a, b}, {b, a}} {
			if pair[0].K == tf.KGadget {
				if f, ok := recvFieldName(pair[1]); ok {
					// the batch gadget is the one whose result is a chained (loop-carried) value
					if g := ctx.gadgetOfTerm(pair[0]); g != nil && g.Ret.K == tf.KMu {
						finals = append(finals, e)
						br.Final, br.BatchG, br.Batch, br.PostRoot = e, pair[0], g, f
					}
				}
			}
		}
	}
	r.Count("final root asserts", len(finals))
	if len(finals) != 1 {
		r.Violation(oFinal, cname+": final root assert", p.Pos(br.Circuit.Fn.Pos()), "expected exactly one AssertIsEqual between a chained batch gadget's result and a circuit field, found %d: the computed final root is not bound to the post-root", len(finals))
		return nil
	}
	if mustEvent(br.Final) {
		r.OK(oFinal, cname+": final root assert", p.Pos(br.Final.Instr.Pos()), "AssertIsEqual(%s(…), $circuit.%s) on every path to return", br.BatchG.Name, br.PostRoot)
	} else {
		r.Violation(oFinal, cname+": final root assert", p.Pos(br.Final.Instr.Pos()), "the final-root assert does not execute on every path to a normal return (conditional or inside a loop)")
	}
	r.AnalysedFn(core.FuncName(br.Batch.Fn))
	// mapping batch-gadget fields <- circuit fields
	for i, n := range br.BatchG.Names {
		a := br.BatchG.Args[i]
		if f, ok := recvFieldName(a); ok {
			br.Map[n] = f
		} else {
			br.Map[n] = "?" + describe(a)
		}
	}
	// chain: Ret = μ(init = $g.Pre, next = gadget Round{…})
	bname := br.Batch.Name + ".DefineGadget"
	mu := br.Batch.Ret
	br.Loop = mu.Loop
	init, next := mu.Args[0], mu.Args[1]
	pre, ok := recvFieldName(init)
	if !ok {
		r.Violation(oChain, bname+": running root seed", p.Pos(br.Batch.Fn.Pos()), "the running root is not seeded by a field of the batch gadget (got %s)", describe(init))
		return nil
	}
	br.PreRoot = pre
	if next.K != tf.KGadget {
		r.Violation(oChain, bname+": round chaining", p.Pos(br.Batch.Fn.Pos()), "the loop-carried root is not produced by a round gadget (got %s)", describe(next))
		return nil
	}
	br.RoundG = next
	br.Round = ctx.gadgetOfTerm(next)
	if br.Round == nil {
		r.Violation(oChain, bname+": round gadget", "-", "round gadget %s has no DefineGadget body", next.Name)
		return nil
	}
	r.AnalysedFn(core.FuncName(br.Round.Fn))
	// loop range 0..BatchSize
	n, okR := loopRangeZeroTo(br.Loop)
	if !okR {
		r.Violation(oChain, bname+": batch loop range", br.ctx.posOf(next, br.Batch), "the batch loop does not run its index over 0,1,…,n-1 (init/step/condition not of that shape, or it has a break)")
	} else if f, ok := recvFieldName(n); ok {
		br.BatchSize = f
		r.OK(oChain, bname+": batch loop range", br.ctx.posOf(next, br.Batch), "index runs 0..$g.%s-1", f)
	} else {
		r.Violation(oChain, bname+": batch loop range", br.ctx.posOf(next, br.Batch), "the batch loop bound is %s, not a field of the batch gadget: some slots would be skipped or read past the batch", describe(n))
	}
	r.Count("batch loops", 1)
	isIV := func(t *tf.Term) bool { return t.K == tf.KIndVar && t.Loop == br.Loop }
	// classify the round gadget's fields
	var unclassified []string
	for i, fn := range next.Names {
		a := next.Args[i]
		switch {
		case a.K == tf.KMuVar && a.Loop == br.Loop:
			br.RoundRole["running"] = fn
		case isApi(a, "Add") && len(a.Args) == 2 && ((isIV(a.Args[1]) && isRecv(a.Args[0])) || (isIV(a.Args[0]) && isRecv(a.Args[1]))):
			br.RoundRole["index"] = fn
			br.IndexKind = "start+i"
			if isRecv(a.Args[0]) {
				br.Start, _ = recvFieldName(a.Args[0])
			} else {
				br.Start, _ = recvFieldName(a.Args[1])
			}
		case a.K == tf.KIdx && isRecv(a.Args[0]) && isIV(a.Args[1]):
			src, _ := recvFieldName(a.Args[0])
			ft := fieldType(br.Round.T, fn)
			if _, isSlice := types.Unalias(ft).Underlying().(*types.Slice); isSlice {
				br.RoundRole["proof"] = fn
				br.Paths = src
			} else {
				// a scalar taken from a per-slot vector: item or (deletion) index — disambiguated by the round's use
				br.RoundRole["slot:"+fn] = src
			}
		case isRecv(a):
			src, _ := recvFieldName(a)
			if isIntType(fieldType(br.Round.T, fn)) {
				br.RoundRole["depth"] = fn
				br.Depth = src
			} else {
				unclassified = append(unclassified, fn+"="+describe(a)+" (a circuit-wide field passed unchanged to every round)")
			}
		default:
			unclassified = append(unclassified, fn+"="+describe(a))
		}
	}
	if len(unclassified) > 0 {
		r.Violation(oChain, bname+": round gadget operands", br.ctx.posOf(next, br.Batch), "round operands that are neither the running root, start+i, a per-slot element [i], nor the depth: %s", strings.Join(unclassified, "; "))
	}
	return br
}

func isRecv(t *tf.Term) bool { _, ok := recvFieldName(t); return ok }

func fieldType(n *types.Named, name string) types.Type {
	st, ok := n.Underlying().(*types.Struct)
	if !ok {
		return nil
	}
	for i := 0; i < st.NumFields(); i++ {
		if st.Field(i).Name() == name {
			return st.Field(i).Type()
		}
	}
	return nil
}

func isIntType(t types.Type) bool {
	if t == nil {
		return false
	}
	b, ok := types.Unalias(t).Underlying().(*types.Basic)
	return ok && b.Info()&types.IsInteger != 0
}

// merkleRoles describes the Merkle-recomputation gadget and its step.
type merkleRoles struct {
	G             *gadgetInfo
	SeqField      string // leaf followed by siblings
	DirField      string // direction bits
	Step          *gadgetInfo
	StepTerm      *tf.Term
	Acc, Dir, Sib string // step-gadget fields
	Hash2         *tf.Term
	// DirZeroAccFirst: with direction bit 0 the running node is the hash's first operand
	DirZeroAccFirst bool
	dirBoolInStep   bool
}

// checkMerkle decides O1.6 for the gadget type of term mt and returns its roles.
func checkMerkle(p *core.Program, r *core.Report, ctx *circuitCtx, mt *tf.Term, rule string) *merkleRoles {
	g := ctx.gadgetOfTerm(mt)
	if g == nil {
		r.Violation(rule, mt.Name+".DefineGadget", "-", "Merkle gadget has no analysable definition")
		return nil
	}
	r.AnalysedFn(core.FuncName(g.Fn))
	name := g.Name + ".DefineGadget"
	mr := &merkleRoles{G: g}
	if g.Ret.K != tf.KMu {
		r.Violation(rule, name+": fold over the path", p.Pos(g.Fn.Pos()), "the result is not a value folded over the levels of the path (got %s)", describe(g.Ret))
		return nil
	}
	init, next := g.Ret.Args[0], g.Ret.Args[1]
	loop := g.Ret.Loop
	// init = $g.Seq[0]
	if init.K == tf.KIdx && isRecv(init.Args[0]) && isConstInt(init.Args[1], 0) {
		mr.SeqField, _ = recvFieldName(init.Args[0])
	} else {
		r.Violation(rule, name+": fold seed", p.Pos(g.Fn.Pos()), "the fold does not start from element 0 of a field (the leaf); got %s", describe(init))
		return nil
	}
	if next.K != tf.KGadget {
		r.Violation(rule, name+": step", p.Pos(g.Fn.Pos()), "the fold step is not a gadget invocation (got %s)", describe(next))
		return nil
	}
	mr.StepTerm = next
	// classify step operands: the running node, the sibling Seq[s] and the direction bit bits[d], with s and d affine in the
	// loop counter
	var bad []string
	var sIdx, dIdx *tf.Term
	for i, fn := range next.Names {
		a := next.Args[i]
		switch {
		case a.K == tf.KMuVar && a.Loop == loop:
			mr.Acc = fn
		case a.K == tf.KIdx && isRecvField(a.Args[0], mr.SeqField):
			mr.Sib, sIdx = fn, a.Args[1]
		case a.K == tf.KIdx && isRecv(a.Args[0]):
			mr.Dir, dIdx = fn, a.Args[1]
			mr.DirField, _ = recvFieldName(a.Args[0])
		default:
			bad = append(bad, fn+"="+describe(a))
		}
	}
	// level s runs over 1..len(Seq)-1 and uses direction bit s-1
	okRange := false
	if sIdx != nil && dIdx != nil {
		if d, ok := tf.AffDiff(sIdx, dIdx); !ok || d != 1 {
			bad = append(bad, fmt.Sprintf("level %s of %s is paired with direction bit %s (expected the bit one below the level)", describe(sIdx), mr.SeqField, describe(dIdx)))
		}
		if lo, hi, ok := segmentOf(sIdx, loop); ok {
			okRange = isConstInt(lo, 1) && tf.Eq(hi, tf.Len(tf.Field(g.Ev.Params[0], mr.SeqField)))
		}
	}
	r.Check(okRange, rule, name+": level loop range", ctx.posOf(next, g), "levels 1..len($g."+mr.SeqField+")-1", "the level loop does not visit exactly the indices 1..len("+mr.SeqField+")-1: a level would be skipped or the leaf hashed with itself")
	if mr.Acc == "" || mr.Sib == "" || mr.Dir == "" || len(bad) > 0 {
		r.Violation(rule, name+": step operands", ctx.posOf(next, g), "step operands are not {running node, %s[i], bits[i-1]}: %s (acc=%q sib=%q dir=%q)", mr.SeqField, strings.Join(bad, "; "), mr.Acc, mr.Sib, mr.Dir)
		return nil
	}
	r.OK(rule, name+": step operands", ctx.posOf(next, g), "%s{%s: running, %s: %s[i], %s: %s[i-1]}", next.Name, mr.Acc, mr.Sib, mr.SeqField, mr.Dir, mr.DirField)
	// the step gadget
	st := ctx.gadgetOfTerm(next)
	if st == nil {
		r.Violation(rule, next.Name+".DefineGadget", "-", "step gadget has no analysable definition")
		return nil
	}
	mr.Step = st
	r.AnalysedFn(core.FuncName(st.Fn))
	sname := st.Name + ".DefineGadget"
	if st.Ret.K != tf.KGadget || len(st.Ret.Args) != 2 {
		r.Violation(rule, sname+": two-to-one hash", p.Pos(st.Fn.Pos()), "the step does not return a two-input hash gadget (got %s)", describe(st.Ret))
		return nil
	}
	mr.Hash2 = st.Ret
	recv := st.Ev.Params[0]
	accT, sibT, dirT := tf.Field(recv, mr.Acc), tf.Field(recv, mr.Sib), tf.Field(recv, mr.Dir)
	var rows [2][2]poly
	evalOK := true
	for d := int64(0); d <= 1; d++ {
		env := &ttEnv{vals: map[string]poly{accT.Key(): psym("acc"), sibT.Key(): psym("sib"), dirT.Key(): pconst(d)}}
		for k := 0; k < 2; k++ {
			v, err := ttEval(st.Ret.Args[k], env)
			if err != nil {
				r.Undecided(rule, sname+": operand order by direction bit", ctx.posOf(st.Ret, st), "cannot evaluate hash operand %d for direction=%d: %v", k, d, err)
				evalOK = false
				break
			}
			rows[d][k] = v
		}
	}
	if evalOK {
		acc, sib := psym("acc"), psym("sib")
		zeroAccFirst := peq(rows[0][0], acc) && peq(rows[0][1], sib) && peq(rows[1][0], sib) && peq(rows[1][1], acc)
		zeroSibFirst := peq(rows[0][0], sib) && peq(rows[0][1], acc) && peq(rows[1][0], acc) && peq(rows[1][1], sib)
		mr.DirZeroAccFirst = zeroAccFirst
		r.Check(zeroAccFirst || zeroSibFirst, rule, sname+": operand order by direction bit", ctx.posOf(st.Ret, st),
			fmt.Sprintf("hash operands are (running, sibling) for one bit value and (sibling, running) for the other; bit 0 puts the running node first: %v", zeroAccFirst),
			fmt.Sprintf("for direction 0 the hash operands are (%s, %s) and for 1 (%s, %s): not the two orderings of {running node, sibling}", rows[0][0].key(), rows[0][1].key(), rows[1][0].key(), rows[1][1].key()))
	}
	// booleanity of the direction bit inside the step
	boolInStep := false
	for _, e := range st.Events {
		if !mustEvent(e) {
			continue
		}
		if isApi(e.Term, "AssertIsBoolean") && len(e.Term.Args) == 1 && tf.Eq(e.Term.Args[0], dirT) {
			boolInStep = true
		}
		if isApi(e.Term, "Select") && len(e.Term.Args) == 3 && tf.Eq(e.Term.Args[0], dirT) {
			boolInStep = true // gnark's Select asserts its condition boolean
		}
	}
	mr.dirBoolInStep = boolInStep
	return mr
}

func checkC01(p *core.Program, r *core.Report) {
	r.Explanation = "Value-flow conformance of the insertion gadget chain to the relation in the statement, parametric in depth and batch size (no unrolling): " +
		"(O1.1) the round decomposes its index into exactly Depth bits and uses that one decomposition as the path of both Merkle recomputations; (O1.2) the recomputation with the empty leaf is asserted equal to the running root on every path; " +
		"(O1.3) the round returns the recomputation with the commitment over the same siblings and path; (O1.4) the batch gadget threads the running root from the pre-root through rounds over start+i, items[i], paths[i] for i in 0..batch-1; " +
		"(O1.5) the final root is asserted equal to the post-root on every path; (O1.6) a Merkle level hashes {node, sibling} ordered by a boolean direction bit, over levels 1..len-1; (O1.7) no repository-introduced hints; (O1.8) no constraint beyond those (the provable-whenever half). " +
		"Roles (which struct is the circuit, which gadget is the round, which field is the pre-root …) are bound by dataflow from the anchor prover.SetupInsertion, never by name. " +
		"Not decided: that gnark's ToBinary/Select/AssertIsEqual and Poseidon2 mean what they say, satisfiability for concrete witnesses, soundness of gnark's own hints."
	for id, t := range map[string]string{
		"O1.1": "path = api.ToBinary(index, depth) with width exactly the depth field; the same value is the path of both Merkle recomputations",
		"O1.2": "AssertIsEqual(Merkle(0 ‖ siblings, path), running root) on every path of the round",
		"O1.3": "the round returns Merkle(item ‖ siblings, path)",
		"O1.4": "batch gadget: loop 0..batch-1; running root seeded by pre-root; round operands start+i, items[i], running, paths[i], depth",
		"O1.5": "Define: AssertIsEqual(batch result, post-root) on every path; batch operands are circuit fields/dimensions, pairwise distinct",
		"O1.6": "Merkle gadget: fold from leaf over levels 1..len-1 with step{running, seq[i], bits[i-1]}; step hashes the two orderings of {running, sibling} by a boolean bit",
		"O1.7": "no NewHint/Commit/Defer and no API handed to code outside the repository in definition code",
		"O1.11": "imported rule: no state / nondeterminism in construction and definition code (C12 O12.4)",
		"O1.12": "imported rule: no unsynchronised write to state shared between requests in the proving path (C13 O13.1) — an assignment reused across requests lets one request be proved with another's inputs",
		"O1.10": "the prover of this circuit (ProveInsertion, its shape validator, their callees) constructs no refusal under a condition on request values",
		"O1.9": "imported verdict: the input-hash side of the circuit (C03, which imports the comparator rules of C06 and the Keccak layout of C04)",
		"O1.8": "completeness: in Define, the batch, round, Merkle and step definitions every constraint-introducing API/gadget call is a subterm of the definition's result or of an assert accounted for by O1.2/O1.5/O1.6 or the input-hash binding (C03)",
	} {
		r.Rule(id, t)
	}
	r.Trusted = append(r.Trusted, "gnark v0.8.0 API contracts: ToBinary constrains n boolean bits summing to the value; Select asserts a boolean condition; AssertIsEqual", "in-circuit Poseidon2 (C05)", "go/ssa construction")
	r.NotDecided = append(r.NotDecided, "satisfiability for concrete witnesses", "hint soundness inside gnark", "function equality of Poseidon (C05)")
	ctx := newCircuitCtx(p)
	br := discoverBatch(p, r, ctx, "SetupInsertion", "O1.5", "O1.4")
	r.Floor("final root asserts", 1)
	r.Floor("batch loops", 1)
	if br == nil {
		return
	}
	checkInsertionChain(p, r, ctx, br)
}

func checkInsertionChain(p *core.Program, r *core.Report, ctx *circuitCtx, br *batchRoles) {
	bname := br.Batch.Name + ".DefineGadget"
	// O1.4: index = start + i; exactly one per-slot scalar (the item)
	var slotFields []string
	for k := range br.RoundRole {
		if strings.HasPrefix(k, "slot:") {
			slotFields = append(slotFields, strings.TrimPrefix(k, "slot:"))
		}
	}
	sort.Strings(slotFields)
	okRoles := br.IndexKind == "start+i" && br.RoundRole["running"] != "" && br.RoundRole["proof"] != "" && br.RoundRole["depth"] != "" && len(slotFields) == 1
	if okRoles {
		br.RoundRole["item"] = slotFields[0]
		br.Items = br.RoundRole["slot:"+slotFields[0]]
		r.OK("O1.4", bname+": round operands", ctx.posOf(br.RoundG, br.Batch), "%s{%s: $g.%s+i, %s: $g.%s[i], %s: running(seed $g.%s), %s: $g.%s[i], %s: $g.%s}", br.RoundG.Name,
			br.RoundRole["index"], br.Start, br.RoundRole["item"], br.Items, br.RoundRole["running"], br.PreRoot, br.RoundRole["proof"], br.Paths, br.RoundRole["depth"], br.Depth)
	} else {
		r.Violation("O1.4", bname+": round operands", ctx.posOf(br.RoundG, br.Batch), "the round does not receive {start+i, item[i], running root, path[i], depth}: index kind %q, roles %v", br.IndexKind, br.RoundRole)
		return
	}
	// the chained value is what the batch gadget returns (already: Ret is the μ)
	// O1.5: operands of the batch gadget in Define are circuit fields, distinct
	cname := typeKey(br.T) + ".Define"
	var probs []string
	used := map[string]string{}
	for _, role := range []struct{ name, f string }{{"start index", br.Start}, {"pre-root", br.PreRoot}, {"items", br.Items}, {"paths", br.Paths}, {"batch size", br.BatchSize}, {"depth", br.Depth}} {
		cf := br.Map[role.f]
		if role.f == "" || cf == "" || strings.HasPrefix(cf, "?") {
			probs = append(probs, fmt.Sprintf("%s (batch-gadget field %q) is not fed from a circuit field (%s)", role.name, role.f, cf))
			continue
		}
		if prev, dup := used[cf]; dup {
			probs = append(probs, fmt.Sprintf("circuit field %s feeds both %s and %s", cf, prev, role.name))
		}
		used[cf] = role.name
	}
	if cf := br.Map[br.PreRoot]; cf == br.PostRoot {
		probs = append(probs, "the running root is seeded with the post-root field")
	}
	r.Check(len(probs) == 0, "O1.5", cname+": batch gadget operands", ctx.posOf(br.BatchG, br.Circuit),
		fmt.Sprintf("start←%s pre-root←%s items←%s paths←%s batch←%s depth←%s; result asserted = %s", br.Map[br.Start], br.Map[br.PreRoot], br.Map[br.Items], br.Map[br.Paths], br.Map[br.BatchSize], br.Map[br.Depth], br.PostRoot),
		strings.Join(probs, "; "))
	// the depth and batch size must be int fields of the circuit
	// O1.1–O1.3 in the round
	rd := br.Round
	rname := rd.Name + ".DefineGadget"
	recv := rd.Ev.Params[0]
	F := func(role string) *tf.Term { return tf.Field(recv, br.RoundRole[role]) }
	if rd.Ret.K != tf.KGadget {
		r.Violation("O1.3", rname+": returned root", p.Pos(rd.Fn.Pos()), "the round does not return a Merkle recomputation gadget result (got %s)", describe(rd.Ret))
		return
	}
	mr := checkMerkle(p, r, ctx, rd.Ret, "O1.6")
	if mr == nil {
		return
	}
	r.Count("merkle gadget definitions", 1)
	seqOf := func(t *tf.Term) *tf.Term { return t.FieldOf(mr.SeqField) }
	pathOf := func(t *tf.Term) *tf.Term { return t.FieldOf(mr.DirField) }
	// O1.3
	wantItemSeq := tf.Seq(tf.Elem(F("item")), tf.Splice(F("proof")))
	retSeq, retPath := seqOf(rd.Ret), pathOf(rd.Ret)
	r.Check(retSeq != nil && tf.Eq(retSeq, wantItemSeq), "O1.3", rname+": returned root", ctx.posOf(rd.Ret, rd),
		"returns "+rd.Ret.Name+"(item ‖ siblings, path)", fmt.Sprintf("the returned recomputation hashes %s instead of [item siblings...]", describe(retSeq)))
	// O1.1
	okPath := retPath != nil && isApi(retPath, "ToBinary") && len(retPath.Args) == 2 && tf.Eq(retPath.Args[0], F("index")) && tf.Eq(retPath.Args[1], F("depth"))
	detail := ""
	if !okPath && retPath != nil {
		detail = fmt.Sprintf("the path of the returned recomputation is %s; expected api.ToBinary($g.%s, $g.%s) with the width exactly the depth field (one more bit aliases leaves beyond the tree, one less ignores the top level)", describe(retPath), br.RoundRole["index"], br.RoundRole["depth"])
	}
	r.Check(okPath, "O1.1", rname+": index decomposition", ctx.posOf(retPath, rd), "path = api.ToBinary(index, depth)", detail)
	r.Count("index decompositions", len(apiEvents(rd, "ToBinary")))
	// O1.2
	wantEmptySeq := tf.Seq(tf.Elem(tf.ConstInt(0)), tf.Splice(F("proof")))
	found := false
	var why []string
	var emptyAsserts []tf.Event
	for _, e := range apiEvents(rd, "AssertIsEqual") {
		a, b, _ := assertEqSides(e.Term)
		for _, pair := range [][2]*tf.Term{{a, b}, {b, a}} {
			g, other := pair[0], pair[1]
			if g.K != tf.KGadget || g.Name != rd.Ret.Name {
				continue
			}
			switch {
			case !tf.Eq(other, F("running")):
				why = append(why, "an assert compares the recomputation with "+describe(other)+" instead of the running root")
			case seqOf(g) == nil || !tf.Eq(seqOf(g), wantEmptySeq):
				why = append(why, "the asserted recomputation hashes "+describe(seqOf(g))+" instead of [0 siblings...]")
			case pathOf(g) == nil || retPath == nil || !tf.Eq(pathOf(g), retPath):
				why = append(why, "the asserted recomputation uses path "+describe(pathOf(g))+", not the decomposition used for the update")
			case !mustEvent(e):
				why = append(why, "the emptiness assert does not execute on every path")
			default:
				found = true
				emptyAsserts = append(emptyAsserts, e)
				r.OK("O1.2", rname+": empty-leaf membership against the running root", p.Pos(e.Instr.Pos()), "AssertIsEqual(%s([0 siblings...], path), running root) on every path", g.Name)
			}
		}
	}
	if !found {
		if len(why) == 0 {
			why = append(why, "no AssertIsEqual between a Merkle recomputation and the running root")
		}
		r.Violation("O1.2", rname+": empty-leaf membership against the running root", p.Pos(rd.Fn.Pos()), "%s", strings.Join(why, "; "))
	}
	r.Count("merkle recomputations in the round", len(gadgetEvents(rd, rd.Ret.Name)))
	// direction bits boolean: in the step, or because the path is a ToBinary result
	r.Check(mr.dirBoolInStep || okPath, "O1.6", mr.Step.Name+".DefineGadget: direction bit is boolean", p.Pos(mr.Step.Fn.Pos()),
		fmt.Sprintf("asserted/selected in the step: %v; path bits come from api.ToBinary: %v", mr.dirBoolInStep, okPath),
		"the direction bit is neither constrained boolean in the step gadget nor an output of api.ToBinary at the call site: a dishonest prover can choose non-boolean 'bits'")
	// O1.8: nothing restricts the witness beyond O1.1–O1.6 and the input-hash binding
	var stepBool []tf.Event
	for _, e := range mr.Step.Events {
		if isApi(e.Term, "AssertIsBoolean") && len(e.Term.Args) == 1 && tf.Eq(e.Term.Args[0], tf.Field(mr.Step.Ev.Params[0], mr.Dir)) {
			stepBool = append(stepBool, e)
		}
	}
	checkNoExtraConstraints(p, r, "O1.8", []*gadgetInfo{br.Circuit, br.Batch, rd, mr.G, mr.Step}, map[*gadgetInfo][]tf.Event{
		br.Circuit: append([]tf.Event{br.Final}, publicAsserts(br.Circuit, br.T)...),
		rd:         emptyAsserts,
		mr.Step:    stepBool,
	})
	r.Floor("constraint-introducing calls accounted", 10)
	// O1.7
	checkNoHints(p, r, ctx, br.Circuit, "O1.7")
	r.Floor("index decompositions", 1)
	r.Floor("merkle recomputations in the round", 2)
	r.Floor("merkle gadget definitions", 1)
	// O1.9: "every input that meets the relation is accepted" also needs the input-hash side of the circuit to accept
	// every canonical value (the packing gadgets and the in-circuit Keccak are constraints of this circuit too)
	// O1.11: "for every tree depth and batch size" also quantifies over what was built before in the same process: the
	// construction code keeps no state (a compiled-circuit cache with a colliding key hands out the circuit of another depth)
	importRule(p, r, "O1.11", "C12", "O12.4", "construction and definition code is free of state and other nondeterminism sources")
	importRule(p, r, "O1.12", "C13", "O13.1", "the proving path keeps no unsynchronised shared state: each witness is built from its own request, whatever else is in flight")
	// O1.10: "every input that meets the relation is accepted" as observed at the prover: the prover of this circuit, its
	// shape validator and whatever they call refuse nothing on the strength of request *values* (a range test on the start
	// index or on an index that overflows for the largest depth refuses valid batches the circuit would accept)
	if T, _, _ := circuitTypeOf(p, "SetupInsertion"); T != nil {
		if ps := provingSystemType(p); ps != nil {
			for _, fn := range p.RepoFuncs() {
				if fn.Signature.Recv() == nil || namedOf(fn.Signature.Recv().Type()) != ps || fn.Signature.Results().Len() != 2 || (delegateTarget(fn) != nil || composesProvers(fn)) || requestParamIndex(fn) < 0 {
					continue
				}
				if wt := witnessCircuitType(fn); wt != nil && wt == T {
					checkRefusals(p, r, "O1.10", fn)
				}
			}
		}
	}
	importVerdicts(p, r, "O1.9", "the input-hash binding adds no restriction of its own: packer, reducedness comparator and Keccak layout", "C03")
	r.Extra["merkle_convention"] = map[string]any{"direction_bit_0_puts_running_node_first": mr.DirZeroAccFirst, "hash": mr.Hash2.Name}
}

func checkNoHints(p *core.Program, r *core.Report, ctx *circuitCtx, root *gadgetInfo, rule string) {
	defs := ctx.definitionCode(root)
	n := 0
	for _, g := range defs {
		r.AnalysedFn(core.FuncName(g.Fn))
		fs := hintFindings(p, g)
		n++
		if len(fs) == 0 {
			continue
		}
		r.Violation(rule, g.Name+"."+g.Fn.Name()+": prover-chosen values", p.Pos(g.Fn.Pos()), "%s", strings.Join(fs, "; "))
	}
	r.OK(rule, "definition code scanned for hints", "-", "%d definitions reachable from %s", n, root.Name)
	r.Count("definitions scanned for hints", n)
}

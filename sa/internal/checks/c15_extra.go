package checks

import (
	"fmt"
	"go/ast"
	"go/token"
	"go/types"
	"strings"

	"golang.org/x/tools/go/ssa"

	"verif/sa/internal/core"
	"verif/sa/internal/eff"
	"verif/sa/internal/flow"
)

// checkLoadChainTermination decides O15.4 for the functions of the load chain: a truncated file must make the loader *return*
// an error — not hang, not panic. Two shapes are decided:
//
//   - an io.Pipe between the file and the decoders: the write end must be closed on every path of the function that fills it
//     (unconditionally or by defer). If it is closed only when copying failed, a clean end of file leaves the read end blocked
//     for ever as soon as a decoder asks for a byte the truncated file does not have;
//   - a deferred function registered before a reference field of the loaded system is assigned may not call a method through
//     that field without a nil test: on every early error return the field is still nil and the deferred call panics.
func checkLoadChainTermination(p *core.Program, r *core.Report, chain []flow.FuncUnit, psT *types.Named) {
	nPipes, nDefers := 0, 0
	for _, u := range chain {
		fd, ok := u.Node.(*ast.FuncDecl)
		if !ok {
			continue
		}
		obj, _ := u.Pkg.TypesInfo.Defs[fd.Name].(*types.Func)
		fn := p.SSA.FuncValue(obj)
		if fn == nil || fn.Blocks == nil {
			continue
		}
		var fns []*ssa.Function
		var collect func(f *ssa.Function)
		collect = func(f *ssa.Function) {
			fns = append(fns, f)
			for _, a := range f.AnonFuncs {
				collect(a)
			}
		}
		collect(fn)
		// ---- pipes
		for _, f := range fns {
			for _, b := range f.Blocks {
				for _, in := range b.Instrs {
					c, ok := in.(*ssa.Call)
					if !ok || c.Common().StaticCallee() == nil || c.Common().StaticCallee().String() != "io.Pipe" {
						continue
					}
					nPipes++
					cn := u.Name + ": io.Pipe write end is closed on every path"
					// the write end: Extract #1, possibly stored into a captured cell
					var writers []ssa.Value
					for _, ref := range *c.Referrers() {
						if ex, ok := ref.(*ssa.Extract); ok && ex.Index == 1 {
							writers = append(writers, ex)
							for _, r2 := range *ex.Referrers() {
								if st, ok := r2.(*ssa.Store); ok && st.Val == ssa.Value(ex) {
									writers = append(writers, st.Addr)
								}
							}
						}
					}
					isWriter := func(v ssa.Value, in *ssa.Function) bool {
						for {
							for _, w := range writers {
								if v == w {
									return true
								}
							}
							switch x := v.(type) {
							case *ssa.UnOp:
								if x.Op == token.MUL {
									v = x.X
									continue
								}
							case *ssa.MakeInterface:
								v = x.X
								continue
							case *ssa.FreeVar:
								// bound to the cell in the parent
								for _, pf := range fns {
									for _, pb := range pf.Blocks {
										for _, pin := range pb.Instrs {
											if mc, ok := pin.(*ssa.MakeClosure); ok && mc.Fn == ssa.Value(in) {
												for i, fv := range in.FreeVars {
													if fv == x && i < len(mc.Bindings) {
														for _, w := range writers {
															if mc.Bindings[i] == w {
																return true
															}
														}
													}
												}
											}
										}
									}
								}
							}
							return false
						}
					}
					// the function that writes into the pipe (passes the write end to io.Copy / calls Write on it)
					closedEverywhere := false
					var fillers []string
					for _, g := range fns {
						writes := false
						var closes []ssa.Instruction
						for _, gb := range g.Blocks {
							for _, gin := range gb.Instrs {
								cc, ok := gin.(ssa.CallInstruction)
								if !ok {
									continue
								}
								com := cc.Common()
								callee := com.StaticCallee()
								name := ""
								if callee != nil {
									name = callee.String()
								} else if com.IsInvoke() {
									name = com.Method.Name()
								}
								for ai, a := range com.Args {
									if isWriter(a, g) {
										if strings.HasSuffix(name, "PipeWriter).Close") || strings.HasSuffix(name, "PipeWriter).CloseWithError") {
											if ai == 0 {
												closes = append(closes, gin)
											}
										} else {
											writes = true
										}
									}
								}
							}
						}
						if !writes {
							continue
						}
						fillers = append(fillers, core.FuncName(g))
						for _, cl := range closes {
							if _, isDefer := cl.(*ssa.Defer); isDefer {
								closedEverywhere = true
							}
							all := true
							for _, gb := range g.Blocks {
								if len(gb.Instrs) == 0 {
									continue
								}
								if ret, ok := gb.Instrs[len(gb.Instrs)-1].(*ssa.Return); ok && !instrBefore(cl, ret) {
									all = false
								}
							}
							if all {
								closedEverywhere = true
							}
						}
					}
					r.Check(closedEverywhere, "O15.4", cn, p.Pos(c.Pos()), "the goroutine/function that fills the pipe closes its write end on every path",
						"the write end of the pipe is not closed on every path of "+strings.Join(fillers, ", ")+" (closed only on some, or never): after a clean end of file the read end never sees EOF, so a decoder that needs more bytes than a truncated file has blocks for ever instead of failing")
				}
			}
		}
		// ---- deferred calls through fields that are still nil on early returns
		if fn.Signature.Recv() == nil || namedOf(fn.Signature.Recv().Type()) != psT || len(fn.Params) == 0 {
			continue
		}
		recv := fn.Params[0]
		// the receiver may be spilled to a cell because a closure captures it
		var recvCell *ssa.Alloc
		for _, ref := range *recv.Referrers() {
			if st, ok := ref.(*ssa.Store); ok && st.Val == ssa.Value(recv) {
				if al, ok := st.Addr.(*ssa.Alloc); ok {
					recvCell = al
				}
			}
		}
		isRecvOuter := func(v ssa.Value) bool {
			if v == ssa.Value(recv) {
				return true
			}
			if u, ok := v.(*ssa.UnOp); ok && u.Op == token.MUL && recvCell != nil && u.X == ssa.Value(recvCell) {
				return true
			}
			return false
		}
		for _, b := range fn.Blocks {
			for _, in := range b.Instrs {
				d, ok := in.(*ssa.Defer)
				if !ok {
					continue
				}
				mc, ok := d.Common().Value.(*ssa.MakeClosure)
				if !ok {
					continue
				}
				cf, ok := mc.Fn.(*ssa.Function)
				if !ok {
					continue
				}
				nDefers++
				// receiver as seen inside the closure
				innerDirect, innerCell := map[ssa.Value]bool{}, map[ssa.Value]bool{}
				for i, fv := range cf.FreeVars {
					if i < len(mc.Bindings) && mc.Bindings[i] == ssa.Value(recv) {
						innerDirect[fv] = true
					}
					if i < len(mc.Bindings) && recvCell != nil && mc.Bindings[i] == ssa.Value(recvCell) {
						innerCell[fv] = true
					}
				}
				inner := func(v ssa.Value) bool {
					if innerDirect[v] {
						return true
					}
					if u, ok := v.(*ssa.UnOp); ok && u.Op == token.MUL && innerCell[u.X] {
						return true
					}
					return false
				}
				var bad []string
				for _, cb := range cf.Blocks {
					for _, cin := range cb.Instrs {
						cc, ok := cin.(ssa.CallInstruction)
						if !ok || !cc.Common().IsInvoke() {
							continue
						}
						ld, ok := cc.Common().Value.(*ssa.UnOp)
						if !ok || ld.Op != token.MUL {
							continue
						}
						fa, ok := ld.X.(*ssa.FieldAddr)
						if !ok || !inner(fa.X) {
							continue
						}
						fname := structFieldName(fa.X.Type(), fa.Field)
						// is the field assigned before the defer is registered?
						assignedBefore := false
						for _, ob := range fn.Blocks {
							for _, oin := range ob.Instrs {
								if st, ok := oin.(*ssa.Store); ok {
									if ofa, ok := st.Addr.(*ssa.FieldAddr); ok && isRecvOuter(ofa.X) && ofa.Field == fa.Field && instrBefore(st, d) {
										assignedBefore = true
									}
								}
							}
						}
						// or nil-tested inside the closure on the way to the call
						tested := false
						for dd := cb.Idom(); dd != nil; dd = dd.Idom() {
							if iff, ok := dd.Instrs[len(dd.Instrs)-1].(*ssa.If); ok {
								if bo, ok := iff.Cond.(*ssa.BinOp); ok && (bo.Op == token.NEQ || bo.Op == token.EQL) {
									for _, side := range []ssa.Value{bo.X, bo.Y} {
										if l2, ok := side.(*ssa.UnOp); ok && l2.Op == token.MUL {
											if f2, ok := l2.X.(*ssa.FieldAddr); ok && inner(f2.X) && f2.Field == fa.Field {
												tested = true
											}
										}
									}
								}
							}
						}
						if !assignedBefore && !tested {
							bad = append(bad, "calls "+cc.Common().Method.Name()+" through "+fname+" at "+p.Pos(cin.Pos()))
						}
					}
				}
				cn := u.Name + ": deferred function does not dereference a field that is still unset on error returns"
				r.Check(len(bad) == 0, "O15.4", cn, p.Pos(d.Pos()), "no method call through a not-yet-assigned field of the system in a deferred function",
					"the deferred function "+strings.Join(bad, "; ")+", a field that is assigned only later in the method: on every earlier error return (a file cut before that section) the field is nil and the deferred call panics instead of the error being returned")
			}
		}
	}
	r.Extra["load_chain_pipes"] = nPipes
	r.Extra["load_chain_defers_with_closures"] = nDefers
	if nPipes == 0 {
		r.OK("O15.4", "load chain: no pipe between the file and the decoders", "-", "the decoders read the file (or a buffered reader over it) directly: end of file is end of stream")
	}
}

// checkDeferredErrorOverwrite (O15.2): a deferred function of a loader may set the named error result only when no error is
// pending — `if closeErr != nil && err == nil { err = closeErr }`. An unconditional assignment (`err = file.Close()`)
// replaces the decoder's "unexpected EOF" by the nil of a successful Close: every truncated file then loads "successfully".
func checkDeferredErrorOverwrite(p *core.Program, r *core.Report, chain []flow.FuncUnit) {
	n := 0
	for _, u := range chain {
		fd, ok := u.Node.(*ast.FuncDecl)
		if !ok {
			continue
		}
		obj, _ := u.Pkg.TypesInfo.Defs[fd.Name].(*types.Func)
		fn := p.SSA.FuncValue(obj)
		if fn == nil || fn.Blocks == nil {
			continue
		}
		// the cell of a named error result: an Alloc of type *error that a Return loads from
		errCells := map[*ssa.Alloc]bool{}
		for _, b := range fn.Blocks {
			ret, ok := b.Instrs[len(b.Instrs)-1].(*ssa.Return)
			if !ok {
				continue
			}
			for _, rv := range ret.Results {
				if ld, ok := rv.(*ssa.UnOp); ok && ld.Op == token.MUL {
					if al, ok := ld.X.(*ssa.Alloc); ok && isErrorType(al.Type().(*types.Pointer).Elem()) {
						errCells[al] = true
					}
				}
			}
		}
		if len(errCells) == 0 {
			continue
		}
		for _, b := range fn.Blocks {
			for _, in := range b.Instrs {
				df, ok := in.(*ssa.Defer)
				if !ok {
					continue
				}
				mc, ok := df.Call.Value.(*ssa.MakeClosure)
				if !ok {
					continue
				}
				cl := mc.Fn.(*ssa.Function)
				for k, bnd := range mc.Bindings {
					al, ok := bnd.(*ssa.Alloc)
					if !ok || !errCells[al] || k >= len(cl.FreeVars) {
						continue
					}
					fv := cl.FreeVars[k]
					for _, cb := range cl.Blocks {
						for _, ci := range cb.Instrs {
							st, ok := ci.(*ssa.Store)
							if !ok || st.Addr != ssa.Value(fv) {
								continue
							}
							n++
							cn := fmt.Sprintf("%s: deferred assignment to the error result #%d", u.Name, n)
							keeps := false
							if jc, ok := st.Val.(*ssa.Call); ok && jc.Common().StaticCallee() != nil && jc.Common().StaticCallee().String() == "errors.Join" {
								// errors.Join(err, cleanupErr) keeps a pending error
								if sl, ok := jc.Common().Args[0].(*ssa.Slice); ok {
									if arr, ok := sl.X.(*ssa.Alloc); ok {
										for _, ref := range *arr.Referrers() {
											if ia, ok := ref.(*ssa.IndexAddr); ok {
												for _, rr := range *ia.Referrers() {
													if est, ok := rr.(*ssa.Store); ok {
														if ld, ok := est.Val.(*ssa.UnOp); ok && ld.Op == token.MUL && ld.X == ssa.Value(fv) {
															keeps = true
														}
													}
												}
											}
										}
									}
								}
							}
							if keeps {
								r.OK("O15.2", cn, p.Pos(st.Pos()), "the pending error is joined with the clean-up error, not replaced")
							} else if guardedByNilTest(cb, fv) {
								r.OK("O15.2", cn, p.Pos(st.Pos()), "assigned only when no error is pending (err == nil on the path)")
							} else {
								r.Violation("O15.2", cn, p.Pos(st.Pos()), "the deferred function assigns the named error result without testing that it is nil: a pending read error (unexpected EOF of a truncated file) is replaced by the outcome of the clean-up call, so the truncated file loads without error")
							}
						}
					}
				}
			}
		}
	}
	r.Count("deferred error assignments", n)
}

// guardedByNilTest: block b is reached only through the side of a branch on which *cell == nil holds.
func guardedByNilTest(b *ssa.BasicBlock, cell ssa.Value) bool {
	for d := b.Idom(); d != nil; d = d.Idom() {
		iff, ok := d.Instrs[len(d.Instrs)-1].(*ssa.If)
		if !ok {
			continue
		}
		bo, ok := iff.Cond.(*ssa.BinOp)
		if !ok || (bo.Op != token.EQL && bo.Op != token.NEQ) {
			continue
		}
		isCellLoad := func(v ssa.Value) bool {
			ld, ok := v.(*ssa.UnOp)
			return ok && ld.Op == token.MUL && ld.X == cell
		}
		isNil := func(v ssa.Value) bool {
			c, ok := v.(*ssa.Const)
			return ok && c.Value == nil
		}
		if !((isCellLoad(bo.X) && isNil(bo.Y)) || (isCellLoad(bo.Y) && isNil(bo.X))) {
			continue
		}
		side := 0
		if bo.Op == token.NEQ {
			side = 1
		}
		s := d.Succs[side]
		if (s == b || s.Dominates(b)) && len(s.Preds) == 1 {
			return true
		}
	}
	return false
}

// checkLoadChainDivisions (O15.5): "never panics" — an integer division or remainder in the load chain whose divisor can be
// zero (a file size, a byte count: zero for an empty file) panics instead of returning the error. The divisor must be a
// non-zero constant or be tested non-zero / positive on the path.
func checkLoadChainDivisions(p *core.Program, r *core.Report, chain []flow.FuncUnit) {
	n := 0
	var bad []string
	for _, u := range chain {
		fd, ok := u.Node.(*ast.FuncDecl)
		if !ok {
			continue
		}
		obj, _ := u.Pkg.TypesInfo.Defs[fd.Name].(*types.Func)
		fn := p.SSA.FuncValue(obj)
		if fn == nil {
			continue
		}
		var fns []*ssa.Function
		var coll func(f *ssa.Function)
		coll = func(f *ssa.Function) {
			fns = append(fns, f)
			for _, a := range f.AnonFuncs {
				coll(a)
			}
		}
		coll(fn)
		for _, f := range fns {
			for _, b := range f.Blocks {
				for _, in := range b.Instrs {
					bo, ok := in.(*ssa.BinOp)
					if !ok || (bo.Op != token.QUO && bo.Op != token.REM) || !isIntegerType(bo.Type()) {
						continue
					}
					if c, isC := bo.Y.(*ssa.Const); isC && c.Value != nil && constantInt(c.Value) != 0 {
						continue
					}
					n++
					if !nonZeroOnPath(bo.Y, b) {
						bad = append(bad, fmt.Sprintf("%s at %s divides by a value that is not tested to be non-zero", core.FuncName(f), p.Pos(bo.Pos())))
					}
				}
			}
		}
	}
	r.Count("integer divisions in the load chain", n)
	if len(bad) == 0 {
		r.OK("O15.5", "load chain: integer divisions cannot divide by zero", "-", "%d division(s) with a non-constant divisor, each guarded", n)
		return
	}
	for i, b := range bad {
		r.Violation("O15.5", fmt.Sprintf("load chain: integer division #%d", i+1), "-", "%s: for an empty or short file the divisor (a size or count) is zero and the loader panics instead of returning the error", b)
	}
}

// nonZeroOnPath: a branch dominating b, on b's side, tests v (or what it was converted from) != 0, > 0, >= c>0 …
func nonZeroOnPath(v ssa.Value, b *ssa.BasicBlock) bool {
	root := func(x ssa.Value) ssa.Value {
		for {
			switch y := x.(type) {
			case *ssa.Convert:
				x = y.X
				continue
			case *ssa.ChangeType:
				x = y.X
				continue
			}
			return x
		}
	}
	rv := root(v)
	for d := b.Idom(); d != nil; d = d.Idom() {
		iff, ok := d.Instrs[len(d.Instrs)-1].(*ssa.If)
		if !ok {
			continue
		}
		onT := (d.Succs[0] == b || d.Succs[0].Dominates(b)) && len(d.Succs[0].Preds) == 1
		onF := (d.Succs[1] == b || d.Succs[1].Dominates(b)) && len(d.Succs[1].Preds) == 1
		if onT == onF {
			continue
		}
		bo, ok := iff.Cond.(*ssa.BinOp)
		if !ok {
			continue
		}
		op, x, y := bo.Op, bo.X, bo.Y
		if root(y) == rv {
			x, y = y, x
			op = flipCmpTok(op)
		}
		if root(x) != rv {
			continue
		}
		c, isC := y.(*ssa.Const)
		if !isC || c.Value == nil {
			continue
		}
		k := constantInt(c.Value)
		if onF {
			op = negCmpTok(op)
		}
		switch {
		case op == token.NEQ && k == 0, op == token.GTR && k >= 0, op == token.GEQ && k >= 1:
			return true
		}
	}
	return false
}

// checkLoadChainState (O15.6): whether a truncated file is rejected must not depend on what was loaded before: the load
// chain uses no package-level variable that any non-initialiser function of the repository writes (a package-level scratch
// buffer keeps the bytes of the previous, longer file behind the truncated one).
func checkLoadChainState(p *core.Program, r *core.Report, chain []flow.FuncUnit) {
	g := eff.BuildGraph(p)
	writers := eff.GlobalStateWriters(g)
	written := map[*ssa.Global]*ssa.Function{}
	for f, gs := range writers {
		for _, gl := range gs {
			written[gl] = f
		}
	}
	var bad []string
	nFn := 0
	for _, u := range chain {
		fd, ok := u.Node.(*ast.FuncDecl)
		if !ok {
			continue
		}
		obj, _ := u.Pkg.TypesInfo.Defs[fd.Name].(*types.Func)
		fn := p.SSA.FuncValue(obj)
		if fn == nil {
			continue
		}
		var fns []*ssa.Function
		var coll func(f *ssa.Function)
		coll = func(f *ssa.Function) {
			fns = append(fns, f)
			for _, a := range f.AnonFuncs {
				coll(a)
			}
		}
		coll(fn)
		for _, f := range fns {
			nFn++
			for _, b := range f.Blocks {
				for _, in := range b.Instrs {
					for _, op := range in.Operands(nil) {
						if op == nil || *op == nil {
							continue
						}
						gl, ok := (*op).(*ssa.Global)
						if !ok || gl.Pkg == nil || !core.InRepo(gl.Pkg.Pkg.Path()) || gl.Pkg.Pkg.Name() == "logging" {
							continue
						}
						if w, isW := written[gl]; isW {
							bad = append(bad, fmt.Sprintf("%s uses package-level variable %s at %s, which %s writes", core.FuncName(f), gl.Name(), p.Pos(in.Pos()), core.FuncName(w)))
						}
					}
				}
			}
		}
	}
	bad = uniqStrings(bad)
	if len(bad) == 0 {
		r.OK("O15.6", "load chain: no state kept between loads", "-", "%d function(s) of the load chain use no package-level variable written outside initialisers", nFn)
		return
	}
	for i, b := range bad {
		r.Violation("O15.6", fmt.Sprintf("load chain: package-level state #%d", i+1), "-", "%s: the outcome of loading a (truncated) file then depends on what was loaded before", b)
	}
}

// checkReaderCompleteness (O15.7): a function of the load chain that reads sections from an io.Reader parameter reads the
// same sections on every success path: a success return that is reached after fewer reads than another one (an early
// `return` under a "keys only" flag) accepts a file that is cut anywhere after the point where it stopped reading.
func checkReaderCompleteness(p *core.Program, r *core.Report, chain []flow.FuncUnit) {
	n := 0
	for _, u := range chain {
		fd, ok := u.Node.(*ast.FuncDecl)
		if !ok {
			continue
		}
		obj, _ := u.Pkg.TypesInfo.Defs[fd.Name].(*types.Func)
		fn := p.SSA.FuncValue(obj)
		if fn == nil || len(fn.Blocks) == 0 {
			continue
		}
		var rd *ssa.Parameter
		for _, prm := range fn.Params {
			if isIOReader(prm.Type()) {
				rd = prm
			}
		}
		if rd == nil {
			continue
		}
		var reads []*ssa.Call
		for _, b := range fn.Blocks {
			for _, in := range b.Instrs {
				c, ok := in.(*ssa.Call)
				if !ok {
					continue
				}
				for _, a := range c.Common().Args {
					v := a
					if mi, isMI := v.(*ssa.MakeInterface); isMI {
						v = mi.X
					}
					if v == ssa.Value(rd) {
						reads = append(reads, c)
					}
				}
			}
		}
		if len(reads) == 0 {
			continue
		}
		type succ struct {
			ret *ssa.Return
			dom map[*ssa.Call]bool
		}
		var succs []succ
		for _, b := range fn.Blocks {
			ret, ok := b.Instrs[len(b.Instrs)-1].(*ssa.Return)
			if !ok || len(ret.Results) == 0 {
				continue
			}
			ev := ret.Results[len(ret.Results)-1]
			if !isErrorType(ev.Type()) {
				continue
			}
			if k, isC := ev.(*ssa.Const); !isC || k.Value != nil {
				if len(ssaOrigins(ev, nil)) > 0 {
					continue // may carry an error: not a success return
				}
			}
			d := map[*ssa.Call]bool{}
			for _, c := range reads {
				if c.Block() == b || c.Block().Dominates(b) {
					d[c] = true
				}
			}
			succs = append(succs, succ{ret, d})
		}
		if len(succs) == 0 {
			continue
		}
		n++
		most := succs[0]
		for _, s := range succs {
			if len(s.dom) > len(most.dom) {
				most = s
			}
		}
		var bad []string
		for _, s := range succs {
			if len(s.dom) < len(most.dom) {
				bad = append(bad, fmt.Sprintf("the success return at %s is reached after %d of the %d reads that precede the success return at %s", p.Pos(s.ret.Pos()), len(s.dom), len(most.dom), p.Pos(most.ret.Pos())))
			}
		}
		cn := u.Name + ": every success path reads every section"
		if len(bad) == 0 {
			r.OK("O15.7", cn, p.Pos(fn.Pos()), "%d success return(s), each preceded by the same %d read(s) from the reader", len(succs), len(most.dom))
		} else {
			r.Violation("O15.7", cn, p.Pos(fn.Pos()), "%s: a file cut after the point where that path stops reading is accepted as complete", strings.Join(bad, "; "))
		}
	}
	r.Count("section readers checked for completeness", n)
}

package flow

import (
	"go/ast"
	"go/token"
	"go/types"

	"golang.org/x/tools/go/cfg"
)

func calleeFunc(info *types.Info, call *ast.CallExpr) (*types.Func, bool) {
	fn, ok := Callee(info, call).(*types.Func)
	return fn, ok
}

// Graph wraps a go/cfg graph with dominator information and node lookup.
type Graph struct {
	// NonNilError, when set, tells whether a function always returns a non-nil error (an error constructor).
	NonNilError func(*types.Func) bool
	U           FuncUnit
	Info        *types.Info
	CFG         *cfg.CFG
	// switchTag maps each case expression of a tagged switch to the switch's tag: go/cfg emits the bare case expression as
	// the condition node, which stands for `tag == expr`
	switchTag map[ast.Expr]ast.Expr
	idom      map[*cfg.Block]*cfg.Block
	order     map[*cfg.Block]int
	preds     map[*cfg.Block][]*cfg.Block
}

// NewGraph builds the CFG of a function unit.
func NewGraph(u FuncUnit) *Graph {
	body := u.body()
	if body == nil {
		return nil
	}
	g := &Graph{U: u, Info: u.Pkg.TypesInfo}
	g.CFG = cfg.New(body, MayReturn(g.Info))
	g.computeDominators()
	g.switchTag = map[ast.Expr]ast.Expr{}
	ast.Inspect(body, func(n ast.Node) bool {
		if _, ok := n.(*ast.FuncLit); ok {
			return false
		}
		if sw, ok := n.(*ast.SwitchStmt); ok && sw.Tag != nil {
			for _, c := range sw.Body.List {
				if cc, ok := c.(*ast.CaseClause); ok {
					for _, e := range cc.List {
						g.switchTag[e] = sw.Tag
					}
				}
			}
		}
		return true
	})
	return g
}

func (g *Graph) Entry() *cfg.Block { return g.CFG.Blocks[0] }

func (g *Graph) computeDominators() {
	// reverse postorder
	var rpo []*cfg.Block
	seen := map[*cfg.Block]bool{}
	var dfs func(b *cfg.Block)
	dfs = func(b *cfg.Block) {
		seen[b] = true
		for _, s := range b.Succs {
			if !seen[s] {
				dfs(s)
			}
		}
		rpo = append(rpo, b)
	}
	dfs(g.Entry())
	for i, j := 0, len(rpo)-1; i < j; i, j = i+1, j-1 {
		rpo[i], rpo[j] = rpo[j], rpo[i]
	}
	g.order = map[*cfg.Block]int{}
	for i, b := range rpo {
		g.order[b] = i
	}
	g.preds = map[*cfg.Block][]*cfg.Block{}
	for _, b := range rpo {
		for _, s := range b.Succs {
			g.preds[s] = append(g.preds[s], b)
		}
	}
	g.idom = map[*cfg.Block]*cfg.Block{}
	entry := g.Entry()
	g.idom[entry] = entry
	changed := true
	for changed {
		changed = false
		for _, b := range rpo[1:] {
			var nd *cfg.Block
			for _, p := range g.preds[b] {
				if g.idom[p] == nil {
					continue
				}
				if nd == nil {
					nd = p
				} else {
					nd = g.intersect(p, nd)
				}
			}
			if nd != nil && g.idom[b] != nd {
				g.idom[b] = nd
				changed = true
			}
		}
	}
}

func (g *Graph) intersect(a, b *cfg.Block) *cfg.Block {
	for a != b {
		for g.order[a] > g.order[b] {
			a = g.idom[a]
		}
		for g.order[b] > g.order[a] {
			b = g.idom[b]
		}
	}
	return a
}

// Reachable reports whether block b is reachable from the entry.
func (g *Graph) Reachable(b *cfg.Block) bool { _, ok := g.order[b]; return ok }

// Dominates: every path from entry to b passes through a.
func (g *Graph) Dominates(a, b *cfg.Block) bool {
	if !g.Reachable(b) || !g.Reachable(a) {
		return false
	}
	for {
		if a == b {
			return true
		}
		if b == g.Entry() {
			return false
		}
		b = g.idom[b]
	}
}

// Loc is the position of an AST node in the CFG.
type Loc struct {
	B *cfg.Block
	I int
}

// Locate finds the CFG node that contains the given AST node (by source range), not descending into function literals.
func (g *Graph) Locate(n ast.Node) (Loc, bool) {
	for _, b := range g.CFG.Blocks {
		if !g.Reachable(b) {
			continue
		}
		for i, m := range b.Nodes {
			if m.Pos() <= n.Pos() && n.End() <= m.End() {
				// make sure it is not inside a FuncLit of m
				inLit := false
				ast.Inspect(m, func(x ast.Node) bool {
					if fl, ok := x.(*ast.FuncLit); ok && fl != n {
						if fl.Pos() <= n.Pos() && n.End() <= fl.End() {
							inLit = true
						}
						return false
					}
					return true
				})
				if !inLit {
					return Loc{b, i}, true
				}
			}
		}
	}
	return Loc{}, false
}

// LocDominates: every path from entry to b passes a first.
func (g *Graph) LocDominates(a, b Loc) bool {
	if a.B == b.B {
		return a.I < b.I
	}
	return g.Dominates(a.B, b.B)
}

// ReachableFrom returns the set of blocks reachable from location a (a.B itself only if reachable through a cycle), and
// whether a later node of a.B is trivially reachable.
func (g *Graph) ReachableFrom(a Loc) map[*cfg.Block]bool {
	seen := map[*cfg.Block]bool{}
	var work []*cfg.Block
	work = append(work, a.B.Succs...)
	for len(work) > 0 {
		b := work[len(work)-1]
		work = work[:len(work)-1]
		if seen[b] {
			continue
		}
		seen[b] = true
		work = append(work, b.Succs...)
	}
	return seen
}

// LocReaches: is there a path from a to b (b strictly after a).
func (g *Graph) LocReaches(a, b Loc) bool {
	if a.B == b.B && a.I < b.I {
		return true
	}
	return g.ReachableFrom(a)[b.B]
}

// Returns lists the return statements (and their locations) of the function, plus whether the function end can be
// reached by falling off.
func (g *Graph) Returns() []struct {
	Ret *ast.ReturnStmt
	Loc Loc
} {
	var out []struct {
		Ret *ast.ReturnStmt
		Loc Loc
	}
	for _, b := range g.CFG.Blocks {
		if !g.Reachable(b) {
			continue
		}
		for i, n := range b.Nodes {
			if r, ok := n.(*ast.ReturnStmt); ok {
				out = append(out, struct {
					Ret *ast.ReturnStmt
					Loc Loc
				}{r, Loc{b, i}})
			}
		}
	}
	return out
}

// FallsOff lists reachable blocks without successors that do not end in a return or a no-return call.
func (g *Graph) FallsOff() []*cfg.Block {
	var out []*cfg.Block
	for _, b := range g.CFG.Blocks {
		if !g.Reachable(b) || len(b.Succs) != 0 {
			continue
		}
		if len(b.Nodes) > 0 {
			if _, ok := b.Nodes[len(b.Nodes)-1].(*ast.ReturnStmt); ok {
				continue
			}
			if endsInNoReturn(g.Info, b) {
				continue
			}
		}
		out = append(out, b)
	}
	return out
}

// Tri is a three-valued truth value.
type Tri int

const (
	Unknown Tri = iota
	True
	False
)

func (t Tri) Not() Tri {
	switch t {
	case True:
		return False
	case False:
		return True
	}
	return Unknown
}

// CondExpr returns the boolean expression a condition node stands for: a case expression of a tagged switch means
// `tag == expr`.
func (g *Graph) CondExpr(e ast.Expr) ast.Expr {
	if tag, ok := g.switchTag[e]; ok {
		return &ast.BinaryExpr{X: tag, Op: token.EQL, Y: e}
	}
	return e
}

// EvalCond evaluates a condition with an oracle for atoms, interpreting !, &&, ||.
func EvalCond(cond ast.Expr, atom func(ast.Expr) Tri) Tri {
	cond = ast.Unparen(cond)
	switch c := cond.(type) {
	case *ast.UnaryExpr:
		if c.Op == token.NOT {
			return EvalCond(c.X, atom).Not()
		}
	case *ast.BinaryExpr:
		switch c.Op {
		case token.LAND:
			x, y := EvalCond(c.X, atom), EvalCond(c.Y, atom)
			if x == False || y == False {
				return False
			}
			if x == True && y == True {
				return True
			}
			return Unknown
		case token.LOR:
			x, y := EvalCond(c.X, atom), EvalCond(c.Y, atom)
			if x == True || y == True {
				return True
			}
			if x == False && y == False {
				return False
			}
			return Unknown
		}
	}
	return atom(cond)
}

// ReturnUnderFact describes a return statement reachable under an abstract fact.
type ReturnUnderFact struct {
	Ret   *ast.ReturnStmt
	Class string // "fail" (certainly non-nil error), "success" (nil literal), "maybe" (error operand not known non-nil), "none" (no results)
}

// nonnilOn lists the error variables known non-nil on the given branch of cond.
func nonnilOn(info *types.Info, cond ast.Expr, branch bool) []*types.Var {
	cond = ast.Unparen(cond)
	switch c := cond.(type) {
	case *ast.UnaryExpr:
		if c.Op == token.NOT {
			return nonnilOn(info, c.X, !branch)
		}
	case *ast.BinaryExpr:
		switch c.Op {
		case token.LAND:
			if branch {
				return append(nonnilOn(info, c.X, true), nonnilOn(info, c.Y, true)...)
			}
		case token.LOR:
			if !branch {
				return append(nonnilOn(info, c.X, false), nonnilOn(info, c.Y, false)...)
			}
		case token.NEQ, token.EQL:
			var id *ast.Ident
			if isNilIdent(info, c.Y) {
				id, _ = ast.Unparen(c.X).(*ast.Ident)
			} else if isNilIdent(info, c.X) {
				id, _ = ast.Unparen(c.Y).(*ast.Ident)
			}
			if id != nil {
				if v, ok := info.ObjectOf(id).(*types.Var); ok && (c.Op == token.NEQ) == branch {
					return []*types.Var{v}
				}
			}
		}
	}
	return nil
}

// ReturnsUnderFact walks the CFG from `from`, following at each condition only the edges consistent with the atom
// oracle (three-valued; unknown follows both), tracking the set of error variables that are certainly non-nil, and
// classifies every return statement it can reach. It also returns the call expressions reachable on the way.
func (g *Graph) ReturnsUnderFact(from Loc, atom func(ast.Expr) Tri) (rets []ReturnUnderFact, fallsOff bool, calls []*ast.CallExpr) {
	type vset map[*types.Var]bool
	in := map[*cfg.Block]vset{}
	visited := map[*cfg.Block]bool{}
	meet := func(a, b vset) vset {
		out := vset{}
		for v := range a {
			if b[v] {
				out[v] = true
			}
		}
		return out
	}
	eq := func(a, b vset) bool {
		if len(a) != len(b) {
			return false
		}
		for v := range a {
			if !b[v] {
				return false
			}
		}
		return true
	}
	type item struct {
		b *cfg.Block
		i int
	}
	retSeen := map[*ast.ReturnStmt]int{} // best (most failing) class seen is irrelevant: any non-fail is reported
	callSeen := map[*ast.CallExpr]bool{}
	var work []item
	push := func(b *cfg.Block, st vset) {
		if !visited[b] {
			visited[b] = true
			in[b] = st
			work = append(work, item{b, 0})
			return
		}
		m := meet(in[b], st)
		if !eq(m, in[b]) {
			in[b] = m
			work = append(work, item{b, 0})
		}
	}
	process := func(b *cfg.Block, start int, st vset) {
		cur := vset{}
		for v := range st {
			cur[v] = true
		}
		for i := start; i < len(b.Nodes); i++ {
			n := b.Nodes[i]
			ast.Inspect(n, func(x ast.Node) bool {
				if _, ok := x.(*ast.FuncLit); ok {
					return false
				}
				if c, ok := x.(*ast.CallExpr); ok && !callSeen[c] {
					callSeen[c] = true
					calls = append(calls, c)
				}
				return true
			})
			switch st := n.(type) {
			case *ast.AssignStmt:
				for _, l := range st.Lhs {
					if id, ok := ast.Unparen(l).(*ast.Ident); ok {
						if v, ok := g.Info.ObjectOf(id).(*types.Var); ok {
							delete(cur, v)
						}
					}
				}
			case *ast.ReturnStmt:
				cls := "none"
				if len(st.Results) > 0 {
					cls = "success"
					for _, r := range st.Results {
						tv, ok := g.Info.Types[r]
						if !ok || isNilIdent(g.Info, r) {
							continue
						}
						if isErrorType(tv.Type) || types.Implements(tv.Type, errorType.Underlying().(*types.Interface)) {
							cls = "maybe"
							if call, ok := ast.Unparen(r).(*ast.CallExpr); ok {
								if fn, ok := calleeFunc(g.Info, call); ok && fn.Pkg() != nil {
									switch fn.Pkg().Path() + "." + fn.Name() {
									case "fmt.Errorf", "errors.New":
										cls = "fail"
									}
									if g.NonNilError != nil && g.NonNilError(fn) {
										cls = "fail" // an in-repo error constructor (invalidMode(mode)) that never returns nil
									}
								}
							}
							if id, ok := ast.Unparen(r).(*ast.Ident); ok {
								if v, ok := g.Info.ObjectOf(id).(*types.Var); ok && cur[v] {
									cls = "fail"
								}
							}
						}
					}
				}
				if cls != "fail" {
					retSeen[st] = 1
				} else if _, ok := retSeen[st]; !ok {
					retSeen[st] = 0
				}
				return
			}
		}
		if len(b.Succs) == 0 {
			if !endsInNoReturn(g.Info, b) {
				fallsOff = true
			}
			return
		}
		if len(b.Succs) == 2 && len(b.Nodes) > 0 {
			if e, ok := b.Nodes[len(b.Nodes)-1].(ast.Expr); ok {
				e = g.CondExpr(e)
				tv := EvalCond(e, atom)
				if tv != False {
					t := vset{}
					for v := range cur {
						t[v] = true
					}
					for _, v := range nonnilOn(g.Info, e, true) {
						t[v] = true
					}
					push(b.Succs[0], t)
				}
				if tv != True {
					f := vset{}
					for v := range cur {
						f[v] = true
					}
					for _, v := range nonnilOn(g.Info, e, false) {
						f[v] = true
					}
					push(b.Succs[1], f)
				}
				return
			}
		}
		for _, s := range b.Succs {
			push(s, cur)
		}
	}
	process(from.B, from.I, vset{})
	for len(work) > 0 {
		it := work[len(work)-1]
		work = work[:len(work)-1]
		process(it.b, it.i, in[it.b])
	}
	for r, notFail := range retSeen {
		cls := "fail"
		if notFail == 1 {
			cls = classifyPlain(g.Info, r)
		}
		rets = append(rets, ReturnUnderFact{Ret: r, Class: cls})
	}
	return rets, fallsOff, calls
}

func classifyPlain(info *types.Info, st *ast.ReturnStmt) string {
	if len(st.Results) == 0 {
		return "none"
	}
	for _, r := range st.Results {
		tv, ok := info.Types[r]
		if !ok || isNilIdent(info, r) {
			continue
		}
		if isErrorType(tv.Type) || types.Implements(tv.Type, errorType.Underlying().(*types.Interface)) {
			return "maybe"
		}
	}
	return "success"
}

// SuccessPath returns the nodes executed on the unique path on which every error test is false (the error is nil).
// A condition that is not a nil test of an error-typed variable makes the success path non-linear: ok=false and the
// offending condition is returned.
func (g *Graph) SuccessPath() (nodes []ast.Node, offending ast.Node, ok bool) {
	return g.SuccessPathWith(nil)
}

// failsStraight: from b control reaches, without branching, a return whose last result is not the nil identifier, or a call
// that never returns.
func (g *Graph) failsStraight(b *cfg.Block) bool {
	seen := map[*cfg.Block]bool{}
	for b != nil && !seen[b] {
		seen[b] = true
		for _, n := range b.Nodes {
			if ret, ok := n.(*ast.ReturnStmt); ok {
				if len(ret.Results) == 0 {
					return false
				}
				last := ret.Results[len(ret.Results)-1]
				tv, ok := g.Info.Types[last]
				if !ok || !isErrorType(tv.Type) || isNilIdent(g.Info, last) {
					return false
				}
				// a freshly made error (a call or a literal), not a variable that may be nil
				switch x := ast.Unparen(last).(type) {
				case *ast.CallExpr, *ast.CompositeLit, *ast.UnaryExpr:
					return true
				case *ast.SelectorExpr:
					// a package-level sentinel (io.ErrUnexpectedEOF)
					if v, ok := g.Info.Uses[x.Sel].(*types.Var); ok && !v.IsField() && v.Parent() == v.Pkg().Scope() {
						return true
					}
				}
				return false
			}
		}
		if len(b.Succs) == 0 {
			return endsInNoReturn(g.Info, b)
		}
		if len(b.Succs) != 1 {
			return false
		}
		b = b.Succs[0]
	}
	return false
}

// SuccessPathWith is SuccessPath with two extensions: conditions the oracle decides (a boolean parameter bound at the call
// site, say) are followed accordingly, and a condition one side of which leads straight to a freshly made error (a
// defensive check) is followed on its other side.
func (g *Graph) SuccessPathWith(atom func(ast.Expr) Tri) (nodes []ast.Node, offending ast.Node, ok bool) {
	b := g.Entry()
	seen := map[*cfg.Block]bool{}
	for b != nil {
		if seen[b] {
			return nodes, nil, false
		}
		seen[b] = true
		n := len(b.Nodes)
		if len(b.Succs) == 2 && n > 0 {
			cond, isExpr := b.Nodes[n-1].(ast.Expr)
			if !isExpr {
				return nodes, b.Nodes[n-1], false
			}
			nodes = append(nodes, b.Nodes[:n-1]...)
			edge := g.cleanEdge(cond)
			if edge < 0 && atom != nil {
				switch EvalCond(g.CondExpr(cond), atom) {
				case True:
					edge = 0
				case False:
					edge = 1
				}
			}
			if edge < 0 {
				f0, f1 := g.failsStraight(b.Succs[0]), g.failsStraight(b.Succs[1])
				if f0 != f1 {
					if f0 {
						edge = 1
					} else {
						edge = 0
					}
				}
			}
			if edge < 0 {
				return nodes, cond, false
			}
			b = b.Succs[edge]
			continue
		}
		nodes = append(nodes, b.Nodes...)
		if len(b.Succs) == 0 {
			return nodes, nil, true
		}
		if len(b.Succs) == 1 {
			b = b.Succs[0]
			continue
		}
		return nodes, nil, false
	}
	return nodes, nil, true
}

// cleanEdge returns the successor index taken when the tested error is nil, or -1 if cond is not a plain nil test of an
// error variable.
func (g *Graph) cleanEdge(cond ast.Expr) int {
	b, ok := ast.Unparen(cond).(*ast.BinaryExpr)
	if !ok || (b.Op != token.NEQ && b.Op != token.EQL) {
		return -1
	}
	var x ast.Expr
	switch {
	case isNilIdent(g.Info, b.Y):
		x = b.X
	case isNilIdent(g.Info, b.X):
		x = b.Y
	default:
		return -1
	}
	tv, ok := g.Info.Types[x]
	if !ok || !isErrorType(tv.Type) {
		return -1
	}
	if b.Op == token.NEQ {
		return 1
	}
	return 0
}

// CountMask is a set of path counts: bit0 = zero occurrences, bit1 = exactly one, bit2 = two or more.
type CountMask uint8

// ExitCount is the set of possible occurrence counts at one exit of the function.
type ExitCount struct {
	Node ast.Node // *ast.ReturnStmt, or nil for falling off the end
	Pos  token.Pos
	Mask CountMask
}

// CountOnPaths counts occurrences of an event on every path: classify returns, for one CFG node, how many events it
// performs and whether it performs an action that requires exactly one prior event ("use"). It returns the count mask at
// every exit and the positions of uses that can happen with a count other than one.
func (g *Graph) CountOnPaths(classify func(n ast.Node) (events int, use bool)) (exits []ExitCount, badUses []token.Pos) {
	return g.CountOnPathsCond(classify, nil)
}

// CountOnPathsCond is CountOnPaths with branch-sensitive events: when a block ends in a two-way branch, branch(cond, prev)
// may say that the condition performs evTrue events on its true edge and evFalse on its false edge (a call in the condition
// whose boolean result tells whether it performed the event). prev is the node before the condition in the same block (for
// the `ok := f(); if ok` form), or nil.
func (g *Graph) CountOnPathsCond(classify func(n ast.Node) (events int, use bool), branch func(cond ast.Expr, prev ast.Node) (evTrue, evFalse int, prevConsumed, ok bool)) (exits []ExitCount, badUses []token.Pos) {
	in := map[*cfg.Block]CountMask{}
	shift := func(m CountMask, k int) CountMask {
		for ; k > 0; k-- {
			var o CountMask
			if m&1 != 0 {
				o |= 2
			}
			if m&2 != 0 {
				o |= 4
			}
			if m&4 != 0 {
				o |= 4
			}
			m = o
		}
		return m
	}
	work := []*cfg.Block{g.Entry()}
	in[g.Entry()] = 1
	exitSeen := map[ast.Node]int{}
	badSeen := map[token.Pos]bool{}
	for len(work) > 0 {
		b := work[len(work)-1]
		work = work[:len(work)-1]
		m := in[b]
		ended := false
		// branch-sensitive tail
		tailFrom := len(b.Nodes)
		evT, evF, hasBranch := 0, 0, false
		if branch != nil && len(b.Succs) == 2 && len(b.Nodes) > 0 {
			if cond, isExpr := b.Nodes[len(b.Nodes)-1].(ast.Expr); isExpr {
				var prev ast.Node
				if len(b.Nodes) > 1 {
					prev = b.Nodes[len(b.Nodes)-2]
				}
				if t, f, prevConsumed, ok := branch(cond, prev); ok {
					evT, evF, hasBranch = t, f, true
					tailFrom = len(b.Nodes) - 1
					if prevConsumed {
						tailFrom--
					}
				}
			}
		}
		for i, n := range b.Nodes {
			if i >= tailFrom {
				break
			}
			ev, use := classify(n)
			if use && ev == 0 && m != 2 && !badSeen[n.Pos()] {
				badSeen[n.Pos()] = true
				badUses = append(badUses, n.Pos())
			}
			m = shift(m, ev)
			if use && ev > 0 && m != 2 && !badSeen[n.Pos()] {
				// event and use in one node (e.g. a helper that sets the header and then writes): judged after the event
				badSeen[n.Pos()] = true
				badUses = append(badUses, n.Pos())
			}
			if ret, ok := n.(*ast.ReturnStmt); ok {
				if i, ok := exitSeen[ret]; ok {
					exits[i].Mask |= m
				} else {
					exitSeen[ret] = len(exits)
					exits = append(exits, ExitCount{Node: ret, Pos: ret.Pos(), Mask: m})
				}
				ended = true
				break
			}
		}
		if ended {
			continue
		}
		if len(b.Succs) == 0 {
			if endsInNoReturn(g.Info, b) {
				continue
			}
			key := ast.Node(g.U.body())
			if i, ok := exitSeen[key]; ok {
				exits[i].Mask |= m
			} else {
				exitSeen[key] = len(exits)
				exits = append(exits, ExitCount{Node: nil, Pos: g.U.body().Rbrace, Mask: m})
			}
			continue
		}
		for i, s := range b.Succs {
			ms := m
			if hasBranch {
				if i == 0 {
					ms = shift(m, evT)
				} else {
					ms = shift(m, evF)
				}
			}
			if in[s]|ms != in[s] {
				in[s] |= ms
				work = append(work, s)
			}
		}
	}
	return exits, badUses
}

// AlwaysReturnsFreshError: every return of the function yields, as its last result, a call of fmt.Errorf / errors.New.
func AlwaysReturnsFreshError(info *types.Info, fd *ast.FuncDecl) bool {
	if fd == nil || fd.Body == nil {
		return false
	}
	n, ok := 0, true
	ast.Inspect(fd.Body, func(m ast.Node) bool {
		if _, isLit := m.(*ast.FuncLit); isLit {
			return false
		}
		ret, isRet := m.(*ast.ReturnStmt)
		if !isRet {
			return true
		}
		n++
		if len(ret.Results) == 0 {
			ok = false
			return true
		}
		call, isCall := ast.Unparen(ret.Results[len(ret.Results)-1]).(*ast.CallExpr)
		if !isCall {
			ok = false
			return true
		}
		fn, isFn := calleeFunc(info, call)
		if !isFn || fn.Pkg() == nil {
			ok = false
			return true
		}
		switch fn.Pkg().Path() + "." + fn.Name() {
		case "fmt.Errorf", "errors.New":
		default:
			ok = false
		}
		return true
	})
	return ok && n > 0
}

// Package flow: control-flow rules on go/cfg + go/types — must-propagate error analysis (E3), ordering/dominance
// rules and success-path event sequences (E4).
package flow

import (
	"fmt"
	"go/ast"
	"go/token"
	"go/types"
	"sort"

	"golang.org/x/tools/go/cfg"
	"golang.org/x/tools/go/packages"
)

// state bits of the tracked error variable
const (
	stP uint8 = 1 << iota // pending: assigned from the tracked call, not examined yet
	stN                   // known non-nil (failure) on this path
	stC                   // known nil (clean) on this path
	stH                   // handed to a sink (sender / fatal) on this path
)

// Site is one tracked fallible call.
type Site struct {
	Call     *ast.CallExpr
	Callee   types.Object // may be nil for dynamic calls through function values
	Name     string       // rendering of the callee
	Var      *types.Var   // the variable holding the error (or ok flag)
	IsOK     bool         // Var is a bool "ok" flag, false = failure
	ValVars  []*types.Var // companion result variables
	Form     string       // "assign", "return", "discard", "blank", "exprstmt", "other"
	Pos      token.Pos
	Findings []Finding
	Sinks    []*ast.CallExpr // sink calls that received the error while it was pending / non-nil
	Guarded  []*types.Var    // extra variables (e.g. a decode destination) that must not be used before the error is ruled out
}

// Finding is a violation of the must-propagate rule at a site.
type Finding struct {
	Kind string // "swallowed", "overwritten", "discarded", "falls-off", "value-used-on-error-path", "untracked-form"
	Pos  token.Pos
	Msg  string
}

// Config selects the sites and the idioms.
type Config struct {
	// Select says whether a call is a tracked fallible call. callee may be nil.
	Select func(call *ast.CallExpr, callee types.Object) bool
	// Sink says whether passing the error variable to this call handles it (error sender, fatal logger).
	Sink func(call *ast.CallExpr, callee types.Object) bool
	// CheckValueUse enables the companion rule for a site: value results must not be used while the error is
	// unexamined or known non-nil.
	CheckValueUse func(s *Site) bool
	// SinkNoMention: a sink call handles the error even when it does not mention the variable (e.g. os.Exit(1)).
	SinkNoMention bool
	// NoReturnOK, when set, says whether ending the path in this never-returning call is an acceptable way to leave with a
	// pending/non-nil error (e.g. false for os.Exit(0)).
	NoReturnOK func(call *ast.CallExpr) bool
	// GuardedVars returns extra variables whose use is forbidden while the site's error is pending / non-nil.
	GuardedVars func(s *Site) []*types.Var
	// NoResultFunc: the enclosing function has no error result (e.g. ServeHTTP): reaching any exit while pending/nonnil
	// is a violation unless handled by a sink.
	NoResultFunc bool
}

// FuncUnit is a function body to analyse.
type FuncUnit struct {
	Pkg  *packages.Package
	Node ast.Node // *ast.FuncDecl or *ast.FuncLit
	Name string
}

func (u FuncUnit) body() *ast.BlockStmt {
	switch n := u.Node.(type) {
	case *ast.FuncDecl:
		return n.Body
	case *ast.FuncLit:
		return n.Body
	}
	return nil
}

func (u FuncUnit) ftype() *ast.FuncType {
	switch n := u.Node.(type) {
	case *ast.FuncDecl:
		return n.Type
	case *ast.FuncLit:
		return n.Type
	}
	return nil
}

// MayReturn is the go/cfg predicate: false for calls that never return.
func MayReturn(info *types.Info) func(*ast.CallExpr) bool {
	return func(call *ast.CallExpr) bool {
		return !NeverReturns(info, call)
	}
}

// NeverReturns recognises panic, os.Exit, log.Fatal*, and zerolog chains that contain Fatal()/Panic().
func NeverReturns(info *types.Info, call *ast.CallExpr) bool {
	if id, ok := ast.Unparen(call.Fun).(*ast.Ident); ok {
		if b, ok := info.Uses[id].(*types.Builtin); ok && b.Name() == "panic" {
			return true
		}
	}
	if fn, ok := Callee(info, call).(*types.Func); ok && fn.Pkg() != nil {
		full := fn.Pkg().Path() + "." + fn.Name()
		switch full {
		case "os.Exit", "log.Fatal", "log.Fatalf", "log.Fatalln", "log.Panic", "log.Panicf", "log.Panicln", "runtime.Goexit":
			return true
		}
	}
	// zerolog: logger.Fatal().….Msg(…)
	fatal := false
	var walk func(e ast.Expr)
	walk = func(e ast.Expr) {
		c, ok := ast.Unparen(e).(*ast.CallExpr)
		if !ok {
			return
		}
		if sel, ok := ast.Unparen(c.Fun).(*ast.SelectorExpr); ok {
			if fn, ok := info.Uses[sel.Sel].(*types.Func); ok && fn.Pkg() != nil && fn.Pkg().Path() == "github.com/rs/zerolog" &&
				(fn.Name() == "Fatal" || fn.Name() == "Panic") {
				fatal = true
			}
			walk(sel.X)
		}
	}
	walk(call)
	if fatal {
		// only terminal when the chain ends with an emitting method
		if sel, ok := ast.Unparen(call.Fun).(*ast.SelectorExpr); ok {
			switch sel.Sel.Name {
			case "Msg", "Msgf", "Send", "MsgFunc":
				return true
			}
		}
	}
	return false
}

// Analyse runs the must-propagate analysis for every selected site of one function.
func Analyse(u FuncUnit, conf Config) []*Site {
	body := u.body()
	if body == nil {
		return nil
	}
	info := u.Pkg.TypesInfo
	g := cfg.New(body, MayReturn(info))
	a := &analysis{u: u, conf: conf, info: info, g: g}
	a.namedErr = namedErrorResults(info, u.ftype())
	a.findSites()
	for _, s := range a.sites {
		if s.Form == "assign" {
			a.track(s)
		}
	}
	sort.Slice(a.sites, func(i, j int) bool { return a.sites[i].Pos < a.sites[j].Pos })
	return a.sites
}

type analysis struct {
	u        FuncUnit
	conf     Config
	info     *types.Info
	g        *cfg.CFG
	sites    []*Site
	namedErr map[*types.Var]bool
	siteAt   map[ast.Node]*Site // assign stmt -> site
}

func namedErrorResults(info *types.Info, ft *ast.FuncType) map[*types.Var]bool {
	m := map[*types.Var]bool{}
	if ft == nil || ft.Results == nil {
		return m
	}
	for _, f := range ft.Results.List {
		for _, n := range f.Names {
			if v, ok := info.Defs[n].(*types.Var); ok && isErrorType(v.Type()) {
				m[v] = true
			}
		}
	}
	return m
}

var errorType = types.Universe.Lookup("error").Type()

func isErrorType(t types.Type) bool { return types.Identical(t, errorType) }

func isBool(t types.Type) bool {
	b, ok := t.Underlying().(*types.Basic)
	return ok && b.Kind() == types.Bool || ok && b.Kind() == types.UntypedBool
}

// resultErrIndex returns the index of the error (or trailing bool) result of the call, or -1.
func (a *analysis) resultErrIndex(call *ast.CallExpr) (idx int, isOK bool, n int) {
	tv, ok := a.info.Types[call]
	if !ok {
		return -1, false, 0
	}
	switch t := tv.Type.(type) {
	case *types.Tuple:
		n = t.Len()
		for i := t.Len() - 1; i >= 0; i-- {
			if isErrorType(t.At(i).Type()) {
				return i, false, n
			}
		}
		if t.Len() > 0 && isBool(t.At(t.Len()-1).Type()) {
			return t.Len() - 1, true, n
		}
	default:
		if isErrorType(tv.Type) {
			return 0, false, 1
		}
	}
	return -1, false, n
}

func (a *analysis) selected(call *ast.CallExpr) (types.Object, bool) {
	callee := Callee(a.info, call)
	if a.conf.Select == nil {
		return callee, false
	}
	return callee, a.conf.Select(call, callee)
}

func calleeName(call *ast.CallExpr, callee types.Object) string {
	if fn, ok := callee.(*types.Func); ok {
		return fn.FullName()
	}
	return types.ExprString(call.Fun)
}

// findSites enumerates the selected calls and classifies the syntactic form in which their error result is received.
func (a *analysis) findSites() {
	a.siteAt = map[ast.Node]*Site{}
	claimed := map[*ast.CallExpr]bool{}
	addSite := func(call *ast.CallExpr, callee types.Object, form string) *Site {
		s := &Site{Call: call, Callee: callee, Name: calleeName(call, callee), Form: form, Pos: call.Pos()}
		a.sites = append(a.sites, s)
		claimed[call] = true
		return s
	}
	var visit func(n ast.Node) bool
	visit = func(n ast.Node) bool {
		switch st := n.(type) {
		case *ast.FuncLit:
			return false // separate unit
		case *ast.AssignStmt:
			if len(st.Rhs) == 1 {
				if call, ok := ast.Unparen(st.Rhs[0]).(*ast.CallExpr); ok {
					if callee, sel := a.selected(call); sel {
						idx, isOK, n := a.resultErrIndex(call)
						if idx < 0 || n != len(st.Lhs) {
							addSite(call, callee, "other")
							return true
						}
						s := addSite(call, callee, "assign")
						s.IsOK = isOK
						lhs := ast.Unparen(st.Lhs[idx])
						id, ok := lhs.(*ast.Ident)
						switch {
						case ok && id.Name == "_":
							s.Form = "blank"
							s.Findings = append(s.Findings, Finding{Kind: "discarded", Pos: call.Pos(), Msg: "error result assigned to the blank identifier"})
						case ok:
							v, _ := a.info.ObjectOf(id).(*types.Var)
							if v == nil {
								s.Form = "other"
							}
							s.Var = v
						default:
							s.Form = "other"
						}
						for i, l := range st.Lhs {
							if i == idx {
								continue
							}
							if id, ok := ast.Unparen(l).(*ast.Ident); ok && id.Name != "_" {
								if v, _ := a.info.ObjectOf(id).(*types.Var); v != nil {
									s.ValVars = append(s.ValVars, v)
								}
							}
						}
						a.siteAt[st] = s
					}
				}
			} else {
				// parallel assignment a, b = f(), g(): each single-valued
				for i, r := range st.Rhs {
					if call, ok := ast.Unparen(r).(*ast.CallExpr); ok {
						if callee, sel := a.selected(call); sel {
							s := addSite(call, callee, "assign")
							if id, ok := ast.Unparen(st.Lhs[i]).(*ast.Ident); ok && id.Name != "_" {
								s.Var, _ = a.info.ObjectOf(id).(*types.Var)
								if s.Var != nil && isBool(s.Var.Type()) {
									s.IsOK = true
								}
								a.siteAt[st] = s
							} else {
								s.Form = "blank"
								s.Findings = append(s.Findings, Finding{Kind: "discarded", Pos: call.Pos(), Msg: "error result assigned to the blank identifier"})
							}
						}
					}
				}
			}
		case *ast.ValueSpec:
			if len(st.Values) == 1 {
				if call, ok := ast.Unparen(st.Values[0]).(*ast.CallExpr); ok {
					if callee, sel := a.selected(call); sel {
						idx, isOK, n := a.resultErrIndex(call)
						if idx >= 0 && n == len(st.Names) && st.Names[idx].Name != "_" {
							s := addSite(call, callee, "assign")
							s.IsOK = isOK
							s.Var, _ = a.info.Defs[st.Names[idx]].(*types.Var)
							a.siteAt[st] = s
						} else {
							s := addSite(call, callee, "blank")
							s.Findings = append(s.Findings, Finding{Kind: "discarded", Pos: call.Pos(), Msg: "error result not received"})
						}
					}
				}
			}
		case *ast.ReturnStmt:
			for _, r := range st.Results {
				if call, ok := ast.Unparen(r).(*ast.CallExpr); ok {
					if callee, sel := a.selected(call); sel {
						addSite(call, callee, "return") // results returned directly: propagated
					}
				}
			}
		case *ast.ExprStmt:
			if call, ok := ast.Unparen(st.X).(*ast.CallExpr); ok {
				if callee, sel := a.selected(call); sel {
					s := addSite(call, callee, "exprstmt")
					if idx, _, _ := a.resultErrIndex(call); idx >= 0 {
						s.Findings = append(s.Findings, Finding{Kind: "discarded", Pos: call.Pos(), Msg: "call used as a statement: its error result is dropped"})
					}
				}
			}
		case *ast.DeferStmt:
			if callee, sel := a.selected(st.Call); sel {
				s := addSite(st.Call, callee, "defer")
				if idx, _, _ := a.resultErrIndex(st.Call); idx >= 0 {
					s.Findings = append(s.Findings, Finding{Kind: "discarded", Pos: st.Call.Pos(), Msg: "deferred call: its error result is dropped"})
				}
			}
		case *ast.GoStmt:
			if callee, sel := a.selected(st.Call); sel {
				s := addSite(st.Call, callee, "go")
				s.Findings = append(s.Findings, Finding{Kind: "discarded", Pos: st.Call.Pos(), Msg: "go statement: its error result is dropped"})
			}
		}
		return true
	}
	ast.Inspect(a.u.body(), visit)
	// any selected call not in a recognised receiving form
	ast.Inspect(a.u.body(), func(n ast.Node) bool {
		if _, ok := n.(*ast.FuncLit); ok {
			return false
		}
		if call, ok := n.(*ast.CallExpr); ok && !claimed[call] {
			if callee, sel := a.selected(call); sel {
				s := addSite(call, callee, "other")
				if idx, _, _ := a.resultErrIndex(call); idx >= 0 {
					s.Findings = append(s.Findings, Finding{Kind: "untracked-form", Pos: call.Pos(), Msg: "fallible call used in an expression form the analyser does not track"})
				} else {
					s.Form = "noerror"
				}
			}
		}
		return true
	})
	for _, s := range a.sites {
		if s.Form == "other" && len(s.Findings) == 0 {
			s.Findings = append(s.Findings, Finding{Kind: "untracked-form", Pos: s.Pos, Msg: "error result received in a form the analyser does not track"})
		}
	}
}

// mentions reports whether expression/statement n mentions variable v (not descending into function literals unless deep).
func mentions(info *types.Info, n ast.Node, v *types.Var) bool {
	found := false
	ast.Inspect(n, func(m ast.Node) bool {
		if found {
			return false
		}
		if id, ok := m.(*ast.Ident); ok && info.ObjectOf(id) == v {
			found = true
		}
		return true
	})
	return found
}

func isNilIdent(info *types.Info, e ast.Expr) bool {
	id, ok := ast.Unparen(e).(*ast.Ident)
	if !ok {
		return false
	}
	_, isNil := info.ObjectOf(id).(*types.Nil)
	return isNil
}

// condEffect interprets a condition w.r.t. the tracked variable: it returns the state masks surviving on the true and the
// false edge. Unknown conditions keep everything on both edges.
func (a *analysis) condEffect(s *Site, cond ast.Expr) (tmask, fmask uint8) {
	all := stP | stN | stC | stH
	cond = ast.Unparen(cond)
	v := s.Var
	isV := func(e ast.Expr) bool {
		id, ok := ast.Unparen(e).(*ast.Ident)
		return ok && a.info.ObjectOf(id) == v
	}
	if s.IsOK {
		if isV(cond) { // if ok
			return stC | stH, stN | stH
		}
		if u, ok := cond.(*ast.UnaryExpr); ok && u.Op == token.NOT && isV(u.X) { // if !ok
			return stN | stH, stC | stH
		}
		return all, all
	}
	if b, ok := cond.(*ast.BinaryExpr); ok && (b.Op == token.NEQ || b.Op == token.EQL) {
		if (isV(b.X) && isNilIdent(a.info, b.Y)) || (isV(b.Y) && isNilIdent(a.info, b.X)) {
			if b.Op == token.NEQ {
				return stN | stH, stC | stH
			}
			return stC | stH, stN | stH
		}
	}
	return all, all
}

// evalCond pushes a state through a (possibly compound) condition: go/cfg does not split && / || / !, so the
// short-circuit structure is interpreted here.
func (a *analysis) evalCond(s *Site, st uint8, cond ast.Expr) (tst, fst uint8) {
	cond = ast.Unparen(cond)
	switch c := cond.(type) {
	case *ast.UnaryExpr:
		if c.Op == token.NOT {
			if !(s.IsOK) || !isIdentOf(a.info, c.X, s.Var) {
				t, f := a.evalCond(s, st, c.X)
				return f, t
			}
		}
	case *ast.BinaryExpr:
		switch c.Op {
		case token.LAND:
			tx, fx := a.evalCond(s, st, c.X)
			ty, fy := a.evalCond(s, tx, c.Y)
			return ty, fx | fy
		case token.LOR:
			tx, fx := a.evalCond(s, st, c.X)
			ty, fy := a.evalCond(s, fx, c.Y)
			return tx | ty, fy
		}
	}
	tm, fm := a.condEffect(s, cond)
	return refine(st, tm), refine(st, fm)
}

func isIdentOf(info *types.Info, e ast.Expr, v *types.Var) bool {
	id, ok := ast.Unparen(e).(*ast.Ident)
	return ok && info.ObjectOf(id) == v
}

// refine maps the incoming state through an edge mask: pending splits into the mask's definite states.
func refine(st, mask uint8) uint8 {
	out := uint8(0)
	if st&stP != 0 {
		if mask&stP != 0 {
			out |= stP
		} else {
			out |= mask & (stN | stC)
		}
	}
	if st&stN != 0 && mask&stN != 0 {
		out |= stN
	}
	if st&stC != 0 && mask&stC != 0 {
		out |= stC
	}
	if st&stH != 0 {
		out |= stH
	}
	return out
}

// returnCarries classifies a return statement with respect to the tracked variable: "carries" (mentions it in a result),
// "nonnil" (its error result is certainly a non-nil error built by a constructor), "named" (bare return of a named error
// result that is the tracked variable), "nil" (error result is the nil literal), "other".
func (a *analysis) returnClass(s *Site, ret *ast.ReturnStmt) string {
	if len(ret.Results) == 0 {
		if a.namedErr[s.Var] {
			return "carries"
		}
		if len(a.namedErr) > 0 {
			return "other-named"
		}
		return "none"
	}
	for _, r := range ret.Results {
		if mentions(a.info, r, s.Var) {
			return "carries"
		}
	}
	// locate the error-typed result
	for _, r := range ret.Results {
		tv, ok := a.info.Types[r]
		if !ok {
			continue
		}
		if isNilIdent(a.info, r) {
			continue
		}
		if isErrorType(tv.Type) || types.Implements(tv.Type, errorType.Underlying().(*types.Interface)) {
			if call, ok := ast.Unparen(r).(*ast.CallExpr); ok {
				if fn, ok := Callee(a.info, call).(*types.Func); ok && fn.Pkg() != nil {
					switch fn.Pkg().Path() + "." + fn.Name() {
					case "fmt.Errorf", "errors.New":
						return "nonnil"
					}
				}
			}
			if u, ok := ast.Unparen(r).(*ast.UnaryExpr); ok && u.Op == token.AND {
				return "nonnil" // &SomeError{…}
			}
			return "other"
		}
	}
	return "nil"
}

func (a *analysis) track(s *Site) {
	if s.Var == nil {
		return
	}
	type key struct {
		b *cfg.Block
	}
	in := map[*cfg.Block]uint8{}
	// locate the block and node index of the assignment
	var startB *cfg.Block
	startI := -1
	for _, b := range a.g.Blocks {
		for i, n := range b.Nodes {
			if a.siteAt[n] == s || containsStmt(n, s) {
				startB, startI = b, i
			}
		}
	}
	if startB == nil {
		s.Findings = append(s.Findings, Finding{Kind: "untracked-form", Pos: s.Pos, Msg: "assignment not found in the control-flow graph"})
		return
	}
	reported := map[string]bool{}
	report := func(kind string, pos token.Pos, msg string) {
		k := fmt.Sprintf("%s@%d", kind, pos)
		if !reported[k] {
			reported[k] = true
			s.Findings = append(s.Findings, Finding{Kind: kind, Pos: pos, Msg: msg})
		}
	}
	checkVal := a.conf.CheckValueUse != nil && a.conf.CheckValueUse(s)
	if a.conf.GuardedVars != nil {
		s.Guarded = a.conf.GuardedVars(s)
		if len(s.Guarded) > 0 {
			checkVal = true
		}
	}
	// flow processes the nodes of b from index i with incoming state st and propagates to successors
	var work []*cfg.Block
	push := func(b *cfg.Block, st uint8) {
		if st == 0 {
			return
		}
		if in[b]|st != in[b] {
			in[b] |= st
			work = append(work, b)
		}
	}
	flow := func(b *cfg.Block, from int, st uint8) {
		for i := from; i < len(b.Nodes) && st != 0; i++ {
			n := b.Nodes[i]
			isLastCond := i == len(b.Nodes)-1 && len(b.Succs) == 2
			if isLastCond {
				if e, ok := n.(ast.Expr); ok {
					if checkVal && st&(stP|stN) != 0 {
						a.valueUses(s, n, report)
					}
					ts, fs := a.evalCond(s, st, e)
					push(b.Succs[0], ts)
					push(b.Succs[1], fs)
					return
				}
			}
			// re-assignment of the tracked variable
			if asg, other := a.assignsVar(n, s); asg {
				if other {
					if st&stP != 0 {
						report("overwritten", n.Pos(), "error variable is overwritten while the tracked error is still unexamined")
					} else if st&stN != 0 {
						report("overwritten", n.Pos(), "error variable is overwritten on a path where the tracked error is non-nil")
					}
					st = 0
					break
				}
				// the same site executes again (loop): the previous iteration's error, if it was never examined, is lost
				if st&stP != 0 {
					report("overwritten", n.Pos(), "the call runs again in a loop and overwrites its own error of the previous iteration, which was never examined: only the last iteration's error survives")
				}
				st = stP
				continue
			}
			if ret, ok := n.(*ast.ReturnStmt); ok {
				if st&(stP|stN) != 0 {
					switch cls := a.returnClass(s, ret); cls {
					case "carries", "nonnil":
					case "none":
						if a.conf.NoResultFunc {
							report("falls-off", ret.Pos(), "function returns while the error is "+stName(st)+" and has not been handed to an error sender")
						}
					default:
						report("swallowed", ret.Pos(), "reaches a return that does not carry the error ("+cls+" error result) while the error is "+stName(st))
					}
				}
				st = 0
				break
			}
			// sinks
			if a.conf.Sink != nil && st&(stP|stN) != 0 {
				if sc := a.sinkIn(n, s); sc != nil {
					dup := false
					for _, x := range s.Sinks {
						if x == sc {
							dup = true
						}
					}
					if !dup {
						s.Sinks = append(s.Sinks, sc)
					}
					st = (st &^ (stP | stN)) | stH
					continue
				}
			}
			if checkVal && st&(stP|stN) != 0 {
				a.valueUses(s, n, report)
			}
		}
		if st == 0 {
			return
		}
		if len(b.Succs) == 0 {
			// function end (fall off) or no-return call
			if b.Live && st&(stP|stN) != 0 && !endsInNoReturn(a.info, b) {
				report("falls-off", a.u.body().Rbrace, "function end reached while the error is "+stName(st)+" and has not been propagated or handled")
			} else if b.Live && st&(stP|stN) != 0 && a.conf.NoReturnOK != nil {
				if es, ok := b.Nodes[len(b.Nodes)-1].(*ast.ExprStmt); ok {
					if call, ok := es.X.(*ast.CallExpr); ok && !a.conf.NoReturnOK(call) {
						report("swallowed", call.Pos(), "path ends in a never-returning call that does not signal failure while the error is "+stName(st))
					}
				}
			}
			return
		}
		for _, sc := range b.Succs {
			push(sc, st)
		}
	}
	flow(startB, startI+1, stP)
	for len(work) > 0 {
		b := work[len(work)-1]
		work = work[:len(work)-1]
		flow(b, 0, in[b])
	}
}

func endsInNoReturn(info *types.Info, b *cfg.Block) bool {
	if len(b.Nodes) == 0 {
		return false
	}
	if es, ok := b.Nodes[len(b.Nodes)-1].(*ast.ExprStmt); ok {
		if call, ok := es.X.(*ast.CallExpr); ok {
			return NeverReturns(info, call)
		}
	}
	return false
}

func stName(st uint8) string {
	switch {
	case st&stN != 0 && st&stP != 0:
		return "unexamined or non-nil"
	case st&stN != 0:
		return "known non-nil"
	case st&stP != 0:
		return "unexamined"
	}
	return "clean"
}

func containsStmt(n ast.Node, s *Site) bool {
	// DeclStmt wrapping a ValueSpec, or if-init statements are emitted as their own nodes by go/cfg; this handles
	// `var x, err = f()` declared through a DeclStmt.
	if ds, ok := n.(*ast.DeclStmt); ok {
		found := false
		ast.Inspect(ds, func(m ast.Node) bool {
			if c, ok := m.(*ast.CallExpr); ok && c == s.Call {
				found = true
			}
			return !found
		})
		return found
	}
	return false
}

// assignsVar: does node n assign the tracked variable? other=true when the assigned value is not the tracked call itself.
func (a *analysis) assignsVar(n ast.Node, s *Site) (assigns bool, other bool) {
	switch st := n.(type) {
	case *ast.AssignStmt:
		for _, l := range st.Lhs {
			if id, ok := ast.Unparen(l).(*ast.Ident); ok && a.info.ObjectOf(id) == s.Var {
				if a.siteAt[st] == s {
					return true, false
				}
				return true, true
			}
		}
	case *ast.DeclStmt:
		if containsStmt(st, s) {
			return true, false
		}
	case *ast.RangeStmt:
	}
	return false, false
}

func (a *analysis) sinkIn(n ast.Node, s *Site) *ast.CallExpr {
	var found *ast.CallExpr
	ast.Inspect(n, func(m ast.Node) bool {
		if found != nil {
			return false
		}
		if _, ok := m.(*ast.FuncLit); ok {
			return false
		}
		if call, ok := m.(*ast.CallExpr); ok {
			if a.conf.Sink(call, Callee(a.info, call)) && (a.conf.SinkNoMention || mentions(a.info, call, s.Var)) {
				found = call
			}
		}
		return true
	})
	return found
}

func (a *analysis) valueUses(s *Site, n ast.Node, report func(kind string, pos token.Pos, msg string)) {
	ast.Inspect(n, func(m ast.Node) bool {
		if id, ok := m.(*ast.Ident); ok {
			for _, v := range append(append([]*types.Var{}, s.ValVars...), s.Guarded...) {
				if a.info.Uses[id] == v {
					report("value-used-on-error-path", id.Pos(), fmt.Sprintf("result %q of the fallible call is used before its error has been ruled out", v.Name()))
				}
			}
		}
		return true
	})
}

package flow

import (
	"go/ast"
	"go/types"

	"golang.org/x/tools/go/types/typeutil"
)

// Seams are package-level variables that are initialised once with a function or with another package's variable and
// never written afterwards anywhere in the repository (dependency-injection seams: `var createFile = os.Create`,
// `var stdout io.Writer = os.Stdout`). A call through, or a use of, such a variable denotes its initialiser.
var seamTarget = map[*types.Var]types.Object{}

// SetSeams installs the table (computed by the checks from the loaded program).
func SetSeams(m map[*types.Var]types.Object) { seamTarget = m }

// SeamTarget resolves a variable through the table.
func SeamTarget(v *types.Var) types.Object {
	if v == nil {
		return nil
	}
	return seamTarget[v]
}

// Callee is typeutil.Callee with calls through seam variables resolved to the function they were initialised with.
func Callee(info *types.Info, call *ast.CallExpr) types.Object {
	o := typeutil.Callee(info, call)
	if v, ok := o.(*types.Var); ok {
		if t := seamTarget[v]; t != nil {
			if _, isFn := t.(*types.Func); isFn {
				return t
			}
		}
	}
	return o
}

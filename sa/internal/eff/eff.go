// Package eff is the effects engine (E5): an in-repo call graph with explicit callback edges, a field-insensitive
// "points into shared memory" analysis over SSA, and the inventory of writes (stores, map updates, hand-offs to external
// code) through shared addresses, with a simple dominating-lock test.
package eff

import (
	"go/token"
	"go/types"
	"sort"
	"strings"

	"golang.org/x/tools/go/ssa"

	"verif/sa/internal/core"
)

// Graph is the in-repo call graph.
type Graph struct {
	P     *core.Program
	Edges map[*ssa.Function]map[*ssa.Function]ssa.Instruction // caller -> callee -> a witnessing instruction
	funcs []*ssa.Function
}

func inRepoFn(fn *ssa.Function) bool {
	if fn == nil {
		return false
	}
	if fn.Pkg != nil {
		return core.InRepo(fn.Pkg.Pkg.Path())
	}
	if o := fn.Origin(); o != nil && o != fn {
		return inRepoFn(o) // an instance of a generic function
	}
	if par := fn.Parent(); par != nil {
		return inRepoFn(par)
	}
	// methods of instantiated/synthetic: use the receiver's package
	if fn.Signature != nil && fn.Signature.Recv() != nil {
		if n := named(fn.Signature.Recv().Type()); n != nil && n.Obj().Pkg() != nil {
			return core.InRepo(n.Obj().Pkg().Path())
		}
	}
	return false
}

func named(t types.Type) *types.Named {
	if p, ok := types.Unalias(t).(*types.Pointer); ok {
		t = p.Elem()
	}
	n, _ := types.Unalias(t).(*types.Named)
	return n
}

// BuildGraph builds the call graph over the repository's functions: static calls, interface invocations resolved over
// in-repo implementers, closures at their creation site, and reflection callbacks of encoding/json.
func BuildGraph(p *core.Program) *Graph {
	g := &Graph{P: p, Edges: map[*ssa.Function]map[*ssa.Function]ssa.Instruction{}}
	g.funcs = p.RepoFuncs()
	known := map[*ssa.Function]bool{}
	for _, f := range g.funcs {
		known[f] = true
	}
	// in-repo named types for interface resolution
	var repoTypes []types.Type
	for _, sp := range p.SSAPkgs {
		for _, m := range sp.Members {
			if t, ok := m.(*ssa.Type); ok {
				repoTypes = append(repoTypes, t.Type(), types.NewPointer(t.Type()))
			}
		}
	}
	add := func(from, to *ssa.Function, at ssa.Instruction) {
		if from == nil || to == nil || !inRepoFn(to) || to.Blocks == nil {
			return
		}
		if g.Edges[from] == nil {
			g.Edges[from] = map[*ssa.Function]ssa.Instruction{}
		}
		if _, ok := g.Edges[from][to]; !ok {
			g.Edges[from][to] = at
		}
		if !known[to] {
			// instances of generic functions and bound-method wrappers are not package members: scan them when first reached
			known[to] = true
			g.funcs = append(g.funcs, to)
		}
	}
	methodOf := func(t types.Type, name string) *ssa.Function {
		for {
			ms := p.SSA.MethodSets.MethodSet(t)
			for i := 0; i < ms.Len(); i++ {
				if ms.At(i).Obj().Name() == name {
					return p.SSA.MethodValue(ms.At(i))
				}
			}
			pt, ok := types.Unalias(t).(*types.Pointer)
			if !ok {
				return nil
			}
			t = pt.Elem()
		}
	}
	// static call sites of every in-repo function, to follow an interface-typed parameter back to what callers put in it
	sites := map[*ssa.Function][]ssa.CallInstruction{}
	for _, fn := range g.funcs {
		for _, b := range fn.Blocks {
			for _, in := range b.Instrs {
				if c, ok := in.(ssa.CallInstruction); ok {
					if callee := c.Common().StaticCallee(); callee != nil && inRepoFn(callee) {
						sites[callee] = append(sites[callee], c)
					}
				}
			}
		}
	}
	// where each closure is created, to follow a captured variable back to what was captured
	closureSites := map[*ssa.Function][]*ssa.MakeClosure{}
	for _, fn := range g.funcs {
		for _, b := range fn.Blocks {
			for _, in := range b.Instrs {
				if mc, ok := in.(*ssa.MakeClosure); ok {
					if cf, ok := mc.Fn.(*ssa.Function); ok {
						closureSites[cf] = append(closureSites[cf], mc)
					}
				}
			}
		}
	}
	// dynTypes: the concrete types an interface value may hold, through conversions, phis, captured variables and (to a depth
	// of 3) parameters
	var dynTypes func(v ssa.Value, depth int) []types.Type
	dynBusy := map[ssa.Value]bool{} // values on the current resolution path: loop-carried phis and cells refer to themselves
	dynTypes = func(v ssa.Value, depth int) []types.Type {
		if dynBusy[v] {
			return nil
		}
		dynBusy[v] = true
		defer delete(dynBusy, v)
		switch x := v.(type) {
		case *ssa.UnOp:
			// a load from a captured variable's cell or a local cell: what was stored there
			if x.Op == token.MUL {
				var out []types.Type
				switch a := x.X.(type) {
				case *ssa.FreeVar:
					out = append(out, dynTypes(a, depth)...)
				case *ssa.Alloc:
					for _, ref := range *a.Referrers() {
						if st, ok := ref.(*ssa.Store); ok && st.Addr == ssa.Value(a) {
							out = append(out, dynTypes(st.Val, depth)...)
						}
					}
				}
				return out
			}
			return nil
		case *ssa.Alloc:
			var out []types.Type
			for _, ref := range *x.Referrers() {
				if st, ok := ref.(*ssa.Store); ok && st.Addr == ssa.Value(x) {
					out = append(out, dynTypes(st.Val, depth)...)
				}
			}
			return out
		case *ssa.FreeVar:
			if depth <= 0 || x.Parent() == nil {
				return []types.Type{nil}
			}
			idx := -1
			for i, fv := range x.Parent().FreeVars {
				if fv == x {
					idx = i
				}
			}
			var out []types.Type
			for _, mc := range closureSites[x.Parent()] {
				if idx >= 0 && idx < len(mc.Bindings) {
					out = append(out, dynTypes(mc.Bindings[idx], depth-1)...)
				}
			}
			return out
		case *ssa.MakeInterface:
			return []types.Type{x.X.Type()}
		case *ssa.ChangeInterface:
			return dynTypes(x.X, depth)
		case *ssa.Phi:
			var out []types.Type
			for _, e := range x.Edges {
				out = append(out, dynTypes(e, depth)...)
			}
			return out
		case *ssa.Parameter:
			if depth <= 0 || x.Parent() == nil {
				return []types.Type{nil}
			}
			idx := -1
			for i, prm := range x.Parent().Params {
				if prm == x {
					idx = i
				}
			}
			var out []types.Type
			for _, c := range sites[x.Parent()] {
				if idx >= 0 && idx < len(c.Common().Args) {
					out = append(out, dynTypes(c.Common().Args[idx], depth-1)...)
				}
			}
			if len(out) == 0 {
				return []types.Type{nil}
			}
			return out
		}
		return []types.Type{nil} // a source that cannot be followed: callers fall back to every implementer
	}
	var dynFuncs func(v ssa.Value, depth int) []*ssa.Function
	funBusy := map[ssa.Value]bool{}
	dynFuncs = func(v ssa.Value, depth int) []*ssa.Function {
		if funBusy[v] {
			return nil
		}
		funBusy[v] = true
		defer delete(funBusy, v)
		switch x := v.(type) {
		case *ssa.Function:
			return []*ssa.Function{x}
		case *ssa.MakeClosure:
			if cf, ok := x.Fn.(*ssa.Function); ok {
				out := []*ssa.Function{cf}
				if strings.Contains(cf.Synthetic, "bound method wrapper") {
					for _, b := range cf.Blocks {
						for _, in := range b.Instrs {
							if ic, ok := in.(*ssa.Call); ok && ic.Common().StaticCallee() != nil {
								out = append(out, ic.Common().StaticCallee())
							}
						}
					}
				}
				return out
			}
		case *ssa.Phi:
			var out []*ssa.Function
			for _, e := range x.Edges {
				out = append(out, dynFuncs(e, depth)...)
			}
			return out
		case *ssa.Parameter:
			if depth <= 0 || x.Parent() == nil {
				return nil
			}
			idx := -1
			for i, prm := range x.Parent().Params {
				if prm == x {
					idx = i
				}
			}
			var out []*ssa.Function
			parent := x.Parent()
			keys := []*ssa.Function{parent}
			if o := parent.Origin(); o != nil {
				keys = append(keys, o)
			}
			for _, k := range keys {
				for _, c := range sites[k] {
					if idx >= 0 && idx < len(c.Common().Args) {
						out = append(out, dynFuncs(c.Common().Args[idx], depth-1)...)
					}
				}
			}
			return out
		}
		return nil
	}
	for fi := 0; fi < len(g.funcs); fi++ {
		fn := g.funcs[fi]
		for _, b := range fn.Blocks {
			for _, in := range b.Instrs {
				switch x := in.(type) {
				case *ssa.MakeClosure:
					if cf, ok := x.Fn.(*ssa.Function); ok {
						add(fn, cf, in)
					}
				case ssa.CallInstruction:
					com := x.Common()
					if com.IsInvoke() {
						// the receiver's concrete types, when the value can be followed back to where it was boxed
						if dts := dynTypes(com.Value, 3); len(dts) > 0 {
							complete := true
							for _, t := range dts {
								if t == nil {
									complete = false
								}
							}
							if complete {
								for _, t := range dts {
									add(fn, methodOf(t, com.Method.Name()), in)
								}
								continue
							}
						}
						iface, _ := types.Unalias(com.Value.Type()).Underlying().(*types.Interface)
						if iface != nil {
							for _, t := range repoTypes {
								if types.Implements(t, iface) {
									add(fn, methodOf(t, com.Method.Name()), in)
								}
							}
						}
						continue
					}
					callee := com.StaticCallee()
					if callee != nil {
						add(fn, callee, in)
						// gnark-lean-extractor: abstractor.Call*(api, gadget) invokes gadget.DefineGadget(api)
						if callee.Pkg != nil && strings.HasSuffix(callee.Pkg.Pkg.Path(), "gnark-lean-extractor/v2/abstractor") && strings.HasPrefix(callee.Name(), "Call") {
							for _, a := range com.Args {
								for _, t := range dynTypes(a, 3) {
									if t != nil {
										add(fn, methodOf(t, "DefineGadget"), in)
									}
								}
							}
						}
						// reflection callbacks of encoding/json
						if callee.Pkg != nil && callee.Pkg.Pkg.Path() == "encoding/json" {
							cb := ""
							switch callee.Name() {
							case "Marshal", "MarshalIndent":
								cb = "MarshalJSON"
							case "Unmarshal":
								cb = "UnmarshalJSON"
							}
							if cb != "" {
								for _, a := range com.Args {
									for _, t := range dynTypes(a, 3) {
										if t != nil {
											add(fn, methodOf(t, cb), in)
										}
									}
								}
							}
						}
						if callee.Name() == "Encode" || callee.Name() == "Decode" {
							if callee.Signature.Recv() != nil && strings.Contains(callee.Signature.Recv().Type().String(), "encoding/json") {
								cb := "MarshalJSON"
								if callee.Name() == "Decode" {
									cb = "UnmarshalJSON"
								}
								for _, a := range com.Args {
									for _, t := range dynTypes(a, 3) {
										if t != nil {
											add(fn, methodOf(t, cb), in)
										}
									}
								}
							}
						}
						continue
					}
					// dynamic call through a function value: closures, functions and method values flowing locally or through
					// parameters (to a depth of 3)
					for _, tf := range dynFuncs(com.Value, 3) {
						add(fn, tf, in)
					}
				}
			}
		}
	}
	return g
}

// Reach returns the in-repo functions reachable from the roots, each with its predecessor on a shortest path.
func (g *Graph) Reach(roots ...*ssa.Function) map[*ssa.Function]*ssa.Function {
	pred := map[*ssa.Function]*ssa.Function{}
	var queue []*ssa.Function
	for _, r := range roots {
		if r != nil {
			if _, ok := pred[r]; !ok {
				pred[r] = nil
				queue = append(queue, r)
			}
		}
	}
	for len(queue) > 0 {
		f := queue[0]
		queue = queue[1:]
		var cs []*ssa.Function
		for c := range g.Edges[f] {
			cs = append(cs, c)
		}
		sort.Slice(cs, func(i, j int) bool { return cs[i].String() < cs[j].String() })
		for _, c := range cs {
			if _, ok := pred[c]; !ok {
				pred[c] = f
				queue = append(queue, c)
			}
		}
	}
	return pred
}

// Path renders root → … → fn.
func Path(pred map[*ssa.Function]*ssa.Function, fn *ssa.Function) string {
	var parts []string
	for f := fn; f != nil; f = pred[f] {
		parts = append([]string{core.FuncName(f)}, parts...)
	}
	return strings.Join(parts, " → ")
}

// ---- sharedness

func pointerLike(t types.Type) bool {
	switch u := types.Unalias(t).Underlying().(type) {
	case *types.Pointer, *types.Slice, *types.Map, *types.Chan, *types.Interface, *types.Signature:
		return true
	case *types.Struct:
		for i := 0; i < u.NumFields(); i++ {
			if pointerLike(u.Field(i).Type()) {
				return true
			}
		}
	case *types.Array:
		return pointerLike(u.Elem())
	}
	return false
}

// Shared computes which SSA values may reference memory shared between concurrent invocations.
type Shared struct {
	G *Graph
	// ref: the value is (or contains) a reference into shared memory
	ref map[ssa.Value]string // value -> why (root description)
	// holds: a local allocation whose content includes shared references
	holds map[ssa.Value]string
	// fields: (struct type, field index) whose content is a shared reference in some value of that type
	// (field-sensitive: a struct carrying one shared slice does not make its other fields shared)
	fields map[string]string
	fns    map[*ssa.Function]bool
}

func fieldKey(t types.Type, i int) string {
	if p, ok := types.Unalias(t).(*types.Pointer); ok {
		t = p.Elem()
	}
	return types.TypeString(t, nil) + "#" + strconvItoa(i)
}

func strconvItoa(i int) string {
	if i == 0 {
		return "0"
	}
	var b []byte
	for i > 0 {
		b = append([]byte{byte('0' + i%10)}, b...)
		i /= 10
	}
	return string(b)
}

// Analyse runs the propagation over the given functions. seeds are values known to reference shared memory.
func Analyse(g *Graph, fns map[*ssa.Function]*ssa.Function, seeds map[ssa.Value]string, globalsShared func(*ssa.Global) bool) *Shared {
	s := &Shared{G: g, ref: map[ssa.Value]string{}, holds: map[ssa.Value]string{}, fields: map[string]string{}, fns: map[*ssa.Function]bool{}}
	for f := range fns {
		s.fns[f] = true
	}
	for v, why := range seeds {
		s.ref[v] = why
	}
	changed := true
	mark := func(v ssa.Value, why string) {
		if v == nil {
			return
		}
		if _, ok := s.ref[v]; !ok {
			s.ref[v] = why
			changed = true
		}
	}
	hold := func(v ssa.Value, why string) {
		if _, ok := s.holds[v]; !ok {
			s.holds[v] = why
			changed = true
		}
	}
	rootAlloc := func(addr ssa.Value) ssa.Value {
		for {
			switch a := addr.(type) {
			case *ssa.FieldAddr:
				addr = a.X
			case *ssa.IndexAddr:
				addr = a.X
			case *ssa.Alloc:
				return a
			default:
				return nil
			}
		}
	}
	var ordered []*ssa.Function
	for f := range s.fns {
		ordered = append(ordered, f)
	}
	sort.Slice(ordered, func(i, j int) bool { return ordered[i].String() < ordered[j].String() })
	for changed {
		changed = false
		for _, fn := range ordered {
			for _, b := range fn.Blocks {
				for _, in := range b.Instrs {
					switch x := in.(type) {
					case *ssa.FieldAddr:
						if w, ok := s.ref[x.X]; ok {
							mark(x, w)
						}
					case *ssa.IndexAddr:
						if w, ok := s.ref[x.X]; ok {
							mark(x, w)
						}
					case *ssa.Field:
						if w, ok := s.ref[x.X]; ok && pointerLike(x.Type()) {
							mark(x, w)
						}
						if w, ok := s.fields[fieldKey(x.X.Type(), x.Field)]; ok && pointerLike(x.Type()) {
							mark(x, w)
						}
					case *ssa.Index:
						if w, ok := s.ref[x.X]; ok && pointerLike(x.Type()) {
							mark(x, w)
						}
					case *ssa.Lookup:
						if w, ok := s.ref[x.X]; ok && pointerLike(x.Type()) {
							mark(x, w)
						}
					case *ssa.Slice:
						if w, ok := s.ref[x.X]; ok {
							mark(x, w)
						}
					case *ssa.UnOp:
						if x.Op.String() == "*" {
							if w, ok := s.ref[x.X]; ok && pointerLike(x.Type()) {
								mark(x, w)
							}
							if ra := rootAlloc(x.X); ra != nil {
								if w, ok := s.holds[ra]; ok && pointerLike(x.Type()) {
									mark(x, w)
								}
							}
							if fa, ok := x.X.(*ssa.FieldAddr); ok && pointerLike(x.Type()) {
								if w, ok := s.fields[fieldKey(fa.X.Type(), fa.Field)]; ok {
									mark(x, w)
								}
							}
						}
					case *ssa.Phi:
						for _, e := range x.Edges {
							if w, ok := s.ref[e]; ok {
								mark(x, w)
							}
						}
					case *ssa.ChangeType:
						if w, ok := s.ref[x.X]; ok {
							mark(x, w)
						}
					case *ssa.ChangeInterface:
						if w, ok := s.ref[x.X]; ok {
							mark(x, w)
						}
					case *ssa.MakeInterface:
						if w, ok := s.ref[x.X]; ok {
							mark(x, w)
						}
					case *ssa.TypeAssert:
						if w, ok := s.ref[x.X]; ok {
							mark(x, w)
						}
					case *ssa.Extract:
						if w, ok := s.ref[x.Tuple]; ok && pointerLike(x.Type()) {
							mark(x, w)
						}
					case *ssa.Convert:
						if w, ok := s.ref[x.X]; ok && pointerLike(x.Type()) {
							mark(x, w)
						}
					case *ssa.MakeClosure:
						if cf, ok := x.Fn.(*ssa.Function); ok && s.fns[cf] {
							for i, bnd := range x.Bindings {
								if w, ok := s.ref[bnd]; ok && i < len(cf.FreeVars) {
									mark(cf.FreeVars[i], w)
								}
								// a captured local that holds shared references
								if ra := rootAlloc(bnd); ra != nil {
									if w, ok := s.holds[ra]; ok && i < len(cf.FreeVars) {
										hold(cf.FreeVars[i], w)
									}
								}
							}
						}
					case *ssa.Store:
						if w, ok := s.ref[x.Val]; ok {
							if fa, isField := x.Addr.(*ssa.FieldAddr); isField {
								// field-sensitive: only this field of this struct type carries the shared reference
								k := fieldKey(fa.X.Type(), fa.Field)
								if _, ok := s.fields[k]; !ok {
									s.fields[k] = w
									changed = true
								}
							} else if ra := rootAlloc(x.Addr); ra != nil {
								hold(ra, w)
							}
						}
					case ssa.CallInstruction:
						com := x.Common()
						var callees []*ssa.Function
						if com.IsInvoke() {
							for c := range g.Edges[fn] {
								if c.Name() == com.Method.Name() && c.Signature.Recv() != nil {
									callees = append(callees, c)
								}
							}
						} else if c := com.StaticCallee(); c != nil {
							callees = append(callees, c)
						} else if mc, ok := com.Value.(*ssa.MakeClosure); ok {
							if cf, ok := mc.Fn.(*ssa.Function); ok {
								callees = append(callees, cf)
							}
						}
						args := com.Args
						if com.IsInvoke() {
							args = append([]ssa.Value{com.Value}, com.Args...)
						}
						// what a synchronised container outside the repository hands back is what was put into it: an object taken
						// from a shared sync.Map / atomic.Value / atomic.Pointer / container/list is shared between the requests that
						// look it up (the container's own synchronisation covers the lookup, not the use of the object)
						if c := com.StaticCallee(); c != nil && !com.IsInvoke() && len(com.Args) > 0 && sharedContainerGetter(c) {
							if w, ok := s.ref[com.Args[0]]; ok {
								if v, isV := in.(ssa.Value); isV {
									mark(v, w+" (object kept in a shared "+containerName(c)+")")
								}
								// Range(func(k, v any) bool): the callback's parameters
								for _, a := range com.Args[1:] {
									var cf *ssa.Function
									switch f := a.(type) {
									case *ssa.MakeClosure:
										cf, _ = f.Fn.(*ssa.Function)
									case *ssa.Function:
										cf = f
									}
									if cf != nil && s.fns[cf] {
										for _, prm := range cf.Params {
											mark(prm, w+" (object kept in a shared "+containerName(c)+")")
										}
									}
								}
							}
						}
						for _, c := range callees {
							if !s.fns[c] || c.Blocks == nil {
								continue
							}
							for i, a := range args {
								if w, ok := s.ref[a]; ok && i < len(c.Params) {
									mark(c.Params[i], w)
								}
							}
							// returns
							if v, ok := in.(ssa.Value); ok {
								for _, rb := range c.Blocks {
									if len(rb.Instrs) == 0 {
										continue
									}
									if ret, ok := rb.Instrs[len(rb.Instrs)-1].(*ssa.Return); ok {
										for _, rv := range ret.Results {
											if w, ok := s.ref[rv]; ok {
												mark(v, w)
											}
										}
									}
								}
							}
						}
					}
				}
			}
			// globals referenced in this function
			for _, b := range fn.Blocks {
				for _, in := range b.Instrs {
					for _, op := range in.Operands(nil) {
						if op == nil || *op == nil {
							continue
						}
						if gl, ok := (*op).(*ssa.Global); ok && globalsShared(gl) {
							mark(gl, "package-level variable "+gl.String())
						}
					}
				}
			}
		}
	}
	return s
}

// sharedContainerGetter: methods of synchronised containers that return (or iterate over) the objects stored in them.
func sharedContainerGetter(c *ssa.Function) bool {
	if c.Signature.Recv() == nil || c.Pkg == nil {
		return false
	}
	switch c.Pkg.Pkg.Path() {
	case "sync":
		if n := named(c.Signature.Recv().Type()); n != nil && n.Obj().Name() == "Map" {
			switch c.Name() {
			case "Load", "LoadOrStore", "LoadAndDelete", "Swap", "Range":
				return true
			}
		}
	case "sync/atomic":
		if n := named(c.Signature.Recv().Type()); n != nil && (n.Obj().Name() == "Value" || n.Obj().Name() == "Pointer") {
			switch c.Name() {
			case "Load", "Swap":
				return true
			}
		}
	case "container/list":
		switch c.Name() {
		case "Front", "Back", "Next", "Prev":
			return true
		}
	}
	return false
}

func containerName(c *ssa.Function) string {
	if n := named(c.Signature.Recv().Type()); n != nil {
		return n.Obj().Pkg().Name() + "." + n.Obj().Name()
	}
	return "container"
}

// Ref reports whether v may reference shared memory, and why.
func (s *Shared) Ref(v ssa.Value) (string, bool) {
	w, ok := s.ref[v]
	return w, ok
}

// Write is a write through a shared address or a hand-off of a shared reference to code outside the repository.
type Write struct {
	Fn    *ssa.Function
	Instr ssa.Instruction
	Kind  string // "store", "map-update", "external-call"
	Root  string // why the target is shared
	What  string
	Lock  bool // a Lock() on some mutex dominates the write with no Unlock in between
}

// Writes lists the writes through shared references in the analysed functions.
func (s *Shared) Writes(externalOK func(callee *ssa.Function, com *ssa.CallCommon) bool) []Write {
	var out []Write
	var ordered []*ssa.Function
	for f := range s.fns {
		ordered = append(ordered, f)
	}
	sort.Slice(ordered, func(i, j int) bool { return ordered[i].String() < ordered[j].String() })
	for _, fn := range ordered {
		for _, b := range fn.Blocks {
			for _, in := range b.Instrs {
				switch x := in.(type) {
				case *ssa.Store:
					if w, ok := s.ref[x.Addr]; ok {
						out = append(out, Write{Fn: fn, Instr: in, Kind: "store", Root: w, What: "store through " + x.Addr.Name(), Lock: lockHeld(in)})
					}
				case *ssa.MapUpdate:
					if w, ok := s.ref[x.Map]; ok {
						out = append(out, Write{Fn: fn, Instr: in, Kind: "map-update", Root: w, What: "map update", Lock: lockHeld(in)})
					}
				case ssa.CallInstruction:
					com := x.Common()
					var callee *ssa.Function
					if !com.IsInvoke() {
						callee = com.StaticCallee()
					}
					if callee != nil && inRepoFn(callee) && callee.Blocks != nil {
						continue
					}
					if b, ok := com.Value.(*ssa.Builtin); ok {
						// copy(dst, …), append into shared backing arrays, delete(map, …), clear
						switch b.Name() {
						case "copy", "delete", "clear":
							if len(com.Args) > 0 {
								if w, ok := s.ref[com.Args[0]]; ok {
									out = append(out, Write{Fn: fn, Instr: in, Kind: "store", Root: w, What: "builtin " + b.Name() + " into shared memory", Lock: lockHeld(in)})
								}
							}
						}
						continue
					}
					if com.IsInvoke() {
						// interface method on a shared object, implemented outside the repository (in-repo implementers are
						// analysed through the call graph)
						if w, ok := s.ref[com.Value]; ok && !implementedInRepo(s.G, fn, com) {
							if externalOK == nil || !externalOK(nil, com) {
								out = append(out, Write{Fn: fn, Instr: in, Kind: "external-call", Root: w, What: "method " + com.Method.FullName() + " on a shared object", Lock: lockHeld(in)})
							}
						}
						continue
					}
					if callee == nil {
						continue
					}
					for _, a := range com.Args {
						if w, ok := s.ref[a]; ok {
							if externalOK == nil || !externalOK(callee, com) {
								out = append(out, Write{Fn: fn, Instr: in, Kind: "external-call", Root: w, What: "shared reference handed to " + callee.String(), Lock: lockHeld(in)})
							}
							break
						}
					}
				}
			}
		}
	}
	return out
}

func implementedInRepo(g *Graph, fn *ssa.Function, com *ssa.CallCommon) bool {
	for c := range g.Edges[fn] {
		if c.Name() == com.Method.Name() && c.Signature.Recv() != nil {
			return true
		}
	}
	return false
}

// lockHeld: some (*sync.Mutex|RWMutex).Lock call dominates the instruction and no Unlock of the same receiver value lies
// between them on the dominator chain (deferred unlocks run at exit and do not count).
func lockHeld(at ssa.Instruction) bool {
	fn := at.Parent()
	type lk struct {
		in   ssa.Instruction
		recv ssa.Value
	}
	var locks, unlocks []lk
	for _, b := range fn.Blocks {
		for _, in := range b.Instrs {
			c, ok := in.(*ssa.Call)
			if !ok {
				continue
			}
			callee := c.Common().StaticCallee()
			if callee == nil || callee.Pkg == nil || callee.Pkg.Pkg.Path() != "sync" || len(c.Common().Args) == 0 {
				continue
			}
			switch callee.Name() {
			case "Lock", "RLock":
				locks = append(locks, lk{in, c.Common().Args[0]})
			case "Unlock", "RUnlock":
				unlocks = append(unlocks, lk{in, c.Common().Args[0]})
			}
		}
	}
	before := func(a, b ssa.Instruction) bool {
		if a.Block() == b.Block() {
			for _, in := range a.Block().Instrs {
				if in == a {
					return true
				}
				if in == b {
					return false
				}
			}
		}
		return a.Block().Dominates(b.Block())
	}
	for _, l := range locks {
		if !before(l.in, at) {
			continue
		}
		released := false
		for _, u := range unlocks {
			if before(l.in, u.in) && before(u.in, at) {
				released = true
			}
		}
		if !released {
			return true
		}
	}
	return false
}

// GlobalWriters lists, for every repository function, the package-level variables it stores to (directly or through an
// address derived from the global) without holding a sync lock, excluding package initialisers.
func GlobalWriters(g *Graph) map[*ssa.Function][]*ssa.Global { return globalWriters(g, false) }

// GlobalStateWriters is GlobalWriters for rules about *state* rather than races: writes under a held lock count, and so do
// the mutating methods of a package-level sync.Map (a cache is state whether or not it is synchronised).
func GlobalStateWriters(g *Graph) map[*ssa.Function][]*ssa.Global { return globalWriters(g, true) }

func globalWriters(g *Graph, state bool) map[*ssa.Function][]*ssa.Global {
	out := map[*ssa.Function][]*ssa.Global{}
	root := func(addr ssa.Value) *ssa.Global {
		for i := 0; i < 16; i++ {
			switch a := addr.(type) {
			case *ssa.Global:
				return a
			case *ssa.FieldAddr:
				addr = a.X
			case *ssa.IndexAddr:
				addr = a.X
			case *ssa.Slice:
				addr = a.X
			case *ssa.UnOp:
				addr = a.X
			default:
				return nil
			}
		}
		return nil
	}
	for _, fn := range g.funcs {
		if fn.Name() == "init" || strings.HasPrefix(fn.Name(), "init#") || fn.Synthetic != "" {
			continue
		}
		seen := map[*ssa.Global]bool{}
		for _, b := range fn.Blocks {
			for _, in := range b.Instrs {
				var addr ssa.Value
				switch x := in.(type) {
				case *ssa.Store:
					addr = x.Addr
				case *ssa.MapUpdate:
					addr = x.Map
				case ssa.CallInstruction:
					if state {
						if sc := x.Common().StaticCallee(); sc != nil && sc.Signature.Recv() != nil && len(x.Common().Args) > 0 {
							rt := sc.Signature.Recv().Type().String()
							if rt == "*sync.Map" {
								switch sc.Name() {
								case "Store", "LoadOrStore", "LoadAndDelete", "Delete", "Swap", "CompareAndSwap", "CompareAndDelete":
									addr = x.Common().Args[0]
								}
							}
						}
					}
				}
				if addr == nil {
					continue
				}
				if gl := root(addr); gl != nil && !seen[gl] && (state || !lockHeld(in)) {
					seen[gl] = true
					out[fn] = append(out[fn], gl)
				}
			}
		}
	}
	return out
}

// Funcs returns the repository functions of the graph.
func (g *Graph) Funcs() []*ssa.Function { return g.funcs }

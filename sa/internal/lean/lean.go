// Package lean reads the artefacts of the formal-verification directory that the C17 rules need: the extractor's output
// (line grammar of gnark-lean-extractor v2.1.0), the identifiers the proof files refer to, and the dimension abbreviations.
package lean

import (
	"bufio"
	"fmt"
	"os"
	"path/filepath"
	"regexp"
	"sort"
	"strconv"
	"strings"
)

// Param is one parameter of an extracted definition.
type Param struct {
	Name  string
	Dims  []int // Vector sizes, outermost first: Vector (Vector F 30) 4 → [4, 30]; F → nil
	IsK   bool
	KDims []int // for the continuation parameter: shape of its argument
}

// Symbol is one operation line of a definition body.
type Symbol struct {
	Kind string // "gate" or "gadget"
	Name string // gate name (add, xor, …) or callee definition name
	Line int
	Text string
}

// Def is one `def` of the extracted model.
type Def struct {
	Name   string
	Params []Param
	HasK   bool
	Body   []Symbol
	Line   int
	// numeric literals of to_binary lines, in order
	ToBinaryWidths []int
}

// Model is the parsed extractor output.
type Model struct {
	Path      string
	Namespace string
	Defs      []*Def
	ByName    map[string]*Def
	NonDefs   []string // other declarations of the namespace (Order, F)
}

var (
	defRe    = regexp.MustCompile(`^def\s+([A-Za-z_][A-Za-z0-9_]*)\s*(.*):\s*Prop\s*:=\s*$`)
	gateRe   = regexp.MustCompile(`Gates\.([a-z_]+)`)
	identRe  = regexp.MustCompile(`^([A-Za-z_][A-Za-z0-9_]*)`)
	nsRe     = regexp.MustCompile(`^namespace\s+([A-Za-z_][A-Za-z0-9_]*)`)
	plainDef = regexp.MustCompile(`^(def|abbrev)\s+([A-Za-z_][A-Za-z0-9_]*)`)
)

// parseType parses "F", "Vector F 32", "Vector (Vector F 30) 4".
func parseType(s string) ([]int, error) {
	s = strings.TrimSpace(s)
	for strings.HasPrefix(s, "(") && strings.HasSuffix(s, ")") {
		s = strings.TrimSpace(s[1 : len(s)-1])
	}
	if s == "F" {
		return nil, nil
	}
	if !strings.HasPrefix(s, "Vector") {
		return nil, fmt.Errorf("unrecognised type %q", s)
	}
	rest := strings.TrimSpace(strings.TrimPrefix(s, "Vector"))
	// last token is the size
	i := strings.LastIndex(rest, " ")
	if i < 0 {
		return nil, fmt.Errorf("unrecognised vector type %q", s)
	}
	n, err := strconv.Atoi(strings.TrimSpace(rest[i+1:]))
	if err != nil {
		return nil, fmt.Errorf("vector size in %q: %v", s, err)
	}
	inner, err := parseType(rest[:i])
	if err != nil {
		return nil, err
	}
	return append([]int{n}, inner...), nil
}

// splitParams splits "(A: F) (B: Vector F 3) (k: F -> Prop)" at top-level parentheses.
func splitParams(s string) []string {
	var out []string
	depth, start := 0, -1
	for i, c := range s {
		switch c {
		case '(':
			if depth == 0 {
				start = i + 1
			}
			depth++
		case ')':
			depth--
			if depth == 0 && start >= 0 {
				out = append(out, s[start:i])
				start = -1
			}
		}
	}
	return out
}

// Parse reads the extractor output.
func Parse(path string) (*Model, error) {
	f, err := os.Open(path)
	if err != nil {
		return nil, err
	}
	defer f.Close()
	m := &Model{Path: path, ByName: map[string]*Def{}}
	sc := bufio.NewScanner(f)
	sc.Buffer(make([]byte, 0, 1<<20), 64<<20)
	var cur *Def
	ln := 0
	for sc.Scan() {
		ln++
		line := sc.Text()
		trim := strings.TrimSpace(line)
		if mm := nsRe.FindStringSubmatch(trim); mm != nil && m.Namespace == "" {
			m.Namespace = mm[1]
			continue
		}
		if mm := defRe.FindStringSubmatch(trim); mm != nil {
			cur = &Def{Name: mm[1], Line: ln}
			for _, ps := range splitParams(mm[2]) {
				i := strings.Index(ps, ":")
				if i < 0 {
					return nil, fmt.Errorf("%s:%d: parameter without type: %q", path, ln, ps)
				}
				name, ty := strings.TrimSpace(ps[:i]), strings.TrimSpace(ps[i+1:])
				if strings.HasSuffix(ty, "-> Prop") {
					arg := strings.TrimSpace(strings.TrimSuffix(ty, "-> Prop"))
					d, err := parseType(arg)
					if err != nil {
						return nil, fmt.Errorf("%s:%d: %v", path, ln, err)
					}
					cur.Params = append(cur.Params, Param{Name: name, IsK: true, KDims: d})
					cur.HasK = true
					continue
				}
				d, err := parseType(ty)
				if err != nil {
					return nil, fmt.Errorf("%s:%d: %v", path, ln, err)
				}
				cur.Params = append(cur.Params, Param{Name: name, Dims: d})
			}
			m.Defs = append(m.Defs, cur)
			m.ByName[cur.Name] = cur
			continue
		}
		if cur == nil {
			if mm := plainDef.FindStringSubmatch(trim); mm != nil {
				m.NonDefs = append(m.NonDefs, mm[2])
			}
			continue
		}
		if trim == "" {
			cur = nil
			continue
		}
		if trim == "True" || strings.HasPrefix(trim, "k ") || trim == "k" {
			continue
		}
		short := trim
		if len(short) > 120 {
			short = short[:120] + "…"
		}
		if g := gateRe.FindStringSubmatch(trim); g != nil && (strings.HasPrefix(trim, "∃") || strings.HasPrefix(trim, "Gates.")) {
			cur.Body = append(cur.Body, Symbol{Kind: "gate", Name: g[1], Line: ln, Text: short})
			if g[1] == "to_binary" {
				// Gates.to_binary <operand> <n> <gate>
				rest := trim[strings.Index(trim, "Gates.to_binary")+len("Gates.to_binary"):]
				fields := strings.Fields(strings.TrimSuffix(strings.TrimSpace(rest), "∧"))
				if len(fields) >= 3 {
					if n, err := strconv.Atoi(fields[len(fields)-2]); err == nil {
						cur.ToBinaryWidths = append(cur.ToBinaryWidths, n)
					}
				}
			}
			continue
		}
		if id := identRe.FindStringSubmatch(trim); id != nil {
			cur.Body = append(cur.Body, Symbol{Kind: "gadget", Name: id[1], Line: ln, Text: short})
			continue
		}
		return nil, fmt.Errorf("%s:%d: body line outside the extractor's grammar: %q", path, ln, short)
	}
	if err := sc.Err(); err != nil {
		return nil, err
	}
	if len(m.Defs) == 0 {
		return nil, fmt.Errorf("%s: no definitions found", path)
	}
	return m, nil
}

// Reference is an identifier of the model's namespace used by a proof file.
type Reference struct {
	Name string
	File string
	Line int
}

var (
	qualRe   = regexp.MustCompile(`SemaphoreMTB\.([A-Za-z_][A-Za-z0-9_]*)`)
	renameRe = regexp.MustCompile(`open\s+SemaphoreMTB\s+renaming\s+([A-Za-z_][A-Za-z0-9_]*)\s*→`)
	openRe   = regexp.MustCompile(`open\s+SemaphoreMTB\s*\(([^)]*)\)`)
	abbrevRe = regexp.MustCompile(`^abbrev\s+([A-Za-z_][A-Za-z0-9_]*)\s*:=\s*([0-9]+)`)
)

// References scans the proof files (everything under dir except the model itself) for uses of the namespace.
func References(dir, modelPath, namespace string) ([]Reference, error) {
	var out []Reference
	q := regexp.MustCompile(regexp.QuoteMeta(namespace) + `\.([A-Za-z_][A-Za-z0-9_]*)`)
	rn := regexp.MustCompile(`open\s+` + regexp.QuoteMeta(namespace) + `\s+renaming\s+([A-Za-z_][A-Za-z0-9_]*)\s*→`)
	op := regexp.MustCompile(`open\s+` + regexp.QuoteMeta(namespace) + `\s*\(([^)]*)\)`)
	_ = qualRe
	_ = renameRe
	_ = openRe
	var files []string
	err := filepath.Walk(dir, func(p string, info os.FileInfo, err error) error {
		if err != nil {
			return err
		}
		if info.IsDir() {
			if info.Name() == ".lake" || info.Name() == "build" || info.Name() == "lake-packages" {
				return filepath.SkipDir
			}
			return nil
		}
		if strings.HasSuffix(p, ".lean") && filepath.Clean(p) != filepath.Clean(modelPath) && info.Name() != "lakefile.lean" {
			files = append(files, p)
		}
		return nil
	})
	if err != nil {
		return nil, err
	}
	sort.Strings(files)
	for _, fpath := range files {
		b, err := os.ReadFile(fpath)
		if err != nil {
			return nil, err
		}
		for i, line := range strings.Split(string(b), "\n") {
			if j := strings.Index(line, "--"); j >= 0 {
				line = line[:j]
			}
			for _, m := range q.FindAllStringSubmatch(line, -1) {
				out = append(out, Reference{m[1], fpath, i + 1})
			}
			for _, m := range rn.FindAllStringSubmatch(line, -1) {
				out = append(out, Reference{m[1], fpath, i + 1})
			}
			for _, m := range op.FindAllStringSubmatch(line, -1) {
				for _, id := range strings.Fields(m[1]) {
					out = append(out, Reference{id, fpath, i + 1})
				}
			}
		}
	}
	return out, nil
}

// Abbrevs reads `abbrev X := n` lines of a file.
func Abbrevs(path string) (map[string]int, error) {
	b, err := os.ReadFile(path)
	if err != nil {
		return nil, err
	}
	out := map[string]int{}
	for _, line := range strings.Split(string(b), "\n") {
		if m := abbrevRe.FindStringSubmatch(strings.TrimSpace(line)); m != nil {
			n, _ := strconv.Atoi(m[2])
			out[m[1]] = n
		}
	}
	return out, nil
}

// ExportStep extracts the arguments of the extract-circuit invocation in the CI workflow.
func ExportStep(workflow string) (map[string]string, int, error) {
	b, err := os.ReadFile(workflow)
	if err != nil {
		return nil, 0, err
	}
	for i, line := range strings.Split(string(b), "\n") {
		if !strings.Contains(line, "extract-circuit") {
			continue
		}
		args := map[string]string{}
		fields := strings.Fields(line)
		for k := 0; k < len(fields); k++ {
			f := fields[k]
			if !strings.HasPrefix(f, "--") {
				continue
			}
			f = strings.TrimPrefix(f, "--")
			if j := strings.Index(f, "="); j >= 0 {
				args[f[:j]] = f[j+1:]
			} else if k+1 < len(fields) {
				args[f] = fields[k+1]
				k++
			}
		}
		return args, i + 1, nil
	}
	return nil, 0, fmt.Errorf("%s: no extract-circuit step", workflow)
}

package tf

import (
	"fmt"
	"go/token"

	"golang.org/x/tools/go/ssa"
)

// Loop is a natural loop of an SSA function.
type Loop struct {
	Fn     *ssa.Function
	Header *ssa.BasicBlock
	Blocks map[*ssa.BasicBlock]bool
	Parent *Loop
	serial int

	// induction variable (at most one recognised)
	IV       *ssa.Phi
	Init     *Term       // initial value of the phi
	Step     int64       // phi' = phi + Step
	CondOp   token.Token // comparison applied to (phi + TestOff) and Bound; body is entered when it holds
	TestOff  int64
	Bound    *Term
	HasCond  bool
	ExitsOK  bool // every exit edge leaves from the header (no break)
	whyNoIV  string
	resolved bool
	// Canon is set for go/ssa's range-with-index form, whose header is `p = φ(-1, n); n = p + 1; if n < len …`: the value
	// the body uses is n, so the KIndVar term denotes n (Init, TestOff describe n), and the phi itself is n - Step.
	Canon ssa.Value
}

// ID renders a short stable loop identifier (function-relative header index).
func (l *Loop) ID() string {
	if l == nil {
		return "L?"
	}
	return fmt.Sprintf("L%d", l.Header.Index)
}

// findLoops computes natural loops from back edges (n→h with h dominating n).
func findLoops(fn *ssa.Function) []*Loop {
	byHeader := map[*ssa.BasicBlock]*Loop{}
	var loops []*Loop
	for _, b := range fn.Blocks {
		for _, s := range b.Succs {
			if s.Dominates(b) {
				l := byHeader[s]
				if l == nil {
					l = &Loop{Fn: fn, Header: s, Blocks: map[*ssa.BasicBlock]bool{s: true}}
					byHeader[s] = l
					loops = append(loops, l)
				}
				// add body: nodes reaching b without passing s
				var stack []*ssa.BasicBlock
				if !l.Blocks[b] {
					l.Blocks[b] = true
					stack = append(stack, b)
				}
				for len(stack) > 0 {
					x := stack[len(stack)-1]
					stack = stack[:len(stack)-1]
					for _, p := range x.Preds {
						if !l.Blocks[p] {
							l.Blocks[p] = true
							stack = append(stack, p)
						}
					}
				}
			}
		}
	}
	// nesting: parent = smallest enclosing other loop
	for _, l := range loops {
		for _, m := range loops {
			if m != l && m.Blocks[l.Header] && len(m.Blocks) > len(l.Blocks) {
				if l.Parent == nil || len(m.Blocks) < len(l.Parent.Blocks) {
					l.Parent = m
				}
			}
		}
	}
	for _, l := range loops {
		l.ExitsOK = true
		for b := range l.Blocks {
			if b == l.Header {
				continue
			}
			for _, s := range b.Succs {
				if !l.Blocks[s] && !abortsWithError(s) {
					// leaving the loop from its body other than by returning an error: the index range is cut short
					l.ExitsOK = false
				}
			}
		}
	}
	return loops
}

// loopOf returns the innermost loop whose header is b.
func loopWithHeader(loops []*Loop, b *ssa.BasicBlock) *Loop {
	for _, l := range loops {
		if l.Header == b {
			return l
		}
	}
	return nil
}

// innermost returns the innermost loop containing b.
func innermost(loops []*Loop, b *ssa.BasicBlock) *Loop {
	var best *Loop
	for _, l := range loops {
		if l.Blocks[b] && (best == nil || len(l.Blocks) < len(best.Blocks)) {
			best = l
		}
	}
	return best
}

// IterRange describes the values taken by an index expression idx = IndVar + k in the loop body:
// first value, step, and the continuation test (idx + off) CondOp Bound.
type IterRange struct {
	First  *Term
	Step   int64
	CondOp token.Token
	Off    int64 // the tested quantity is idx + Off
	Bound  *Term
}

// Range computes the iteration range of idx (an affine expression in this loop's induction variable with coefficient 1).
func (l *Loop) Range(idx *Term) (IterRange, bool) {
	if l == nil || l.IV == nil || !l.HasCond || !l.ExitsOK {
		return IterRange{}, false
	}
	c, atoms, coefs := AffParts(idx)
	var k int64
	found := false
	rest := ConstInt(c)
	for i, a := range atoms {
		if a.K == KIndVar && a.Loop == l {
			if coefs[i] != 1 {
				return IterRange{}, false
			}
			found = true
			continue
		}
		rest = AffAdd(rest, a, coefs[i])
	}
	if !found {
		return IterRange{}, false
	}
	if n, ok := IntConst(rest); ok {
		k = n
	} else {
		return IterRange{}, false
	}
	return IterRange{First: AffAdd(l.Init, ConstInt(k), 1), Step: l.Step, CondOp: l.CondOp, Off: l.TestOff - k, Bound: l.Bound}, true
}

// CoversZeroTo reports whether idx takes exactly the values 0,1,…,n-1 (ascending by 1, test idx < n), returning n.
func (r IterRange) CoversZeroTo() (*Term, bool) {
	if f, ok := IntConst(r.First); !ok || f != 0 || r.Step != 1 || r.Off != 0 {
		return nil, false
	}
	switch r.CondOp {
	case token.LSS:
		return r.Bound, true
	case token.LEQ:
		return AffAdd(r.Bound, ConstInt(1), 1), true
	}
	return nil, false
}

// abortsWithError: control reaching b returns a non-nil error without further branching (the loop's enclosing function
// gives up; on the success path the loop therefore ran to completion).
func abortsWithError(b *ssa.BasicBlock) bool {
	seen := map[*ssa.BasicBlock]bool{}
	for b != nil && !seen[b] {
		seen[b] = true
		if len(b.Instrs) == 0 {
			return false
		}
		switch x := b.Instrs[len(b.Instrs)-1].(type) {
		case *ssa.Return:
			return isErrorReturn(x)
		case *ssa.Jump:
			b = b.Succs[0]
		case *ssa.Panic:
			return true
		default:
			return false
		}
	}
	return false
}

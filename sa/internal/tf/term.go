// Package tf is the value-flow term engine (E2 of DESIGN.md): every SSA value of interest is mapped to a term over the
// function's parameters, receiver fields, constants, frontend.API calls, gadget invocations and loop summaries.
// It is a path-insensitive dataflow abstraction: no path enumeration, no unrolling, no solver.
package tf

import (
	"fmt"
	"go/constant"
	"go/types"
	"sort"
	"strings"

	"golang.org/x/tools/go/ssa"
)

// Kind of a term.
type Kind int

const (
	KTop     Kind = iota // unknown; Name says why
	KConst               // constant; Val
	KNil                 // nil / zero value of a reference type
	KZero                // zero value of a non-reference type (struct/array cell never stored)
	KParam               // parameter of the function under analysis; Name
	KField               // Args[0].Name
	KGlobal              // package-level variable; Name = pkg.var
	KFunc                // function value; Name
	KApi                 // frontend.API method call; Name = method; Args
	KGadget              // abstractor.Call*(api, T{...}); Name = T; Names/Args = fields
	KRecord              // struct value; Name = T; Names/Args = fields
	KCall                // opaque call; Name = callee; Args
	KExtract             // Args[0] tuple, N = index
	KTuple               // multiple results of an inlined call
	KSeq                 // abstract slice contents; Args = parts (KElem | KSplice | KStar)
	KElem                // one element Args[0]
	KSplice              // all elements of slice Args[0]
	KStar                // for each iteration of Loop: parts Args
	KSub                 // Args[0][Args[1]:Args[2]] (nil bound = absent → KNil term)
	KIdx                 // Args[0][Args[1]]
	KLen                 // len(Args[0])
	KAff                 // affine integer: C + Σ Coefs[i]*Args[i]
	KBin                 // binary op Name on Args
	KUn                  // unary op Name
	KPhi                 // merge of Args (non-loop)
	KIte                 // gated merge: Args[0] condition, Args[1] value when true, Args[2] value when false
	KMu                  // loop-carried value: Args[0]=init, Args[1]=next (may contain KMuVar of same Loop/Phi)
	KMuVar               // the loop-carried variable inside its own loop
	KIndVar              // induction variable of Loop (value of the header phi)
	KAlloc               // address/identity of a local allocation (N = serial)
	KMake                // fresh make([]T, n): Args[0] = len; identity by N; contents attached as KSeq when summarised
	KOpaque              // other fresh value (closure, map, chan), identity by N
	KConv                // type conversion that changes representation: Name = target type; Args[0]
)

// Term is an immutable value-flow term.
type Term struct {
	K     Kind
	Name  string
	Args  []*Term
	Names []string
	Coefs []int64
	C     int64
	N     int
	Val   constant.Value
	Type  types.Type
	Loop  *Loop
	Phi   *ssa.Phi
	Instr ssa.Instruction
	key   string
}

// Key returns a canonical string; two terms are equal iff their keys are.
func (t *Term) Key() string {
	if t == nil {
		return "<nil>"
	}
	if t.key != "" {
		return t.key
	}
	var b strings.Builder
	t.write(&b)
	t.key = b.String()
	return t.key
}

func (t *Term) String() string { return t.Key() }

func (t *Term) write(b *strings.Builder) {
	args := func(sep string) {
		for i, a := range t.Args {
			if i > 0 {
				b.WriteString(sep)
			}
			if i < len(t.Names) && t.Names[i] != "" {
				b.WriteString(t.Names[i])
				b.WriteString(":")
			}
			b.WriteString(a.Key())
		}
	}
	switch t.K {
	case KTop:
		fmt.Fprintf(b, "⊤(%s)", t.Name)
	case KConst:
		if t.Val != nil {
			b.WriteString(t.Val.ExactString())
		} else {
			b.WriteString("const?")
		}
	case KNil:
		b.WriteString("nil")
	case KZero:
		b.WriteString("zero")
	case KParam:
		b.WriteString("$" + t.Name)
	case KField:
		b.WriteString(t.Args[0].Key() + "." + t.Name)
	case KGlobal:
		b.WriteString("@" + t.Name)
	case KFunc:
		b.WriteString("func:" + t.Name)
	case KApi:
		b.WriteString("api." + t.Name)
		if t.N != 0 {
			fmt.Fprintf(b, "#%d", t.N)
		}
		b.WriteString("(")
		args(", ")
		b.WriteString(")")
	case KGadget:
		b.WriteString("gadget " + t.Name + "{")
		args(", ")
		b.WriteString("}")
	case KRecord:
		b.WriteString(t.Name + "{")
		args(", ")
		b.WriteString("}")
	case KCall:
		b.WriteString(t.Name + "(")
		args(", ")
		b.WriteString(")")
		if t.N != 0 {
			fmt.Fprintf(b, "#%d", t.N)
		}
	case KExtract:
		fmt.Fprintf(b, "%s#%d", t.Args[0].Key(), t.N)
	case KTuple:
		b.WriteString("tuple(")
		args(", ")
		b.WriteString(")")
	case KSeq:
		b.WriteString("[")
		args(" ")
		b.WriteString("]")
	case KElem:
		b.WriteString(t.Args[0].Key())
	case KSplice:
		b.WriteString(t.Args[0].Key() + "...")
	case KStar:
		fmt.Fprintf(b, "∀%s{", t.Loop.ID())
		args(" ")
		b.WriteString("}")
	case KSub:
		b.WriteString(t.Args[0].Key() + "[" + t.Args[1].Key() + ":" + t.Args[2].Key() + "]")
	case KIdx:
		b.WriteString(t.Args[0].Key() + "[" + t.Args[1].Key() + "]")
	case KLen:
		b.WriteString("len(" + t.Args[0].Key() + ")")
	case KAff:
		b.WriteString("(")
		first := true
		for i, a := range t.Args {
			if !first {
				b.WriteString("+")
			}
			first = false
			if t.Coefs[i] != 1 {
				fmt.Fprintf(b, "%d*", t.Coefs[i])
			}
			b.WriteString(a.Key())
		}
		if t.C != 0 || first {
			if !first {
				b.WriteString("+")
			}
			fmt.Fprintf(b, "%d", t.C)
		}
		b.WriteString(")")
	case KBin:
		b.WriteString("(" + t.Args[0].Key() + " " + t.Name + " " + t.Args[1].Key() + ")")
	case KUn:
		b.WriteString(t.Name + t.Args[0].Key())
	case KIte:
		b.WriteString("ite(" + t.Args[0].Key() + " ? " + t.Args[1].Key() + " : " + t.Args[2].Key() + ")")
	case KPhi:
		b.WriteString("φ(")
		args(" | ")
		b.WriteString(")")
	case KMu:
		fmt.Fprintf(b, "μ%s(init=%s, next=%s)", t.Loop.ID(), t.Args[0].Key(), t.Args[1].Key())
	case KMuVar:
		fmt.Fprintf(b, "μvar%s.%s", t.Loop.ID(), t.Name)
	case KIndVar:
		fmt.Fprintf(b, "i%s", t.Loop.ID())
	case KAlloc:
		fmt.Fprintf(b, "&local%d(%s)", t.N, t.Name)
	case KMake:
		fmt.Fprintf(b, "make#%d(%s)", t.N, t.Args[0].Key())
	case KOpaque:
		fmt.Fprintf(b, "opaque#%d(%s)", t.N, t.Name)
	case KConv:
		b.WriteString(t.Name + "(" + t.Args[0].Key() + ")")
	}
}

// Eq: structural equality.
func Eq(a, b *Term) bool { return a.Key() == b.Key() }

// ---- constructors

func Top(format string, args ...any) *Term { return &Term{K: KTop, Name: fmt.Sprintf(format, args...)} }
func ConstInt(n int64) *Term               { return &Term{K: KConst, Val: constant.MakeInt64(n)} }
func Field(x *Term, name string) *Term {
	if x.K == KRecord || x.K == KGadget {
		for i, n := range x.Names {
			if n == name {
				return x.Args[i]
			}
		}
		if x.K == KRecord {
			return &Term{K: KZero}
		}
	}
	if x.K == KZero {
		return x
	}
	return &Term{K: KField, Name: name, Args: []*Term{x}}
}
func Idx(x, i *Term) *Term {
	// constant index into an explicit sequence of elements
	if x.K == KSeq {
		if n, ok := IntConst(i); ok {
			pos := int64(0)
			for _, p := range x.Args {
				if p.K != KElem {
					break
				}
				if pos == n {
					return p.Args[0]
				}
				pos++
			}
		}
	}
	// an element of a re-sliced value: x[lo:…][i] = x[lo+i]
	if x.K == KSub {
		lo := x.Args[1]
		if lo.K == KNil {
			return Idx(x.Args[0], i)
		}
		if s := AffAdd(lo, i, 1); s != nil {
			return Idx(x.Args[0], s)
		}
	}
	return &Term{K: KIdx, Args: []*Term{x, i}}
}
func Len(x *Term) *Term {
	if x.K == KSeq {
		// length of explicit parts
		total := ConstInt(0)
		for _, p := range x.Args {
			switch p.K {
			case KElem:
				total = AffAdd(total, ConstInt(1), 1)
			case KSplice:
				total = AffAdd(total, Len(p.Args[0]), 1)
			default:
				return &Term{K: KLen, Args: []*Term{x}}
			}
		}
		return total
	}
	if x.K == KNil {
		return ConstInt(0)
	}
	if x.K == KMake {
		return x.Args[0]
	}
	if x.K == KSub {
		if x.Args[2].K != KNil {
			lo := x.Args[1]
			if lo.K == KNil {
				lo = ConstInt(0)
			}
			if d := AffAdd(x.Args[2], lo, -1); d != nil {
				return d
			}
		} else if x.Args[1].K != KNil {
			// len(x[lo:]) = len(x) - lo
			if d := AffAdd(Len(x.Args[0]), x.Args[1], -1); d != nil {
				return d
			}
		} else {
			return Len(x.Args[0])
		}
	}
	return &Term{K: KLen, Args: []*Term{x}}
}

// IntConst extracts an integer constant.
func IntConst(t *Term) (int64, bool) {
	if t == nil {
		return 0, false
	}
	if t.K == KConst && t.Val != nil && t.Val.Kind() == constant.Int {
		return constant.Int64Val(t.Val)
	}
	if t.K == KAff && len(t.Args) == 0 {
		return t.C, true
	}
	return 0, false
}

// affine helpers --------------------------------------------------------------------------------------------------

type affForm struct {
	c     int64
	terms map[string]*Term
	coefs map[string]int64
}

func toAff(t *Term) affForm {
	f := affForm{terms: map[string]*Term{}, coefs: map[string]int64{}}
	if n, ok := IntConst(t); ok {
		f.c = n
		return f
	}
	if t.K == KAff {
		f.c = t.C
		for i, a := range t.Args {
			f.terms[a.Key()] = a
			f.coefs[a.Key()] += t.Coefs[i]
		}
		return f
	}
	f.terms[t.Key()] = t
	f.coefs[t.Key()] = 1
	return f
}

func fromAff(f affForm) *Term {
	keys := make([]string, 0, len(f.terms))
	for k := range f.terms {
		if f.coefs[k] != 0 {
			keys = append(keys, k)
		}
	}
	sort.Strings(keys)
	if len(keys) == 0 {
		return ConstInt(f.c)
	}
	if len(keys) == 1 && f.c == 0 && f.coefs[keys[0]] == 1 {
		return f.terms[keys[0]]
	}
	t := &Term{K: KAff, C: f.c}
	for _, k := range keys {
		t.Args = append(t.Args, f.terms[k])
		t.Coefs = append(t.Coefs, f.coefs[k])
	}
	return t
}

// AffAdd returns a + k*b in affine normal form.
func AffAdd(a, b *Term, k int64) *Term {
	fa, fb := toAff(a), toAff(b)
	fa.c += k * fb.c
	for key, t := range fb.terms {
		fa.terms[key] = t
		fa.coefs[key] += k * fb.coefs[key]
	}
	return fromAff(fa)
}

// AffScale returns k*a.
func AffScale(a *Term, k int64) *Term {
	fa := toAff(a)
	fa.c *= k
	for key := range fa.coefs {
		fa.coefs[key] *= k
	}
	return fromAff(fa)
}

// AffParts decomposes t as c + Σ coef·atom.
func AffParts(t *Term) (c int64, atoms []*Term, coefs []int64) {
	f := toAff(t)
	keys := make([]string, 0, len(f.terms))
	for k := range f.terms {
		if f.coefs[k] != 0 {
			keys = append(keys, k)
		}
	}
	sort.Strings(keys)
	for _, k := range keys {
		atoms = append(atoms, f.terms[k])
		coefs = append(coefs, f.coefs[k])
	}
	return f.c, atoms, coefs
}

// AffDiff returns (a - b) if it is a constant.
func AffDiff(a, b *Term) (int64, bool) {
	d := AffAdd(a, b, -1)
	return IntConst(d)
}

// sequences -------------------------------------------------------------------------------------------------------

// Parts returns the sequence parts of a slice-valued term.
func Parts(t *Term) []*Term {
	switch t.K {
	case KSeq:
		return t.Args
	case KNil:
		return nil
	case KMake:
		if n, ok := IntConst(t.Args[0]); ok && n == 0 {
			return nil // make([]T, 0, cap): no elements
		}
	case KCall:
		if t.Name == "zeros" && len(t.Args) == 1 {
			if n, ok := IntConst(t.Args[0]); ok && n == 0 {
				return nil
			}
		}
	}
	return []*Term{{K: KSplice, Args: []*Term{t}}}
}

func Seq(parts ...*Term) *Term {
	// flatten splices of explicit sequences
	var out []*Term
	for _, p := range parts {
		if p.K == KSplice && (p.Args[0].K == KSeq || p.Args[0].K == KNil) {
			out = append(out, Parts(p.Args[0])...)
			continue
		}
		out = append(out, p)
	}
	if len(out) == 1 && out[0].K == KSplice {
		return out[0].Args[0]
	}
	return &Term{K: KSeq, Args: out}
}

func Elem(t *Term) *Term   { return &Term{K: KElem, Args: []*Term{t}} }
func Splice(t *Term) *Term { return &Term{K: KSplice, Args: []*Term{t}} }

// Walk visits t and all sub-terms (pre-order); stops descending when f returns false.
func Walk(t *Term, f func(*Term) bool) {
	if t == nil || !f(t) {
		return
	}
	for _, a := range t.Args {
		Walk(a, f)
	}
}

// Contains reports whether some sub-term satisfies pred.
func Contains(t *Term, pred func(*Term) bool) bool {
	found := false
	Walk(t, func(x *Term) bool {
		if found {
			return false
		}
		if pred(x) {
			found = true
			return false
		}
		return true
	})
	return found
}

// HasTop returns the first ⊤ sub-term, if any.
func HasTop(t *Term) *Term {
	var top *Term
	Walk(t, func(x *Term) bool {
		if top != nil {
			return false
		}
		if x.K == KTop {
			top = x
			return false
		}
		return true
	})
	return top
}

// Subst replaces sub-terms by f (post-order); f returns nil to keep.
func Subst(t *Term, f func(*Term) *Term) *Term {
	if t == nil {
		return nil
	}
	if r := f(t); r != nil {
		return r
	}
	if len(t.Args) == 0 {
		return t
	}
	changed := false
	args := make([]*Term, len(t.Args))
	for i, a := range t.Args {
		args[i] = Subst(a, f)
		if args[i] != a {
			changed = true
		}
	}
	if !changed {
		return t
	}
	c := *t
	c.key = ""
	c.Args = args
	if c.K == KAff {
		// renormalise
		r := ConstInt(c.C)
		for i, a := range args {
			r = AffAdd(r, a, c.Coefs[i])
		}
		return r
	}
	if c.K == KField {
		return Field(args[0], c.Name)
	}
	if c.K == KIdx {
		return Idx(args[0], args[1])
	}
	if c.K == KLen {
		return Len(args[0])
	}
	if c.K == KSeq {
		return Seq(args...)
	}
	return &c
}

// GadgetField returns the named field of a gadget/record term.
func (t *Term) FieldOf(name string) *Term {
	for i, n := range t.Names {
		if n == name {
			return t.Args[i]
		}
	}
	return nil
}
